import H3.Model.ReqRecv
import H3.Spec.ReqSeq
set_option linter.unusedSimpArgs false
/-! Helper definitions and lemmas for C03: how a model trace is read as the specification's
    observable outcome, and the behaviour of the request layer over the token source. -/
namespace H3.ReqRecv
open H3.Frame H3.Gen.Consts
open H3.Spec.ReqSeq

/-! ### reading tokens, endings and traces in the specification's vocabulary -/

/-- a frame by meaning -/
def kind : Tok → K
  | .headers b => .H b
  | .data n ps => if ps.flatten.length < n then .Dpart ps.flatten else .D ps.flatten
  | .unknown _ _ => .U
  | .cancelPush _ => .X
  | .settings _ => .X
  | .goaway _ => .X
  | .maxPushId _ => .X
  | .pushPromise _ _ => .P
  | .bad (.unsupported _) => .R
  | .bad .malformed => .M
  | .bad (.settings _) => .S

def stopOf : Ending → Stop
  | .fin => .fin
  | .truncated => .truncated
  | .reset c => .reset c
  | .open_ => .open_

def sideOf : Role → Side
  | .server => .server
  | .client => .client

def resObs : Res → List Obs
  | .trailers b => [.trailers b]
  | .noTrailers => [.noTrailers]
  | .errConn c => [.connError c]
  | .errStream c => [.streamError c]
  | .errReset c => [.resetBy c]
  | .pending => [.pending]
  | _ => []

/-- every byte handed to the application by the `recv_data` calls, in call order -/
def bodyBytes : List Res → Bytes
  | [] => []
  | .data d :: r => d ++ bodyBytes r
  | _ :: r => bodyBytes r

def tailObs (rs : List Res) (t : Option Res) : List Obs :=
  match rs.getLast? with
  | some .end_ => .bodyEnd :: (match t with | some r => resObs r | none => [])
  | some r => resObs r
  | none => []

def observe (t : Trace) : Outcome :=
  { calls := match t.head with
      | .head b => [.head b, .body (bodyBytes t.body)] ++ tailObs t.body t.trailers
      | r => resObs r
    connError := t.env.cell
    streamReset := t.env.rst }

/-- a DATA token is handed out in non-empty pieces that do not exceed its declared length -/
def TokWF : Tok → Prop
  | .data n ps => (∀ p ∈ ps, p ≠ []) ∧ ps.flatten.length ≤ n
  | _ => True

/-- The OLD, position-blind reading of "the HEADERS blocks decode to well-formed messages": every
    block is acceptable both as a message head and as a trailer section.  With a faithful oracle
    no block is (a head needs `:method` / `:status`, a trailer section must not carry any
    pseudo-header field), so a hypothesis `∀ tok ∈ toks, HdrOk H tok` only covers sequences without
    any HEADERS frame.  Kept for the record (C07's `_partial` theorem is stated with it) and to
    show that the positional hypothesis `HdrsOk` below is weaker: `hdrsOk_of_hdrOk`. -/
def HdrOk (H : Hdr) : Tok → Prop
  | .headers b => H.head b = .ok ∧ H.trailer b = .ok
  | _ => True

/-- where a HEADERS frame stands in the sequence decides what its block must decode to -/
inductive HPos where
  /-- no HEADERS frame yet: the next one is the message head -/
  | head
  /-- the head has been seen: the next HEADERS frame is the trailer section -/
  | trailers
deriving Repr, DecidableEq

/-- The header oracle accepts the blocks the request layer decodes, each in ITS position (decided
    by C11/C12): the FIRST HEADERS frame of the sequence decodes to a well-formed message head,
    the SECOND one to a well-formed trailer section.  Nothing is asked of a block in the other
    position, nothing of a third HEADERS frame (it is refused without being decoded).  Stated on
    the recogniser's alphabet so that it can be read off the frame sequence (`HdrsOk`) and off
    the reference automaton's tokens over the wire bytes (`kindsOf`) alike. -/
def HdrsOkK (H : Hdr) : HPos → List K → Prop
  | _, [] => True
  | .head, .H b :: r => H.head b = .ok ∧ HdrsOkK H .trailers r
  | .trailers, .H b :: _ => H.trailer b = .ok
  | p, .D _ :: r => HdrsOkK H p r
  | p, .Dpart _ :: r => HdrsOkK H p r
  | p, .U :: r => HdrsOkK H p r
  | p, .X :: r => HdrsOkK H p r
  | p, .P :: r => HdrsOkK H p r
  | p, .R :: r => HdrsOkK H p r
  | p, .M :: r => HdrsOkK H p r
  | p, .S :: r => HdrsOkK H p r
  | p, .W :: r => HdrsOkK H p r
  | p, .Wpart :: r => HdrsOkK H p r

/-- the positional hypothesis on a frame sequence -/
def HdrsOk (H : Hdr) (toks : List Tok) : Prop := HdrsOkK H .head (toks.map kind)

/-! ### the token source, one step at a time -/

abbrev mk (items : List Item) (term : Term) (rem : Nat) (tr : Option Bytes) (env : Env) : St TS :=
  { src := { items := items, term := term, rem := rem }, trailers := tr, env := env }

@[simp] theorem tok_hasData (a : TS) : tokSrc.hasData a = (a.rem != 0) := rfl
@[simp] theorem tok_isEos (a : TS) : tokSrc.isEos a = false := rfl

theorem tok_next_frame (f : Frame) (r : List Item) (t : Term) :
    tokSrc.pollNext { items := .frame f :: r, term := t, rem := 0 } =
      (.frame f, { items := r, term := t, rem := kindLen f }) := by
  simp [tokSrc]

theorem tok_next_nil (t : Term) :
    tokSrc.pollNext { items := [], term := t, rem := 0 } = (t.next, { items := [], term := t, rem := 0 }) := by
  simp [tokSrc]

theorem tok_data_piece (b : Bytes) (r : List Item) (t : Term) (k : Nat) (hk : k ≠ 0) :
    tokSrc.pollData { items := .piece b :: r, term := t, rem := k } =
      (.data b, { items := r, term := t, rem := k - b.length }) := by
  simp [tokSrc, hk]

theorem tok_data_nil (t : Term) (k : Nat) (hk : k ≠ 0) :
    tokSrc.pollData { items := [], term := t, rem := k } = (t.data, { items := [], term := t, rem := k }) := by
  simp [tokSrc, hk]

theorem compile_data_part {n : Nat} {ps : List Bytes} (h : ps.flatten.length < n) (r : List Tok) (e : Ending) :
    compile (.data n ps :: r) e = (.frame (.data n) :: ps.map .piece, e.term) := by
  simp only [compile, h, if_true]

theorem compile_data_full {n : Nat} {ps : List Bytes} (h : ¬ ps.flatten.length < n) (r : List Tok) (e : Ending) :
    compile (.data n ps :: r) e =
      (.frame (.data n) :: (ps.map .piece ++ (compile r e).1), (compile r e).2) := by
  simp only [compile, h, if_false]

theorem kind_data_part {n : Nat} {ps : List Bytes} (h : ps.flatten.length < n) :
    kind (.data n ps) = .Dpart ps.flatten := by
  simp only [kind, h, if_true]

theorem kind_data_full {n : Nat} {ps : List Bytes} (h : ¬ ps.flatten.length < n) :
    kind (.data n ps) = .D ps.flatten := by
  simp only [kind, h, if_false]

/-! ### the positional header hypothesis -/

theorem hdrsOkK_skip (H : Hdr) (p : HPos) (k : K) (r : List K) (hk : ∀ b, k ≠ .H b) :
    HdrsOkK H p (k :: r) = HdrsOkK H p r := by
  cases k with
  | H b => exact absurd rfl (hk b)
  | _ => cases p <;> simp only [HdrsOkK]

theorem kind_ne_H (tok : Tok) (h : ∀ b, tok ≠ .headers b) : ∀ b, kind tok ≠ .H b := by
  intro b
  cases tok with
  | headers c => exact absurd rfl (h c)
  | data n ps =>
    by_cases hlt : ps.flatten.length < n
    · rw [kind_data_part hlt]; simp
    · rw [kind_data_full hlt]; simp
  | bad e => cases e <;> simp [kind]
  | _ => simp [kind]

/-- the positional hypothesis asks less than the old one -/
theorem hdrsOkK_of_hdrOk (H : Hdr) : ∀ (toks : List Tok) (p : HPos), (∀ tok ∈ toks, HdrOk H tok) →
    HdrsOkK H p (toks.map kind) := by
  intro toks
  induction toks with
  | nil => intro p _; cases p <;> simp [HdrsOkK]
  | cons tok r ih =>
    intro p h
    have hr : ∀ t ∈ r, HdrOk H t := fun t ht => h t (by simp [ht])
    cases tok with
    | headers b =>
      have hb := h (.headers b) (by simp)
      cases p
      · exact ⟨hb.1, ih .trailers hr⟩
      · exact hb.2
    | _ =>
      rw [List.map_cons, hdrsOkK_skip H p _ _ (kind_ne_H _ (by intro b hb; cases hb))]
      exact ih p hr

theorem hdrsOk_of_hdrOk (H : Hdr) (toks : List Tok) (h : ∀ tok ∈ toks, HdrOk H tok) : HdrsOk H toks :=
  hdrsOkK_of_hdrOk H toks .head h

/-- the HEADERS blocks of a sequence, in order -/
def hdrBlocks : List K → List Bytes
  | [] => []
  | .H b :: r => b :: hdrBlocks r
  | _ :: r => hdrBlocks r

/-- the positional hypothesis on the list of blocks: first = head, second = trailers -/
def BlocksOk (H : Hdr) : HPos → List Bytes → Prop
  | _, [] => True
  | .head, b :: r => H.head b = .ok ∧ BlocksOk H .trailers r
  | .trailers, b :: _ => H.trailer b = .ok

theorem hdrsOkK_iff (H : Hdr) : ∀ (ks : List K) (p : HPos), HdrsOkK H p ks ↔ BlocksOk H p (hdrBlocks ks) := by
  intro ks
  induction ks with
  | nil => intro p; cases p <;> simp [HdrsOkK, hdrBlocks, BlocksOk]
  | cons k r ih =>
    intro p
    cases k with
    | H b => cases p <;> simp [HdrsOkK, hdrBlocks, BlocksOk, ih]
    | _ => cases p <;> simp only [HdrsOkK, hdrBlocks, ih]

theorem blocksOk_prefix (H : Hdr) : ∀ (a b : List Bytes) (p : HPos), BlocksOk H p (a ++ b) → BlocksOk H p a := by
  intro a
  induction a with
  | nil => intro b p _; cases p <;> simp [BlocksOk]
  | cons x r ih =>
    intro b p h
    cases p
    · exact ⟨h.1, ih b .trailers h.2⟩
    · exact h

instance instDecBlocksOk (H : Hdr) : ∀ (p : HPos) (l : List Bytes), Decidable (BlocksOk H p l)
  | .head, [] => by simp only [BlocksOk]; exact inferInstance
  | .trailers, [] => by simp only [BlocksOk]; exact inferInstance
  | .head, b :: r => by
    simp only [BlocksOk]
    have := instDecBlocksOk H .trailers r
    exact inferInstance
  | .trailers, b :: _ => by simp only [BlocksOk]; exact inferInstance

instance (H : Hdr) (p : HPos) (ks : List K) : Decidable (HdrsOkK H p ks) :=
  decidable_of_iff _ (hdrsOkK_iff H ks p).symm

instance (H : Hdr) (toks : List Tok) : Decidable (HdrsOk H toks) := by unfold HdrsOk; exact inferInstance

/-! ### the request layer over the token source against the recogniser -/

/-- enough fuel: one more changes nothing -/
theorem pollRecvData_fuel (items : List Item) : ∀ (f : Nat) (st : St TS), st.src.items = items →
    items.length + 1 ≤ f → pollRecvData tokSrc f st = pollRecvData tokSrc (f + 1) st := by
  induction items with
  | nil =>
    intro f st hi hf
    obtain ⟨f', rfl⟩ : ∃ f', f = f' + 1 := ⟨f - 1, by omega⟩
    obtain ⟨⟨its, t, k⟩, tr, env⟩ := st
    simp only at hi; subst hi
    unfold pollRecvData
    by_cases hk : k = 0
    · subst hk; simp [tok_next_nil]
      cases t <;> simp [Term.next]
    · simp [hk]
  | cons it r ih =>
    intro f st hi hf
    obtain ⟨f', rfl⟩ : ∃ f', f = f' + 1 := ⟨f - 1, by omega⟩
    obtain ⟨⟨its, t, k⟩, tr, env⟩ := st
    simp only at hi; subst hi
    rw [pollRecvData, pollRecvData]
    by_cases hk : k = 0
    · subst hk
      cases it with
      | piece b => simp [tokSrc]
      | frame fr =>
        cases fr with
        | data n =>
          simp only [tok_hasData, tok_next_frame]
          simp only [bne_self_eq_false, Bool.false_eq_true, if_false]
          exact ih f' _ rfl (by simp at hf; omega)
        | _ => simp [tok_next_frame]
    · simp [hk]


/-- a DATA frame header is consumed inside the `recv_data` call that meets it -/
theorem drain_data_header (n : Nat) (its : List Item) (t : Term) (tr : Option Bytes) (env : Env) (F : Nat)
    (hF : its.length + 1 ≤ F) :
    drain tokSrc (F + 1) (mk (.frame (.data n) :: its) t 0 tr env) =
      drain tokSrc (F + 1) (mk its t n tr env) := by
  have h1 : pollRecvData tokSrc (F + 1) (mk (.frame (.data n) :: its) t 0 tr env) =
      pollRecvData tokSrc F (mk its t n tr env) := by
    rw [pollRecvData]
    simp [mk, tok_next_frame, kindLen, H3.FS.frameKind]
  have h2 := pollRecvData_fuel its F (mk its t n tr env) rfl hF
  rw [drain, drain, h1, h2]

/-- the pieces of a DATA payload come out one per call -/
theorem drain_pieces (rest : List Item) (t : Term) (tr : Option Bytes) (env : Env) (G : Nat) :
    ∀ (ps : List Bytes) (k : Nat), (∀ p ∈ ps, p ≠ []) → ps.flatten.length ≤ k →
    drain tokSrc (ps.length + G) (mk (ps.map .piece ++ rest) t k tr env) =
      (ps.map .data ++ (drain tokSrc G (mk rest t (k - ps.flatten.length) tr env)).1,
       (drain tokSrc G (mk rest t (k - ps.flatten.length) tr env)).2) := by
  intro ps
  induction ps with
  | nil => intro k _ _; simp
  | cons p ps ih =>
    intro k hne hle
    have hp : p ≠ [] := hne p (by simp)
    have hpl : p.length ≠ 0 := by
      intro h; exact hp (List.eq_nil_of_length_eq_zero h)
    simp only [List.flatten_cons, List.length_append] at hle
    have hk : k ≠ 0 := by omega
    have hstep : pollRecvData tokSrc (ps.length + G + 1) (mk (.piece p :: (ps.map .piece ++ rest)) t k tr env) =
        (.data p, mk (ps.map .piece ++ rest) t (k - p.length) tr env) := by
      rw [pollRecvData]
      simp [mk, hk, tok_data_piece, dataOut]
    have hlen : (p :: ps).length + G = (ps.length + G) + 1 := by simp; omega
    rw [hlen, drain]
    simp only [List.map_cons, List.cons_append, hstep]
    rw [ih (k - p.length) (fun q hq => hne q (by simp [hq])) (by omega)]
    simp only [List.flatten_cons, List.length_append, Nat.sub_sub]


theorem getLast?_append_ne {α : Type} (l₁ l₂ : List α) (h : l₂ ≠ []) :
    (l₁ ++ l₂).getLast? = l₂.getLast? := by
  rw [List.getLast?_append]
  cases h2 : l₂.getLast? with
  | none => exact absurd (List.getLast?_eq_none_iff.mp h2) h
  | some x => simp

theorem drain_ne_nil {σ : Type} (S : Src σ) (f : Nat) (st : St σ) : (drain S f st).1 ≠ [] := by
  cases f with
  | zero => simp [drain]
  | succ f =>
    rw [drain]
    split
    rename_i r st' _
    cases r <;> simp

/-- what the part of the run after the head adds to the observation -/
def tailOutcome (h acc : Bytes) (x : List Res × Option Res × Env) : Outcome :=
  { calls := [.head h, .body (acc ++ bodyBytes x.1)] ++ tailObs x.1 x.2.1
    connError := x.2.2.cell
    streamReset := x.2.2.rst }

theorem bodyBytes_data_append (ds : List Bytes) (rs : List Res) :
    bodyBytes (ds.map .data ++ rs) = ds.flatten ++ bodyBytes rs := by
  induction ds with
  | nil => simp
  | cons d ds ih => simp [bodyBytes, ih]

theorem bodyRun_prefix {σ : Type} (S : Src σ) (H : Hdr) (f f' : Nat) (st st' : St σ) (ds : List Bytes)
    (h : drain S f st = (ds.map .data ++ (drain S f' st').1, (drain S f' st').2)) :
    bodyRun S H f st = (ds.map .data ++ (bodyRun S H f' st').1, (bodyRun S H f' st').2) := by
  have hne := drain_ne_nil S f' st'
  simp only [bodyRun, h, getLast?_append_ne _ _ hne]
  split <;> rfl

theorem tailOutcome_prefix (h acc : Bytes) (ds : List Bytes) (rs : List Res) (x : Option Res × Env)
    (hne : rs ≠ []) :
    tailOutcome h acc (ds.map .data ++ rs, x) = tailOutcome h (acc ++ ds.flatten) (rs, x) := by
  simp [tailOutcome, bodyBytes_data_append, tailObs, getLast?_append_ne _ _ hne]

theorem bodyRun_ne_nil {σ : Type} (S : Src σ) (H : Hdr) (f : Nat) (st : St σ) : (bodyRun S H f st).1 ≠ [] := by
  have := drain_ne_nil S f st
  simp only [bodyRun]
  split <;> exact this

theorem accepts_violation (p : Phase) (codes : List Nat) (c : Nat) (hc : c ∈ codes) (calls : List Obs)
    (hcalls : calls = p.seen ++ [.connError c]) :
    (violation p codes).accepts { calls := calls, connError := some c, streamReset := none } := by
  subst hcalls
  simp only [violation, Expect.accepts, List.mem_map]
  exact ⟨c, hc, rfl⟩

theorem trailersTail_spec (side : Side) (H : Hdr) (h acc t : Bytes) (hT : H.trailer t = .ok)
    (r : List Tok) (e : Ending) :
    (expected side (.trailers h acc t) (r.map kind) (stopOf e)).accepts
      { calls := [.head h, .body acc, .bodyEnd] ++
          resObs (trailersTail tokSrc H (mk (compile r e).1 (compile r e).2 0 none {}) t).1
        connError := (trailersTail tokSrc H (mk (compile r e).1 (compile r e).2 0 none {}) t).2.env.cell
        streamReset := (trailersTail tokSrc H (mk (compile r e).1 (compile r e).2 0 none {}) t).2.env.rst } := by
  induction r with
  | nil =>
    cases e <;>
      simp [compile, Ending.term, trailersTail, trailersCheck, tok_next_nil, Term.next, decodeTrailers, hT, expected, atStop,
        stopOf, resObs, fsErr, connErr, violation, Phase.seen, Expect.accepts,
        CODE_H3_FRAME_ERROR, H3_FRAME_ERROR]
  | cons tok r ih =>
    cases tok with
    | unknown ty p => simpa [compile, kind, expected] using ih
    | data n ps =>
      by_cases hlt : ps.flatten.length < n
      · rw [compile_data_part hlt, List.map_cons, kind_data_part hlt]
        simp [expected, trailersTail, trailersCheck, tok_next_frame, connErr, violation, Phase.seen,
          Expect.accepts, resObs, CODE_H3_FRAME_UNEXPECTED, H3_FRAME_UNEXPECTED]
      · rw [compile_data_full hlt, List.map_cons, kind_data_full hlt]
        simp [expected, trailersTail, trailersCheck, tok_next_frame, connErr, violation, Phase.seen,
          Expect.accepts, resObs, CODE_H3_FRAME_UNEXPECTED, H3_FRAME_UNEXPECTED]
    | pushPromise i p =>
      cases side <;>
        simp [compile, kind, expected, trailersTail, trailersCheck, tok_next_frame, connErr, violation, Phase.seen,
          Expect.accepts, resObs, CODE_H3_FRAME_UNEXPECTED, H3_FRAME_UNEXPECTED]
    | bad err =>
      cases err <;>
        simp [compile, kind, expected, trailersTail, trailersCheck, tok_next_nil, Term.next, fsErr, frameErrCode, connErr,
          violation, Phase.seen, Expect.accepts, resObs, CODE_H3_FRAME_UNEXPECTED, H3_FRAME_UNEXPECTED,
          CODE_H3_FRAME_ERROR, H3_FRAME_ERROR, CODE_H3_SETTINGS_ERROR, H3_SETTINGS_ERROR]
    | _ =>
      simp [compile, kind, expected, trailersTail, trailersCheck, tok_next_frame, connErr, violation, Phase.seen,
        Expect.accepts, resObs, CODE_H3_FRAME_UNEXPECTED, H3_FRAME_UNEXPECTED]


theorem body_spec (side : Side) (H : Hdr) (h : Bytes) (e : Ending) :
    ∀ (r : List Tok) (acc : Bytes) (fuel : Nat), (∀ tok ∈ r, TokWF tok) →
      HdrsOkK H .trailers (r.map kind) →
      (compile r e).1.length + 2 ≤ fuel →
      (expected side (.body h acc) (r.map kind) (stopOf e)).accepts
        (tailOutcome h acc (bodyRun tokSrc H fuel (mk (compile r e).1 (compile r e).2 0 none {}))) := by
  intro r
  induction r with
  | nil =>
    intro acc fuel _ _ hf
    obtain ⟨F, rfl⟩ : ∃ F, fuel = F + 2 := ⟨fuel - 2, by omega⟩
    cases e <;>
      simp [compile, Ending.term, bodyRun, drain, pollRecvData, tok_next_nil, Term.next, pollRecvTrailers, trailersFirst,
        fsErr, connErr, tailOutcome, tailObs, resObs, bodyBytes, expected, atStop, stopOf, violation,
        Phase.seen, Expect.accepts, CODE_H3_FRAME_ERROR, H3_FRAME_ERROR]
  | cons tok r ih =>
    intro acc fuel hwf hH hf
    have hwf' : ∀ tok ∈ r, TokWF tok := fun x hx => hwf x (by simp [hx])
    have hH' : (∀ b, tok ≠ .headers b) → HdrsOkK H .trailers (r.map kind) := fun hne => by
      rw [List.map_cons, hdrsOkK_skip H _ _ _ (kind_ne_H tok hne)] at hH
      exact hH
    obtain ⟨F, rfl⟩ : ∃ F, fuel = F + 2 := ⟨fuel - 2, by omega⟩
    cases tok with
    | unknown ty p =>
      have := ih acc (F + 2) hwf' (hH' (by intro b hb; cases hb)) (by simpa [compile] using hf)
      simpa [compile, kind, expected] using this
    | headers t =>
      have hT : H.trailer t = .ok := hH
      have := trailersTail_spec side H h acc t hT r e
      simpa [compile, kind, expected, bodyRun, drain, pollRecvData, tok_next_frame, kindLen, H3.FS.frameKind,
        pollRecvTrailers, trailersFirst, tailOutcome, tailObs, bodyBytes, mk] using this
    | pushPromise i p =>
      cases side <;>
        simp [compile, kind, expected, bodyRun, drain, pollRecvData, tok_next_frame, connErr, tailOutcome,
          tailObs, resObs, bodyBytes, violation, Phase.seen, Expect.accepts,
          CODE_H3_FRAME_UNEXPECTED, H3_FRAME_UNEXPECTED]
    | bad err =>
      cases err <;>
        simp [compile, kind, expected, bodyRun, drain, pollRecvData, tok_next_nil, Term.next, fsErr,
          frameErrCode, connErr, tailOutcome, tailObs, resObs, bodyBytes, violation, Phase.seen, Expect.accepts,
          CODE_H3_FRAME_UNEXPECTED, H3_FRAME_UNEXPECTED, CODE_H3_FRAME_ERROR, H3_FRAME_ERROR,
          CODE_H3_SETTINGS_ERROR, H3_SETTINGS_ERROR]
    | data n ps =>
      obtain ⟨hne, hle⟩ := hwf (.data n ps) (by simp)
      have hHr := hH' (by intro b hb; cases hb)
      by_cases hlt : ps.flatten.length < n
      · -- the payload has not arrived in full: the pieces, then the ending
        rw [compile_data_part hlt, List.map_cons, kind_data_part hlt]
        simp only [expected]
        have hF : (ps.map Item.piece).length + 1 ≤ F + 1 := by
          rw [compile_data_part hlt] at hf; simp at hf; simp; omega
        have h1 := drain_data_header n (ps.map .piece) e.term none {} (F + 1) hF
        have h2 := drain_pieces [] e.term none {} (F + 2 - ps.length) ps n hne hle
        have hlen : ps.length + (F + 2 - ps.length) = F + 1 + 1 := by
          simp at hF; omega
        rw [hlen, List.append_nil] at h2
        have h3 := bodyRun_prefix tokSrc H (F + 2) (F + 2 - ps.length) _ _ ps (h1.trans h2)
        rw [h3, tailOutcome_prefix _ _ _ _ _ (bodyRun_ne_nil _ _ _ _)]
        obtain ⟨G, hG⟩ : ∃ G, F + 2 - ps.length = G + 1 := ⟨F + 1 - ps.length, by simp at hF; omega⟩
        have hk : n - ps.flatten.length ≠ 0 := by omega
        rw [hG]
        generalize n - ps.flatten.length = k at hk
        cases e <;>
          simp [bodyRun, drain, pollRecvData, hk, tok_data_nil, Term.data, Ending.term, dataOut, fsErr, connErr,
            tailOutcome, tailObs, resObs, bodyBytes, atStop, stopOf, violation, Phase.seen, Expect.accepts,
            CODE_H3_FRAME_ERROR, H3_FRAME_ERROR]
      · rw [compile_data_full hlt, List.map_cons, kind_data_full hlt]
        simp only [expected]
        have hn : ps.flatten.length = n := by omega
        rw [compile_data_full hlt] at hf
        have hF : (ps.map Item.piece ++ (compile r e).1).length + 1 ≤ F + 1 := by
          simp at hf; simp; omega
        have h1 := drain_data_header n (ps.map .piece ++ (compile r e).1) (compile r e).2 none {} (F + 1) hF
        have h2 := drain_pieces (compile r e).1 (compile r e).2 none {} (F + 2 - ps.length) ps n hne hle
        have hlen : ps.length + (F + 2 - ps.length) = F + 1 + 1 := by
          simp at hF; omega
        rw [hlen, hn, Nat.sub_self] at h2
        have h3 := bodyRun_prefix tokSrc H (F + 2) (F + 2 - ps.length) _ _ ps (h1.trans h2)
        rw [h3, tailOutcome_prefix _ _ _ _ _ (bodyRun_ne_nil _ _ _ _)]
        exact ih (acc ++ ps.flatten) (F + 2 - ps.length) hwf' hHr (by simp at hF; omega)
    | _ =>
      simp [compile, kind, expected, bodyRun, drain, pollRecvData, tok_next_frame, connErr, tailOutcome,
        tailObs, resObs, bodyBytes, violation, Phase.seen, Expect.accepts,
        CODE_H3_FRAME_UNEXPECTED, H3_FRAME_UNEXPECTED]

theorem observe_head (b : Bytes) (x : List Res × Option Res × Env) :
    observe { head := .head b, body := x.1, trailers := x.2.1, env := x.2.2 } = tailOutcome b [] x := by
  simp [observe, tailOutcome]

theorem recv_spec (role : Role) (H : Hdr) (e : Ending) :
    ∀ (toks : List Tok) (fuel : Nat), (∀ tok ∈ toks, TokWF tok) → HdrsOk H toks →
      (compile toks e).1.length + 2 ≤ fuel →
      (expected (sideOf role) .start (toks.map kind) (stopOf e)).accepts
        (observe (documented role tokSrc H fuel (mk (compile toks e).1 (compile toks e).2 0 none {}))) := by
  intro toks
  induction toks with
  | nil =>
    intro fuel _ _ _
    cases role <;> cases e <;>
      simp [compile, Ending.term, documented, pollHead, pollResolve, pollRecvResponse, tok_next_nil, Term.next,
        fsErr, connErr, first, observe, resObs, expected, atStop, stopOf, sideOf, violation, Phase.seen,
        Expect.accepts, CODE_H3_FRAME_ERROR, H3_FRAME_ERROR, CODE_H3_REQUEST_INCOMPLETE, H3_REQUEST_INCOMPLETE,
        clientNoResponse, CODE_H3_FRAME_UNEXPECTED, H3_FRAME_UNEXPECTED, CODE_H3_MESSAGE_ERROR, H3_MESSAGE_ERROR]
  | cons tok r ih =>
    intro fuel hwf hHs hf
    have hwf' : ∀ tok ∈ r, TokWF tok := fun x hx => hwf x (by simp [hx])
    cases tok with
    | unknown ty p =>
      have hHr : HdrsOk H r := by
        unfold HdrsOk at hHs ⊢
        rw [List.map_cons, hdrsOkK_skip H _ _ _ (kind_ne_H _ (by intro b hb; cases hb))] at hHs
        exact hHs
      have := ih fuel hwf' hHr (by simpa [compile] using hf)
      simpa [compile, kind, expected] using this
    | headers b =>
      have hH : H.head b = .ok := hHs.1
      have := body_spec (sideOf role) H b e r [] fuel hwf' hHs.2 (by simp [compile] at hf; omega)
      rw [← observe_head] at this
      cases role <;>
        simpa [compile, kind, expected, documented, pollHead, pollResolve, pollRecvResponse, tok_next_frame,
          kindLen, H3.FS.frameKind, hH, mk] using this
    | pushPromise i p =>
      cases role <;>
        simp [compile, kind, expected, documented, pollHead, pollResolve, pollRecvResponse, tok_next_frame,
          connErr, observe, resObs, sideOf, violation, Phase.seen, Expect.accepts,
          CODE_H3_FRAME_UNEXPECTED, H3_FRAME_UNEXPECTED]
    | bad err =>
      cases role <;> cases err <;>
        simp [compile, kind, expected, documented, pollHead, pollResolve, pollRecvResponse, tok_next_nil,
          Term.next, fsErr, frameErrCode, connErr, observe, resObs, sideOf, violation, Phase.seen, Expect.accepts,
          CODE_H3_FRAME_UNEXPECTED, H3_FRAME_UNEXPECTED, CODE_H3_FRAME_ERROR, H3_FRAME_ERROR,
          CODE_H3_SETTINGS_ERROR, H3_SETTINGS_ERROR]
    | data n ps =>
      by_cases hlt : ps.flatten.length < n
      · rw [compile_data_part hlt, List.map_cons, kind_data_part hlt]
        cases role <;>
          simp [expected, documented, pollHead, pollResolve, pollRecvResponse, tok_next_frame,
            connErr, observe, resObs, sideOf, violation, Phase.seen, Expect.accepts,
            CODE_H3_FRAME_UNEXPECTED, H3_FRAME_UNEXPECTED]
      · rw [compile_data_full hlt, List.map_cons, kind_data_full hlt]
        cases role <;>
          simp [expected, documented, pollHead, pollResolve, pollRecvResponse, tok_next_frame,
            connErr, observe, resObs, sideOf, violation, Phase.seen, Expect.accepts,
            CODE_H3_FRAME_UNEXPECTED, H3_FRAME_UNEXPECTED]
    | _ =>
      cases role <;>
        simp [compile, kind, expected, documented, pollHead, pollResolve, pollRecvResponse, tok_next_frame,
          connErr, observe, resObs, sideOf, violation, Phase.seen, Expect.accepts,
          CODE_H3_FRAME_UNEXPECTED, H3_FRAME_UNEXPECTED]

/-! ### what the request layer keeps invariant, for any frame layer -/

section Inv
variable {σ : Type}

theorem connErr_keeps (st : St σ) (c : Nat) :
    (connErr st c).2.src = st.src ∧ (connErr st c).2.trailers = st.trailers := by
  unfold connErr; split <;> simp

theorem fsErr_keeps (st : St σ) (o : FOut) :
    (fsErr st o).2.src = st.src ∧ (fsErr st o).2.trailers = st.trailers := by
  cases o <;> simp [fsErr, connErr_keeps]

theorem dataOut_keeps (st : St σ) (o : FOut) :
    (dataOut st o).2.src = st.src ∧ (dataOut st o).2.trailers = st.trailers := by
  cases o <;> simp [dataOut, fsErr_keeps]

/-- the law of a frame layer the `is_eos` shortcut relies on: a HEADERS frame has no payload to
    hand out through `poll_data` -/
def HdrNoData (S : Src σ) : Prop :=
  ∀ a enc, (S.pollNext a).1 = .frame (.headers enc) → S.hasData (S.pollNext a).2 = false

theorem tokSrc_hdrNoData : HdrNoData tokSrc := by
  intro a enc h
  obtain ⟨items, term, rem⟩ := a
  simp only [tokSrc] at h ⊢
  by_cases hr : rem = 0
  · subst hr
    cases items with
    | nil => cases term <;> simp [Term.next] at h
    | cons it r =>
      cases it with
      | piece b => simp at h
      | frame f =>
        simp at h
        subst h
        simp [kindLen, H3.FS.frameKind]
  · simp [hr] at h

/-- `recv_data` remembers trailers only in the call that answers `None` for them, and then the
    frame layer has no data pending -/
theorem pollRecvData_inv (S : Src σ) (hS : HdrNoData S) : ∀ (fuel : Nat) (y : St σ), y.trailers = none →
    ((∃ d, (pollRecvData S fuel y).1 = .data d) → (pollRecvData S fuel y).2.trailers = none) ∧
    ((pollRecvData S fuel y).2.trailers ≠ none → S.hasData (pollRecvData S fuel y).2.src = false) := by
  intro fuel
  induction fuel with
  | zero => intro y hy; simp [pollRecvData, hy]
  | succ f ih =>
    intro y hy
    rw [pollRecvData]
    by_cases hd : S.hasData y.src = true
    · rw [if_pos hd]
      generalize S.pollData y.src = p
      obtain ⟨o, s'⟩ := p
      have h2 := (dataOut_keeps { y with src := s' } o).2
      simp only at h2 ⊢
      rw [h2, hy]
      simp
    · rw [if_neg hd]
      have hlaw := hS y.src
      generalize S.pollNext y.src = p at hlaw
      obtain ⟨o, s'⟩ := p
      simp only at hlaw ⊢
      cases o with
      | frame fr =>
        cases fr with
        | headers enc => simpa using hlaw enc rfl
        | data n => exact ih _ hy
        | _ =>
          simp only
          rw [(connErr_keeps { y with src := s' } CODE_H3_FRAME_UNEXPECTED).2]
          simp only [hy, ne_eq, not_true_eq_false, false_implies, and_true, implies_true]
      | none => simp [hy]
      | pending => simp [hy]
      | data d => simp [hy]
      | _ =>
        simp only
        rw [(fsErr_keeps { y with src := s' } _).2]
        simp only [hy, ne_eq, not_true_eq_false, false_implies, and_true, implies_true]

/-- the state in which `recv_data` stops answering data: trailers remembered ⇒ no data pending -/
theorem drain_inv (S : Src σ) (hS : HdrNoData S) : ∀ (fuel : Nat) (y : St σ), y.trailers = none →
    ((drain S fuel y).2.trailers ≠ none → S.hasData (drain S fuel y).2.src = false) := by
  intro fuel
  induction fuel with
  | zero => intro y hy; simp [drain, hy]
  | succ f ih =>
    intro y hy
    obtain ⟨h1, h2⟩ := pollRecvData_inv S hS (f + 1) y hy
    rw [drain]
    generalize pollRecvData S (f + 1) y = p at h1 h2
    obtain ⟨r, y'⟩ := p
    cases r with
    | data d => exact ih y' (h1 ⟨d, rfl⟩)
    | _ => exact h2

theorem pollHead_trailers (role : Role) (S : Src σ) (H : Hdr) (st : St σ) :
    (pollHead role S H st).2.trailers = st.trailers := by
  cases role
  · show (pollResolve S H st).2.trailers = _
    unfold pollResolve
    generalize S.pollNext st.src = p
    obtain ⟨o, s'⟩ := p
    cases o with
    | frame fr =>
      cases fr with
      | headers enc =>
        simp only
        cases H.head enc <;> first | rfl | exact (connErr_keeps _ _).2
      | _ => exact (connErr_keeps _ _).2
    | none => rfl
    | pending => rfl
    | _ => exact (fsErr_keeps _ _).2
  · show (pollRecvResponse S H st).2.trailers = _
    unfold pollRecvResponse
    generalize S.pollNext st.src = p
    obtain ⟨o, s'⟩ := p
    cases o with
    | frame fr =>
      cases fr with
      | headers enc =>
        simp only
        cases H.head enc <;> first | rfl | exact (connErr_keeps _ _).2
      | _ => exact (connErr_keeps _ _).2
    | none => rfl
    | pending => rfl
    | _ => exact (fsErr_keeps _ _).2

end Inv

/-! ### two frame layers that answer alike are indistinguishable for the request layer -/

/-- Two frame layers answer alike: related states give the same answers and stay related. -/
structure FrameSim {σ₁ σ₂ : Type} (S₁ : Src σ₁) (S₂ : Src σ₂) (R : σ₁ → σ₂ → Prop) : Prop where
  hasData : ∀ c a, R c a → S₁.hasData c = S₂.hasData a
  next : ∀ c a, R c a → (S₁.pollNext c).1 = (S₂.pollNext a).1 ∧ R (S₁.pollNext c).2 (S₂.pollNext a).2
  data : ∀ c a, R c a → (S₁.pollData c).1 = (S₂.pollData a).1 ∧ R (S₁.pollData c).2 (S₂.pollData a).2
  /-- `is_eos` may be answered differently (it depends on whether the FIN has been read yet), but
      when one side says "at the end" — and no DATA payload is outstanding — the other side's
      `poll_next` says `None` and stays related -/
  eosL : ∀ c a, R c a → S₁.isEos c = true → S₂.isEos a = false → S₂.hasData a = false →
    (S₂.pollNext a).1 = .none ∧ R c (S₂.pollNext a).2
  eosR : ∀ c a, R c a → S₁.isEos c = false → S₂.isEos a = true → S₂.hasData a = false →
    (S₁.pollNext c).1 = .none ∧ R (S₁.pollNext c).2 a

variable {σ₁ σ₂ : Type} {S₁ : Src σ₁} {S₂ : Src σ₂} {R : σ₁ → σ₂ → Prop}

def Rel (R : σ₁ → σ₂ → Prop) (x : St σ₁) (y : St σ₂) : Prop :=
  R x.src y.src ∧ x.trailers = y.trailers ∧ x.env = y.env

/-- same answer, related states -/
def Same (R : σ₁ → σ₂ → Prop) (x : Res × St σ₁) (y : Res × St σ₂) : Prop :=
  x.1 = y.1 ∧ Rel R x.2 y.2

theorem same_connErr {x : St σ₁} {y : St σ₂} (h : Rel R x y) (code : Nat) :
    Same R (connErr x code) (connErr y code) := by
  obtain ⟨hs, ht, he⟩ := h
  unfold connErr
  rw [he]
  split <;> simp_all [Same, Rel]

theorem same_fsErr {x : St σ₁} {y : St σ₂} (h : Rel R x y) (o : FOut) :
    Same R (fsErr x o) (fsErr y o) := by
  cases o <;> simp only [fsErr] <;> first | exact same_connErr h _ | exact ⟨rfl, h⟩

theorem same_pollResolve (sim : FrameSim S₁ S₂ R) (H : Hdr) {x : St σ₁} {y : St σ₂} (h : Rel R x y) :
    Same R (pollResolve S₁ H x) (pollResolve S₂ H y) := by
  obtain ⟨hs, ht, he⟩ := h
  obtain ⟨ho, hr⟩ := sim.next _ _ hs
  unfold pollResolve
  rcases h1 : S₁.pollNext x.src with ⟨o1, c1⟩
  rcases h2 : S₂.pollNext y.src with ⟨o2, a2⟩
  rw [h1, h2] at ho hr
  simp only at ho hr
  subst ho
  have hrel : Rel R { x with src := c1 } { y with src := a2 } := ⟨hr, ht, he⟩
  cases o1 with
  | frame f =>
    cases f with
    | headers enc =>
      simp only
      cases H.head enc
      · exact ⟨rfl, hrel⟩
      · refine ⟨rfl, hr, ht, ?_⟩
        simp [he]
      · exact same_connErr hrel _
    | _ => exact same_connErr hrel _
  | none =>
    refine ⟨rfl, hr, ht, ?_⟩
    simp [he]
  | pending => exact ⟨rfl, hrel⟩
  | _ => exact same_fsErr hrel _

theorem same_pollRecvResponse (sim : FrameSim S₁ S₂ R) (H : Hdr) {x : St σ₁} {y : St σ₂} (h : Rel R x y) :
    Same R (pollRecvResponse S₁ H x) (pollRecvResponse S₂ H y) := by
  obtain ⟨hs, ht, he⟩ := h
  obtain ⟨ho, hr⟩ := sim.next _ _ hs
  unfold pollRecvResponse
  rcases h1 : S₁.pollNext x.src with ⟨o1, c1⟩
  rcases h2 : S₂.pollNext y.src with ⟨o2, a2⟩
  rw [h1, h2] at ho hr
  simp only at ho hr
  subst ho
  have hrel : Rel R { x with src := c1 } { y with src := a2 } := ⟨hr, ht, he⟩
  cases o1 with
  | frame f =>
    cases f with
    | headers enc =>
      simp only
      cases H.head enc
      · exact ⟨rfl, hrel⟩
      · refine ⟨rfl, hr, ht, ?_⟩
        simp [he]
      · exact same_connErr hrel _
    | _ => exact same_connErr hrel _
  | none => exact ⟨rfl, hrel⟩
  | pending => exact ⟨rfl, hrel⟩
  | _ => exact same_fsErr hrel _

theorem same_pollHead (sim : FrameSim S₁ S₂ R) (role : Role) (H : Hdr) {x : St σ₁} {y : St σ₂}
    (h : Rel R x y) : Same R (pollHead role S₁ H x) (pollHead role S₂ H y) := by
  cases role
  · exact same_pollResolve sim H h
  · exact same_pollRecvResponse sim H h

theorem same_dataOut {x : St σ₁} {y : St σ₂} (h : Rel R x y) (o : FOut) :
    Same R (dataOut x o) (dataOut y o) := by
  cases o <;> simp only [dataOut] <;> first | exact ⟨rfl, h⟩ | exact same_fsErr h _

theorem same_pollRecvData (sim : FrameSim S₁ S₂ R) (fuel : Nat) :
    ∀ {x : St σ₁} {y : St σ₂}, Rel R x y → Same R (pollRecvData S₁ fuel x) (pollRecvData S₂ fuel y) := by
  induction fuel with
  | zero => intro x y h; exact ⟨rfl, h⟩
  | succ f ih =>
    intro x y h
    obtain ⟨hs, ht, he⟩ := h
    rw [pollRecvData, pollRecvData, sim.hasData _ _ hs]
    by_cases hd : S₂.hasData y.src = true
    · rw [if_pos hd, if_pos hd]
      obtain ⟨ho, hr⟩ := sim.data _ _ hs
      rcases h1 : S₁.pollData x.src with ⟨o1, c1⟩
      rcases h2 : S₂.pollData y.src with ⟨o2, a2⟩
      rw [h1, h2] at ho hr
      simp only at ho hr
      subst ho
      exact same_dataOut (show Rel R { x with src := c1 } { y with src := a2 } from ⟨hr, ht, he⟩) _
    · rw [if_neg hd, if_neg hd]
      obtain ⟨ho, hr⟩ := sim.next _ _ hs
      rcases h1 : S₁.pollNext x.src with ⟨o1, c1⟩
      rcases h2 : S₂.pollNext y.src with ⟨o2, a2⟩
      rw [h1, h2] at ho hr
      simp only at ho hr
      subst ho
      have hrel : Rel R { x with src := c1 } { y with src := a2 } := ⟨hr, ht, he⟩
      cases o1 with
      | frame fr =>
        cases fr with
        | headers enc => exact ⟨rfl, show Rel R { x with src := c1, trailers := some enc } { y with src := a2, trailers := some enc } from ⟨hr, rfl, he⟩⟩
        | data n => exact ih hrel
        | _ => exact same_connErr hrel _
      | none => exact ⟨rfl, hrel⟩
      | pending => exact ⟨rfl, hrel⟩
      | data d => exact ⟨rfl, hrel⟩
      | _ => exact same_fsErr hrel _

theorem same_decodeTrailers (H : Hdr) {x : St σ₁} {y : St σ₂} (h : Rel R x y) (enc : Bytes) :
    Same R (decodeTrailers H x enc) (decodeTrailers H y enc) := by
  unfold decodeTrailers
  cases H.trailer enc
  · exact ⟨rfl, h⟩
  · obtain ⟨hs, ht, he⟩ := h
    refine ⟨rfl, hs, ht, ?_⟩
    simp [he]
  · exact same_connErr h _

theorem same_trailersCheck (sim : FrameSim S₁ S₂ R) (H : Hdr) {x : St σ₁} {y : St σ₂} (h : Rel R x y)
    (enc : Bytes) : Same R (trailersCheck S₁ H x enc) (trailersCheck S₂ H y enc) := by
  obtain ⟨hs, ht, he⟩ := h
  unfold trailersCheck
  obtain ⟨ho, hr⟩ := sim.next _ _ hs
  rcases h1 : S₁.pollNext x.src with ⟨o1, c1⟩
  rcases h2 : S₂.pollNext y.src with ⟨o2, a2⟩
  rw [h1, h2] at ho hr
  simp only at ho hr
  subst ho
  have hrel : Rel R { x with src := c1 } { y with src := a2 } := ⟨hr, ht, he⟩
  cases o1 with
  | frame fr => exact same_connErr hrel _
  | none => exact same_decodeTrailers H hrel enc
  | pending => exact ⟨rfl, show Rel R { x with src := c1, trailers := some enc } { y with src := a2, trailers := some enc } from ⟨hr, rfl, he⟩⟩
  | data d => exact ⟨rfl, hrel⟩
  | _ => exact same_fsErr hrel _

theorem same_trailersTail (sim : FrameSim S₁ S₂ R) (H : Hdr) {x : St σ₁} {y : St σ₂} (h : Rel R x y)
    (hd : S₂.hasData y.src = false)
    (enc : Bytes) : Same R (trailersTail S₁ H x enc) (trailersTail S₂ H y enc) := by
  have hchk := same_trailersCheck sim H h enc
  obtain ⟨hs, ht, he⟩ := h
  unfold trailersTail
  cases h1 : S₁.isEos x.src <;> cases h2 : S₂.isEos y.src
  · simpa using hchk
  · -- only the right side knows it is at the end: the left `poll_next` answers `None`
    obtain ⟨ho, hr⟩ := sim.eosR _ _ hs h1 h2 hd
    simp only [Bool.false_eq_true, if_false, if_true]
    unfold trailersCheck
    rcases h3 : S₁.pollNext x.src with ⟨o1, c1⟩
    rw [h3] at ho hr
    simp only at ho hr
    subst ho
    exact same_decodeTrailers H (show Rel R { x with src := c1 } y from ⟨hr, ht, he⟩) enc
  · obtain ⟨ho, hr⟩ := sim.eosL _ _ hs h1 h2 hd
    simp only [Bool.false_eq_true, if_false, if_true]
    unfold trailersCheck
    rcases h3 : S₂.pollNext y.src with ⟨o2, a2⟩
    rw [h3] at ho hr
    simp only at ho hr
    subst ho
    exact same_decodeTrailers H (show Rel R x { y with src := a2 } from ⟨hr, ht, he⟩) enc
  · simp only [if_true]
    exact same_decodeTrailers H ⟨hs, ht, he⟩ enc

theorem same_trailersFirst (sim : FrameSim S₁ S₂ R) (hS : HdrNoData S₂) (H : Hdr) {x : St σ₁} {y : St σ₂}
    (h : Rel R x y) : Same R (trailersFirst S₁ H x) (trailersFirst S₂ H y) := by
  obtain ⟨hs, ht, he⟩ := h
  obtain ⟨ho, hr⟩ := sim.next _ _ hs
  have hlaw := hS y.src
  unfold trailersFirst
  rcases h1 : S₁.pollNext x.src with ⟨o1, c1⟩
  rcases h2 : S₂.pollNext y.src with ⟨o2, a2⟩
  rw [h1, h2] at ho hr
  rw [h2] at hlaw
  simp only at ho hr
  subst ho
  have hrel : Rel R { x with src := c1 } { y with src := a2 } := ⟨hr, ht, he⟩
  cases o1 with
  | frame fr =>
    cases fr with
    | headers enc => exact same_trailersTail sim H hrel (hlaw enc rfl) enc
    | _ => exact same_connErr hrel _
  | none => exact ⟨rfl, hrel⟩
  | pending => exact ⟨rfl, hrel⟩
  | data d => exact ⟨rfl, hrel⟩
  | _ => exact same_fsErr hrel _

theorem same_pollRecvTrailers (sim : FrameSim S₁ S₂ R) (hS : HdrNoData S₂) (H : Hdr) {x : St σ₁} {y : St σ₂}
    (h : Rel R x y) (hinv : y.trailers ≠ none → S₂.hasData y.src = false) :
    Same R (pollRecvTrailers S₁ H x) (pollRecvTrailers S₂ H y) := by
  have hf := same_trailersFirst sim hS H h
  obtain ⟨hs, ht, he⟩ := h
  unfold pollRecvTrailers
  rw [ht]
  cases hy : y.trailers with
  | some enc =>
    exact same_trailersTail sim H (show Rel R { x with trailers := none } { y with trailers := none } from
      ⟨hs, rfl, he⟩) (hinv (by simp [hy])) enc
  | none => exact hf

theorem same_drain (sim : FrameSim S₁ S₂ R) (fuel : Nat) :
    ∀ {x : St σ₁} {y : St σ₂}, Rel R x y →
      (drain S₁ fuel x).1 = (drain S₂ fuel y).1 ∧ Rel R (drain S₁ fuel x).2 (drain S₂ fuel y).2 := by
  induction fuel with
  | zero => intro x y h; exact ⟨rfl, h⟩
  | succ f ih =>
    intro x y h
    obtain ⟨hres, hrel⟩ := same_pollRecvData sim (f + 1) h
    rw [drain, drain]
    rcases h1 : pollRecvData S₁ (f + 1) x with ⟨r1, x1⟩
    rcases h2 : pollRecvData S₂ (f + 1) y with ⟨r2, y1⟩
    rw [h1, h2] at hres hrel
    simp only at hres hrel
    subst hres
    cases r1 with
    | data d =>
      obtain ⟨h3, h4⟩ := ih hrel
      exact ⟨by simp [h3], h4⟩
    | _ => exact ⟨rfl, hrel⟩

theorem same_bodyRun (sim : FrameSim S₁ S₂ R) (hS : HdrNoData S₂) (H : Hdr) (fuel : Nat) {x : St σ₁} {y : St σ₂}
    (h : Rel R x y) (hy : y.trailers = none) : bodyRun S₁ H fuel x = bodyRun S₂ H fuel y := by
  obtain ⟨h1, h2⟩ := same_drain sim fuel h
  unfold bodyRun
  simp only [h1]
  split
  · obtain ⟨h3, _, _, h4⟩ := same_pollRecvTrailers sim hS H h2 (drain_inv S₂ hS fuel y hy)
    simp [h3, h4]
  · simp [h2.2.2]

/-- the documented pattern sees no difference between two frame layers that answer alike -/
theorem same_documented (sim : FrameSim S₁ S₂ R) (hS : HdrNoData S₂) (role : Role) (H : Hdr) (fuel : Nat)
    {x : St σ₁} {y : St σ₂} (h : Rel R x y) (hy : y.trailers = none) :
    documented role S₁ H fuel x = documented role S₂ H fuel y := by
  obtain ⟨hres, hrel⟩ := same_pollHead sim role H h
  have hy1 := pollHead_trailers role S₂ H y
  rw [hy] at hy1
  unfold documented
  rcases h1 : pollHead role S₁ H x with ⟨r1, x1⟩
  rcases h2 : pollHead role S₂ H y with ⟨r2, y1⟩
  rw [h1, h2] at hres hrel
  rw [h2] at hy1
  simp only at hres hrel hy1
  subst hres
  cases r1 with
  | head b => simp only [same_bodyRun sim hS H fuel hrel hy1]
  | _ => simp [hrel.2.2]

end H3.ReqRecv
