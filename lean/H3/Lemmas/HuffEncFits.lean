import H3.Lemmas.HuffEnc
/-! The Huffman ENCODER's machine arithmetic (`u32` positions of `BitWindow`, the reservation
    `(7 * end_range.byte) / 4` in `u32`, `pos.byte + 1`): for a byte string whose coding has `L` bytes with
    `7·L < 2^32` the encoder with every operation checked (`H3.Huffman.hencodeC`) never answers `none` and is
    the model with positions in `Nat` (`hencode`), for both shapes of `put` and every growth policy of `Vec`
    (`hencodeC_eq`); the old shape overflows for every coding of `2^32` bytes or more (`hencodeC_overflow`) and
    at every reservation with `7·byte ≥ 2^32` (`ensureFreeSpaceC_mul_overflow`).  Collected in
    `C15_huffman_encoder_positions_fit`. -/
namespace H3.Huffman
open H3.Bits

/-- behind the three `debug_assert!`s of `write_bits` no subtraction goes below zero, every shift amount is
    below 8 (the width of `u8`) and every index into `PAD_LEFT` / `PAD_RIGHT` is at most 8 -/
theorem writeBits_ops_in_range : ∀ bit < 8, ∀ count < 9, 1 ≤ count →
    (bit + count ≤ 8 → bit ≤ 8 ∧ 8 - bit - count < 8 ∧ bit + count ≤ 8 ∧ 8 - bit ≤ 8 ∧ 8 - count - bit ≤ 8) ∧
    (8 < bit + count → 8 - bit ≤ count ∧ count - (8 - bit) < 8 ∧ count - (8 - bit) ≤ 8 ∧
      8 - (count - (8 - bit)) < 8 ∧ 8 - bit ≤ 8) := by
  intro bit hb count hc h1; omega

theorem forwardsC_of_fits (w : BitWindow) (k : Nat) (h1 : w.bit + w.count < 2 ^ 32)
    (h2 : w.byte + (w.bit + w.count) / 8 < 2 ^ 32) : w.forwardsC k = some (w.forwards k) := by
  simp only [BitWindow.forwardsC, add32, if_pos h1, if_pos h2, BitWindow.forwards]

theorem forwardsC_some (w w' : BitWindow) (k : Nat) (h : w.forwardsC k = some w') :
    w' = w.forwards k ∧ w'.byte < 2 ^ 32 := by
  unfold BitWindow.forwardsC add32 at h
  by_cases h1 : w.bit + w.count < 2 ^ 32
  · rw [if_pos h1] at h
    simp only [] at h
    by_cases h2 : w.byte + (w.bit + w.count) / 8 < 2 ^ 32
    · rw [if_pos h2] at h
      simp only [Option.some.injEq] at h
      subst h
      exact ⟨rfl, h2⟩
    · rw [if_neg h2] at h; cases h
  · rw [if_neg h1] at h; cases h

theorem endRange_byte (w : BitWindow) (cnt : Nat) :
    ((w.forwards cnt).forwards 0).byte = (w.endPos + cnt) / 8 := by
  simp only [BitWindow.forwards, BitWindow.endPos]; omega

theorem reserveC_some (g : Bool) (grow : Nat → Nat → Nat) (cap len byte : Nat)
    (h : g = false → 7 * byte < 2 ^ 32) : ∃ c, reserveC g grow cap len byte = some c := by
  unfold reserveC
  by_cases hc : cap ≤ byte
  · rw [if_pos hc]
    cases g with
    | true => exact ⟨_, rfl⟩
    | false =>
      have := h rfl
      simp only [Bool.false_eq_true, if_false, mul32, if_pos this]
      exact ⟨_, rfl⟩
  · rw [if_neg hc]; exact ⟨_, rfl⟩

/-- `ensure_free_space`: nothing overflows as long as the byte position behind the symbol fits `u32` and
    (old shape) seven times it does -/
theorem ensureFreeSpaceC_eq (g : Bool) (grow : Nat → Nat → Nat) (e : EncoderC) (cnt : Nat)
    (hb : e.pos.bit < 8) (hc : e.pos.count ≤ 8) (hcnt : cnt ≤ 30)
    (hfit : (e.pos.endPos + cnt) / 8 < 2 ^ 32)
    (hmul : g = false → 7 * ((e.pos.endPos + cnt) / 8) < 2 ^ 32) :
    ∃ e', ensureFreeSpaceC g grow e cnt = some e' ∧ e'.toE = ensureFreeSpace e.toE cnt ∧ e'.pos = e.pos := by
  have hE := endRange_byte e.pos cnt
  have hfit' := hfit
  simp only [BitWindow.endPos] at hfit'
  have f1 : e.pos.forwardsC cnt = some (e.pos.forwards cnt) :=
    forwardsC_of_fits _ _ (by omega) (by omega)
  have f2 : (e.pos.forwards cnt).forwardsC 0 = some ((e.pos.forwards cnt).forwards 0) := by
    apply forwardsC_of_fits
    · simp only [BitWindow.forwards]; omega
    · simp only [BitWindow.forwards]; omega
  unfold ensureFreeSpaceC
  rw [f1]; simp only []; rw [f2]; simp only []
  unfold ensureFreeSpace EncoderC.toE
  simp only []
  by_cases hg : e.buffer.length > ((e.pos.forwards cnt).forwards 0).byte
  · rw [if_pos hg, if_pos hg]; exact ⟨e, rfl, rfl, rfl⟩
  · rw [if_neg hg, if_neg hg]
    obtain ⟨c, hcap⟩ := reserveC_some g grow e.cap e.buffer.length ((e.pos.forwards cnt).forwards 0).byte
      (by rw [hE]; exact hmul)
    rw [hcap]
    exact ⟨_, rfl, rfl, rfl⟩

/-- old shape: the reservation overflows as soon as it is computed for a byte position of `2^32 / 7` or more -/
theorem ensureFreeSpaceC_mul_overflow (grow : Nat → Nat → Nat) (e : EncoderC) (cnt : Nat)
    (hlen : e.buffer.length ≤ (e.pos.endPos + cnt) / 8) (hcap : e.cap ≤ (e.pos.endPos + cnt) / 8)
    (hbig : 2 ^ 32 ≤ 7 * ((e.pos.endPos + cnt) / 8)) :
    ensureFreeSpaceC false grow e cnt = none := by
  unfold ensureFreeSpaceC
  cases h1 : e.pos.forwardsC cnt with
  | none => rfl
  | some w1 =>
    simp only []
    cases h2 : w1.forwardsC 0 with
    | none => rfl
    | some w2 =>
      simp only []
      obtain ⟨rfl, _⟩ := forwardsC_some _ _ _ h1
      obtain ⟨rfl, _⟩ := forwardsC_some _ _ _ h2
      rw [endRange_byte]
      rw [if_neg (by omega)]
      have : reserveC false grow e.cap e.buffer.length ((e.pos.endPos + cnt) / 8) = none := by
        unfold reserveC
        rw [if_pos hcap]
        simp only [Bool.false_eq_true, if_false, mul32, if_neg (by omega : ¬ 7 * ((e.pos.endPos + cnt) / 8) < 2 ^ 32)]
      rw [this]

/-- if `ensure_free_space` gets through, the byte position behind the symbol fits `u32` -/
theorem ensureFreeSpaceC_some (g : Bool) (grow : Nat → Nat → Nat) (e e' : EncoderC) (cnt : Nat)
    (h : ensureFreeSpaceC g grow e cnt = some e') : (e.pos.endPos + cnt) / 8 < 2 ^ 32 := by
  unfold ensureFreeSpaceC at h
  cases h1 : e.pos.forwardsC cnt with
  | none => rw [h1] at h; cases h
  | some w1 =>
    rw [h1] at h
    simp only [] at h
    cases h2 : w1.forwardsC 0 with
    | none => rw [h2] at h; cases h
    | some w2 =>
      obtain ⟨rfl, _⟩ := forwardsC_some _ _ _ h1
      obtain ⟨rfl, hlt⟩ := forwardsC_some _ _ _ h2
      rw [endRange_byte] at hlt
      exact hlt

theorem writeBitsC_eq (out : List Nat) (pos : BitWindow) (v : Nat) (h : pos.byte + 1 < 2 ^ 32) :
    writeBitsC out pos v = writeBits out pos v := by
  unfold writeBitsC
  by_cases hg : ¬ (pos.bit < 8 ∧ pos.count ≤ 8 ∧ pos.count > 0)
  · rw [if_pos hg]; unfold writeBits; rw [if_pos hg]
  · rw [if_neg hg]
    have h1 : pos.bit + pos.count < 2 ^ 32 := by omega
    simp only [add32, if_pos h1, if_pos h]
    split <;> rfl

/-- the loop of `put`: nothing overflows while the byte position behind the symbol, plus one, fits `u32` -/
theorem putPartsC_eq (ps : List Nat) : ∀ (rest : Nat) (e : EncoderC), e.pos.bit < 8 → e.pos.count ≤ 8 →
    (e.pos.endPos + rest) / 8 + 1 < 2 ^ 32 →
    (putPartsC ps rest e).map EncoderC.toE = putParts ps rest e.toE ∧
    ∀ e', putPartsC ps rest e = some e' → e'.cap = e.cap := by
  induction ps with
  | nil => intro rest e _ _ _; exact ⟨rfl, fun e' h => by cases h; rfl⟩
  | cons p ps ih =>
    intro rest e hb hc hfit
    simp only [BitWindow.endPos] at hfit
    generalize hk : (if rest < 8 then rest else 8) = k
    have hk8 : k ≤ 8 := by split at hk <;> omega
    have hkr : k ≤ rest := by split at hk <;> omega
    have f1 : e.pos.forwardsC k = some (e.pos.forwards k) :=
      forwardsC_of_fits _ _ (by omega) (by omega)
    unfold putPartsC putParts
    simp only [hk, EncoderC.toE]
    rw [f1]
    have hcnt : (e.pos.forwards k).count = k := rfl
    simp only [hcnt, subU, if_pos hkr]
    have hby : (e.pos.forwards k).byte + 1 < 2 ^ 32 := by
      simp only [BitWindow.forwards]; omega
    rw [writeBitsC_eq _ _ _ hby]
    cases hw : writeBits e.buffer (e.pos.forwards k) p with
    | none => exact ⟨rfl, fun e' h => by cases h⟩
    | some buf =>
      simp only []
      have := ih (rest - k) { e with pos := e.pos.forwards k, buffer := buf }
        (by simp only [BitWindow.forwards]; omega) (by simp only [BitWindow.forwards]; omega)
        (by simp only [BitWindow.forwards, BitWindow.endPos]; omega)
      exact ⟨this.1, fun e' h => this.2 e' h⟩

/-- the last window of `put_parts` is at most 8 bits wide -/
theorem putParts_count (ps : List Nat) : ∀ (rest : Nat) (e e' : Encoder), e.pos.count ≤ 8 →
    putParts ps rest e = some e' → e'.pos.count ≤ 8 := by
  induction ps with
  | nil => intro rest e e' hc h; cases h; exact hc
  | cons p ps ih =>
    intro rest e e' hc h
    unfold putParts at h
    simp only [] at h
    cases hw : writeBits e.buffer (e.pos.forwards (if rest < 8 then rest else 8)) p with
    | none => rw [hw] at h; cases h
    | some buf =>
      rw [hw] at h
      refine ih _ _ e' ?_ h
      simp only [BitWindow.forwards]
      split <;> omega

theorem ensureFreeSpace_pos (e : Encoder) (cnt : Nat) : (ensureFreeSpace e cnt).pos = e.pos := by
  unfold ensureFreeSpace
  simp only []
  split <;> rfl

theorem put_count (e e' : Encoder) (c : Nat) (hc : e.pos.count ≤ 8) (h : put e c = some e') :
    e'.pos.count ≤ 8 := by
  unfold put at h
  cases hr : H3.Gen.HuffEnc.raw[c]? with
  | none => rw [hr] at h; cases h
  | some row =>
    obtain ⟨cnt, parts⟩ := row
    rw [hr] at h
    exact putParts_count parts cnt _ e' (by rw [ensureFreeSpace_pos]; exact hc) h

theorem raw_cnt_le : ∀ c < 256, ∀ row, H3.Gen.HuffEnc.raw[c]? = some row → row.1 ≤ 30 := by decide +kernel

/-- one `put` from a state of the invariant, every operation checked: the same state as with positions in
    `Nat`, as long as the byte position behind the symbol, plus one, fits `u32`, (old shape) seven times it does,
    and (repaired shape) `put` does not refuse -/
theorem putC_core (g : Bool) (grow : Nat → Nat → Nat) (ec : EncoderC) (bits : List Bool) (c : Nat)
    (hc : c < 256) (hI : Inv₀ ec.toE bits) (hcount : ec.pos.count ≤ 8)
    (hfit : (bits.length + (codeT c).length) / 8 + 1 < 2 ^ 32)
    (hmul : g = false → 7 * ((bits.length + (codeT c).length) / 8) < 2 ^ 32)
    (hnr : putRefuses g ec = false) :
    ∃ ec', putC g grow ec c = some (some ec') ∧ put ec.toE c = some ec'.toE ∧
      Inv₀ ec'.toE (bits ++ codeT c) ∧ ec'.pos.count ≤ 8 := by
  obtain ⟨cnt, parts, hraw, hok, hbits, hl⟩ := raw_row c hc
  obtain ⟨e', hput, hI'⟩ := put_inv ec.toE bits c hc hI
  have hcnt30 : cnt ≤ 30 := raw_cnt_le c hc (cnt, parts) hraw
  have hpos : ec.pos.endPos = bits.length := hI.1.pos
  have hbit : ec.pos.bit < 8 := hI.1.bit
  rw [hl] at hfit hmul
  obtain ⟨e1, h1, h1e, h1p⟩ := ensureFreeSpaceC_eq g grow ec cnt hbit hcount hcnt30 (by rw [hpos]; omega)
    (fun hg => by rw [hpos]; exact hmul hg)
  have hpp := putPartsC_eq parts cnt e1 (by rw [h1p]; exact hbit) (by rw [h1p]; exact hcount)
    (by rw [h1p, hpos]; omega)
  have hput' : putParts parts cnt e1.toE = some e' := by
    rw [h1e]; unfold put at hput; rw [hraw] at hput; exact hput
  rw [hput'] at hpp
  cases hq : putPartsC parts cnt e1 with
  | none => rw [hq] at hpp; cases hpp.1
  | some ec' =>
    rw [hq] at hpp
    have he' : ec'.toE = e' := by simpa using hpp.1
    refine ⟨ec', ?_, ?_, ?_, ?_⟩
    · unfold putC
      rw [hraw]
      simp only [hnr, Bool.false_eq_true, if_false, h1, hq, Option.map_some]
    · rw [he']; exact hput
    · rw [he']; exact hI'
    · have := put_count ec.toE e' c hcount hput
      rw [← he'] at this; exact this

/-- … in particular while the coding so far and this symbol end within `M` bytes with `7·M < 2^32` -/
theorem putC_eq (g : Bool) (grow : Nat → Nat → Nat) (ec : EncoderC) (bits : List Bool) (c M : Nat)
    (hc : c < 256) (hI : Inv₀ ec.toE bits) (hcount : ec.pos.count ≤ 8)
    (hM : 7 * M < 2 ^ 32) (hlen : bits.length + (codeT c).length ≤ 8 * M) :
    ∃ ec', putC g grow ec c = some (some ec') ∧ put ec.toE c = some ec'.toE ∧
      Inv₀ ec'.toE (bits ++ codeT c) ∧ ec'.pos.count ≤ 8 := by
  apply putC_core g grow ec bits c hc hI hcount (by omega) (fun _ => by omega)
  have : 8 * ec.pos.byte ≤ 8 * M := by
    have := hI.1.pos; simp only [EncoderC.toE] at this; omega
  simp only [putRefuses, Bool.and_eq_false_imp, decide_eq_false_iff_not]
  intro _; omega

/-- the repaired `put` never overflows: it refuses, or the positions fit -/
theorem putC_repaired (grow : Nat → Nat → Nat) (ec : EncoderC) (bits : List Bool) (c : Nat)
    (hc : c < 256) (hI : Inv₀ ec.toE bits) (hcount : ec.pos.count ≤ 8) :
    putC true grow ec c = some none ∨
    ∃ ec', putC true grow ec c = some (some ec') ∧ put ec.toE c = some ec'.toE ∧
      Inv₀ ec'.toE (bits ++ codeT c) ∧ ec'.pos.count ≤ 8 := by
  cases hr : putRefuses true ec with
  | true =>
    left
    obtain ⟨cnt, parts, hraw, _, _, _⟩ := raw_row c hc
    unfold putC
    rw [hraw]
    simp only [hr, if_true]
  | false =>
    right
    obtain ⟨cnt, parts, hraw, _, _, hl⟩ := raw_row c hc
    have hcnt30 : cnt ≤ 30 := raw_cnt_le c hc (cnt, parts) hraw
    have hpos := hI.1.pos
    have hbit := hI.1.bit
    simp only [EncoderC.toE] at hpos hbit
    have hbyte : ec.pos.byte ≤ 2 ^ 32 - 1 - 8 := by
      simp only [putRefuses, Bool.true_and, decide_eq_false_iff_not] at hr
      omega
    exact putC_core true grow ec bits c hc hI hcount (by rw [hl]; omega) (fun h => by cases h) hr

theorem putAllC_repaired (grow : Nat → Nat → Nat) :
    ∀ (s : List Nat) (ec : EncoderC) (bits : List Bool), (∀ b ∈ s, b < 256) → Inv₀ ec.toE bits →
      ec.pos.count ≤ 8 →
      putAllC true grow s ec = some .tooLong ∨
      ∃ e', putAll s ec.toE = some e' ∧ putAllC true grow s ec = some (.ok e'.buffer)
  | [], ec, _, _, _, _ => Or.inr ⟨ec.toE, rfl, rfl⟩
  | c :: s, ec, bits, hs, hI, hcount => by
    rcases putC_repaired grow ec bits c (hs c List.mem_cons_self) hI hcount with h | ⟨ec', h1, h2, hI', hc'⟩
    · left; unfold putAllC; rw [h]
    · rcases putAllC_repaired grow s ec' (bits ++ codeT c) (fun b hb => hs b (List.mem_cons_of_mem _ hb)) hI' hc'
        with h | ⟨e', h3, h4⟩
      · left; unfold putAllC; rw [h1]; exact h
      · right
        refine ⟨e', ?_, ?_⟩
        · unfold putAll; rw [h2]; exact h3
        · unfold putAllC; rw [h1]; exact h4

/-- MAIN (repaired shape): on EVERY byte string no machine operation of the repaired encoder overflows: it answers
    `Err` (`tooLong`) or `Ok` of the model's bytes. -/
theorem hencodeC_repaired (grow : Nat → Nat → Nat) (s : List Nat) (hs : ∀ b ∈ s, b < 256) :
    hencodeC true grow s = some .tooLong ∨ hencodeC true grow s = some (.ok (hencode s)) := by
  have h0 : Inv₀ (EncoderC.toE ⟨⟨0, 0, 0⟩, [], 0⟩) [] :=
    ⟨⟨rfl, by decide, by simp [EncoderC.toE], by simp [EncoderC.toE, pack_nil]⟩, rfl⟩
  rcases putAllC_repaired grow s ⟨⟨0, 0, 0⟩, [], 0⟩ [] hs h0 (by simp) with h | ⟨e', h1, h2⟩
  · exact Or.inl h
  · right
    have hb : hencode s = e'.buffer := by
      unfold hencode hencode?
      have : putAll s ⟨⟨0, 0, 0⟩, []⟩ = some e' := h1
      rw [this]; rfl
    unfold hencodeC
    rw [h2, hb]

theorem putAllC_eq (g : Bool) (grow : Nat → Nat → Nat) (M : Nat) (hM : 7 * M < 2 ^ 32) :
    ∀ (s : List Nat) (ec : EncoderC) (bits : List Bool), (∀ b ∈ s, b < 256) → Inv₀ ec.toE bits →
      ec.pos.count ≤ 8 → bits.length + (encT s).length ≤ 8 * M →
      ∃ e', putAll s ec.toE = some e' ∧ putAllC g grow s ec = some (.ok e'.buffer)
  | [], ec, _, _, _, _, _ => ⟨ec.toE, rfl, rfl⟩
  | c :: s, ec, bits, hs, hI, hcount, hlen => by
    simp only [encT, List.length_append] at hlen
    obtain ⟨ec', h1, h2, hI', hc'⟩ := putC_eq g grow ec bits c M (hs c List.mem_cons_self) hI hcount hM
      (by omega)
    obtain ⟨e', h3, h4⟩ := putAllC_eq g grow M hM s ec' (bits ++ codeT c)
      (fun b hb => hs b (List.mem_cons_of_mem _ hb)) hI' hc' (by simp only [List.length_append]; omega)
    refine ⟨e', ?_, ?_⟩
    · unfold putAll; rw [h2]; exact h3
    · unfold putAllC; rw [h1]; exact h4

/-- MAIN (positive half): for a byte string whose coding has `L` bytes with `7·L < 2^32`, no machine operation of
    the Huffman encoder overflows — whichever of the two shapes `put` has, however `Vec` grows — and the checked
    encoder is the model with positions in `Nat`. -/
theorem hencodeC_eq (g : Bool) (grow : Nat → Nat → Nat) (s : List Nat) (hs : ∀ b ∈ s, b < 256)
    (hfit : 7 * (hencode s).length < 2 ^ 32) : hencodeC g grow s = some (.ok (hencode s)) := by
  have h0 : Inv₀ (EncoderC.toE ⟨⟨0, 0, 0⟩, [], 0⟩) [] :=
    ⟨⟨rfl, by decide, by simp [EncoderC.toE], by simp [EncoderC.toE, pack_nil]⟩, rfl⟩
  have hL : (hencode s).length = ((encT s).length + 7) / 8 := by
    rw [hencode_eq s hs, length_pack]
  obtain ⟨e', h1, h2⟩ := putAllC_eq g grow (hencode s).length hfit s ⟨⟨0, 0, 0⟩, [], 0⟩ [] hs h0
    (by simp) (by simp only [List.length_nil]; omega)
  have hb : hencode s = e'.buffer := by
    unfold hencode hencode?
    have : putAll s ⟨⟨0, 0, 0⟩, []⟩ = some e' := h1
    rw [this]; rfl
  unfold hencodeC
  rw [h2, hb]

/-! ### the bound is needed (old shape) -/

theorem writeBitsC_some (out : List Nat) (pos : BitWindow) (v : Nat) (b : List Nat)
    (h : writeBitsC out pos v = some b) : writeBits out pos v = some b := by
  unfold writeBitsC at h
  by_cases hg : ¬ (pos.bit < 8 ∧ pos.count ≤ 8 ∧ pos.count > 0)
  · rw [if_pos hg] at h; cases h
  · rw [if_neg hg] at h
    unfold add32 at h
    by_cases h1 : pos.bit + pos.count < 2 ^ 32
    · rw [if_pos h1] at h
      simp only [] at h
      by_cases h2 : pos.bit + pos.count ≤ 8
      · rw [if_pos h2] at h; exact h
      · rw [if_neg h2] at h
        by_cases h3 : pos.byte + 1 < 2 ^ 32
        · rw [if_pos h3] at h; exact h
        · rw [if_neg h3] at h; cases h
    · rw [if_neg h1] at h; cases h

theorem putPartsC_some (ps : List Nat) : ∀ (rest : Nat) (e e' : EncoderC),
    putPartsC ps rest e = some e' → putParts ps rest e.toE = some e'.toE := by
  induction ps with
  | nil => intro rest e e' h; cases h; rfl
  | cons p ps ih =>
    intro rest e e' h
    unfold putPartsC at h
    cases hf : e.pos.forwardsC (if rest < 8 then rest else 8) with
    | none => rw [hf] at h; cases h
    | some pos =>
      rw [hf] at h
      simp only [] at h
      obtain ⟨rfl, _⟩ := forwardsC_some _ _ _ hf
      unfold subU at h
      by_cases hr : (e.pos.forwards (if rest < 8 then rest else 8)).count ≤ rest
      · rw [if_pos hr] at h
        simp only [] at h
        cases hw : writeBitsC e.buffer (e.pos.forwards (if rest < 8 then rest else 8)) p with
        | none => rw [hw] at h; cases h
        | some buf =>
          rw [hw] at h
          simp only [] at h
          unfold putParts
          simp only [EncoderC.toE]
          rw [writeBitsC_some _ _ _ _ hw]
          exact ih _ _ _ h
      · rw [if_neg hr] at h; cases h

/-- old shape: a `put` that gets through has computed a byte position that fits `u32`, and is the `put` with
    positions in `Nat` -/
theorem putC_some (grow : Nat → Nat → Nat) (ec : EncoderC) (c : Nat) (r : Option EncoderC)
    (h : putC false grow ec c = some r) :
    ∃ ec' cnt parts, r = some ec' ∧ H3.Gen.HuffEnc.raw[c]? = some (cnt, parts) ∧
      put ec.toE c = some ec'.toE ∧ (ec.pos.endPos + cnt) / 8 < 2 ^ 32 := by
  unfold putC at h
  cases hr : H3.Gen.HuffEnc.raw[c]? with
  | none => rw [hr] at h; cases h
  | some row =>
    obtain ⟨cnt, parts⟩ := row
    rw [hr] at h
    simp only [putRefuses, Bool.false_and, Bool.false_eq_true, if_false] at h
    cases he : ensureFreeSpaceC false grow ec cnt with
    | none => rw [he] at h; cases h
    | some e1 =>
      rw [he] at h
      simp only [] at h
      have hfit := ensureFreeSpaceC_some false grow ec e1 cnt he
      cases hp : putPartsC parts cnt e1 with
      | none => rw [hp] at h; cases h
      | some ec' =>
        rw [hp] at h
        simp only [Option.map_some, Option.some.injEq] at h
        refine ⟨ec', cnt, parts, h.symm, rfl, ?_, hfit⟩
        have h1 : e1.toE = ensureFreeSpace ec.toE cnt := by
          -- the checked `ensure_free_space` that got through is the unchecked one
          unfold ensureFreeSpaceC at he
          cases h1 : ec.pos.forwardsC cnt with
          | none => rw [h1] at he; cases he
          | some w1 =>
            rw [h1] at he
            simp only [] at he
            cases h2 : w1.forwardsC 0 with
            | none => rw [h2] at he; cases he
            | some w2 =>
              rw [h2] at he
              simp only [] at he
              obtain ⟨rfl, _⟩ := forwardsC_some _ _ _ h1
              obtain ⟨rfl, _⟩ := forwardsC_some _ _ _ h2
              unfold ensureFreeSpace EncoderC.toE
              simp only []
              by_cases hg : ec.buffer.length > ((ec.pos.forwards cnt).forwards 0).byte
              · rw [if_pos hg] at he; rw [if_pos hg]; cases he; rfl
              · rw [if_neg hg] at he; rw [if_neg hg]
                cases hc : reserveC false grow ec.cap ec.buffer.length ((ec.pos.forwards cnt).forwards 0).byte with
                | none => rw [hc] at he; cases he
                | some cap => rw [hc] at he; cases he; rfl
        unfold put
        rw [hr]
        simp only []
        rw [← h1]
        exact putPartsC_some parts cnt e1 ec' hp

theorem putAllC_some (grow : Nat → Nat → Nat) : ∀ (s : List Nat) (ec : EncoderC) (bits : List Bool) (r : EncOut),
    (∀ b ∈ s, b < 256) → Inv₀ ec.toE bits → s ≠ [] → putAllC false grow s ec = some r →
      (bits.length + (encT s).length) / 8 < 2 ^ 32
  | [], _, _, _, _, _, hne, _ => absurd rfl hne
  | c :: s, ec, bits, r, hs, hI, _, h => by
    unfold putAllC at h
    cases hp : putC false grow ec c with
    | none => rw [hp] at h; cases h
    | some r1 =>
      obtain ⟨ec', cnt, parts, rfl, hraw, hput, hfit⟩ := putC_some grow ec c r1 hp
      rw [hp] at h
      simp only [] at h
      have hc : c < 256 := hs c List.mem_cons_self
      obtain ⟨cnt', parts', hraw', _, _, hl⟩ := raw_row c hc
      rw [hraw] at hraw'
      simp only [Option.some.injEq, Prod.mk.injEq] at hraw'
      obtain ⟨rfl, rfl⟩ := hraw'
      obtain ⟨e', hput', hI'⟩ := put_inv ec.toE bits c hc hI
      rw [hput] at hput'
      simp only [Option.some.injEq] at hput'
      have hpos : ec.pos.endPos = bits.length := hI.1.pos
      cases s with
      | nil =>
        simp only [encT, List.append_nil]
        rw [hl, ← hpos]; exact hfit
      | cons d s' =>
        have := putAllC_some grow (d :: s') ec' (bits ++ codeT c) r
          (fun b hb => hs b (List.mem_cons_of_mem _ hb)) (hput' ▸ hI') (by simp) h
        simp only [encT, List.length_append] at this ⊢
        omega

/-- MAIN (negative half): the old shape overflows on EVERY byte string whose coding is longer than `2^32` bytes —
    `self.byte += self.bit / 8` in `BitWindow::forwards` at the latest, whatever `Vec` does. -/
theorem hencodeC_overflow (grow : Nat → Nat → Nat) (s : List Nat) (hs : ∀ b ∈ s, b < 256)
    (hbig : 2 ^ 32 < (hencode s).length) : hencodeC false grow s = none := by
  have hL : (hencode s).length = ((encT s).length + 7) / 8 := by
    rw [hencode_eq s hs, length_pack]
  have h0 : Inv₀ (EncoderC.toE ⟨⟨0, 0, 0⟩, [], 0⟩) [] :=
    ⟨⟨rfl, by decide, by simp [EncoderC.toE], by simp [EncoderC.toE, pack_nil]⟩, rfl⟩
  have hne : s ≠ [] := by
    intro h; subst h
    simp only [encT, List.length_nil] at hL
    omega
  cases h : hencodeC false grow s with
  | none => rfl
  | some r =>
    have := putAllC_some grow s _ [] r hs h0 hne h
    simp only [List.length_nil] at this
    omega

end H3.Huffman
