import H3.Model.E2E
import H3.Lemmas.Headers
import H3.Props.C11Closed
/-! The field section of a message, there and back: what `Header::try_from` and
    `into_request_parts` / `into_response_parts` / `into_trailers` make of the very field list
    `Header::{request,response,trailer}` hands to the QPACK encoder (the completeness direction
    that C12's soundness theorems do not state), and what `decode_stateless` makes of h3's own
    `encode_stateless` output (C10/C11). -/
namespace H3.E2E
open H3.Headers
open H3.Spec.Headers (optField)

/-! ### the application's `HeaderMap` -/

def addStep (m : HeaderMap) (f : FieldLine) : HeaderMap := hmAppend m f.1 f.2

theorem mapOf_eq (l : List FieldLine) : mapOf l = l.foldl addStep [] := rfl

/-- distinct names, no empty group (what `http::HeaderMap` guarantees) -/
def HMOk (m : HeaderMap) : Prop := hmWF m ∧ ∀ g ∈ m, g.2 ≠ []

theorem hmAppend_nonempty (m : HeaderMap) (n v : Bytes) (h : ∀ g ∈ m, g.2 ≠ []) :
    ∀ g ∈ hmAppend m n v, g.2 ≠ [] := by
  induction m with
  | nil => intro g hg; simp [hmAppend] at hg; subst hg; simp
  | cons g0 r ih =>
    obtain ⟨k, vs⟩ := g0
    intro g hg
    unfold hmAppend at hg
    split at hg
    · simp only [List.mem_cons] at hg
      rcases hg with rfl | hg
      · simp
      · exact h g (by simp [hg])
    · simp only [List.mem_cons] at hg
      rcases hg with rfl | hg
      · exact h _ (by simp)
      · exact ih (fun x hx => h x (by simp [hx])) g hg

theorem hmOk_append (m : HeaderMap) (n v : Bytes) (h : HMOk m) : HMOk (hmAppend m n v) :=
  ⟨hmWF_append m n v h.1, hmAppend_nonempty m n v h.2⟩

theorem hmOk_foldl (l : List FieldLine) : ∀ acc, HMOk acc → HMOk (l.foldl addStep acc) := by
  induction l with
  | nil => intro acc h; exact h
  | cons f r ih => intro acc h; exact ih _ (hmOk_append acc f.1 f.2 h)

theorem hmOk_mapOf (l : List FieldLine) : HMOk (mapOf l) :=
  hmOk_foldl l [] ⟨by simp [hmWF], by simp⟩

theorem hmGroup_foldl (n : Bytes) (l : List FieldLine) : ∀ acc,
    hmGroup (l.foldl addStep acc) n = hmGroup acc n ++ (l.filter (fun f => f.1 = n)).map (·.2) := by
  induction l with
  | nil => intro acc; simp
  | cons f r ih =>
    intro acc
    simp only [List.foldl_cons, ih, addStep, hmGroup_append]
    by_cases hf : f.1 = n
    · simp [hf]
    · simp [hf]

/-- **per-name order**: the values the map iterates for a name are the submitted ones, in the
    submitted order -/
theorem hmIter_mapOf_filter (l : List FieldLine) (n : Bytes) :
    (hmIter (mapOf l)).filter (fun f => f.1 = n) = l.filter (fun f => f.1 = n) := by
  rw [hmIter_filter _ (hmOk_mapOf l).1, mapOf_eq, hmGroup_foldl]
  simp only [hmGroup, List.nil_append, List.map_map]
  have : ∀ l' : List FieldLine, (∀ f ∈ l', f.1 = n) →
      l'.map ((fun v => (n, v)) ∘ fun x => x.2) = l' := by
    intro l' h
    induction l' with
    | nil => rfl
    | cons f r ih =>
      have hf := h f (by simp)
      obtain ⟨a, b⟩ := f
      simp only at hf
      subst hf
      simp [ih (fun x hx => h x (by simp [hx]))]
  apply this
  intro f hf
  simpa using (List.mem_filter.mp hf).2

theorem hmAppend_new (m : HeaderMap) (n v : Bytes) (h : n ∉ m.map (·.1)) :
    hmAppend m n v = m ++ [(n, [v])] := by
  induction m with
  | nil => rfl
  | cons g r ih =>
    obtain ⟨k, vs⟩ := g
    simp only [List.map_cons, List.mem_cons, not_or] at h
    have hk : ¬ k = n := fun e => h.1 e.symm
    simp [hmAppend, hk, ih h.2]

theorem hmAppend_last (acc : HeaderMap) (n : Bytes) (vs : List Bytes) (v : Bytes)
    (h : n ∉ acc.map (·.1)) : hmAppend (acc ++ [(n, vs)]) n v = acc ++ [(n, vs ++ [v])] := by
  induction acc with
  | nil => simp [hmAppend]
  | cons g r ih =>
    obtain ⟨k, ws⟩ := g
    simp only [List.map_cons, List.mem_cons, not_or] at h
    have hk : ¬ k = n := fun e => h.1 e.symm
    simp [hmAppend, hk, ih h.2]

theorem foldl_group (acc : HeaderMap) (k : Bytes) (hk : k ∉ acc.map (·.1)) (vs : List Bytes) :
    ∀ vs0, (vs.map (fun v => (k, v))).foldl addStep (acc ++ [(k, vs0)]) = acc ++ [(k, vs0 ++ vs)] := by
  induction vs with
  | nil => intro vs0; simp
  | cons v r ih =>
    intro vs0
    simp only [List.map_cons, List.foldl_cons, addStep]
    rw [hmAppend_last acc k vs0 v hk, ih]
    simp

/-- re-inserting the entries of a map in iteration order rebuilds the map -/
theorem foldl_hmIter (M : HeaderMap) : ∀ acc, HMOk M → (∀ g ∈ M, g.1 ∉ acc.map (·.1)) →
    (hmIter M).foldl addStep acc = acc ++ M := by
  induction M with
  | nil => intro acc _ _; simp [hmIter]
  | cons g r ih =>
    obtain ⟨k, vs⟩ := g
    intro acc hM hd
    have hk : k ∉ acc.map (·.1) := hd (k, vs) (by simp)
    have hvs : vs ≠ [] := hM.2 (k, vs) (by simp)
    have hnd := List.nodup_cons.mp hM.1
    have hr : HMOk r := ⟨hnd.2, fun x hx => hM.2 x (by simp [hx])⟩
    obtain ⟨v, vs', rfl⟩ := List.exists_cons_of_ne_nil hvs
    simp only [hmIter, List.foldl_append, List.map_cons, List.foldl_cons, addStep]
    rw [hmAppend_new acc k v hk, foldl_group acc k hk vs' [v]]
    rw [ih (acc ++ [(k, [v] ++ vs')]) hr]
    · simp
    · intro x hx
      simp only [List.map_append, List.map_cons, List.map_nil, List.mem_append, List.mem_singleton, not_or]
      refine ⟨hd x (by simp [hx]), ?_⟩
      intro e
      exact hnd.1 (List.mem_map.mpr ⟨x, hx, e⟩)

theorem foldl_hmIter_mapOf (l : List FieldLine) : (hmIter (mapOf l)).foldl addStep [] = mapOf l := by
  simpa using foldl_hmIter (mapOf l) [] (hmOk_mapOf l) (by simp)

/-! ### `Header::try_from` on the list a `Header` iterates -/

theorem tryFromLoop_append (H : Http) (a b : List FieldLine) : ∀ h,
    tryFromLoop H h (a ++ b) = (tryFromLoop H h a).bind (fun h' => tryFromLoop H h' b) := by
  induction a with
  | nil => intro h; rfl
  | cons f r ih =>
    intro h
    obtain ⟨n, v⟩ := f
    simp only [List.cons_append, tryFromLoop]
    cases Field.parse H n v with
    | ok fld =>
      simp only
      split
      · unfold mapFull; split <;> rfl
      · exact ih _
    | err e => rfl
    | panic => rfl

/-- a regular field as `Field::parse` accepts it -/
def RegularOk (f : FieldLine) : Prop := nameAccepted f.1 = true ∧ validValue f.2 = true

theorem nameAccepted_facts {n : Bytes} (h : nameAccepted n = true) :
    n.isEmpty = false ∧ isPseudoName n = false := by
  have hf : fromLowercase n = true := by
    simp only [nameAccepted, Bool.and_eq_true] at h; exact h.2
  simp only [fromLowercase, Bool.and_eq_true, Bool.not_eq_true', decide_eq_true_eq] at hf
  refine ⟨hf.1.1, ?_⟩
  cases n with
  | nil => simp at hf
  | cons b r =>
    have hb : isH2NameByte b = true := by
      have := hf.2
      simp only [List.all_cons, Bool.and_eq_true] at this
      exact this.1
    simp only [isPseudoName, List.head?_cons, colon]
    by_cases hb58 : b = 58
    · subst hb58; simp [isH2NameByte, isLowerTok] at hb
    · simp [hb58]

theorem parse_regular (H : Http) (f : FieldLine) (h : RegularOk f) :
    Field.parse H f.1 f.2 = .ok (.header f.1 f.2) := by
  obtain ⟨h1, h2⟩ := h
  obtain ⟨he, hp⟩ := nameAccepted_facts h1
  simp [Field.parse, he, hp, h1, h2]

/-! ### the capacity of the map: the sender's `append`s and the receiver's -/

theorem fillFrom_some (l : List FieldLine) : ∀ (m M : HeaderMap), fillFrom m l = some M →
    M = l.foldl addStep m := by
  induction l with
  | nil => intro m M h; simp only [fillFrom, Option.some.injEq] at h; exact h.symm
  | cons f r ih =>
    intro m M h
    simp only [fillFrom, hmTryAppend] at h
    split at h
    · rename_i m' hm'
      split at hm'
      · cases hm'; exact ih _ _ h
      · cases hm'
    · cases h

theorem holdable_mapOf {l : List FieldLine} (h : Holdable l) : fillFrom [] l = some (mapOf l) := by
  unfold Holdable at h
  cases e : fillFrom [] l with
  | none => rw [e] at h; cases h
  | some M => rw [fillFrom_some l [] M e]; rfl

/-- a full map ends with a name that has a single value (it was the last `append`) -/
def Tight (m : HeaderMap) : Prop :=
  m.length = hmMaxEntries → ∃ m' k v, m = m' ++ [(k, [v])]

theorem hmAppend_old (m : HeaderMap) (n v : Bytes) (h : n ∈ m.map (·.1)) :
    (hmAppend m n v).length = m.length := by
  have := congrArg List.length (hmAppend_keys m n v)
  simp only [List.length_map, if_pos h] at this
  exact this

theorem fillFrom_tight (l : List FieldLine) : ∀ (m M : HeaderMap), Tight m → m.length ≤ hmMaxEntries →
    fillFrom m l = some M → Tight M ∧ M.length ≤ hmMaxEntries := by
  induction l with
  | nil => intro m M ht hc h; simp only [fillFrom, Option.some.injEq] at h; subst h; exact ⟨ht, hc⟩
  | cons f r ih =>
    intro m M ht hc h
    simp only [fillFrom, hmTryAppend] at h
    split at h
    · rename_i m' hm'
      split at hm'
      · rename_i hlt
        cases hm'
        refine ih _ _ ?_ ?_ h
        · by_cases hin : f.1 ∈ m.map (·.1)
          · intro hlen; rw [hmAppend_old m f.1 f.2 hin] at hlen; omega
          · intro _; exact ⟨m, f.1, f.2, hmAppend_new m f.1 f.2 hin⟩
        · have := hmAppend_length_le m f.1 f.2; omega
      · cases hm'
    · cases h

theorem holdable_tight {l : List FieldLine} (h : Holdable l) :
    Tight (mapOf l) ∧ (mapOf l).length ≤ hmMaxEntries :=
  fillFrom_tight l [] _ (by intro h0; simp [hmMaxEntries] at h0) (by simp) (holdable_mapOf h)

/-- further values of the last name -/
theorem fillFrom_group (acc : HeaderMap) (k : Bytes) (hk : k ∉ acc.map (·.1)) (vs : List Bytes) :
    ∀ vs0, (vs = [] ∨ acc.length + 1 < hmMaxEntries) →
    ∀ R, fillFrom (acc ++ [(k, vs0)]) (vs.map (fun v => (k, v)) ++ R) =
      fillFrom (acc ++ [(k, vs0 ++ vs)]) R := by
  induction vs with
  | nil => intro vs0 _ R; simp
  | cons v r ih =>
    intro vs0 hc R
    have hlt : acc.length + 1 < hmMaxEntries := by
      rcases hc with hc | hc
      · cases hc
      · exact hc
    simp only [List.map_cons, List.cons_append, fillFrom, hmTryAppend]
    rw [if_pos (by simp; omega), hmAppend_last acc k vs0 v hk]
    simp only
    rw [ih (vs0 ++ [v]) (Or.inr hlt) R]
    simp

/-- re-inserting the entries of a map that is not over-full, in iteration order, never finds the
    map full (and rebuilds the map) -/
theorem fillFrom_hmIter (M : HeaderMap) : ∀ acc, HMOk M → (∀ g ∈ M, g.1 ∉ acc.map (·.1)) →
    (acc ++ M).length ≤ hmMaxEntries → Tight (acc ++ M) →
    fillFrom acc (hmIter M) = some (acc ++ M) := by
  induction M with
  | nil => intro acc _ _ _ _; simp [hmIter, fillFrom]
  | cons g r ih =>
    obtain ⟨k, vs⟩ := g
    intro acc hM hd hlen ht
    have hk : k ∉ acc.map (·.1) := hd (k, vs) (by simp)
    have hvs : vs ≠ [] := hM.2 (k, vs) (by simp)
    have hnd := List.nodup_cons.mp hM.1
    have hr : HMOk r := ⟨hnd.2, fun x hx => hM.2 x (by simp [hx])⟩
    obtain ⟨v, vs', rfl⟩ := List.exists_cons_of_ne_nil hvs
    simp only [List.length_append, List.length_cons] at hlen
    simp only [hmIter, List.map_cons, List.cons_append, fillFrom, hmTryAppend]
    rw [if_pos (by omega), hmAppend_new acc k v hk]
    simp only
    have hgrp : vs' = [] ∨ acc.length + 1 < hmMaxEntries := by
      by_cases hv : vs' = []
      · exact Or.inl hv
      · right
        cases r with
        | cons g' r' => simp only [List.length_cons] at hlen; omega
        | nil =>
          -- the last name has more than one value: the map is not full
          have hne : (acc ++ [(k, v :: vs')]).length ≠ hmMaxEntries := by
            intro hfull
            obtain ⟨m', k', v', he⟩ := ht hfull
            have := congrArg List.getLast? he
            simp only [List.getLast?_append, List.getLast?_singleton, Option.some_or,
              Option.some.injEq, Prod.mk.injEq, List.cons.injEq] at this
            exact hv this.2.2
          simp only [List.length_append, List.length_cons, List.length_nil] at hne hlen
          omega
    rw [fillFrom_group acc k hk vs' [v] hgrp (hmIter r)]
    have e : acc ++ (k, v :: vs') :: r = (acc ++ [(k, [v] ++ vs')]) ++ r := by simp
    rw [e] at ht ⊢
    refine ih (acc ++ [(k, [v] ++ vs')]) hr ?_ (by simp only [List.length_append, List.length_cons, List.length_nil]; omega) ht
    intro x hx
    simp only [List.map_append, List.map_cons, List.map_nil, List.mem_append, List.mem_singleton, not_or]
    refine ⟨hd x (by simp [hx]), ?_⟩
    intro e'
    exact hnd.1 (List.mem_map.mpr ⟨x, hx, e'⟩)

theorem fillFrom_hmIter_mapOf {l : List FieldLine} (h : Holdable l) :
    fillFrom [] (hmIter (mapOf l)) = some (mapOf l) := by
  obtain ⟨ht, hc⟩ := holdable_tight h
  simpa using fillFrom_hmIter (mapOf l) [] (hmOk_mapOf l) (by simp) (by simpa using hc) (by simpa using ht)

/-- the receiver's loop over regular fields is the capacity-aware fill -/
theorem tryFromLoop_regular (H : Http) (R : List FieldLine) (hR : ∀ f ∈ R, RegularOk f) : ∀ (h : Header) M,
    fillFrom h.fields R = some M → tryFromLoop H h R = .ok { h with fields := M } := by
  induction R with
  | nil => intro h M hf; simp only [fillFrom, Option.some.injEq] at hf; subst hf; rfl
  | cons f r ih =>
    intro h M hf
    obtain ⟨n, v⟩ := f
    have hp := parse_regular H (n, v) (hR _ (by simp))
    simp only at hp
    simp only [fillFrom, hmTryAppend] at hf
    split at hf
    · rename_i m' hm'
      split at hm'
      · rename_i hlt
        cases hm'
        have hfull : h.full (.header n v) = false := by
          simp only [Header.full, decide_eq_false_iff_not]; omega
        simp only [tryFromLoop, hp, hfull, Bool.false_eq_true, if_false]
        exact ih (fun x hx => hR x (by simp [hx])) (h.add (.header n v)) M hf
      · cases hm'
    · cases hf

/-! the six pseudo-header fields -/

theorem parse_method (H : Http) (m : Bytes) (h : validMethod m = true) :
    Field.parse H nMethod m = .ok (.method m) := by
  simp [Field.parse, pseudoValueSyntax, nMethod, nScheme, nAuthority, nPath, isPseudoName, colon, h]

/-- a pseudo-header value that passes `pseudo_value_syntax` (D-12g) goes on to the delegation -/
theorem syntax_passes {n v : Bytes} (hy : pseudoValueSyntax n v = true) :
    (H3.Gen.Headers.pseudoSyntaxChecked && !pseudoValueSyntax n v) = false := by
  rw [hy]; simp

theorem parse_scheme (H : Http) (s : Bytes) (h : H.parseScheme s = some s) (hy : schemeSyntax s = true) :
    Field.parse H nScheme s = .ok (.scheme s) := by
  unfold Field.parse
  rw [syntax_passes (by simpa [pseudoValueSyntax] using hy)]
  simp [nScheme, isPseudoName, colon, tryValue, h]

theorem parse_authority (H : Http) (a : Bytes) (h : H.parseAuthority a = some a) (hy : authoritySyntax a = true) :
    Field.parse H nAuthority a = .ok (.authority a) := by
  unfold Field.parse
  rw [syntax_passes (by simpa [pseudoValueSyntax, nScheme, nAuthority] using hy)]
  simp [nScheme, nAuthority, isPseudoName, colon, tryValue, h]

theorem parse_path (H : Http) (p : Bytes) (h : H.parsePath p = some p) (hy : pathSyntax p = true) :
    Field.parse H nPath p = .ok (.path p) := by
  unfold Field.parse
  rw [syntax_passes (by simpa [pseudoValueSyntax, nScheme, nAuthority, nPath] using hy)]
  simp [nScheme, nAuthority, nPath, isPseudoName, colon, tryValue, h]

theorem status_digits (st : Nat) (h1 : 100 ≤ st) (h2 : st ≤ 999) :
    validStatus (statusDigits st) = true ∧ statusVal (statusDigits st) = st := by
  simp only [statusDigits, validStatus, statusVal, isDigit, Bool.and_eq_true, decide_eq_true_eq]
  omega

theorem parse_status (H : Http) (st : Nat) (h1 : 100 ≤ st) (h2 : st ≤ 999) :
    Field.parse H nStatus (statusDigits st) = .ok (.status st) := by
  obtain ⟨a, b⟩ := status_digits st h1 h2
  simp [Field.parse, pseudoValueSyntax, nScheme, nAuthority, nPath, nMethod, nStatus, isPseudoName, colon, a, b]

theorem parse_protocol (H : Http) (p : Bytes) (h : parseProtocol p = some p) :
    Field.parse H nProtocol p = .ok (.protocol p) := by
  simp [Field.parse, pseudoValueSyntax, nScheme, nAuthority, nPath, nMethod, nStatus, nProtocol, isPseudoName, colon,
    tryValue, h]

/-- the pseudo-header part of a sent `Header` is parsed back to itself: every value is one its
    parser accepts and prints unchanged — and (D-12g fix) `:scheme`, `:authority`, `:path` pass the
    receiver's own syntax check (`pseudo_value_syntax`) -/
structure PseudoBack (H : Http) (p : Pseudo) : Prop where
  method : ∀ m, p.method = some m → validMethod m = true
  scheme : ∀ s, p.scheme = some s → H.parseScheme s = some s
  authority : ∀ a, p.authority = some a → H.parseAuthority a = some a
  path : ∀ x, p.path = some x → H.parsePath x = some x
  status : ∀ st, p.status = some st → 100 ≤ st ∧ st ≤ 999
  protocol : ∀ x, p.protocol = some x → parseProtocol x = some x
  schemeSyntax : ∀ s, p.scheme = some s → schemeSyntax s = true
  authoritySyntax : ∀ a, p.authority = some a → authoritySyntax a = true
  pathSyntax : ∀ x, p.path = some x → pathSyntax x = true

theorem loop_optField (H : Http) (h : Header) (n : Bytes) (o : Option Bytes) (R : List FieldLine)
    (f : Bytes → Field) (hnh : ∀ (h' : Header) v, h'.full (f v) = false)
    (hp : ∀ v, o = some v → Field.parse H n v = .ok (f v)) :
    tryFromLoop H h (optField n o ++ R) =
      tryFromLoop H (match o with | some v => h.add (f v) | none => h) R := by
  cases o with
  | none => rfl
  | some v =>
    simp only [optField, List.cons_append, List.nil_append, tryFromLoop, hp v rfl, hnh h v,
      Bool.false_eq_true, if_false]

/-- `try_from` over `pseudoList p ++ R`: the pseudo part of the result is `p` again (`len` = the
    number of pseudo fields present) -/
theorem tryFromLoop_pseudo (H : Http) (p : Pseudo) (hp : PseudoBack H p) (R : List FieldLine) :
    tryFromLoop H {} (pseudoList p ++ R) =
      tryFromLoop H { pseudo := { p with len := (pseudoList p).length }, fields := [] } R := by
  obtain ⟨m, s, a, pa, st, pr, len⟩ := p
  simp only [pseudoList, List.append_assoc]
  rw [loop_optField H _ nMethod m _ .method (fun _ _ => rfl) (fun v hv => parse_method H v (hp.method v hv)),
    loop_optField H _ nScheme s _ .scheme (fun _ _ => rfl) (fun v hv => parse_scheme H v (hp.scheme v hv) (hp.schemeSyntax v hv)),
    loop_optField H _ nAuthority a _ .authority (fun _ _ => rfl)
      (fun v hv => parse_authority H v (hp.authority v hv) (hp.authoritySyntax v hv)),
    loop_optField H _ nPath pa _ .path (fun _ _ => rfl) (fun v hv => parse_path H v (hp.path v hv) (hp.pathSyntax v hv)),
    loop_optField H _ nStatus (st.map statusDigits) _ (fun v => .status (statusVal v)) (fun _ _ => rfl) ?_,
    loop_optField H _ nProtocol pr _ .protocol (fun _ _ => rfl)
      (fun v hv => parse_protocol H v (hp.protocol v hv))]
  · cases m <;> cases s <;> cases a <;> cases pa <;> cases st <;> cases pr <;>
      simp [Header.add, optField] <;>
      first
        | rfl
        | (rename_i x; have := hp.status x rfl; rw [(status_digits x this.1 this.2).2])
        | (rename_i x _; have := hp.status x rfl; rw [(status_digits x this.1 this.2).2])
  · intro v hv
    cases st with
    | none => simp at hv
    | some x =>
      simp only [Option.map_some, Option.some.injEq] at hv
      subst hv
      obtain ⟨h1, h2⟩ := hp.status x rfl
      rw [parse_status H x h1 h2, (status_digits x h1 h2).2]

/-- **`Header::try_from` on the wire fields of a `Header`** whose pseudo values parse back and
    whose map the sender filled by `append` — and could hold (`Holdable`) — with acceptable names
    and values: the same `Header` (`len` recomputed).  The number of fields plays no role. -/
theorem tryFrom_wireFields (H : Http) (p : Pseudo) (l : List FieldLine) (hp : PseudoBack H p)
    (hl : ∀ f ∈ l, RegularOk f) (hhold : Holdable l) :
    tryFrom H ({ pseudo := p, fields := mapOf l } : Header).wireFields =
      .ok { pseudo := { p with len := (pseudoList p).length }, fields := mapOf l } := by
  rw [tryFrom_eq_loop, wireFields_eq, tryFromLoop_pseudo H p hp]
  have hreg : ∀ f ∈ hmIter (mapOf l), RegularOk f := by
    intro f hf
    -- every entry the map iterates is one of the submitted fields
    have hmem : f ∈ (hmIter (mapOf l)).filter (fun g => g.1 = f.1) := by
      simp [List.mem_filter, hf]
    rw [hmIter_mapOf_filter] at hmem
    exact hl f (List.mem_filter.mp hmem).1
  rw [tryFromLoop_regular H _ hreg _ (mapOf l) (fillFrom_hmIter_mapOf hhold)]

/-! ### requests, responses, trailers: what reaches the receiving application -/

/-- the bytes that go to `uri.authority(..)` at the receiver (`into_request_parts`) -/
def effAuthority (uriAuth host : Option Bytes) : Bytes :=
  match uriAuth, host with
  | some a, none => a
  | _, some h => h
  | none, none => []

/-- what is asked of a request so that it survives the trip -/
structure RequestOk (H : Http) (method : Bytes) (uri : UriParts) (ext : Option Bytes)
    (l : List FieldLine) (u : Uri) : Prop where
  pseudo : PseudoBack H (Pseudo.request method uri ext)
  regular : ∀ f ∈ l, RegularOk f
  /-- `Uri::builder()` accepts the three parts at the receiver -/
  builds : H.uriBuild (Pseudo.request method uri ext).scheme
      (effAuthority uri.authority (hmGet (mapOf l) nHost)) (Pseudo.request method uri ext).path = some u
  /-- the submitted `Host` values (if any) are all the same value: the sender compares only the
      first one with the URI's authority, the receiver refuses a request whose `Host` values differ
      (D-12e); several identical ones pass -/
  hosts : allFirst (hmGroup (mapOf l) nHost) = true

theorem recvRequest_sent (H : Http) (method : Bytes) (uri : UriParts) (ext : Option Bytes)
    (l : List FieldLine) (u : Uri) (h : Header)
    (hreq : Header.request method uri (mapOf l) ext = .ok h)
    (hok : RequestOk H method uri ext l u) (hcap : Holdable l) :
    recvRequest H h.wireFields =
      .ok { method := method, uri := u, protocol := (Pseudo.request method uri ext).protocol,
            headers := mapOf l } := by
  have hh : h = { pseudo := Pseudo.request method uri ext, fields := mapOf l } := by
    unfold Header.request at hreq
    split at hreq
    · cases hreq
    · split at hreq
      · cases hreq
      · cases hreq; rfl
    · cases hreq; rfl
  subst hh
  unfold recvRequest
  rw [tryFrom_wireFields H _ l hok.pseudo hok.regular hcap]
  -- a request h3 builds carries no `:status` (D-12f: the receiver refuses one that does)
  have hstatus : (Pseudo.request method uri ext).status = none := rfl
  simp only [Res.bind, Header.intoRequestParts, hstatus, Option.isSome_none, hok.hosts, Bool.not_true,
    Bool.and_false, Bool.false_eq_true, if_false]
  have hb := hok.builds
  have hauthority : (Pseudo.request method uri ext).authority = uri.authority := rfl
  have hmethod : (Pseudo.request method uri ext).method = some method := rfl
  -- the authority decision at the receiver follows the sender's
  have hchoose : chooseAuthority uri.authority (hmGet (mapOf l) nHost) =
      .ok (effAuthority uri.authority (hmGet (mapOf l) nHost)) := by
    unfold Header.request at hreq
    cases ha : uri.authority with
    | none =>
      cases hh' : hmGet (mapOf l) nHost with
      | none => rw [ha, hh'] at hreq; simp at hreq
      | some x => rfl
    | some a =>
      cases hh' : hmGet (mapOf l) nHost with
      | none => rfl
      | some x =>
        rw [ha, hh'] at hreq
        simp only at hreq
        split at hreq
        · cases hreq
        · rename_i hax
          have : a = x := by simpa using hax
          subst this
          simp [chooseAuthority, effAuthority]
  simp only [hauthority, hchoose, hmethod, hb]

theorem recvResponse_sent (H : Http) (status : Nat) (l : List FieldLine) (h1 : 100 ≤ status)
    (h2 : status ≤ 999) (hl : ∀ f ∈ l, RegularOk f) (hcap : Holdable l) :
    recvResponse H (Header.response status (mapOf l)).wireFields = .ok (status, mapOf l) := by
  unfold recvResponse Header.response at *
  have hp : PseudoBack H { status := some status, len := 1 } :=
    ⟨by simp, by simp, by simp, by simp, by intro st hst; cases hst; exact ⟨h1, h2⟩, by simp, by simp, by simp, by simp⟩
  rw [tryFrom_wireFields H _ l hp hl hcap]
  -- a response h3 builds carries `:status` and no request pseudo-header field (D-12f: the receiver
  -- refuses one that does): `Pseudo.hasRequestField` of it evaluates to `false`
  rfl

theorem recvTrailers_sent (H : Http) (l : List FieldLine) (hl : ∀ f ∈ l, RegularOk f)
    (hcap : Holdable l) :
    recvTrailers H (Header.trailer (mapOf l)).wireFields = .ok (mapOf l) := by
  unfold recvTrailers Header.trailer at *
  have hp : PseudoBack H {} := ⟨by simp, by simp, by simp, by simp, by simp, by simp, by simp, by simp, by simp⟩
  rw [tryFrom_wireFields H _ l hp hl hcap]
  simp [Res.bind, Header.intoTrailers, pseudoList, optField]

/-! ### QPACK: h3's own encoding read back by h3's decoder (C10 / C11) -/

theorem lines_qfields (l : List FieldLine) : lines (qfields l) = l := by
  simp [lines, qfields, List.map_map, Function.comp_def]

/-- octets, Huffman codings shorter than 2^29 − 2 octets (C11's `Encodable`: what `prefix_string::decode` accepts) -/
def FieldsEncodable (l : List FieldLine) : Prop :=
  ∀ f ∈ l, H3.Qpack.Lemmas.Encodable ⟨f.1, f.2⟩

/-- RFC 9114 §4.2.2 size of a field list -/
def sectionSize (l : List FieldLine) : Nat := Spec.Qpack.size (H3.Qpack.Lemmas.pairs (qfields l))

theorem decode_fieldSection (h : Header) (henc : FieldsEncodable h.wireFields) (max : Nat)
    (hsz : sectionSize h.wireFields ≤ max) :
    Qpack.decodeStateless (fieldSection h) max =
      .ok (qfields h.wireFields) (sectionSize h.wireFields) := by
  have hfs : ∀ f ∈ qfields h.wireFields, H3.Qpack.Lemmas.Encodable f := by
    intro f hf
    simp only [qfields, List.mem_map] at hf
    obtain ⟨g, hg, rfl⟩ := hf
    exact henc g hg
  exact (H3.Props.C11.C10_own_encoding_exact_closed _ hfs max).2.1.mpr hsz

theorem fieldSection_wf (h : Header) (henc : FieldsEncodable h.wireFields) :
    ∀ b ∈ fieldSection h, b < 256 := by
  have hfs : ∀ f ∈ qfields h.wireFields, H3.Qpack.Lemmas.Encodable f := by
    intro f hf
    simp only [qfields, List.mem_map] at hf
    obtain ⟨g, hg, rfl⟩ := hf
    exact henc g hg
  exact (H3.Props.C11.C11_encode_then_rfc_decode_closed _ (fun f hf => (hfs f hf).writable)).2.2.2.1

theorem decodeWith_fieldSection {α : Type} (parse : List FieldLine → Headers.Res α) (h : Header)
    (henc : FieldsEncodable h.wireFields) (max : Nat) (hsz : sectionSize h.wireFields ≤ max) :
    decodeWith max parse (fieldSection h) = optOf (parse h.wireFields) ∧
    classifyBlock max parse (fieldSection h) = classOf (parse h.wireFields) := by
  unfold decodeWith classifyBlock
  rw [decode_fieldSection h henc max hsz]
  simp only [lines_qfields, and_self]

end H3.E2E
