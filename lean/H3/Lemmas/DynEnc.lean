import H3.Lemmas.DynTrack
import H3.Lemmas.DynStatic
import H3.Model.DynSys
/-! The loop of `Encoder::encode`: invariant and its preservation by `encode_field`. -/
namespace H3.Dyn
open H3.Spec.Dyn (STable size evictCount)

/-! ### what a representation names, by absolute index (no liveness condition) -/

/-- entry with absolute index `a` (1-based, as the code counts) among all insertions -/
def entry1 (all : List Field) (a : Nat) : Option Field := if a = 0 then none else all[a - 1]?

def denoteRepAll (all : List Field) (base : Nat) (r : Rep) : Option Field :=
  match r with
  | .indexedStatic i => staticGet i
  | .litStatic i v => (staticGet i).map (·.withValue v)
  | .lit n v => some ⟨n, v⟩
  | .indexedDyn rel => entry1 all (base - rel)
  | .indexedPost i => entry1 all (base + i + 1)
  | .litDyn rel v => (entry1 all (base - rel)).map (·.withValue v)
  | .litPost i v => (entry1 all (base + i + 1)).map (·.withValue v)

def denoteAll (all : List Field) (base : Nat) : List Rep → Option (List Field)
  | [] => some []
  | r :: rs => (denoteRepAll all base r).bind fun f => (denoteAll all base rs).map (f :: ·)

theorem entry1_append {all : List Field} {a : Nat} {f : Field} (l : List Field) (h : entry1 all a = some f) :
    entry1 (all ++ l) a = some f := by
  unfold entry1 at *
  split at h
  · simp at h
  · rename_i ha; rw [if_neg ha, List.getElem?_append_left]; exact h
    exact (List.getElem?_eq_some_iff.mp h).1

theorem denoteRepAll_append {all : List Field} {base : Nat} {r : Rep} {f : Field} (l : List Field)
    (h : denoteRepAll all base r = some f) : denoteRepAll (all ++ l) base r = some f := by
  cases r <;> simp only [denoteRepAll] at h ⊢
  · exact h
  · exact entry1_append l h
  · exact entry1_append l h
  · exact h
  · cases hg : entry1 all (base - _) with
    | none => rw [hg] at h; simp at h
    | some g => rw [hg] at h; rw [entry1_append l hg]; exact h
  · cases hg : entry1 all (base + _ + 1) with
    | none => rw [hg] at h; simp at h
    | some g => rw [hg] at h; rw [entry1_append l hg]; exact h
  · exact h

theorem denoteAll_append_all {all : List Field} {base : Nat} {rs : List Rep} {fs : List Field} (l : List Field)
    (h : denoteAll all base rs = some fs) : denoteAll (all ++ l) base rs = some fs := by
  induction rs generalizing fs with
  | nil => exact h
  | cons r rs ih =>
    simp only [denoteAll] at h ⊢
    cases hr : denoteRepAll all base r with
    | none => rw [hr] at h; simp at h
    | some f =>
      rw [hr] at h; simp only [Option.bind_some] at h
      cases hrs : denoteAll all base rs with
      | none => rw [hrs] at h; simp at h
      | some fs' =>
        rw [hrs] at h
        rw [denoteRepAll_append l hr, ih hrs]; exact h

theorem denoteAll_snoc {all : List Field} {base : Nat} {rs : List Rep} {fs : List Field} {r : Rep} {f : Field}
    (h : denoteAll all base rs = some fs) (hr : denoteRepAll all base r = some f) :
    denoteAll all base (rs ++ [r]) = some (fs ++ [f]) := by
  induction rs generalizing fs with
  | nil => simp [denoteAll] at h; subst h; simp [denoteAll, hr]
  | cons r' rs ih =>
    simp only [denoteAll, List.cons_append] at h ⊢
    cases hr' : denoteRepAll all base r' with
    | none => rw [hr'] at h; simp at h
    | some f' =>
      rw [hr'] at h; simp only [Option.bind_some] at h ⊢
      cases hrs : denoteAll all base rs with
      | none => rw [hrs] at h; simp at h
      | some fs' =>
        rw [hrs] at h; simp at h; subst h
        rw [ih hrs]; simp

/-! ### the loop invariant -/

structure LoopInv (init : STable) (log : List EncInstr) (t0 : Table) (base : Nat)
    (t : Table) (br : RefMap) (o : EncOut) (done : List Field) (st : STable) : Prop where
  run : init.run (log ++ o.instrs) = some st
  abs : Abs t st
  maps : MapsOK t st
  track : TrackOKx t br
  brwf : RefMapWF br
  aux0 : t.trackBlocks = t0.trackBlocks ∧ t.lkr = t0.lkr ∧ t.blockedMax = t0.blockedMax ∧
    t.blockedCount = t0.blockedCount ∧ t.blockedStreams = t0.blockedStreams
  grow : t0.vas.inserted ≤ st.all.length
  baseLe : base ≤ t0.vas.inserted
  capEq : st.cap = t0.maxSize
  den : denoteAll st.all base o.reps = some done
  refs : ∀ r ∈ o.reps, ∀ a, r.absRef base = some a → 1 ≤ cnt br a ∧ a ≤ o.required
  req : o.required = 0 ∨ ∃ r ∈ o.reps, r.absRef base = some o.required
  new : ∀ a, t0.vas.inserted < a → a ≤ st.all.length → 1 ≤ cnt br a ∧ a ≤ o.required
  noSU : ∀ i ∈ o.instrs, ∀ c, i ≠ .sizeUpdate c
  refPos : ∀ r ∈ o.reps, ∀ a, r.absRef base = some a → 1 ≤ a
  mono : ∀ a, cnt t0.trackMap a ≤ cnt t.trackMap a

theorem RefMapWF.aset_succ {m : RefMap} (h : RefMapWF m) (a : Nat) : RefMapWF (aset m a (cnt m a + 1)) := by
  refine ⟨nodup_keys_aset _ _ h.1, fun p hp => ?_⟩
  rcases mem_aset hp with hp | hp
  · exact h.2 p hp
  · subst hp; simp

/-- `track_ref` of a live entry keeps the invariant -/
theorem LoopInv.trackRef {init log t0 base t br o done st} (h : LoopInv init log t0 base t br o done st)
    {a : Nat} (ha : st.dropped < a) (ha' : a ≤ st.all.length) :
    LoopInv init log t0 base (t.trackRef a) (aset br a (cnt br a + 1)) o done st := by
  have hcnt : ∀ x, cnt br x ≤ cnt (aset br a (cnt br a + 1)) x := by
    intro x; rw [cnt_aset]; split
    · rename_i e; subst e; omega
    · omega
  exact {
    run := h.run
    abs := ⟨h.abs.fields, h.abs.ins, h.abs.drp, h.abs.delta, h.abs.curr, h.abs.max, h.abs.le, h.abs.cap⟩
    maps := ⟨h.maps.fm, h.maps.nm⟩
    track := {
      sum := by
        intro x; simp only [Table.trackRef]; rw [cnt_aset, cnt_aset, h.track.sum a]
        split
        · rename_i e; subst e; omega
        · exact h.track.sum x
      live := by
        intro x hx; simp only [Table.trackRef] at hx ⊢; rw [cnt_aset] at hx
        split at hx
        · rename_i e; subst e; rw [h.abs.drp, h.abs.ins]; exact ⟨ha, ha'⟩
        · exact h.track.live x hx
      nodup := h.track.nodup
      wf := h.track.wf
      nonempty := h.track.nonempty }
    brwf := h.brwf.aset_succ a
    aux0 := h.aux0
    grow := h.grow
    baseLe := h.baseLe
    capEq := h.capEq
    den := h.den
    refs := fun r hr x hx => ⟨Nat.le_trans (h.refs r hr x hx).1 (hcnt x), (h.refs r hr x hx).2⟩
    req := h.req
    new := fun x h1 h2 => ⟨Nat.le_trans (h.new x h1 h2).1 (hcnt x), (h.new x h1 h2).2⟩
    noSU := h.noSU
    refPos := h.refPos
    mono := by
      intro x; simp only [Table.trackRef]; rw [cnt_aset]
      have := h.mono x
      split
      · rename_i e; subst e; omega
      · exact this }

theorem max_cases (a b : Nat) : (max a b = a ∧ b ≤ a) ∨ (max a b = b ∧ a ≤ b) := by
  rcases Nat.le_total a b with h | h
  · right; exact ⟨Nat.max_eq_right h, h⟩
  · left; exact ⟨Nat.max_eq_left h, h⟩

/-- a representation that references the tracked entry `a` is appended -/
theorem LoopInv.emitRef {init log t0 base t br o done st} (h : LoopInv init log t0 base t br o done st)
    {r : Rep} {f : Field} {a : Nat} (hr : denoteRepAll st.all base r = some f)
    (ha : r.absRef base = some a) (hc : 1 ≤ cnt br a) :
    LoopInv init log t0 base t br (({ o with reps := o.reps ++ [r] } : EncOut).ref a) (done ++ [f]) st := by
  have hle : o.required ≤ max o.required a := Nat.le_max_left _ _
  have ha1 : 1 ≤ a := by
    have := (h.track.live a (by rw [h.track.sum]; omega)).1; omega
  exact {
    run := h.run, abs := h.abs, maps := h.maps, track := h.track, brwf := h.brwf, aux0 := h.aux0,
    grow := h.grow, baseLe := h.baseLe, capEq := h.capEq
    den := denoteAll_snoc h.den hr
    refs := by
      intro r' hr' x hx
      simp only [EncOut.ref, List.mem_append, List.mem_singleton] at hr' ⊢
      rcases hr' with hr' | hr'
      · exact ⟨(h.refs r' hr' x hx).1, Nat.le_trans (h.refs r' hr' x hx).2 hle⟩
      · subst hr'; rw [ha] at hx; simp at hx; subst hx; exact ⟨hc, Nat.le_max_right _ _⟩
    req := by
      simp only [EncOut.ref, List.mem_append, List.mem_singleton]
      rcases max_cases o.required a with ⟨he, _⟩ | ⟨he, _⟩
      · rw [he]
        rcases h.req with h0 | ⟨r', hr', hx⟩
        · exact Or.inl h0
        · exact Or.inr ⟨r', Or.inl hr', hx⟩
      · rw [he]; exact Or.inr ⟨r, Or.inr rfl, ha⟩
    new := fun x h1 h2 => ⟨(h.new x h1 h2).1, Nat.le_trans (h.new x h1 h2).2 hle⟩
    noSU := h.noSU
    refPos := by
      intro r' hr' x hx
      simp only [EncOut.ref, List.mem_append, List.mem_singleton] at hr'
      rcases hr' with hr' | hr'
      · exact h.refPos r' hr' x hx
      · subst hr'; rw [ha] at hx; simp at hx; subst hx; exact ha1
    mono := h.mono }

/-- a representation without dynamic reference is appended -/
theorem LoopInv.emitNoRef {init log t0 base t br o done st} (h : LoopInv init log t0 base t br o done st)
    {r : Rep} {f : Field} (hr : denoteRepAll st.all base r = some f) (ha : r.absRef base = none) :
    LoopInv init log t0 base t br ({ o with reps := o.reps ++ [r] } : EncOut) (done ++ [f]) st := by
  exact {
    run := h.run, abs := h.abs, maps := h.maps, track := h.track, brwf := h.brwf, aux0 := h.aux0,
    grow := h.grow, baseLe := h.baseLe, capEq := h.capEq
    den := denoteAll_snoc h.den hr
    refs := by
      intro r' hr' x hx
      simp only [List.mem_append, List.mem_singleton] at hr'
      rcases hr' with hr' | hr'
      · exact h.refs r' hr' x hx
      · subst hr'; rw [ha] at hx; simp at hx
    req := by
      rcases h.req with h0 | ⟨r', hr', hx⟩
      · exact Or.inl h0
      · exact Or.inr ⟨r', by simp [hr'], hx⟩
    new := h.new
    noSU := h.noSU
    refPos := by
      intro r' hr' x hx
      simp only [List.mem_append, List.mem_singleton] at hr'
      rcases hr' with hr' | hr'
      · exact h.refPos r' hr' x hx
      · subst hr'; rw [ha] at hx; simp at hx
    mono := h.mono }

/-- changing only the lookup maps, to maps that are still sound -/
theorem LoopInv.setMaps {init log t0 base t br o done st} (h : LoopInv init log t0 base t br o done st)
    (fm : List (Field × Nat)) (nm : List (Bytes × Nat))
    (hm : MapsOK { t with fieldMap := fm, nameMap := nm } st) :
    LoopInv init log t0 base { t with fieldMap := fm, nameMap := nm } br o done st := by
  exact {
    run := h.run
    abs := ⟨h.abs.fields, h.abs.ins, h.abs.drp, h.abs.delta, h.abs.curr, h.abs.max, h.abs.le, h.abs.cap⟩
    maps := hm
    track := ⟨h.track.sum, h.track.live, h.track.nodup, h.track.wf, h.track.nonempty⟩
    brwf := h.brwf, aux0 := h.aux0, grow := h.grow, baseLe := h.baseLe, capEq := h.capEq,
    den := h.den, refs := h.refs, req := h.req, new := h.new, noSU := h.noSU, refPos := h.refPos, mono := h.mono }

theorem isTracked_false_iff (t : Table) (a : Nat) : t.isTracked a = false ↔ cnt t.trackMap a = 0 := by
  simp [Table.isTracked]

/-- a successful `insert` followed by `track_ref(index)` and the post-base representation -/
theorem LoopInv.inserted {init log t0 base t br o done st} (h : LoopInv init log t0 base t br o done st)
    {f : Field} {t1 : Table} {st' : STable} {i : EncInstr}
    (hi : st.apply i = some st') (hs : st.insert f = some st') (habs : Abs t1 st') (haux : t1.aux = t.aux)
    (hmaps : MapsOK t1 st') (hunt : ∀ a, st.dropped < a → a ≤ st'.dropped → t.isTracked a = false)
    (hlive : st'.dropped ≤ st.all.length) :
    LoopInv init log t0 base (t1.trackRef (st.all.length + 1))
      (aset br (st.all.length + 1) (cnt br (st.all.length + 1) + 1))
      (({ o with instrs := o.instrs ++ [i],
                 reps := o.reps ++ [.indexedPost (st.all.length + 1 - (base + 1))] } : EncOut).ref (st.all.length + 1))
      (done ++ [f]) st' := by
  obtain ⟨hall, hcap, hdr⟩ := STable.insert_all hs
  have htm : t1.trackMap = t.trackMap := by simpa [Table.aux] using congrArg (·.1) haux
  have htb : t1.trackBlocks = t.trackBlocks := by simpa [Table.aux] using congrArg (·.2.1) haux
  have haux' : t1.lkr = t.lkr ∧ t1.blockedMax = t.blockedMax ∧ t1.blockedCount = t.blockedCount ∧
      t1.blockedStreams = t.blockedStreams := by
    simp only [Table.aux, Prod.mk.injEq] at haux; exact ⟨haux.2.2.1, haux.2.2.2.1, haux.2.2.2.2.1, haux.2.2.2.2.2⟩
  have hbase : base ≤ st.all.length := Nat.le_trans h.baseLe h.grow
  have hle : o.required ≤ max o.required (st.all.length + 1) := Nat.le_max_left _ _
  have hcnt : ∀ x, cnt br x ≤ cnt (aset br (st.all.length + 1) (cnt br (st.all.length + 1) + 1)) x := by
    intro x; rw [cnt_aset]; split
    · rename_i e; subst e; omega
    · omega
  have hidx : base + (st.all.length + 1 - (base + 1)) + 1 = st.all.length + 1 := by omega
  have hnew : denoteRepAll st'.all base (.indexedPost (st.all.length + 1 - (base + 1))) = some f := by
    simp only [denoteRepAll, hidx, entry1, hall]
    rw [if_neg (by omega)]; simp
  exact {
    run := by
      simp only [EncOut.ref]
      rw [← List.append_assoc, STable.run_append, h.run]
      simp [STable.run, hi]
    abs := ⟨habs.fields, habs.ins, habs.drp, habs.delta, habs.curr, habs.max, habs.le, habs.cap⟩
    maps := ⟨hmaps.fm, hmaps.nm⟩
    track := {
      sum := by
        intro x; simp only [Table.trackRef]
        rw [cnt_aset, cnt_aset, htm, htb, h.track.sum (st.all.length + 1)]
        split
        · rename_i e; subst e; omega
        · exact h.track.sum x
      live := by
        intro x hx; simp only [Table.trackRef] at hx ⊢
        rw [cnt_aset, htm] at hx
        rw [habs.drp, habs.ins, hall]
        split at hx
        · rename_i e; subst e; simp; omega
        · have hl := h.track.live x hx
          rw [h.abs.drp, h.abs.ins] at hl
          refine ⟨?_, by simp; omega⟩
          apply Nat.lt_of_not_le
          intro hxd
          have := (isTracked_false_iff t x).mp (hunt x hl.1 hxd)
          omega
      nodup := by simp only [Table.trackRef]; rw [htb]; exact h.track.nodup
      wf := by simp only [Table.trackRef]; rw [htb]; exact h.track.wf
      nonempty := by simp only [Table.trackRef]; rw [htb]; exact h.track.nonempty }
    brwf := h.brwf.aset_succ _
    aux0 := by
      simp only [Table.trackRef]
      exact ⟨htb.trans h.aux0.1, haux'.1.trans h.aux0.2.1, haux'.2.1.trans h.aux0.2.2.1,
        haux'.2.2.1.trans h.aux0.2.2.2.1, haux'.2.2.2.trans h.aux0.2.2.2.2⟩
    grow := by rw [hall]; simp; have := h.grow; omega
    baseLe := h.baseLe
    capEq := by rw [hcap]; exact h.capEq
    den := by
      simp only [EncOut.ref]
      refine denoteAll_snoc ?_ hnew
      rw [hall]; exact denoteAll_append_all _ h.den
    refs := by
      intro r' hr' x hx
      simp only [EncOut.ref, List.mem_append, List.mem_singleton] at hr' ⊢
      rcases hr' with hr' | hr'
      · exact ⟨Nat.le_trans (h.refs r' hr' x hx).1 (hcnt x), Nat.le_trans (h.refs r' hr' x hx).2 hle⟩
      · subst hr'; simp only [Rep.absRef, hidx] at hx; simp at hx; subst hx
        exact ⟨by rw [cnt_aset]; simp, Nat.le_max_right _ _⟩
    req := by
      simp only [EncOut.ref, List.mem_append, List.mem_singleton]
      rcases max_cases o.required (st.all.length + 1) with ⟨he, _⟩ | ⟨he, _⟩
      · rw [he]
        rcases h.req with h0 | ⟨r', hr', hx⟩
        · exact Or.inl h0
        · exact Or.inr ⟨r', Or.inl hr', hx⟩
      · rw [he]; exact Or.inr ⟨_, Or.inr rfl, by simp only [Rep.absRef, hidx]⟩
    new := by
      intro x h1 h2
      simp only [EncOut.ref]
      rw [hall] at h2; simp at h2
      by_cases hx : x = st.all.length + 1
      · subst hx; exact ⟨by rw [cnt_aset]; simp, Nat.le_max_right _ _⟩
      · have := h.new x h1 (by omega)
        exact ⟨Nat.le_trans this.1 (hcnt x), Nat.le_trans this.2 hle⟩
    noSU := by
      intro i' hi' c
      simp only [EncOut.ref, List.mem_append, List.mem_singleton] at hi'
      rcases hi' with hi' | hi'
      · exact h.noSU i' hi' c
      · subst hi'; intro e; subst e
        simp only [STable.apply] at hi
        split at hi
        · simp at hi
        · simp at hi
          have := congrArg (·.all.length) hi
          simp [STable.setCap, hall] at this
    refPos := by
      intro r' hr' x hx
      simp only [EncOut.ref, List.mem_append, List.mem_singleton] at hr'
      rcases hr' with hr' | hr'
      · exact h.refPos r' hr' x hx
      · subst hr'; simp only [Rep.absRef, hidx] at hx; simp at hx; omega
    mono := by
      intro x; simp only [Table.trackRef]; rw [cnt_aset, htm]
      have := h.mono x
      split
      · rename_i e; subst e; omega
      · exact this }

/-! ### lookups -/

/-- the invariant of the `DynamicTableEncoder` value `e` -/
def EInv (init : STable) (log : List EncInstr) (t0 : Table) (base sid : Nat)
    (e : TEnc) (o : EncOut) (done : List Field) (st : STable) : Prop :=
  LoopInv init log t0 base e.table e.blockRefs o done st ∧ e.base = base ∧ e.streamId = sid

/-- what a lookup result says about the entry it found -/
def LookupOK (base : Nat) (br : RefMap) (st : STable) (p : Field → Prop) : Lookup → Prop
  | .relative idx a => a ≤ base ∧ idx = base - a ∧ 1 ≤ cnt br a ∧ ∃ g, entry1 st.all a = some g ∧ p g
  | .postBase idx a => base < a ∧ idx = a - base - 1 ∧ 1 ≤ cnt br a ∧ ∃ g, entry1 st.all a = some g ∧ p g
  | .notFound => True
  | .static i => ∃ g, staticGet i = some g ∧ p g

theorem lookupResult_inv {init log t0 base sid e o done st} (h : EInv init log t0 base sid e o done st)
    (x : Option Nat) (p : Field → Prop)
    (hx : ∀ a, x = some a → st.dropped < a ∧ ∃ g, st.all[a - 1]? = some g ∧ p g) :
    EInv init log t0 base sid (e.lookupResult x).1 o done st ∧
    LookupOK base (e.lookupResult x).1.blockRefs st p (e.lookupResult x).2 ∧
    (x = none → (e.lookupResult x).2 = .notFound) := by
  obtain ⟨hl, hb, hs⟩ := h
  cases x with
  | none => exact ⟨⟨hl, hb, hs⟩, trivial, fun _ => rfl⟩
  | some a =>
    obtain ⟨ha, g, hg, hp⟩ := hx a rfl
    have hlen : a ≤ st.all.length := by have := (List.getElem?_eq_some_iff.mp hg).1; omega
    have he : entry1 st.all a = some g := by unfold entry1; rw [if_neg (by omega)]; exact hg
    have htr := hl.trackRef ha hlen
    simp only [TEnc.lookupResult]
    by_cases hab : a ≤ e.base
    · rw [if_pos hab]
      refine ⟨⟨htr, hb, hs⟩, ?_, fun h => by simp at h⟩
      simp only [LookupOK, TEnc.trackRef]
      exact ⟨hb ▸ hab, by rw [hb], by rw [cnt_aset]; simp, g, he, hp⟩
    · rw [if_neg hab]
      refine ⟨⟨htr, hb, hs⟩, ?_, fun h => by simp at h⟩
      simp only [LookupOK, TEnc.trackRef]
      exact ⟨by rw [← hb]; omega, by rw [hb], by rw [cnt_aset]; simp, g, he, hp⟩

theorem find_inv {init log t0 base sid e o done st} (h : EInv init log t0 base sid e o done st) (f : Field) :
    EInv init log t0 base sid (e.find f).1 o done st ∧
    LookupOK base (e.find f).1.blockRefs st (· = f) (e.find f).2 := by
  have := lookupResult_inv h (aget e.table.fieldMap f) (· = f) (by
    intro a ha
    obtain ⟨h1, h2⟩ := h.1.maps.fm f a ha
    exact ⟨h1, f, h2, rfl⟩)
  exact ⟨this.1, this.2.1⟩

theorem findName_inv {init log t0 base sid e o done st} (h : EInv init log t0 base sid e o done st) (n : Bytes) :
    EInv init log t0 base sid (e.findName n).1 o done st ∧
    LookupOK base (e.findName n).1.blockRefs st (·.name = n) (e.findName n).2 := by
  unfold TEnc.findName
  cases hsn : staticFindName n with
  | some i =>
    obtain ⟨g, hg, hn⟩ := staticFindName_sound hsn
    exact ⟨h, g, hg, hn⟩
  | none =>
    have := lookupResult_inv h (aget e.table.nameMap n) (·.name = n) (by
      intro a ha
      obtain ⟨h1, g, h2, h3⟩ := h.1.maps.nm n a ha
      exact ⟨h1, g, h2, h3⟩)
    exact ⟨this.1, this.2.1⟩

theorem Field.withValue_eq {g f : Field} (h : g.name = f.name) : g.withValue f.value = f := by
  cases f; cases g; simp_all [Field.withValue]

/-- the `NotInserted` exits: a literal with the best available name reference -/
theorem emitLookup_inv {init log t0 base sid e o done st} (h : EInv init log t0 base sid e o done st)
    {f : Field} {l : Lookup} (hl : LookupOK base e.blockRefs st (·.name = f.name) l) :
    EInv init log t0 base sid e (emitLookup o f l) (done ++ [f]) st := by
  obtain ⟨hi, hb, hs⟩ := h
  refine ⟨?_, hb, hs⟩
  cases l with
  | static i =>
    obtain ⟨g, hg, hn⟩ := hl
    exact hi.emitNoRef (r := .litStatic i f.value) (by simp [denoteRepAll, hg, Field.withValue_eq hn]) rfl
  | notFound =>
    exact hi.emitNoRef (r := .lit f.name f.value) (by simp [denoteRepAll]) rfl
  | relative idx a =>
    obtain ⟨hab, hidx, hc, g, hg, hn⟩ := hl
    have ha0 : a ≠ 0 := by intro e0; subst e0; simp [entry1] at hg
    have : base - idx = a := by omega
    exact hi.emitRef (r := .litDyn idx f.value) (a := a)
      (by simp [denoteRepAll, this, hg, Field.withValue_eq hn]) (by simp [Rep.absRef, this]) hc
  | postBase idx a =>
    obtain ⟨hab, hidx, hc, g, hg, hn⟩ := hl
    have : base + idx + 1 = a := by omega
    exact hi.emitRef (r := .litPost idx f.value) (a := a)
      (by simp [denoteRepAll, this, hg, Field.withValue_eq hn]) (by simp [Rep.absRef, this]) hc

theorem notInserted_inv {init log t0 base sid e o done st} (h : EInv init log t0 base sid e o done st) (f : Field) :
    EInv init log t0 base sid (e.notInserted f).1 (emitInsertion o f (e.notInserted f).2) (done ++ [f]) st := by
  obtain ⟨h1, h2⟩ := findName_inv h f.name
  exact emitLookup_inv h1 h2

/-! ### the insertion exits -/

theorem relEntry_of {st : STable} {a : Nat} {g : Field} (h1 : st.dropped < a) (h2 : st.all[a - 1]? = some g) :
    st.relEntry (st.all.length - a) = some g := by
  have hlen : a - 1 < st.all.length := (List.getElem?_eq_some_iff.mp h2).1
  unfold STable.relEntry STable.entry
  rw [if_pos (by omega)]
  have : st.all.length - 1 - (st.all.length - a) = a - 1 := by omega
  rw [this, if_neg (by omega)]; exact h2

theorem MapsOK.setField {t : Table} {st : STable} (h : MapsOK t st) {f : Field} {a : Nat}
    (ha : st.dropped < a) (hf : st.all[a - 1]? = some f) (nm : List (Bytes × Nat))
    (hnm : ∀ n x, aget nm n = some x → st.dropped < x ∧ ∃ g, st.all[x - 1]? = some g ∧ g.name = n) :
    MapsOK { t with fieldMap := aset t.fieldMap f a, nameMap := nm } st := by
  constructor
  · intro g x hg
    simp only at hg
    rw [aget_aset] at hg
    split at hg
    · rename_i e; subst e; simp at hg; subst hg; exact ⟨ha, hf⟩
    · exact h.fm g x hg
  · exact hnm

theorem MapsOK.congr {t t' : Table} {st : STable} (h : MapsOK t st) (h1 : t'.fieldMap = t.fieldMap)
    (h2 : t'.nameMap = t.nameMap) : MapsOK t' st :=
  ⟨by rw [h1]; exact h.fm, by rw [h2]; exact h.nm⟩

theorem nm_aset_ok {t : Table} {st : STable} (h : MapsOK t st) {f : Field} {a : Nat}
    (ha : st.dropped < a) (hf : st.all[a - 1]? = some f) :
    ∀ n x, aget (aset t.nameMap f.name a) n = some x → st.dropped < x ∧ ∃ g, st.all[x - 1]? = some g ∧ g.name = n := by
  intro n x hg
  rw [aget_aset] at hg
  split at hg
  · rename_i e; subst e; simp at hg; subst hg; exact ⟨ha, f, hf, rfl⟩
  · exact h.nm n x hg

theorem afterInsert_inv {init log t0 base sid e o done st} (h : EInv init log t0 base sid e o done st)
    {f : Field} {t1 : Table} {st' : STable}
    (hs : st.insert f = some st') (habs : Abs t1 st') (haux : t1.aux = e.table.aux) (hsub : SubMaps t1 e.table)
    (hmaps : MapsOK t1 st') (hunt : ∀ a, st.dropped < a → a ≤ st'.dropped → e.table.isTracked a = false)
    (hlive : st'.dropped ≤ st.all.length) :
    ∃ e' r, (({ e with table := t1 } : TEnc).trackRef (st.all.length + 1)).afterInsert f (st.all.length + 1) = .ok (e', r) ∧
      EInv init log t0 base sid e' (emitInsertion o f r) (done ++ [f]) st' := by
  obtain ⟨hi, hb, hsid⟩ := h
  obtain ⟨hall, hcap, hdr⟩ := STable.insert_all hs
  have hbase : base ≤ st.all.length := Nat.le_trans hi.baseLe hi.grow
  have hnewEntry : st'.all[st.all.length + 1 - 1]? = some f := by rw [hall]; simp
  have hnewLive : st'.dropped < st.all.length + 1 := by omega
  have hpb : csub (st.all.length + 1) (e.base + 1) .insertPostbase = .ok (st.all.length + 1 - (base + 1)) := by
    rw [hb]; exact csub_ok (by omega)
  -- facts about an index found in one of the (old) maps
  have hfield : ∀ x, aget t1.fieldMap f = some x → st'.dropped < x ∧ x ≤ st.all.length ∧ st.all[x - 1]? = some f ∧
      st.dropped < x := by
    intro x hx
    have h1 := hmaps.fm f x hx
    have h2 := hi.maps.fm f x (hsub.1 f x hx)
    exact ⟨h1.1, by have := (List.getElem?_eq_some_iff.mp h2.2).1; omega, h2.2, h2.1⟩
  have hname : ∀ x, aget t1.nameMap f.name = some x → st'.dropped < x ∧ x ≤ st.all.length ∧
      (∃ g, st.all[x - 1]? = some g ∧ g.name = f.name) ∧ st.dropped < x := by
    intro x hx
    have h1 := hmaps.nm f.name x hx
    have h2 := hi.maps.nm f.name x (hsub.2 f.name x hx)
    obtain ⟨h2a, g, h2b, h2c⟩ := h2
    exact ⟨h1.1, by have := (List.getElem?_eq_some_iff.mp h2b).1; omega, ⟨g, h2b, h2c⟩, h2a⟩
  simp only [TEnc.afterInsert, TEnc.trackRef, Table.trackRef]
  cases hfm : aget t1.fieldMap f with
  | some refIndex =>
    obtain ⟨hr1, hr2, hr3, hr4⟩ := hfield refIndex hfm
    simp only [hpb, Res.bind_ok]
    rw [csub_ok (by omega)]; simp only [Res.bind_ok]
    have happly : st.apply (.dup (st.all.length + 1 - (refIndex + 1))) = some st' := by
      have : st.all.length + 1 - (refIndex + 1) = st.all.length - refIndex := by omega
      simp only [STable.apply, this, relEntry_of hr4 hr3, Option.bind_some, hs]
    have hL := hi.inserted happly hs habs haux hmaps hunt hlive
    refine ⟨_, _, rfl, ?_, hb, hsid⟩
    simp only [emitInsertion]
    have hnm : ∀ n x, aget (aModify t1.nameMap f.name (st.all.length + 1)) n = some x →
        st'.dropped < x ∧ ∃ g, st'.all[x - 1]? = some g ∧ g.name = n := by
      unfold aModify
      cases aget t1.nameMap f.name with
      | some _ => exact nm_aset_ok hmaps hnewLive hnewEntry
      | none => exact hmaps.nm
    have hm2 := hmaps.setField hnewLive hnewEntry _ hnm
    have hL2 := hL.setMaps _ _ (hm2.congr rfl rfl)
    have hL3 := hL2.trackRef hr1 (by rw [hall]; simp; omega)
    simpa [Table.trackRef] using hL3
  | none =>
    simp only
    have hm2 := hmaps.setField hnewLive hnewEntry t1.nameMap hmaps.nm
    cases hsn : staticFindName f.name with
    | some si =>
      obtain ⟨g, hg, hgn⟩ := staticFindName_sound hsn
      simp only [hpb, Res.bind_ok]
      have happly : st.apply (.insertStatic si f.value) = some st' := by
        simp only [STable.apply, hg, Option.bind_some, hgn]; exact hs
      have hL := hi.inserted happly hs habs haux hmaps hunt hlive
      refine ⟨_, _, rfl, ?_, hb, hsid⟩
      simp only [emitInsertion]
      have hL2 := hL.setMaps _ _ (hm2.congr rfl rfl)
      simpa [Table.trackRef] using hL2
    | none =>
      simp only
      have hm3 := hmaps.setField hnewLive hnewEntry _ (nm_aset_ok hmaps hnewLive hnewEntry)
      cases hnmx : aget t1.nameMap f.name with
      | some refIndex =>
        obtain ⟨hr1, hr2, ⟨g, hr3, hgn⟩, hr4⟩ := hname refIndex hnmx
        simp only [hpb, Res.bind_ok]
        rw [csub_ok (by omega)]; simp only [Res.bind_ok]
        have happly : st.apply (.insertDyn (st.all.length + 1 - (refIndex + 1)) f.value) = some st' := by
          have : st.all.length + 1 - (refIndex + 1) = st.all.length - refIndex := by omega
          simp only [STable.apply, this, relEntry_of hr4 hr3, Option.bind_some, hgn]; exact hs
        have hL := hi.inserted happly hs habs haux hmaps hunt hlive
        refine ⟨_, _, rfl, ?_, hb, hsid⟩
        simp only [emitInsertion]
        have hL2 := hL.setMaps _ _ (hm3.congr rfl rfl)
        have hL3 := hL2.trackRef hr1 (by rw [hall]; simp; omega)
        simpa [Table.trackRef] using hL3
      | none =>
        simp only [hpb, Res.bind_ok]
        have happly : st.apply (.insertLit f.name f.value) = some st' := by
          simp only [STable.apply]; exact hs
        have hL := hi.inserted happly hs habs haux hmaps hunt hlive
        refine ⟨_, _, rfl, ?_, hb, hsid⟩
        simp only [emitInsertion]
        have hL2 := hL.setMaps _ _ (hm3.congr rfl rfl)
        simpa [Table.trackRef] using hL2

theorem insert_inv {init log t0 base sid e o done st} (h : EInv init log t0 base sid e o done st) (f : Field) :
    ∃ e' r st', e.insert f = .ok (e', r) ∧ EInv init log t0 base sid e' (emitInsertion o f r) (done ++ [f]) st' := by
  unfold TEnc.insert
  by_cases hbl : e.table.blockedCount ≥ e.table.blockedMax
  · rw [if_pos hbl]; exact ⟨_, _, st, rfl, notInserted_inv h f⟩
  · rw [if_neg hbl]
    have ho := insert_spec h.1.abs f
    generalize e.table.insert f = r at ho
    cases ho with
    | zeroCap _ => exact ⟨_, _, st, rfl, notInserted_inv h f⟩
    | tooLarge _ _ => exact ⟨_, _, st, rfl, notInserted_inv h f⟩
    | pinned _ _ _ => exact ⟨_, _, st, rfl, notInserted_inv h f⟩
    | inserted t1 st' hs habs haux hsub hm hunt hlive =>
      obtain ⟨e', r', h1, h2⟩ := afterInsert_inv h hs habs haux hsub (hm h.1.maps) hunt hlive
      rw [← h.1.abs.ins] at h1 ⊢
      exact ⟨e', r', st', h1, h2⟩

theorem encodeField_inv {init log t0 base sid e o done st} (h : EInv init log t0 base sid e o done st) (f : Field) :
    ∃ e' o' st', encodeField e o f = .ok (e', o') ∧ EInv init log t0 base sid e' o' (done ++ [f]) st' := by
  unfold encodeField
  cases hsf : staticFind f with
  | some i =>
    refine ⟨_, _, st, rfl, ?_, h.2.1, h.2.2⟩
    exact h.1.emitNoRef (r := .indexedStatic i) (by simp [denoteRepAll, staticFind_sound hsf]) rfl
  | none =>
    simp only
    obtain ⟨h1, h2⟩ := find_inv h f
    cases hl : (e.find f).2 with
    | relative idx a =>
      simp only
      rw [hl] at h2
      obtain ⟨hab, hidx, hc, g, hg, hgf⟩ := h2
      subst hgf
      have ha0 : a ≠ 0 := by intro e0; subst e0; simp [entry1] at hg
      have : base - idx = a := by omega
      refine ⟨_, _, st, rfl, ?_, h1.2.1, h1.2.2⟩
      exact h1.1.emitRef (r := .indexedDyn idx) (a := a) (by simp [denoteRepAll, this, hg])
        (by simp [Rep.absRef, this]) hc
    | static i =>
      simp only
      obtain ⟨e', r, st', h3, h4⟩ := insert_inv h1 f
      exact ⟨e', _, st', by rw [h3]; rfl, h4⟩
    | postBase idx a =>
      simp only
      obtain ⟨e', r, st', h3, h4⟩ := insert_inv h1 f
      exact ⟨e', _, st', by rw [h3]; rfl, h4⟩
    | notFound =>
      simp only
      obtain ⟨e', r, st', h3, h4⟩ := insert_inv h1 f
      exact ⟨e', _, st', by rw [h3]; rfl, h4⟩

theorem encodeFields_inv {init log t0 base sid e o done st} (h : EInv init log t0 base sid e o done st)
    (fs : List Field) :
    ∃ e' o' st', encodeFields e o fs = .ok (e', o') ∧ EInv init log t0 base sid e' o' (done ++ fs) st' := by
  induction fs generalizing e o done st with
  | nil => exact ⟨e, o, st, rfl, by simpa using h⟩
  | cons f fs ih =>
    obtain ⟨e1, o1, st1, h1, hi1⟩ := encodeField_inv h f
    obtain ⟨e2, o2, st2, h2, hi2⟩ := ih hi1
    exact ⟨e2, o2, st2, by simp only [encodeFields, h1, Res.bind_ok, h2], by simpa using hi2⟩

/-! ### `Encoder::encode` as a whole -/

/-- invariant of the encoder's table between calls; `log` = every encoder instruction emitted so far -/
structure TableInv (init : STable) (log : List EncInstr) (t : Table) (st : STable) : Prop where
  run : init.run log = some st
  abs : Abs t st
  maps : MapsOK t st
  track : TrackOK t
  blocked : BlockedOK t

theorem refreshMaps_spec {t : Table} {st : STable} (h : Abs t st) (fs : List Field) (idx : Nat)
    (fm : List (Field × Nat)) (nm : List (Bytes × Nat)) (hsuf : t.fields.drop idx = fs)
    (hm : MapsOK { t with fieldMap := fm, nameMap := nm } st) :
    ∃ fm' nm', refreshMaps t.vas fs idx fm nm = .ok (fm', nm') ∧
      MapsOK { t with fieldMap := fm', nameMap := nm' } st := by
  induction fs generalizing idx fm nm with
  | nil => exact ⟨fm, nm, rfl, hm⟩
  | cons f r ih =>
    have hlen : idx < t.fields.length := by
      apply Nat.lt_of_not_le; intro hle
      rw [List.drop_eq_nil_of_le hle] at hsuf; simp at hsuf
    have hidx : t.vas.index idx = some (idx + t.vas.dropped + 1) := by
      simp only [Vas.index]; rw [if_neg (by rw [h.delta]; omega)]
    have hf : t.fields[idx]? = some f := by
      have : (t.fields.drop idx)[0]? = some f := by rw [hsuf]; rfl
      rw [List.getElem?_drop] at this; simpa using this
    have hall : st.all[idx + t.vas.dropped + 1 - 1]? = some f := by
      rw [h.fields, List.getElem?_drop] at hf
      rw [h.drp]; rw [← hf]; congr 1; omega
    have hdl : st.dropped < idx + t.vas.dropped + 1 := by rw [h.drp]; omega
    simp only [refreshMaps, hidx]
    apply ih (idx + 1)
    · rw [← List.drop_drop, hsuf]; rfl
    · exact (hm.setField hdl hall _ (nm_aset_ok hm hdl hall)).congr rfl rfl

theorem TrackOKx.registerBlocked {t : Table} {x : RefMap} (h : TrackOKx t x) (l : Nat) :
    TrackOKx (t.registerBlocked l) x := by
  unfold Table.registerBlocked; split
  · exact h
  · exact ⟨h.sum, h.live, h.nodup, h.wf, h.nonempty⟩

theorem registerBlocked_core (t : Table) (l : Nat) :
    (t.registerBlocked l).fields = t.fields ∧ (t.registerBlocked l).currSize = t.currSize ∧
    (t.registerBlocked l).maxSize = t.maxSize ∧ (t.registerBlocked l).vas = t.vas ∧
    (t.registerBlocked l).fieldMap = t.fieldMap ∧ (t.registerBlocked l).nameMap = t.nameMap ∧
    (t.registerBlocked l).trackMap = t.trackMap ∧ (t.registerBlocked l).trackBlocks = t.trackBlocks ∧
    (t.registerBlocked l).lkr = t.lkr ∧ (t.registerBlocked l).blockedMax = t.blockedMax := by
  unfold Table.registerBlocked; split <;> simp

theorem trackBlock_core (t : Table) (sid : Nat) (refs : RefMap) :
    (t.trackBlock sid refs).fields = t.fields ∧ (t.trackBlock sid refs).currSize = t.currSize ∧
    (t.trackBlock sid refs).maxSize = t.maxSize ∧ (t.trackBlock sid refs).vas = t.vas ∧
    (t.trackBlock sid refs).fieldMap = t.fieldMap ∧ (t.trackBlock sid refs).nameMap = t.nameMap ∧
    (t.trackBlock sid refs).trackMap = t.trackMap ∧
    (t.trackBlock sid refs).lkr = t.lkr ∧ (t.trackBlock sid refs).blockedMax = t.blockedMax ∧
    (t.trackBlock sid refs).blockedCount = t.blockedCount ∧
    (t.trackBlock sid refs).blockedStreams = t.blockedStreams := by
  unfold Table.trackBlock; split <;> simp

/-- everything the later proofs need to know about one `encode` call -/
structure EncodeFacts (t : Table) (st : STable) (sid : Nat) (fields : List Field) (enc : Encoded) (st' : STable) : Prop where
  den : denoteAll st'.all enc.base enc.block.reps = some fields
  refs : ∀ r ∈ enc.block.reps, ∀ a, r.absRef enc.base = some a → 1 ≤ cnt enc.refMap a ∧ a ≤ enc.required
  req : enc.required = 0 ∨ ∃ r ∈ enc.block.reps, r.absRef enc.base = some enc.required
  new : ∀ a, st.all.length < a → a ≤ st'.all.length → 1 ≤ cnt enc.refMap a ∧ a ≤ enc.required
  reqLe : enc.required ≤ st'.all.length
  wf : RefMapWF enc.refMap
  queue : aget enc.table.trackBlocks sid = some ((aget t.trackBlocks sid).getD [] ++ [enc.refMap])
  others : ∀ x, x ≠ sid → aget enc.table.trackBlocks x = aget t.trackBlocks x
  lkr : enc.table.lkr = t.lkr
  cap : st'.cap = st.cap
  pfx : prefixNew enc.required enc.base st'.all.length st.cap = .ok enc.block.pfx
  baseLe : enc.base ≤ st.all.length
  grow : ∃ l, st'.all = st.all ++ l
  dropMono : st.dropped ≤ st'.dropped
  noSU : ∀ i ∈ enc.instrs, ∀ c, i ≠ .sizeUpdate c
  refPos : ∀ r ∈ enc.block.reps, ∀ a, r.absRef enc.base = some a → 1 ≤ a
  mono : ∀ a, cnt t.trackMap a ≤ cnt enc.table.trackMap a

theorem encode_spec {init log t st} (h : TableInv init log t st) (sid : Nat) (fields : List Field) :
    ∃ enc st', encode t sid fields = .ok enc ∧ TableInv init (log ++ enc.instrs) enc.table st' ∧
      EncodeFacts t st sid fields enc st' := by
  unfold encode Table.encoder
  obtain ⟨fm, nm, hrm, hmaps⟩ := refreshMaps_spec h.abs t.fields 0 t.fieldMap t.nameMap (by simp)
    (h.maps.congr rfl rfl)
  have hlr : t.vas.largestRef = .ok (t.vas.inserted - t.vas.dropped) := by
    unfold Vas.largestRef; exact csub_ok (by rw [h.abs.ins, h.abs.drp]; exact h.abs.le)
  simp only [hrm, hlr, Res.bind_ok]
  -- the invariant holds at loop entry
  have h0 : EInv init log { t with fieldMap := fm, nameMap := nm } (t.vas.inserted - t.vas.dropped) sid
      { table := { t with fieldMap := fm, nameMap := nm }, base := t.vas.inserted - t.vas.dropped, streamId := sid }
      {} [] st := by
    refine ⟨?_, rfl, rfl⟩
    exact {
      run := by simpa using h.run
      abs := ⟨h.abs.fields, h.abs.ins, h.abs.drp, h.abs.delta, h.abs.curr, h.abs.max, h.abs.le, h.abs.cap⟩
      maps := hmaps
      track := ⟨h.track.sum, h.track.live, h.track.nodup, h.track.wf, h.track.nonempty⟩
      brwf := ⟨by simp [keys], by simp⟩
      aux0 := ⟨rfl, rfl, rfl, rfl, rfl⟩
      grow := by simp only; rw [h.abs.ins]; exact Nat.le_refl _
      baseLe := by simp only; omega
      capEq := by simp only; exact h.abs.max.symm
      den := rfl
      refs := by intro r hr; simp at hr
      req := Or.inl rfl
      new := by intro a h1 h2; simp only at h1; rw [h.abs.ins] at h1; omega
      noSU := by intro i hi; simp at hi
      refPos := by intro r hr; simp at hr
      mono := fun _ => Nat.le_refl _ }
  obtain ⟨e, o, st', hloop, hinv, hbase, hsid⟩ := encodeFields_inv h0 fields
  simp only [hloop, Res.bind_ok]
  simp only [List.nil_append] at hinv
  -- the prefix cannot panic
  have hreqLive : o.required ≠ 0 → st'.dropped < o.required ∧ o.required ≤ st'.all.length := by
    intro hne
    rcases hinv.req with h0' | ⟨r, hr, ha⟩
    · exact absurd h0' hne
    · have hc := (hinv.refs r hr _ ha).1
      have := hinv.track.live o.required (by rw [hinv.track.sum]; omega)
      rw [hinv.abs.drp, hinv.abs.ins] at this; exact this
  have hcapst : st'.cap = st.cap := by rw [hinv.capEq]; simp only; exact h.abs.max
  have hpfx : ∃ p, prefixNew o.required e.base e.table.totalInserted e.table.maxSize = .ok p := by
    unfold prefixNew
    by_cases hm0 : e.table.maxSize = 0
    · rw [if_pos hm0]; exact ⟨_, rfl⟩
    · rw [if_neg hm0]
      by_cases hr0 : o.required = 0
      · rw [if_pos hr0]; exact ⟨_, rfl⟩
      · rw [if_neg hr0]
        obtain ⟨hl1, hl2⟩ := hreqLive hr0
        rw [if_neg (by simp only [Table.totalInserted]; rw [hinv.abs.ins]; omega)]
        have hlen := hinv.abs.length
        have hsz := size_ge_length e.table.fields
        have hcs := hinv.abs.curr
        have hcp := hinv.abs.cap
        simp only
        rw [if_neg (by omega)]; exact ⟨_, rfl⟩
  obtain ⟨p, hp⟩ := hpfx
  simp only [hp, Res.bind_ok]
  refine ⟨_, st', rfl, ?_, ?_⟩
  · -- the table invariant after `commit`
    obtain ⟨htk, _, _⟩ := trackBlock_spec hinv.track hinv.brwf e.streamId
    have hc1 := trackBlock_core e.table e.streamId e.blockRefs
    have hc2 := registerBlocked_core (e.table.trackBlock e.streamId e.blockRefs) o.required
    simp only [TEnc.commit]
    exact {
      run := hinv.run
      abs := by
        have a := hinv.abs
        exact ⟨by rw [hc2.1, hc1.1]; exact a.fields, by rw [hc2.2.2.2.1, hc1.2.2.2.1]; exact a.ins,
          by rw [hc2.2.2.2.1, hc1.2.2.2.1]; exact a.drp, by rw [hc2.2.2.2.1, hc1.2.2.2.1, hc2.1, hc1.1]; exact a.delta,
          by rw [hc2.2.1, hc1.2.1, hc2.1, hc1.1]; exact a.curr, by rw [hc2.2.2.1, hc1.2.2.1]; exact a.max, a.le,
          by rw [hc2.2.1, hc1.2.1, hc2.2.2.1, hc1.2.2.1]; exact a.cap⟩
      maps := hinv.maps.congr (by rw [hc2.2.2.2.2.1, hc1.2.2.2.2.1]) (by rw [hc2.2.2.2.2.2.1, hc1.2.2.2.2.2.1])
      track := htk.registerBlocked _
      blocked := by
        apply registerBlocked_ok
        constructor
        rw [hc1.2.2.2.2.2.2.2.2.2.1, hc1.2.2.2.2.2.2.2.2.2.2, hinv.aux0.2.2.2.1, hinv.aux0.2.2.2.2]
        exact h.blocked.sum }
  · obtain ⟨_, hq, hoth⟩ := trackBlock_spec hinv.track hinv.brwf e.streamId
    rw [hsid] at hq hoth
    have hc2 := registerBlocked_core (e.table.trackBlock sid e.blockRefs) o.required
    have hc1 := trackBlock_core e.table sid e.blockRefs
    have hrm := STable.run_mono (st := st) (st' := st') (ins := o.instrs) (by
      have := hinv.run; rw [STable.run_append, h.run] at this; simpa using this)
    exact {
      den := by simp only; rw [hbase]; exact hinv.den
      refs := by simp only; rw [hbase]; exact hinv.refs
      req := by simp only; rw [hbase]; exact hinv.req
      new := by
        intro a h1 h2; simp only
        exact hinv.new a (by simp only; rw [h.abs.ins]; exact h1) h2
      reqLe := by
        simp only
        by_cases hr0 : o.required = 0
        · omega
        · exact (hreqLive hr0).2
      wf := hinv.brwf
      queue := by
        simp only [TEnc.commit]; rw [hsid, hc2.2.2.2.2.2.2.2.1, hq, hinv.aux0.1]
      others := by
        intro x hx
        simp only [TEnc.commit]; rw [hsid, hc2.2.2.2.2.2.2.2.1, hoth x hx, hinv.aux0.1]
      lkr := by simp only [TEnc.commit]; rw [hsid, hc2.2.2.2.2.2.2.2.2.1, hc1.2.2.2.2.2.2.2.1, hinv.aux0.2.1]
      cap := hcapst
      pfx := by
        simp only
        rw [← hp]; simp only [Table.totalInserted]
        rw [hinv.abs.ins, hinv.abs.max, hcapst]
      baseLe := by simp only; rw [hbase, ← h.abs.ins]; omega
      grow := ⟨_, hrm.1.choose_spec.1⟩
      dropMono := hrm.2
      noSU := hinv.noSU
      refPos := by simp only; rw [hbase]; exact hinv.refPos
      mono := by
        intro a; simp only [TEnc.commit]
        rw [hsid, hc2.2.2.2.2.2.2.1, hc1.2.2.2.2.2.2.1]; exact hinv.mono a }

end H3.Dyn
