import H3.Model.Varint
import H3.Lemmas.Varint
/-! The RFC 9000 §16 specification decoder `rfcDecode` against the encoder model: reading back
    an encoding (whatever follows it), and not reading anything from a proper prefix of one. -/
namespace H3.Varint

theorem encode_cases (x : Nat) (hx : x < 2^62) :
    (x < 2^6 ∧ encode x = [x]) ∨
    (2^6 ≤ x ∧ x < 2^14 ∧ encode x = [64 + x / 256, x % 256]) ∨
    (2^14 ≤ x ∧ x < 2^30 ∧
      encode x = [128 + x / 16777216, x / 65536 % 256, x / 256 % 256, x % 256]) ∨
    (2^30 ≤ x ∧
      encode x = [192 + x / 72057594037927936, x / 281474976710656 % 256,
                  x / 1099511627776 % 256, x / 4294967296 % 256, x / 16777216 % 256,
                  x / 65536 % 256, x / 256 % 256, x % 256]) := by
  unfold encode encode?
  by_cases h6 : x < 2^6
  · left; exact ⟨h6, by rw [if_pos h6]; rfl⟩
  · right
    rw [if_neg h6]
    by_cases h14 : x < 2^14
    · left
      refine ⟨by omega, h14, ?_⟩
      rw [if_pos h14]
      simp only [Option.getD_some, be2]
      congr 1
      · omega
      · congr 1; omega
    · right
      rw [if_neg h14]
      by_cases h30 : x < 2^30
      · left
        refine ⟨by omega, h30, ?_⟩
        rw [if_pos h30]
        simp only [Option.getD_some, be4]
        congr 1
        · omega
        · congr 1
          · omega
          · congr 1
            · omega
            · congr 1; omega
      · right
        refine ⟨by omega, ?_⟩
        rw [if_neg h30, if_pos hx]
        simp only [Option.getD_some, be8]
        congr 1
        · omega
        · congr 1
          · omega
          · congr 1
            · omega
            · congr 1
              · omega
              · congr 1
                · omega
                · congr 1
                  · omega
                  · congr 1
                    · omega
                    · congr 1; omega

/-- the specification decoder reads an encoding back, whatever follows -/
theorem rfcDecode_encode (x : Nat) (hx : x < 2^62) (r : Bytes) :
    rfcDecode (encode x ++ r) = some (x, r) := by
  rcases encode_cases x hx with ⟨h, e⟩ | ⟨h1, h2, e⟩ | ⟨h1, h2, e⟩ | ⟨h1, e⟩
  · rw [e]
    have h0 : x / 64 = 0 := by omega
    simp [rfcDecode, rfcLen, rfcValue, beVal, h0]
    omega
  · rw [e]
    have h0 : (64 + x / 256) / 64 = 1 := by omega
    simp [rfcDecode, rfcLen, rfcValue, beVal, h0]
    omega
  · rw [e]
    have h0 : (128 + x / 16777216) / 64 = 2 := by omega
    simp [rfcDecode, rfcLen, rfcValue, beVal, h0]
    omega
  · rw [e]
    have h0 : (192 + x / 72057594037927936) / 64 = 3 := by omega
    simp [rfcDecode, rfcLen, rfcValue, beVal, h0]
    omega

/-- an encoding starts with a byte that announces its own length -/
theorem encode_head (x : Nat) (hx : x < 2^62) :
    ∃ b0 t, encode x = b0 :: t ∧ rfcLen b0 = (encode x).length := by
  rcases encode_cases x hx with ⟨h, e⟩ | ⟨h1, h2, e⟩ | ⟨h1, h2, e⟩ | ⟨h1, e⟩
  · exact ⟨_, _, e, by rw [e]; have : x / 64 = 0 := by omega
                       simp [rfcLen, this]⟩
  · exact ⟨_, _, e, by rw [e]; have : (64 + x / 256) / 64 = 1 := by omega
                       simp [rfcLen, this]⟩
  · exact ⟨_, _, e, by rw [e]; have : (128 + x / 16777216) / 64 = 2 := by omega
                       simp [rfcLen, this]⟩
  · exact ⟨_, _, e, by rw [e]; have : (192 + x / 72057594037927936) / 64 = 3 := by omega
                       simp [rfcLen, this]⟩

theorem encode_length_pos (x : Nat) (hx : x < 2^62) : 0 < (encode x).length := by
  obtain ⟨b0, t, e, _⟩ := encode_head x hx
  rw [e]; simp

theorem encode_length_le (x : Nat) (hx : x < 2^62) : (encode x).length ≤ 8 := by
  rcases encode_cases x hx with ⟨_, e⟩ | ⟨_, _, e⟩ | ⟨_, _, e⟩ | ⟨_, e⟩ <;> rw [e] <;> simp

/-- nothing is read from a proper, non-empty prefix of an encoding -/
theorem rfcDecode_encode_prefix (x : Nat) (hx : x < 2^62) (c : Nat)
    (hc : c < (encode x).length) : rfcDecode ((encode x).take c) = none := by
  obtain ⟨b0, t, e, hl⟩ := encode_head x hx
  cases c with
  | zero => simp [rfcDecode]
  | succ c =>
    rw [e, List.take_succ_cons]
    simp only [rfcDecode]
    rw [if_pos]
    rw [hl, e]
    rw [e] at hc
    simp at hc ⊢
    omega

/-- `write_var` on a value below 2^62 -/
theorem writeVar_eq (x : Nat) (hx : x < 2^62) : writeVar x = some (encode x) := by
  unfold writeVar fromU64 encode
  rw [if_pos hx]
  have : (encode? x).isSome := by
    unfold encode?; repeat' split
    all_goals first | rfl | omega
  cases he : encode? x <;> simp_all

theorem writeVar_none (x : Nat) (hx : ¬ x < 2^62) : writeVar x = none := by
  unfold writeVar fromU64
  rw [if_neg hx]; rfl

end H3.Varint

namespace H3.Varint

theorem encode?_eq (x : Nat) (hx : x < 2^62) : encode? x = some (encode x) := by
  have : (encode? x).isSome := by
    unfold encode?; repeat' split
    all_goals first | rfl | omega
  unfold encode
  cases he : encode? x <;> simp_all

theorem encode_length_eq_size (x : Nat) (hx : x < 2^62) : (encode x).length = size x := by
  rcases encode_cases x hx with ⟨h, e⟩ | ⟨h1, h2, e⟩ | ⟨h1, h2, e⟩ | ⟨h1, e⟩
  · rw [e]; simp [size, h]
  · rw [e]; have : ¬ x < 2^6 := by omega
    simp [size, this, h2]
  · rw [e]; have a : ¬ x < 2^6 := by omega
    have b : ¬ x < 2^14 := by omega
    simp [size, a, b, h2]
  · rw [e]; have a : ¬ x < 2^6 := by omega
    have b : ¬ x < 2^14 := by omega
    have c : ¬ x < 2^30 := by omega
    simp [size, a, b, c]

theorem size_le_8 (x : Nat) : size x ≤ 8 := by
  unfold size; repeat' split
  all_goals omega

theorem size_pos (x : Nat) : 0 < size x := by
  unfold size; repeat' split
  all_goals omega

/-- `VarInt::from_u64(x).unwrap().size()` -/
theorem sizeOf_eq (x : Nat) (hx : x < 2^62) : (fromU64 x).bind size? = some (size x) := by
  unfold fromU64; rw [if_pos hx]; exact size_eq_of_lt hx

theorem sizeOf_none (x : Nat) (hx : ¬ x < 2^62) : (fromU64 x).bind size? = none := by
  unfold fromU64; rw [if_neg hx]; rfl

end H3.Varint
