import H3.Model.E2E
import H3.Lemmas.SendFrames
import H3.Lemmas.FrameRefSpec
import H3.Props.C02
/-! The bytes of a message on its stream, read back by the RFC 9114 §7.1 oracle (`observe`) and by
    the byte-wise reference automaton of the frame layer (`run frameDec`): composition of the
    send-side frame lemmas (C14) with the segmentation theorem of C02. -/
namespace H3.E2E
open H3.Varint H3.WriteBuf H3.FS H3.Spec.Framing H3.Gen.WriteBuf

abbrev fwire := H3.Spec.Output.wire

/-- the frames a request stream carries: DATA and HEADERS with octet payloads shorter than 2^62,
    and frames of a type h3 does not know (the grease frame) -/
def Plain : SFrame → Prop
  | .data p => p.length < 2^62 ∧ WF p
  | .headers b => b.length < 2^62 ∧ WF b
  | .grease ty => ty < 2^62 ∧ isKnown ty = false ∧ ty ≠ 0x0 ∧ ty ≠ 0x41
  | _ => False

theorem frameBytes_data (p : Bytes) (hp : p.length < 2^62) : frameBytes (.data p) = fwire 0 p := by
  have h1 : encodeFrame (.data p) = some (encode 0 ++ encode p.length) := by
    simp only [encodeFrame, H3.Gen.Consts.FRAME_DATA]
    rw [writeVar_eq 0 (by decide), writeVar_eq _ hp]; rfl
  simp [frameBytes, h1, framePayload, fwire, H3.Spec.Output.wire]

theorem frameBytes_headers (p : Bytes) (hp : p.length < 2^62) : frameBytes (.headers p) = fwire 1 p := by
  have h1 : encodeFrame (.headers p) = some (encode 1 ++ encode p.length) := by
    simp only [encodeFrame, H3.Gen.Consts.FRAME_HEADERS]
    rw [writeVar_eq 1 (by decide), writeVar_eq _ hp]; rfl
  simp [frameBytes, h1, framePayload, fwire, H3.Spec.Output.wire]

theorem frameBytes_grease (ty : Nat) (hty : ty < 2^62) :
    frameBytes (.grease ty) = fwire ty GREASE_FRAME_PAYLOAD := by
  have h1 : encodeFrame (.grease ty) = some (encode ty ++ encode GREASE_FRAME_LEN ++ GREASE_FRAME_PAYLOAD) := by
    simp only [encodeFrame]
    rw [writeVar_eq ty hty, writeVar_eq GREASE_FRAME_LEN (by decide)]; rfl
  have h2 : GREASE_FRAME_PAYLOAD.length = GREASE_FRAME_LEN := by decide
  simp [frameBytes, h1, framePayload, fwire, H3.Spec.Output.wire, h2]

/-- type and payload of a `Plain` frame -/
def tyOf : SFrame → Nat
  | .data _ => 0
  | .headers _ => 1
  | .grease ty => ty
  | _ => 0

def payOf : SFrame → Bytes
  | .data p => p
  | .headers p => p
  | .grease _ => GREASE_FRAME_PAYLOAD
  | _ => []

theorem frameBytes_plain (f : SFrame) (h : Plain f) :
    frameBytes f = fwire (tyOf f) (payOf f) ∧ tyOf f < 2^62 ∧ (payOf f).length < 2^62 ∧ WF (payOf f) ∧
      tyOf f ≠ 0x41 := by
  cases f with
  | data p => exact ⟨frameBytes_data p h.1, by simp [tyOf], h.1, h.2, by simp [tyOf]⟩
  | headers p => exact ⟨frameBytes_headers p h.1, by simp [tyOf], h.1, h.2, by simp [tyOf]⟩
  | grease ty =>
    exact ⟨frameBytes_grease ty h.1, h.1, by simp only [payOf]; decide,
      by intro b hb; simp only [payOf] at hb; revert b; decide, h.2.2.2⟩
  | cancelPush _ | settings _ | pushPromise _ _ | goaway _ | maxPushId _ | webTransport _ =>
    exact absurd h (by simp [Plain])

theorem encode_wf (x : Nat) (hx : x < 2^62) : WF (encode x) := by
  unfold encode encode?
  by_cases h6 : x < 2^6
  · rw [if_pos h6]
    intro b hb
    simp only [Option.getD_some, List.mem_singleton] at hb
    subst hb; omega
  · rw [if_neg h6]
    by_cases h14 : x < 2^14
    · rw [if_pos h14]; exact be_wf _ _
    · rw [if_neg h14]
      by_cases h30 : x < 2^30
      · rw [if_pos h30]; exact be_wf _ _
      · rw [if_neg h30, if_pos hx]; exact be_wf _ _

theorem wf_append {a b : Bytes} (ha : WF a) (hb : WF b) : WF (a ++ b) := by
  intro x hx
  rcases List.mem_append.mp hx with h | h
  · exact ha x h
  · exact hb x h

theorem fwire_wf (ty : Nat) (p : Bytes) (hty : ty < 2^62) (hp : p.length < 2^62) (hw : WF p) :
    WF (fwire ty p) :=
  wf_append (wf_append (encode_wf ty hty) (encode_wf _ hp)) hw

theorem wireOf_cons (f : SFrame) (fs : List SFrame) : wireOf (f :: fs) = frameBytes f ++ wireOf fs := by
  simp [wireOf]

theorem wireOf_append (a b : List SFrame) : wireOf (a ++ b) = wireOf a ++ wireOf b := by
  simp [wireOf]

theorem wireOf_wf (fs : List SFrame) (h : ∀ f ∈ fs, Plain f) : WF (wireOf fs) := by
  induction fs with
  | nil => intro b hb; simp [wireOf] at hb
  | cons f r ih =>
    rw [wireOf_cons]
    obtain ⟨he, hty, hp, hw, _⟩ := frameBytes_plain f (h f (by simp))
    rw [he]
    exact wf_append (fwire_wf _ _ hty hp hw) (ih (fun x hx => h x (by simp [hx])))

/-! ### one frame at the front of a byte string -/

/-- C14 (`C14_frame_header_valid`): type and length read back under the RFC 9000 §16 decoder -/
theorem rfc_fwire (ty : Nat) (p rest : Bytes) (hty : ty < 2^62) (hp : p.length < 2^62) :
    rfcDecode (fwire ty p ++ rest) = some (ty, encode p.length ++ (p ++ rest)) ∧
    rfcDecode (encode p.length ++ (p ++ rest)) = some (p.length, p ++ rest) := by
  constructor
  · have : fwire ty p ++ rest = encode ty ++ (encode p.length ++ (p ++ rest)) := by
      simp [fwire, H3.Spec.Output.wire]
    rw [this, rfcDecode_encode _ hty]
  · rw [rfcDecode_encode _ hp]

theorem fwire_ne_nil (ty : Nat) (p rest : Bytes) (hty : ty < 2^62) : fwire ty p ++ rest ≠ [] := by
  intro h
  have := H3.Spec.Output.wire_length_pos ty p hty
  have h2 := congrArg List.length h
  simp only [List.length_append, List.length_nil] at h2
  unfold fwire at h2
  omega

theorem hdr_len (ty : Nat) (p rest : Bytes) :
    (fwire ty p ++ rest).length - (p ++ rest).length = (encode ty ++ encode p.length).length := by
  simp [fwire, H3.Spec.Output.wire]
  omega

/-- C02 (`C02_frame_decode_is_segment`) on the bytes C14 describes: what `Frame::decode` answers
    on a DATA / HEADERS / unknown-type frame followed by anything -/
theorem dec_fwire (ty : Nat) (p rest : Bytes) (hty : ty < 2^62) (hp : p.length < 2^62)
    (hwf : WF (fwire ty p ++ rest)) (h41 : ty ≠ 0x41) :
    (ty = 0 → frameDec.dec (fwire ty p ++ rest) =
      .frame (.data p.length) (encode ty ++ encode p.length).length) ∧
    (ty = 1 → frameDec.dec (fwire ty p ++ rest) = .frame (.headers p) (fwire ty p).length) ∧
    (ty ≠ 0 → isKnown ty = false → frameDec.dec (fwire ty p ++ rest) = .unknown (fwire ty p).length) := by
  obtain ⟨h1, h2⟩ := rfc_fwire ty p rest hty hp
  obtain ⟨_, hseg⟩ := H3.Props.C02.C02_frame_decode_is_segment _ hwf
  obtain ⟨_, hseg2⟩ := hseg ty _ h1 h41
  obtain ⟨_, hd0, _, hd1⟩ := hseg2 p.length _ h2
  have hl := hdr_len ty p rest
  have hfl : (fwire ty p).length = (encode ty ++ encode p.length).length + p.length := by
    simp [fwire, H3.Spec.Output.wire]; omega
  have htake : (p ++ rest).take p.length = p := by simp
  refine ⟨fun h0 => ?_, fun h => ?_, fun h0 hk => ?_⟩
  · show liftRes _ = _
    rw [hd0 h0, hl]; rfl
  · have hne : ty ≠ 0 := by omega
    obtain ⟨_, hk⟩ := hd1 hne (by simp)
    have hkn : isKnown ty = true := by subst h; decide
    have := hk hkn
    rw [htake] at this
    have hc : classify ty p = .frame (.headers p) := by subst h; simp [classify]
    rw [hc] at this
    show liftRes _ = _
    rw [this, hl, hfl]; rfl
  · obtain ⟨hu, _⟩ := hd1 h0 (by simp)
    show liftRes _ = _
    rw [hu hk, hl, hfl]; rfl

/-! ### the reference automaton over the frames of a stream -/

abbrev RTok := H3.FS.Tok H3.Frame.Frame H3.Frame.FrameErr

/-- what the byte-wise reference automaton emits for a frame list -/
def runToks : List SFrame → List RTok
  | [] => []
  | .data p :: r => .frame (.data p.length) :: (p.map .byte ++ runToks r)
  | .headers b :: r => .frame (.headers b) :: runToks r
  | _ :: r => runToks r

theorem run_fwire_headers (p rest : Bytes) (hp : p.length < 2^62) (hwf : WF (fwire 1 p ++ rest)) :
    run frameDec (.hdr []) (fwire 1 p ++ rest) =
      ((run frameDec (.hdr []) rest).1, .frame (.headers p) :: (run frameDec (.hdr []) rest).2) := by
  have hd := (dec_fwire 1 p rest (by decide) hp hwf (by decide)).2.1 rfl
  have hpos : (frameDec.dec (fwire 1 p ++ rest)).pos? = some (fwire 1 p).length := by rw [hd]; rfl
  rw [run_of_pos frameDec frameDec_laws _ _ hpos, hd]
  simp [DecRes.fed, frameDec, frameKind, Kind.rem]

theorem run_fwire_unknown (ty : Nat) (p rest : Bytes) (hty : ty < 2^62) (hp : p.length < 2^62)
    (hwf : WF (fwire ty p ++ rest)) (h0 : ty ≠ 0) (h41 : ty ≠ 0x41) (hk : isKnown ty = false) :
    run frameDec (.hdr []) (fwire ty p ++ rest) = run frameDec (.hdr []) rest := by
  have hd := (dec_fwire ty p rest hty hp hwf h41).2.2 h0 hk
  have hpos : (frameDec.dec (fwire ty p ++ rest)).pos? = some (fwire ty p).length := by rw [hd]; rfl
  rw [run_of_pos frameDec frameDec_laws _ _ hpos, hd]
  simp [DecRes.fed]

theorem run_fwire_data (p rest : Bytes) (hp : p.length < 2^62) (hwf : WF (fwire 0 p ++ rest)) :
    run frameDec (.hdr []) (fwire 0 p ++ rest) =
      ((run frameDec (.hdr []) rest).1,
       .frame (.data p.length) :: (p.map .byte ++ (run frameDec (.hdr []) rest).2)) := by
  have hd := (dec_fwire 0 p rest (by decide) hp hwf (by decide)).1 rfl
  have hpos : (frameDec.dec (fwire 0 p ++ rest)).pos? = some (encode 0 ++ encode p.length).length := by
    rw [hd]; rfl
  rw [run_of_pos frameDec frameDec_laws _ _ hpos, hd]
  have hdrop : (fwire 0 p ++ rest).drop (encode 0 ++ encode p.length).length = p ++ rest := by
    have : fwire 0 p ++ rest = (encode 0 ++ encode p.length) ++ (p ++ rest) := by
      simp [fwire, H3.Spec.Output.wire]
    rw [this, List.drop_left]
  rw [hdrop]
  simp only [DecRes.fed, frameDec, frameKind, Kind.rem]
  by_cases h0 : p.length = 0
  · have : p = [] := List.eq_nil_of_length_eq_zero h0
    subst this
    simp
  · rw [PSt.ofRem_pos h0, run_data_full _ p.length (p ++ rest) h0 (by simp)]
    simp

theorem run_wireOf (fs : List SFrame) (h : ∀ f ∈ fs, Plain f) :
    run frameDec (.hdr []) (wireOf fs) = (.hdr [], runToks fs) := by
  induction fs with
  | nil => rfl
  | cons f r ih =>
    have hwf := wireOf_wf (f :: r) h
    have hr := ih (fun x hx => h x (by simp [hx]))
    have hf := h f (by simp)
    rw [wireOf_cons] at hwf ⊢
    cases f with
    | data p =>
      rw [frameBytes_data p hf.1] at hwf ⊢
      rw [run_fwire_data p _ hf.1 hwf, hr]; rfl
    | headers p =>
      rw [frameBytes_headers p hf.1] at hwf ⊢
      rw [run_fwire_headers p _ hf.1 hwf, hr]; rfl
    | grease ty =>
      rw [frameBytes_grease ty hf.1] at hwf ⊢
      rw [run_fwire_unknown ty _ _ hf.1 (by decide) hwf hf.2.2.1 hf.2.2.2 hf.2.1, hr]; rfl
    | cancelPush _ | settings _ | pushPromise _ _ | goaway _ | maxPushId _ | webTransport _ =>
      exact absurd hf (by simp [Plain])

/-! ### the RFC 9114 §7.1 oracle over the frames of a stream -/

/-- what a reader must observe for a frame list (an empty DATA frame has no payload token) -/
def obsToks : List SFrame → List Spec.Framing.Tok
  | [] => []
  | .data p :: r =>
    if p = [] then .frame (.data 0) :: obsToks r else .frame (.data p.length) :: .data p :: obsToks r
  | .headers b :: r => .frame (.headers b) :: obsToks r
  | _ :: r => obsToks r

theorem observe_fwire_headers (n : Nat) (p rest : Bytes) (e : Ending) (hp : p.length < 2^62) :
    observe (n + 1) (fwire 1 p ++ rest) e = .frame (.headers p) :: observe n rest e := by
  obtain ⟨h1, h2⟩ := rfc_fwire 1 p rest (by decide) hp
  rw [observe_body n _ _ _ _ _ e (fwire_ne_nil _ _ _ (by decide)) h1 (by decide) h2]
  have hlt : ¬ (p ++ rest).length < p.length := by simp
  rw [if_neg (by decide), if_neg hlt]
  simp [classify, isKnown]

theorem observe_fwire_data (n : Nat) (p rest : Bytes) (e : Ending) (hp : p.length < 2^62) :
    observe (n + 1) (fwire 0 p ++ rest) e =
      if p = [] then .frame (.data 0) :: observe n rest e
      else .frame (.data p.length) :: .data p :: observe n rest e := by
  obtain ⟨h1, h2⟩ := rfc_fwire 0 p rest (by decide) hp
  rw [observe_body n _ _ _ _ _ e (fwire_ne_nil _ _ _ (by decide)) h1 (by decide) h2]
  by_cases hp0 : p = []
  · subst hp0; simp
  · have hl : p.length ≠ 0 := fun h0 => hp0 (List.eq_nil_of_length_eq_zero h0)
    simp [hp0, hl]

theorem observe_fwire_unknown (n : Nat) (ty : Nat) (p rest : Bytes) (e : Ending) (hty : ty < 2^62)
    (hp : p.length < 2^62) (h0 : ty ≠ 0) (h41 : ty ≠ 0x41) (hk : isKnown ty = false) :
    observe (n + 1) (fwire ty p ++ rest) e = observe n rest e := by
  obtain ⟨h1, h2⟩ := rfc_fwire ty p rest hty hp
  rw [observe_body n _ _ _ _ _ e (fwire_ne_nil _ _ _ hty) h1 h41 h2]
  have hlt : ¬ (p ++ rest).length < p.length := by simp
  rw [if_neg h0, if_neg hlt]
  simp [hk]

theorem observe_wireOf (e : Ending) (fs : List SFrame) (h : ∀ f ∈ fs, Plain f) :
    ∀ fuel, fs.length < fuel → observe fuel (wireOf fs) e = obsToks fs ++ [endTok e true] := by
  induction fs with
  | nil =>
    intro fuel hf
    obtain ⟨n, rfl⟩ : ∃ n, fuel = n + 1 := ⟨fuel - 1, by omega⟩
    simp [wireOf, observe_nil, obsToks]
  | cons f r ih =>
    intro fuel hfuel
    obtain ⟨n, rfl⟩ : ∃ n, fuel = n + 1 := ⟨fuel - 1, by omega⟩
    have hr := ih (fun x hx => h x (by simp [hx])) n (by simp only [List.length_cons] at hfuel; omega)
    have hf := h f (by simp)
    rw [wireOf_cons]
    cases f with
    | data p =>
      rw [frameBytes_data p hf.1, observe_fwire_data n p _ e hf.1, hr]
      by_cases hp0 : p = [] <;> simp [obsToks, hp0]
    | headers p =>
      rw [frameBytes_headers p hf.1, observe_fwire_headers n p _ e hf.1, hr]
      simp [obsToks]
    | grease ty =>
      rw [frameBytes_grease ty hf.1,
        observe_fwire_unknown n ty _ _ e hf.1 (by decide) hf.2.2.1 hf.2.2.2 hf.2.1, hr]
      simp [obsToks]
    | cancelPush _ | settings _ | pushPromise _ _ | goaway _ | maxPushId _ | webTransport _ =>
      exact absurd hf (by simp [Plain])

theorem wireOf_length_ge (fs : List SFrame) (h : ∀ f ∈ fs, Plain f) : fs.length ≤ (wireOf fs).length := by
  induction fs with
  | nil => simp
  | cons f r ih =>
    obtain ⟨he, hty, _, _, _⟩ := frameBytes_plain f (h f (by simp))
    have := H3.Spec.Output.wire_length_pos (tyOf f) (payOf f) hty
    have := ih (fun x hx => h x (by simp [hx]))
    rw [wireOf_cons, he]
    simp only [List.length_append, List.length_cons]
    unfold fwire
    omega

end H3.E2E
