import H3.Spec.FrameRef
/-! Generic lemmas about the `FrameStream` machine and the reference automaton:
    `BufList` operations on the flattened buffer, `run` over concatenations, what feeding one
    decodable frame to the automaton gives (`run_cut`, from L1/L2), and the meaning of every
    outcome of the `FrameDecoder::decode` loop in terms of the automaton (`decLoop_spec`,
    uses L3 for the `expected` memo). -/
namespace H3.FS
variable {F E : Type}

/-! ### `BufList` -/

theorem advance_flatten (n : Nat) (bs : List Bytes) (h : ∀ c ∈ bs, c ≠ []) :
    (advance n bs).flatten = bs.flatten.drop n := by
  induction bs generalizing n with
  | nil => cases n <;> simp [advance]
  | cons c cs ih =>
    cases n with
    | zero => simp [advance]
    | succ n =>
      unfold advance
      split
      · rename_i hle
        rw [ih _ (fun c hc => h c (List.mem_cons_of_mem _ hc))]
        simp [List.drop_append, List.drop_eq_nil_of_le hle]
      · rename_i hgt
        simp [List.drop_append]
        have : n + 1 - c.length = 0 := by omega
        simp [this]

theorem advance_ne (n : Nat) (bs : List Bytes) (h : ∀ c ∈ bs, c ≠ []) :
    ∀ c ∈ advance n bs, c ≠ [] := by
  induction bs generalizing n with
  | nil => cases n <;> simp [advance]
  | cons c cs ih =>
    cases n with
    | zero => simpa [advance] using h
    | succ n =>
      unfold advance
      split
      · exact ih _ (fun c hc => h c (List.mem_cons_of_mem _ hc))
      · rename_i hgt
        intro x hx
        simp only [List.mem_cons] at hx
        rcases hx with rfl | hx
        · intro h0
          have := congrArg List.length h0
          simp at this
          omega
        · exact h x (List.mem_cons_of_mem _ hx)

/-! ### the reference automaton -/

theorem run_append (D : Dec F E) (p : PSt) (x y : Bytes) :
    run D p (x ++ y) = ((run D (run D p x).1 y).1, (run D p x).2 ++ (run D (run D p x).1 y).2) := by
  induction x generalizing p with
  | nil => simp [run]
  | cons b bs ih =>
    simp only [List.cons_append, run]
    rw [ih]
    simp [List.append_assoc]

theorem run_dead (D : Dec F E) (x : Bytes) : run D .dead x = (.dead, []) := by
  induction x with
  | nil => rfl
  | cons b bs ih => simp [run, feed, ih]

/-- result of feeding a complete frame, as a function of its decode result -/
def DecRes.fed (D : Dec F E) : DecRes F E → PSt × List (Tok F E)
  | .frame f _ => (PSt.ofRem (D.kind f).rem, [.frame f])
  | .unknown _ => (.hdr [], [])
  | .incomplete _ => (.hdr [], [])
  | .error e => (.dead, [.errProto e])

theorem least_of_exists (P : Nat → Prop) (N : Nat) (h : P N) :
    ∃ n, n ≤ N ∧ P n ∧ ∀ k, k < n → ¬ P k := by
  induction N using Nat.strongRecOn with
  | _ N ih =>
    by_cases hk : ∃ k, k < N ∧ P k
    · obtain ⟨k, hkN, hPk⟩ := hk
      obtain ⟨n, hn, hPn, hmin⟩ := ih k hkN hPk
      exact ⟨n, by omega, hPn, hmin⟩
    · exact ⟨N, Nat.le_refl _, h, fun k hk' hP => hk ⟨k, hk', hP⟩⟩

/-- every definite answer has a *cut*: the shortest prefix on which the decoder is definite;
    it gives the same answer there (L1), and it is the reported position when there is one (L2) -/
theorem exists_cut (D : Dec F E) (L : Laws D) (b : Bytes) (h : (D.dec b).isIncomplete = false) :
    ∃ n, 1 ≤ n ∧ n ≤ b.length ∧ (∀ k, k < n → (D.dec (b.take k)).isIncomplete = true) ∧
      D.dec (b.take n) = D.dec b ∧ (∀ n', (D.dec b).pos? = some n' → n' = n) := by
  obtain ⟨n, hn, hP, hmin⟩ :=
    least_of_exists (fun k => (D.dec (b.take k)).isIncomplete = false) b.length (by simpa using h)
  have hinc : ∀ k, k < n → (D.dec (b.take k)).isIncomplete = true := by
    intro k hk
    have := hmin k hk
    simpa using this
  have heq : D.dec (b.take n) = D.dec b := by
    have := L.stable (b.take n) (b.drop n) hP
    rw [List.take_append_drop] at this
    exact this.symm
  have h1 : 1 ≤ n := by
    cases n with
    | zero => simp [L.nil] at hP
    | succ n => omega
  refine ⟨n, h1, hn, hinc, heq, ?_⟩
  intro n' hn'
  have ⟨hm1, hm2⟩ := L.minimal b n' hn'
  have hle := (L.pos_le b n' hn').2
  rcases Nat.lt_trichotomy n' n with hlt | heq' | hgt
  · have := hinc n' hlt
    rw [hm2, h] at this
    cases this
  · exact heq'
  · have := hm1 n hgt
    rw [hP] at this
    cases this

theorem run_hdr_aux (D : Dec F E) (x : Bytes) (j k : Nat) (hjk : j + k ≤ x.length)
    (hinc : ∀ i, i ≤ j + k → 1 ≤ i → (D.dec (x.take i)).isIncomplete = true) :
    run D (.hdr (x.take j)) ((x.drop j).take k) = (.hdr (x.take (j + k)), []) := by
  induction k generalizing j with
  | zero => simp [run]
  | succ k ih =>
    have hj : j < x.length := by omega
    rw [List.drop_eq_getElem_cons hj, List.take_succ_cons]
    simp only [run]
    have hi := hinc (j+1) (by omega) (by omega)
    have htake : x.take j ++ [x[j]] = x.take (j+1) := by
      rw [List.take_succ_eq_append_getElem hj]
    have hfeed : feed D (.hdr (x.take j)) x[j] = (.hdr (x.take (j+1)), []) := by
      simp only [feed, htake]
      cases hdec : D.dec (x.take (j+1)) <;> simp_all [DecRes.isIncomplete]
    rw [hfeed]
    simp only
    rw [ih (j+1) (by omega) (fun i hi1 hi2 => hinc i (by omega) hi2)]
    simp [Nat.add_assoc, Nat.add_comm 1 k]

/-- as long as no prefix has a definite answer the automaton only accumulates -/
theorem run_hdr_incomplete (D : Dec F E) (x : Bytes)
    (hinc : ∀ i, i ≤ x.length → 1 ≤ i → (D.dec (x.take i)).isIncomplete = true) :
    run D (.hdr []) x = (.hdr x, []) := by
  have := run_hdr_aux D x 0 x.length (by omega) (by simpa using hinc)
  simpa using this

theorem prefix_incomplete (D : Dec F E) (L : Laws D) (x : Bytes)
    (hx : (D.dec x).isIncomplete = true) (k : Nat) :
    (D.dec (x.take k)).isIncomplete = true := by
  cases h : (D.dec (x.take k)).isIncomplete with
  | true => rfl
  | false =>
    have := L.stable (x.take k) (x.drop k) h
    rw [List.take_append_drop] at this
    rw [this] at hx
    simp [hx] at h

theorem run_incomplete (D : Dec F E) (L : Laws D) (x : Bytes)
    (hx : x = [] ∨ (D.dec x).isIncomplete = true) :
    run D (.hdr []) x = (.hdr x, []) := by
  rcases hx with rfl | hx
  · simp [run]
  · exact run_hdr_incomplete D x (fun i _ _ => prefix_incomplete D L x hx i)

/-- feeding the bytes of one decodable frame (up to its cut) gives exactly its decode result -/
theorem run_cut (D : Dec F E) (b : Bytes) (n : Nat) (h1 : 1 ≤ n) (hn : n ≤ b.length)
    (hinc : ∀ k, k < n → (D.dec (b.take k)).isIncomplete = true)
    (heq : D.dec (b.take n) = D.dec b) (h : (D.dec b).isIncomplete = false) :
    run D (.hdr []) (b.take n) = (D.dec b).fed D := by
  obtain ⟨m, rfl⟩ : ∃ m, n = m + 1 := ⟨n - 1, by omega⟩
  have hsplit : b.take (m+1) = (b.take m) ++ [b[m]'(by omega)] := by
    rw [List.take_succ_eq_append_getElem (by omega)]
  rw [hsplit, run_append]
  have hpre := run_hdr_aux D b 0 m (by omega) (fun i hi _ => hinc i (by omega))
  simp only [List.take_zero, List.drop_zero, Nat.zero_add] at hpre
  rw [hpre]
  simp only [run, List.nil_append, List.append_nil]
  rw [hsplit] at heq
  simp only [feed, heq]
  clear hinc hpre heq hsplit
  revert h
  cases D.dec b <;> simp [DecRes.isIncomplete, DecRes.fed]

/-- `run_frame` of the design: a frame/unknown answer with position `n` -/
theorem run_frame (D : Dec F E) (L : Laws D) (b : Bytes) (n : Nat)
    (hp : (D.dec b).pos? = some n) :
    run D (.hdr []) (b.take n) = (D.dec b).fed D := by
  have hdef : (D.dec b).isIncomplete = false := by
    cases hd : D.dec b <;> simp_all [DecRes.pos?, DecRes.isIncomplete]
  have ⟨h1, h2⟩ := L.pos_le b n hp
  have ⟨h3, h4⟩ := L.minimal b n hp
  exact run_cut D b n h1 h2 h3 h4 hdef

theorem run_error (D : Dec F E) (L : Laws D) (b : Bytes) (e : E) (hd : D.dec b = .error e) :
    ∃ n, 1 ≤ n ∧ n ≤ b.length ∧ run D (.hdr []) (b.take n) = (.dead, [.errProto e]) := by
  have hdef : (D.dec b).isIncomplete = false := by rw [hd]; rfl
  obtain ⟨n, h1, h2, h3, h4, _⟩ := exists_cut D L b hdef
  refine ⟨n, h1, h2, ?_⟩
  rw [run_cut D b n h1 h2 h3 h4 hdef, hd]
  rfl

/-! ### the `expected` memo and the decode loop -/

theorem expSound_none (D : Dec F E) (flat : Bytes) : ExpSound D flat none := by
  intro m hm; cases hm

theorem expSound_append (D : Dec F E) (flat b : Bytes) (exp : Option Nat)
    (h : ExpSound D flat exp) : ExpSound D (flat ++ b) exp := by
  intro m hm
  obtain ⟨f0, c, rfl, hd⟩ := h m hm
  exact ⟨f0, c ++ b, by simp, hd⟩

theorem expSound_skip (D : Dec F E) (L : Laws D) (flat : Bytes) (m : Nat)
    (hs : ExpSound D flat (some m)) (hlt : flat.length < m) :
    (D.dec flat).isIncomplete = true := by
  obtain ⟨f0, c, rfl, hd⟩ := hs m rfl
  cases h : (D.dec (f0 ++ c)).isIncomplete with
  | true => rfl
  | false =>
    have := L.lower f0 c m hd h
    omega

/-- what a result of the decode loop means in terms of the reference automaton;
    `acc` = bytes already dropped when the loop was entered with `flat` -/
def DLSpec (D : Dec F E) (flat : Bytes) (acc : Nat) : DL F E → Prop
  | .none d exp' => ∃ d', d = acc + d' ∧ d' ≤ flat.length ∧
      run D (.hdr []) (flat.take d') = (.hdr [], []) ∧
      (flat.drop d' = [] ∨ (D.dec (flat.drop d')).isIncomplete = true) ∧
      ExpSound D (flat.drop d') exp'
  | .frame d f => ∃ d', d = acc + d' ∧ 1 ≤ d' ∧ d' ≤ flat.length ∧
      run D (.hdr []) (flat.take d') = (PSt.ofRem (D.kind f).rem, [.frame f])
  | .error d _ e => ∃ d' n, d = acc + d' ∧ 1 ≤ n ∧ d' + n ≤ flat.length ∧
      run D (.hdr []) (flat.take d') = (.hdr [], []) ∧
      run D (.hdr []) ((flat.drop d').take n) = (.dead, [.errProto e])

theorem decLoop_spec (D : Dec F E) (L : Laws D) (fuel : Nat) (flat : Bytes) (exp : Option Nat)
    (acc : Nat) (hf : flat.length < fuel) (hs : ExpSound D flat exp) :
    DLSpec D flat acc (decLoop D fuel flat exp acc) := by
  induction fuel generalizing flat exp acc with
  | zero => omega
  | succ fuel ih =>
    unfold decLoop
    by_cases hnil : flat = []
    · subst hnil
      simp only [if_true]
      exact ⟨0, by simp, by simp, by simp [run], Or.inl (by simp), by simpa using hs⟩
    · simp only [hnil, if_false]
      by_cases hexp : expBlocks exp flat.length = true
      · rw [if_pos hexp]
        cases exp with
        | none => simp [expBlocks] at hexp
        | some m =>
          simp [expBlocks] at hexp
          have hinc := expSound_skip D L flat m hs hexp
          exact ⟨0, by simp, by simp, by simp [run], Or.inr (by simpa using hinc), by simpa using hs⟩
      · rw [if_neg hexp]
        cases hdec : D.dec flat with
        | incomplete m =>
          refine ⟨0, by simp, by simp, by simp [run], Or.inr (by simp [hdec, DecRes.isIncomplete]), ?_⟩
          intro m' hm'
          cases hm'
          exact ⟨flat, [], by simp, hdec⟩
        | frame f n =>
          have hpos : (D.dec flat).pos? = some n := by simp [hdec, DecRes.pos?]
          have hp := L.pos_le flat n hpos
          have hr := run_frame D L flat n hpos
          simp only [hdec, DecRes.fed] at hr
          exact ⟨n, rfl, hp.1, hp.2, hr⟩
        | error e =>
          obtain ⟨n, h1, h2, hr⟩ := run_error D L flat e hdec
          exact ⟨0, n, by simp, h1, by simpa using h2, by simp [run], by simpa using hr⟩
        | unknown n =>
          have hpos : (D.dec flat).pos? = some n := by simp [hdec, DecRes.pos?]
          have hp := L.pos_le flat n hpos
          have hr := run_frame D L flat n hpos
          simp only [hdec, DecRes.fed] at hr
          have hlen : (flat.drop n).length < fuel := by simp; omega
          have hs' : ExpSound D (flat.drop n) none := expSound_none D _
          have := ih (flat.drop n) none (acc + n) hlen hs'
          revert this
          simp only
          cases decLoop D fuel (flat.drop n) none (acc + n) with
          | none d exp' =>
            rintro ⟨d', rfl, hd', hrun, hrest, hsnd⟩
            refine ⟨n + d', by omega, by simp at hd'; omega, ?_, by simpa [List.drop_drop, Nat.add_comm] using hrest, by simpa [List.drop_drop, Nat.add_comm] using hsnd⟩
            have : flat.take (n + d') = flat.take n ++ (flat.drop n).take d' := by
              rw [List.take_add]
            rw [this, run_append, hr]
            simp [hrun]
          | frame d f =>
            rintro ⟨d', rfl, hd1, hd', hrun⟩
            refine ⟨n + d', by omega, by omega, by simp at hd'; omega, ?_⟩
            have : flat.take (n + d') = flat.take n ++ (flat.drop n).take d' := by
              rw [List.take_add]
            rw [this, run_append, hr]
            simp [hrun]
          | error d _ e =>
            rintro ⟨d', k, rfl, hk1, hd', hrun0, hrun⟩
            refine ⟨n + d', k, by omega, hk1, by simp at hd'; omega, ?_, ?_⟩
            · have : flat.take (n + d') = flat.take n ++ (flat.drop n).take d' := by
                rw [List.take_add]
              rw [this, run_append, hr]
              simp [hrun0]
            · simpa [List.drop_drop, Nat.add_comm] using hrun

end H3.FS
