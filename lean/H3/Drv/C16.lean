import H3.Drv.Util
import H3.Model.Varint
import H3.Model.StreamId
/-! Driver engine `varint` / `sid` (C16).  Output: `<model> ## <spec>`; in the spec part `*`
    matches any token, a spec of `?` means the oracle has no opinion. -/
namespace H3.Drv.C16
open H3.Drv H3.Varint H3.StreamId

def kindStr : Kind → String
  | .clientBidi => "client bi"
  | .serverBidi => "server bi"
  | .clientUni => "client uni"
  | .serverUni => "server uni"

def modelKind (id : Nat) : String :=
  (if initiator id == 0 then "client" else "server") ++ " " ++ (if dir id == 0 then "bi" else "uni")

/-- a multi-chunk buffer is its concatenation: `Buf` readers see one byte sequence -/
def parsePieces (h : String) : Option (List Nat) :=
  ((h.splitOn ",").mapM (fun p => (parseHex p).bind (fun b => if b.isEmpty then none else some b))).map List.flatten

def handle : List String → String
  | ["varint", "decm", h] =>
    match parsePieces h with
    | none => "bad-op"
    | some bs =>
      let m := match decode bs with
        | .ok v r => s!"ok {v} {toHex r}"
        | .endOf k => s!"end {k}"
      let s := match rfcDecode bs with
        | some (v, r) => s!"ok {v} {toHex r}"
        | none => "end *"
      m ++ " ## " ++ s
  | ["varint", "dec", h] =>
    match parseHex h with
    | none => "bad-op"
    | some bs =>
      let m := match decode bs with
        | .ok v r => s!"ok {v} {toHex r}"
        | .endOf k => s!"end {k}"
      let s := match rfcDecode bs with
        | some (v, r) => s!"ok {v} {toHex r}"
        | none => "end *"
      m ++ " ## " ++ s
  | ["varint", "enc", n] =>
    match n.toNat? with
    | none => "bad-op"
    | some x =>
      -- from_u64 then encode + size; spec: shortest form whose RFC value is x
      let m := match fromU64 x with
        | none => "refused"
        | some x => match encode? x, size? x with
          | some bs, some k => s!"ok {toHex bs} {k}"
          | _, _ => "panic"
      let s := if x < 2^62 then
          let n := if x < 2^6 then 1 else if x < 2^14 then 2 else if x < 2^30 then 4 else 8
          let tag := if n = 1 then 0 else if n = 2 then 1 else if n = 4 then 2 else 3
          s!"ok {toHex (be n (tag * 2^(8*n-2) + x))} {n}"
        else "refused"
      m ++ " ## " ++ s
  | ["varint", "wv", n] =>
    match n.toNat? with
    | none => "bad-op"
    | some x =>
      let m := match writeVar x with | some bs => s!"ok {toHex bs}" | none => "panic"
      -- the specification (RFC 9000 §16): a value below 2^62 is written in the shortest form whose value it is;
      -- for a value that has no encoding there is no opinion here (`write_var` unwraps: C06's panic inventory)
      let s := if x < 2^62 then
          let n := if x < 2^6 then 1 else if x < 2^14 then 2 else if x < 2^30 then 4 else 8
          let tag := if n = 1 then 0 else if n = 2 then 1 else if n = 4 then 2 else 3
          s!"ok {toHex (be n (tag * 2^(8*n-2) + x))}"
        else "?"
      m ++ " ## " ++ s
  | ["varint", "tfu", n] =>
    -- `TryFrom<usize>`: `usize` is 64 bits wide on the platforms the check runs on; succeeds iff the value is below 2^62
    match n.toNat? with
    | none => "bad-op"
    | some x =>
      if x ≥ 2^64 then "bad-op" else
      let m := match fromU64 x with | some v => s!"ok {v}" | none => "refused"
      m ++ " ## " ++ (if x < 2^62 then s!"ok {x}" else "refused")
  | ["varint", "esz", b] =>
    match b.toNat? with
    | none => "bad-op"
    | some b0 => s!"{encodedSize b0} ## {rfcLen b0}"
  | ["sid", "try", n] =>
    match n.toNat? with
    | none => "bad-op"
    | some v =>
      let m := match tryFrom v with | some _ => "ok" | none => "refused"
      let p := match pushTryFrom v with | some _ => "ok" | none => "refused"
      let s := if v < 2^62 then "ok" else "refused"
      s!"{m} {m} {p} ## {s} {s} {s}"
  | ["sid", "info", n] =>
    match n.toNat? with
    | none => "bad-op"
    | some id =>
      s!"req={b01 (isRequest id)} push={b01 (isPush id)} idx={index id} {modelKind id} ## " ++
      s!"req={b01 (rfcKind id == .clientBidi)} push={b01 (rfcKind id == .serverUni)} idx={id / 4} {kindStr (rfcKind id)}"
  | ["sid", "add", a, b] =>
    match a.toNat?, b.toNat? with
    | some id, some n =>
      let r := add id n
      let s := 4 * (min (id / 4 + n) (2^60 - 1)) + id % 4
      s!"{r} ## {s}"
    | _, _ => "bad-op"
  | _ => "bad-op"

end H3.Drv.C16
