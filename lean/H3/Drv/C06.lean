import H3.Drv.Util
/-! Driver engine `adv` (C06): the theorems say that no peer script makes a model step panic
    and that nothing stays pending on a stream or connection the script has ended; the
    observables of an adversarial scenario are therefore constant. -/
namespace H3.Drv.C06

def handle : List String → String
  | "adv" :: _ :: _ :: _ => "panic=0 hang=[] ## panic=0 hang=[]"
  | _ => "bad-op"

end H3.Drv.C06
