import H3.Drv.Util
import H3.Model.Goaway
import H3.Model.WriteBuf
import H3.Model.SendSide
import H3.Model.StreamId
import H3.Spec.Output
/-! Driver engines of C14.

    * `wbuf <desc> <pattern>`: the `WriteBuf` model built through the modelled `From`
      conversions and consumed with the given pattern (mirror of `harness/src/e_c14.rs`).
    * `out <role> <cfg> <op>…`: the scenario interpreter's lines.  The model side replays the
      ops on the `H3.SendSide` machine under a mirror of SimQuic's credit rules and of the
      harness' task/mailbox discipline and prints the per-stream byte logs it predicts; the
      field section of every header-sending call is an annotation op `#fs:<hex>` in front of it
      (QPACK is opaque here).
    * `outlog <role> <cfg> <harness summary>`: used by the Python projection — the SPEC side:
      every per-stream byte log the harness printed is judged by `H3.Spec.Output.checkStream`
      (the RFC segmenter, not h3's encoder) and the summary is re-rendered in the form the
      `out` model prints: verdict first, then literal logs (grease off) or their shape with
      the reserved ids masked (grease on, with and without credit limits).  Under credit limits
      the sizes of the random ids decide what fits the credit: the model runs with draws whose
      ids are 8-byte varints (`bigDraw`), which is what the real draws give but for a chance of
      ~2^-32 each (and the harness makes the draws a function of the case line), and a frame
      that is cut in the middle is rendered without its random bytes (`shapeFrames`). -/
namespace H3.Drv.C14
open H3.Drv H3.Varint H3.WriteBuf H3.SendSide H3.Spec.Output

/-! ### small parsing helpers over `List Char` -/

def splitC (sep : Char) : List Char → List (List Char)
  | [] => [[]]
  | c :: r =>
    if c == sep then [] :: splitC sep r
    else match splitC sep r with
      | [] => [[c]]
      | h :: t => (c :: h) :: t

def str (cs : List Char) : String := String.ofList cs

def natOf (cs : List Char) : Option Nat := (str cs).toNat?

/-- `a<sep>b` split at the first separator -/
def splitOnce (sep : Char) (cs : List Char) : Option (List Char × List Char) :=
  match cs.span (· != sep) with
  | (_, []) => none
  | (a, _ :: b) => some (a, b)

def hexOf (cs : List Char) : Option Bytes := if cs == ['-'] then some [] else parseHexChars cs

/-! ### `wbuf` -/

inductive Built where
  | ok (w : Option WB)   -- `none`: the conversion panics
  | badOp | badId | badSettings

def parsePairs (cs : List Char) : Option (List (Nat × Nat)) :=
  if cs == ['-'] || cs.isEmpty then some []
  else (splitC ';' cs).mapM (fun kv => do
    let (k, v) ← splitOnce '=' kv
    let k ← natOf k
    let v ← natOf v
    pure (k, v))

/-- `Settings::insert` in a loop: at most `SETTINGS_LEN` entries, no repetition -/
def insertable (es : List (Nat × Nat)) : Bool :=
  es.length ≤ H3.Gen.WriteBuf.SETTINGS_LEN && (es.map (·.1)).eraseDups.length == es.length

inductive FrameP where
  | ok (f : SFrame) | badOp | badId | badSettings

def parseFrameDesc (cs : List Char) : FrameP :=
  let (k, arg) := match splitOnce ':' cs with | some p => p | none => (cs, [])
  let idFrame (mk : Nat → SFrame) : FrameP :=
    match natOf arg with
    | none => .badOp
    | some v => if v < 2^62 then .ok (mk v) else .badId
  match str k with
  | "data" => (match hexOf arg with | some b => .ok (.data b) | none => .badOp)
  | "headers" => (match hexOf arg with | some b => .ok (.headers b) | none => .badOp)
  | "goaway" => idFrame .goaway
  | "cancel" => idFrame .cancelPush
  | "maxpush" => idFrame .maxPushId
  | "wtf" => idFrame .webTransport
  | "settings" =>
    (match parsePairs arg with
     | none => .badOp
     | some es => if insertable es then .ok (.settings es) else .badSettings)
  | "pp" =>
    (match splitOnce ':' arg with
     | none => .badOp
     | some (id, hx) =>
       match natOf id, hexOf hx with
       | some v, some b => if v < 2^62 then .ok (.pushPromise v b) else .badId
       | _, _ => .badOp)
  | _ => .badOp

def buildDesc (cs : List Char) : Built :=
  let (k, arg) := match splitOnce ':' cs with | some p => p | none => (cs, [])
  let ofFrame (p : FrameP) (mk : SFrame → Option WB) : Built :=
    match p with
    | .ok f => .ok (mk f)
    | .badOp => .badOp
    | .badId => .badId
    | .badSettings => .badSettings
  let session (mk : Nat → Option WB) : Built :=
    match natOf arg with
    | none => .badOp
    | some v => if v < 2^62 then .ok (mk v) else .badId
  match str k with
  | "st" => (match natOf arg with | some v => .ok (fromStreamType v) | none => .badOp)
  | "ctl" =>
    (match parsePairs arg with
     | none => .badOp
     | some es => if insertable es then .ok (fromUniHeader (.control es)) else .badSettings)
  | "enc" => .ok (fromUniHeader .encoder)
  | "dec" => .ok (fromUniHeader .decoder)
  | "wtu" => session (fun v => fromUniHeader (.webTransportUni v))
  | "wtb" => session fromBidiHeader
  | "pair" =>
    (match splitOnce ':' arg with
     | none => .badOp
     | some (ty, fd) =>
       match natOf ty with
       | none => .badOp
       | some v => ofFrame (parseFrameDesc fd) (fromPair v))
  | _ => ofFrame (parseFrameDesc cs) fromFrame

inductive Pat where
  | take (k : Nat) | adv (n : Nat)

def parsePat (s : String) : Option (List Pat) :=
  if s == "-" then some []
  else (splitC ',' s.toList).mapM (fun t =>
    match t with
    | 'a' :: r => (natOf r).map .adv
    | _ => (natOf t).map .take)

def hexOrDash (bs : Bytes) : String := toHex bs

/-- the rest, chunk by chunk (header part, then payload) -/
def drainAll : Nat → WB → Option Bytes
  | 0, _ => some []
  | fuel+1, w =>
    let c := w.chunk
    if c.isEmpty then some []
    else match w.advance c.length with
      | none => none
      | some w' => (drainAll fuel w').map (c ++ ·)

def runPat : WB → List Pat → Bytes → List String → Option (Bytes × List String)
  | w, [], all, acc =>
    (drainAll 4 w).map (fun rest => (all ++ rest, acc ++ [s!"left={hexOrDash rest}"]))
  | w, .take k :: ps, all, acc =>
    match w.step k with
    | none => none
    | some (o, w') => runPat w' ps (all ++ o) (acc ++ [s!"{hexOrDash o}:r{w'.remaining}"])
  | w, .adv n :: ps, all, acc =>
    match w.advance n with
    | none => none
    | some w' => runPat w' ps all (acc ++ [s!"a:r{w'.remaining}"])

/-- RFC 9000 §16 shortest encoding, written out for the specification side -/
def specVarint (x : Nat) : Bytes :=
  let n := if x < 2^6 then 1 else if x < 2^14 then 2 else if x < 2^30 then 4 else 8
  let tag := if n = 1 then 0 else if n = 2 then 1 else if n = 4 then 2 else 3
  be n (tag * 2^(8*n-2) + x)

/-- RFC 9114 §7.1/§7.2 layout of the frames h3 sends: type, length of what follows, payload -/
def specFrame : SFrame → Option Bytes
  | .data p => some (specVarint 0 ++ specVarint p.length ++ p)
  | .headers p => some (specVarint 1 ++ specVarint p.length ++ p)
  | .cancelPush id => some (specVarint 3 ++ specVarint (specVarint id).length ++ specVarint id)
  | .goaway id => some (specVarint 7 ++ specVarint (specVarint id).length ++ specVarint id)
  | .maxPushId id => some (specVarint 0xd ++ specVarint (specVarint id).length ++ specVarint id)
  | .settings es =>
    let p := es.foldr (fun e acc => specVarint e.1 ++ specVarint e.2 ++ acc) []
    some (specVarint 4 ++ specVarint p.length ++ p)
  | _ => none

/-- what the whole buffer must amount to, where the RFCs say it (PUSH_PROMISE, which h3 never
    sends, and the WebTransport headers are left to the model) -/
def specDesc (cs : List Char) : Option Bytes :=
  let (k, arg) := match splitOnce ':' cs with | some p => p | none => (cs, [])
  let ofFrame (d : List Char) : Option Bytes :=
    match parseFrameDesc d with
    | .ok f => specFrame f
    | _ => none
  match str k with
  | "st" => (natOf arg).bind (fun v => if v < 2^62 then some (specVarint v) else none)
  | "ctl" => (ofFrame ("settings:".toList ++ arg)).map (specVarint 0 ++ ·)
  | "enc" => some (specVarint 2)
  | "dec" => some (specVarint 3)
  | "pair" =>
    (match splitOnce ':' arg with
     | some (ty, fd) =>
       (match natOf ty, ofFrame fd with
        | some v, some b => if v < 2^62 then some (specVarint v ++ b) else none
        | _, _ => none)
     | none => none)
  -- draft-ietf-webtrans-http3: signal value, then the session id
  | "wtu" => (natOf arg).bind (fun v => if v < 2^62 then some (specVarint 0x54 ++ specVarint v) else none)
  | "wtb" | "wtf" => (natOf arg).bind (fun v => if v < 2^62 then some (specVarint 0x41 ++ specVarint v) else none)
  | _ => ofFrame cs

def wbufHandle (desc pat : String) : String :=
  match parsePat pat with
  | none => "bad-op"
  | some ps =>
    let bare := ps.any (fun p => match p with | .adv _ => true | _ => false)
    let spec := match specDesc desc.toList with
      | some b => if bare then "?" else s!"all={hexOrDash b} **"
      | none => "?"
    match buildDesc desc.toList with
    | .badOp => "bad-op"
    | .badId => "bad-id ## ?"
    | .badSettings => "bad-settings ## ?"
    | .ok none => "panic ## ?"
    | .ok (some w) =>
      match runPat w ps [] [s!"r{w.remaining}"] with
      | none => "panic ## ?"
      | some (all, out) => s!"all={hexOrDash all} " ++ " ".intercalate out ++ " ## " ++ spec

/-! ### rendering of per-stream logs -/

structure SLog where
  sid : Nat
  tx : Bytes
  fin : Bool
  writing : Bool
  other : List String   -- flags this property does not talk about
deriving Repr

def parseSLog (tok : String) : Option SLog :=
  match splitOnce ':' tok.toList with
  | none => none
  | some (sid, rest) =>
    match natOf sid, splitC ',' rest with
    | some sid, tx :: flags =>
      (match tx with
       | 't' :: 'x' :: '=' :: h =>
         (hexOf h).map (fun b =>
           { sid := sid, tx := b, fin := flags.contains "fin".toList,
             writing := flags.contains "writing".toList,
             other := (flags.filter (fun f => f != "fin".toList && f != "writing".toList)).map str })
       | _ => none)
    | _, _ => none

def renderViolation : Violation → String
  | .truncated => "truncated"
  | .h2Frame ty => s!"h2-frame({ty})"
  | .h2Setting id => s!"h2-setting({id})"
  | .frameNotAllowed ty => s!"frame-not-allowed({ty})"
  | .badStreamType ty => s!"bad-stream-type({ty})"
  | .missingSettings ty => s!"missing-settings({ty})"
  | .badSettings => "bad-settings"
  | .unknownSetting id => s!"unknown-setting({id})"
  | .badPayload ty => s!"bad-payload({ty})"
  | .criticalClosed => "critical-stream-closed"
  | .notOurStream => "not-our-stream"

def verdict (cx : Ctx) (ls : List SLog) : String :=
  match ls.findSome? (fun l => (checkStream cx l.sid l.tx l.fin).map (fun v => (l.sid, v))) with
  | none => "valid"
  | some (sid, v) => s!"INVALID:{sid}:{renderViolation v}"

def idTok (x : Nat) : String := if isReserved x then "G" else toString x

/-- does `w` begin with the first bytes of an 8-byte varint that is not all there?  Every
    identifier h3 sends that is not of the reserved form fits 4 bytes, and a reserved one is
    `31·draw + 33` with `draw` uniform below ~2^57, i.e. an 8-byte varint (but for a chance of
    ~2^-32 per draw): such a fragment is a piece of a reserved identifier and consists of random
    bytes, so only its size is printed. -/
def partialWide (w : Bytes) : Bool :=
  match w with
  | b :: _ => decide (b ≥ 0xc0) && decide (w.length < 8)
  | [] => false

/-- a fragment of an identifier: `g<k>` = `k` bytes of a reserved (8-byte) identifier, anything
    else (deterministic) literally -/
def partialIdTok (w : Bytes) : String :=
  if partialWide w then s!"g{w.length}" else toHex w

/-- identifier/value pairs of a SETTINGS payload that may be cut anywhere: the complete pairs
    with reserved identifiers masked, then what there is of the pair the cut falls into (`~…`) -/
def shapePairs : Nat → Bytes → List String
  | 0, _ => []
  | fuel+1, p =>
    if p.isEmpty then [] else
    match rfcDecode p with
    | none => [s!"~{partialIdTok p}"]
    | some (id, r) =>
      match rfcDecode r with
      | none => [s!"{idTok id}=~{toHex r}"]
      | some (v, r') => s!"{idTok id}={v}" :: shapePairs fuel r'

/-- frames of a log in readable form, reserved identifiers masked.  A last frame that is not all
    there begins with `~`: `~g<k>` a piece of a reserved type, `~<type>:<hex>` no complete length
    yet, `~<type>:<declared length>:<payload bytes present>` (SETTINGS: `~S:<declared
    length>:<bytes present>(<pairs>)`, because the payload holds the reserved setting id). -/
def shapeFrames : Nat → Bytes → List String
  | 0, _ => []
  | fuel+1, w =>
    if w.isEmpty then [] else
    match rfcDecode w with
    | none => [s!"~{partialIdTok w}"]
    | some (ty, r1) =>
      match rfcDecode r1 with
      | none => [s!"~{idTok ty}:{toHex r1}"]
      | some (len, r2) =>
        if r2.length < len then
          if ty = 4 then
            [s!"~S:{len}:{r2.length}(" ++ ";".intercalate (shapePairs (r2.length + 1) r2) ++ ")"]
          else [s!"~{idTok ty}:{len}:{toHex r2}"]
        else
          let p := r2.take len
          let one :=
            if ty = 4 then
              match H3.Spec.Framing.pairs (p.length + 1) p with
              | some ps => "S(" ++ ";".intercalate (ps.map (fun e => s!"{idTok e.1}={e.2}")) ++ ")"
              | none => s!"S?({toHex p})"
            else s!"{idTok ty}({toHex p})"
          one :: shapeFrames fuel (r2.drop len)

def shapeStream (sid : Nat) (w : Bytes) : String :=
  if sid % 4 < 2 then "/".intercalate (shapeFrames (w.length + 1) w)
  else if w.isEmpty then "-"
  else match rfcDecode w with
    | none => s!"~{partialIdTok w}"
    | some (ty, r) =>
      if ty = 0 || isReserved ty then
        "/".intercalate (s!"T{idTok ty}" :: shapeFrames (r.length + 1) r)
      else s!"T{ty}:{toHex r}"

/-- `literal`: grease off, nothing is random, the byte logs are compared as they are.  `shape`:
    grease on (with or without credit limits): frame kinds, order, lengths, payloads, FIN and
    mid-write markers per stream, the three random reserved identifiers masked. -/
inductive Mode where
  | literal | shape
deriving DecidableEq

def renderStreams (mode : Mode) (ls : List SLog) : List String :=
  (ls.filter (fun l => !l.tx.isEmpty || l.fin || l.writing)).map (fun l =>
    let body := match mode with
      | .shape => s!"{l.sid}:sh={shapeStream l.sid l.tx}"
      | .literal => s!"{l.sid}:tx={toHex l.tx}"
    body ++ (if l.fin then ",fin" else "") ++ (if l.writing then ",writing" else ""))

def renderAll (mode : Mode) (cx : Ctx) (ls : List SLog) (pending : String) : String :=
  verdict cx ls ++ " | " ++ " ".intercalate (renderStreams mode ls ++ [pending])

/-! ### configuration -/

structure ScCfg where
  cfg : Config
  uc : Option Nat := none
  bc : Option Nat := none
  wc : Option Nat := none

def parseCfg (s : String) : Option ScCfg :=
  let base : ScCfg :=
    { cfg := { grease := false, mfs := H3.Gen.WriteBuf.DEFAULT_MAX_FIELD_SECTION_SIZE, wt := false,
               ec := false, dg := false,
               wts := H3.Gen.WriteBuf.DEFAULT_MAX_WEBTRANSPORT_SESSIONS } }
  (splitC ',' s.toList).foldlM (fun (c : ScCfg) t =>
    if t == ['-'] || t.isEmpty then some c
    else if t == "g0".toList then some { c with cfg := { c.cfg with grease := false } }
    else if t == "g1".toList then some { c with cfg := { c.cfg with grease := true } }
    else match splitOnce '=' t with
      | none => none
      | some (k, v) =>
        match natOf v with
        | none => none
        | some n =>
          match str k with
          | "mfs" => some { c with cfg := { c.cfg with mfs := n } }
          | "wt" => some { c with cfg := { c.cfg with wt := n == 1 } }
          | "ec" => some { c with cfg := { c.cfg with ec := n == 1 } }
          | "dg" => some { c with cfg := { c.cfg with dg := n == 1 } }
          | "wts" => some { c with cfg := { c.cfg with wts := n } }
          | "seed" => some c
          | "uc" => some { c with uc := some n }
          | "bc" => some { c with bc := some n }
          | "wc" => some { c with wc := some n }
          | _ => none) base

def modeOf (c : ScCfg) : Mode := if c.cfg.grease then .shape else .literal

/-- The draw the model side uses for every `grease()` call: any admissible draw (`<
    GREASE_RANGE_END`) whose identifier is an 8-byte varint (`greaseId d ≥ 2^30`), which is what
    the real draws give (but for a chance of ~2^-32 each), so that the byte counts under write
    credit agree; the value itself is masked in the rendering. -/
def bigDraw : Nat := 2^40

/-- the client builder has no `enable_webtransport`/`max_webtransport_sessions` -/
def effectiveCfg (server : Bool) (c : Config) : Config :=
  if server then c else { c with wt := false, wts := H3.Gen.WriteBuf.DEFAULT_MAX_WEBTRANSPORT_SESSIONS }

/-! ### `outlog`: the harness' summary judged by the specification and re-rendered -/

def outlogHandle (role cfgS : String) (toks : List String) : String :=
  match parseCfg cfgS with
  | none => "bad-op"
  | some sc =>
    let server := role == "server"
    let cx : Ctx := { server := server, wt := (effectiveCfg server sc.cfg).wt }
    let ls := toks.filterMap parseSLog
    let pending := (toks.find? (·.startsWith "pending=")).getD "pending=[]"
    renderAll (modeOf sc) cx ls pending

/-! ### `out`: the scenario replayed on the model -/

inductive TaskKind where
  | conn | drv | snd
  | resolver (sid : Nat)
  | req (sid : Nat)
deriving DecidableEq, Repr

inductive BusyOn where
  | build
  | stream (sid : Nat)
  | accept
  | openBidi (fs : Option Bytes)
  | forever
deriving DecidableEq, Repr

structure TaskS where
  name : String
  kind : TaskKind
  mailbox : List (String × Option Bytes) := []
  busy : Option (String × BusyOn) := none
  alive : Bool := true
  /-- after the pending write completes: the task ends (431 answer of `resolve_request`) -/
  dieAfter : Bool := false
deriving Repr

structure Sc where
  server : Bool
  sc : ScCfg
  m : Option State := none
  initFailed : Bool := false
  opened : Nat := 0
  uc : Option Nat
  bc : Option Nat
  credit : List (Nat × Nat) := []
  known : List Nat := []          -- streams that exist in the simulated transport
  incoming : List Nat := []       -- peer-opened bidirectional streams not accepted yet
  peerData : List Nat := []
  nextBidi : Nat := 0
  nextUni : Nat := 0
  hint : Option Bytes := none
  tasks : List TaskS := []
  lastAccepted : Option Nat := none
  sentClosing : Option Nat := none
  peerCtl : Nat := 0
  /-- the peer's unidirectional streams that have delivered a first chunk; the one that began
      with stream type 00 -/
  uniSeen : List Nat := []
  peerCtlSid : Option Nat := none
  /-- an unread chunk on the peer's control stream carries a GOAWAY frame -/
  peerGoawayUnread : Bool := false
  /-- the peer's GOAWAY has been processed (`recv_closing`) -/
  recvClosing : Bool := false
  /-- requests handed out by `accept` so far -/
  accepted : Nat := 0
  driving : Bool := false
  /-- `SharedState.closing`, set by the first GOAWAY this endpoint sends (and by the peer's,
      see `recvClosing`): `send_request` then fails with `RemoteClosing` before opening a stream -/
  closing : Bool := false
  /-- the last `SendRequest` was dropped: the connection error H3_NO_ERROR ends `wait_idle` -/
  sndDropped : Bool := false

def Sc.cfg (s : Sc) : Config := effectiveCfg s.server s.sc.cfg

def Sc.mkStream (s : Sc) (sid : Nat) : Sc :=
  if s.known.contains sid then s
  else { s with known := s.known ++ [sid],
                credit := match s.sc.wc with | some c => s.credit ++ [(sid, c)] | none => s.credit }

def Sc.creditOf (s : Sc) (sid : Nat) : Option Nat :=
  match s.sc.wc with
  | none => none
  | some _ => some (((s.credit.find? (·.1 == sid)).map (·.2)).getD 0)

def Sc.setCredit (s : Sc) (sid c : Nat) : Sc :=
  { s with credit := s.credit.map (fun e => if e.1 == sid then (sid, c) else e) }

def Sc.stream? (s : Sc) (sid : Nat) : Option Stream :=
  s.m.bind (fun m => (m.streams.find? (·.1 == sid)).map (·.2))

def Sc.mstep (s : Sc) (st : Step) : Sc := { s with m := s.m.map (fun m => step m st) }

def logLen (s : Sc) (sid : Nat) : Nat := ((s.stream? sid).map (·.log.length)).getD 0

/-- SimQuic's `poll_ready` loop on one stream: chunk after chunk while there is credit -/
def pollStream : Nat → Sc → Nat → Sc
  | 0, s, _ => s
  | fuel+1, s, sid =>
    match s.stream? sid with
    | none => s
    | some st =>
      if st.cur.isNone then s
      else match s.creditOf sid with
        | none => pollStream fuel (s.mstep (.poll sid (2^62))) sid
        | some 0 => s
        | some c =>
          let before := logLen s sid
          let s' := s.mstep (.poll sid c)
          let taken := logLen s' sid - before
          pollStream fuel (s'.setCredit sid (c - taken)) sid

/-- every task that waits in a write is woken by a grant and polls its stream again.  Not so the
    grease stream: it is written by `poll_grease_stream`, which `poll_control` calls only after it
    has taken a frame out of the peer's control stream (`controlPolled`). -/
def pollAll (s : Sc) : Sc :=
  match s.m with
  | none => s
  | some m =>
    ((m.streams.filter (fun e => e.2.kind != .greaseStream)).map (·.1)).foldl
      (fun s sid => pollStream 4 s sid) s

def takeCredit (c : Option Nat) : Option (Option Nat) :=
  match c with
  | none => some none
  | some 0 => none
  | some (n+1) => some (some n)

/-- `ConnectionInner::new`: three `poll_open_send`, one after the other, then the headers -/
def progressBuild : Nat → Sc → Sc
  | 0, s => s
  | fuel+1, s =>
    if s.m.isSome || s.initFailed then s
    else if s.opened < 3 then
      match takeCredit s.uc with
      | none => s
      | some uc' =>
        let sid := uniId s.server s.nextUni
        progressBuild fuel ({ s with uc := uc', opened := s.opened + 1, nextUni := s.nextUni + 1 }.mkStream sid)
    else
      match init s.server s.cfg bigDraw with
      | none => { s with initFailed := true }
      | some m => { s with m := some m }

def streamIdle (s : Sc) (sid : Nat) : Bool :=
  match s.stream? sid with
  | none => true
  | some st => st.cur.isNone && !st.finAfter

def mainName (s : Sc) : String := if s.server then "conn" else "drv"

def Sc.updTask (s : Sc) (name : String) (f : TaskS → TaskS) : Sc :=
  { s with tasks := s.tasks.map (fun t => if t.name == name then f t else t) }

def Sc.spawn (s : Sc) (t : TaskS) : Sc := { s with tasks := s.tasks ++ [t] }

/-- `poll_grease_stream`, one call: `poll_open_send` (needs uni-stream credit, `Pending`
    otherwise), `send_data((StreamType::grease(), Frame::Grease))`, `poll_ready` (as far as the
    write credit goes, `Pending` otherwise), `poll_finish`.  Where it returned `Pending` it goes on
    at the next call — which comes with the next control frame, not with the grant. -/
def pollGreaseStream (s : Sc) : Sc :=
  match s.m with
  | none => s
  | some m =>
    if m.greaseStreamFlag then
      match takeCredit s.uc with
      | none => s
      | some uc' =>
        let sid := uniId s.server s.nextUni
        let s := ({ s with uc := uc', nextUni := s.nextUni + 1 }.mkStream sid).mstep
          (.greaseStream sid bigDraw bigDraw)
        pollStream 4 s sid
    else
      match m.streams.find? (fun e => e.2.kind == .greaseStream) with
      | some (sid, _) => pollStream 4 s sid
      | none => s

/-- `poll_control` reached with unread control frames: each is taken out, and after each
    `poll_grease_stream` is called once (calls that follow each other with nothing granted in
    between find what the first one left) -/
def controlPolled (s : Sc) : Sc :=
  if s.peerCtl = 0 then s
  else
    pollGreaseStream { s with peerCtl := 0, recvClosing := s.recvClosing || s.peerGoawayUnread,
                              peerGoawayUnread := false }

/-- server `shutdown(n)`: the exclusive id `n` requests past the largest accepted one (after
    fix a45d1c8), sent only when it lowers the id announced before.  The choice of the id is
    C08's subject: this is `H3.Goaway.shutdownId`, reused here to predict the bytes. -/
def goawayId (s : Sc) (n : Nat) : Nat :=
  if s.server then H3.Goaway.shutdownId s.lastAccepted n else 0

/-- try to hand out the next incoming request stream (server `accept`) -/
def tryAccept : Nat → Sc → Option (Sc × Nat)
  | 0, _ => none
  | fuel+1, s =>
    match s.incoming with
    | [] => none
    | sid :: rest =>
      let s := { s with incoming := rest }
      let rejected : Bool := match s.sentClosing with | some m => decide (sid ≥ m) | none => false
      if rejected then tryAccept fuel s
      else
        let largest := match s.lastAccepted with | some l => max l sid | none => sid
        some ({ s with lastAccepted := some largest, accepted := s.accepted + 1 }.mstep (.acceptRequest sid), sid)

/-- one command of a task that is not busy; returns the new state -/
def execCmd (s : Sc) (t : TaskS) (cmd : String) (hint : Option Bytes) : Sc :=
  let (op, arg) := match splitOnce ':' cmd.toList with | some (a, b) => (str a, b) | none => (cmd, [])
  let setBusy (s : Sc) (b : BusyOn) : Sc := s.updTask t.name (fun t => { t with busy := some (op, b) })
  let die (s : Sc) : Sc := s.updTask t.name (fun t => { t with alive := false })
  match t.kind with
  | .conn =>
    (match op with
     | "A" =>
       let s := controlPolled s
       (match tryAccept (s.incoming.length + 1) s with
        | some (s, sid) => s.spawn { name := s!"q{sid}", kind := .resolver sid }
        | none =>
          if s.recvClosing && s.accepted == 0 then
            -- the peer is going away and nothing is in progress: `accept` answers `None`
            -- after a last `shutdown(0)`
            let id := goawayId s 0
            let skip : Bool := match s.sentClosing with | some sent => decide (sent ≤ id) | none => false
            if skip then s
            else setBusy ({ s with sentClosing := some id, closing := true }.mstep (.goaway id))
                   (.stream (uniId s.server 0))
          else setBusy s .accept)
     | "S" =>
       let id := goawayId s ((natOf arg).getD 0)
       let skip : Bool := match s.sentClosing with | some sent => decide (sent ≤ id) | none => false
       if skip then s
       else setBusy ({ s with sentClosing := some id, closing := true }.mstep (.goaway id)) (.stream (uniId s.server 0))
     | "D" => die s
     | _ => s)
  | .drv =>
    (match op with
     | "W" => if s.sndDropped then s else controlPolled { s with driving := true }
     | "WS" => { s with driving := false }
     | "S" =>
       let skip := s.sentClosing.isSome
       if skip then s
       else setBusy ({ s with sentClosing := some 0, closing := true }.mstep (.goaway 0)) (.stream (uniId s.server 0))
     | "D" => die { s with driving := false }
     | _ => s)
  | .snd =>
    (match op with
     | "R" => if s.closing || s.recvClosing then s else setBusy s (.openBidi hint)
     | "dr" => die { s with sndDropped := true, driving := false }
     | _ => s)
  | .resolver sid =>
    (match op with
     | "res" =>
       if s.peerData.contains sid then
         (match hint with
          | some fs =>
            -- the request exceeds our limit: 431 is answered, then the call fails
            let s := s.updTask t.name (fun t => { t with kind := .req sid, dieAfter := true })
            setBusy (s.mstep (.sendHeaders sid fs)) (.stream sid)
          | none => s.updTask t.name (fun t => { t with kind := .req sid }))
       else setBusy s .forever
     | "dr" => die s
     | _ => s)
  | .req sid =>
    (match op with
     | "sr" | "st" =>
       (match hint with
        | some fs => setBusy (s.mstep (.sendHeaders sid fs)) (.stream sid)
        | none => s)
     | "sd" =>
       (match hexOf arg with
        | some b => setBusy (s.mstep (.sendData sid b)) (.stream sid)
        | none => s)
     | "fi" => setBusy (s.mstep (.finish sid bigDraw)) (.stream sid)
     | "dr" => die s
     | _ => s)

/-- a busy task: has what it waits for happened? -/
def resume (s : Sc) (t : TaskS) (b : BusyOn) : Option Sc :=
  let free (s : Sc) : Sc :=
    s.updTask t.name (fun t => { t with busy := none, alive := t.alive && !t.dieAfter })
  match b with
  | .build =>
    (match s.m with
     | some m => if m.built then
         let s := free s
         some (if s.server then s else s.spawn { name := "snd", kind := .snd })
       else none
     | none => none)
  | .stream sid =>
    if streamIdle s sid then
      let s := free s
      -- `send_request` returns the stream handle
      some (if t.kind == .snd then s.spawn { name := s!"q{sid}", kind := .req sid } else s)
    else none
  | .accept =>
    let polled := decide (s.peerCtl > 0)
    let s := controlPolled s
    (match tryAccept (s.incoming.length + 1) s with
     | some (s, sid) => some ((free s).spawn { name := s!"q{sid}", kind := .resolver sid })
     | none =>
       if s.recvClosing && s.accepted == 0 then
         let id := goawayId s 0
         let skip : Bool := match s.sentClosing with | some sent => decide (sent ≤ id) | none => false
         if skip then some (free s)
         else some (({ s with sentClosing := some id, closing := true }.mstep (.goaway id)).updTask t.name
                (fun t => { t with busy := some ("A", .stream (uniId s.server 0)) }))
       -- still waiting, but `poll_control` has taken frames out (and polled the grease stream)
       else if polled then some s
       else none)
  | .openBidi hint =>
    (match takeCredit s.bc with
     | none => none
     | some bc' =>
       let sid := 4 * s.nextBidi
       let s := ({ s with bc := bc', nextBidi := s.nextBidi + 1 }.mkStream sid)
       -- the second gate of `send_request` (D-08c): the call has waited for its stream; the closing flag — the
       -- peer's GOAWAY processed, or this endpoint's own `shutdown` — is read again before anything is written,
       -- and the stream just opened is dropped without a byte
       if s.closing || s.recvClosing then some (free s) else
       (match hint with
        | some fs =>
          some ((s.mstep (.sendRequest sid fs)).updTask t.name
            (fun t => { t with busy := some ("R", .stream sid) }))
        | none => some (free s)))
  | .forever => none

/-- one round over all tasks; `true` when something happened -/
def roundTasks (s : Sc) : Sc × Bool :=
  s.tasks.foldl (fun (acc : Sc × Bool) t0 =>
    let s := acc.1
    match s.tasks.find? (·.name == t0.name) with
    | none => acc
    | some t =>
      if !t.alive then acc
      else match t.busy with
        | some (_, b) =>
          (match resume s t b with
           | some s' => (s', true)
           | none => acc)
        | none =>
          match t.mailbox with
          | [] => acc
          | (cmd, hint) :: rest =>
            let s := s.updTask t.name (fun t => { t with mailbox := rest })
            (execCmd s { t with mailbox := rest } cmd hint, true)) (s, false)

def settle : Nat → Sc → Sc
  | 0, s => s
  | fuel+1, s =>
    let s := progressBuild 4 s
    let s := pollAll s
    let s := if s.driving then controlPolled s else s
    let (s, changed) := roundTasks s
    let s' := pollAll s
    if changed then settle fuel s' else s'

def isApiOp (op : String) : Option (String × String) :=
  match splitOnce '.' op.toList with
  | none => none
  | some (task, cmd) =>
    match task with
    | c :: _ => if c.isLower && !task.contains ':' then some (str task, str cmd) else none
    | [] => none

def applyOp (s : Sc) (op : String) : Option Sc :=
  match op.toList with
  | '#' :: 'f' :: 's' :: ':' :: h => (hexOf h).map (fun b => { s with hint := some b })
  | '#' :: _ => some s
  | cs =>
    match isApiOp op with
    | some (task, cmd) =>
      let hint := s.hint
      let s := { s with hint := none }
      some (s.updTask task (fun t => if t.alive then { t with mailbox := t.mailbox ++ [(cmd, hint)] } else t))
    | none =>
      match cs with
      | 'o' :: r =>
        (natOf r).map (fun sid =>
          if s.known.contains sid then s
          else
            let s := s.mkStream sid
            if sid % 4 < 2 then { s with incoming := s.incoming ++ [sid] } else s)
      | 's' :: r =>
        (match splitOnce ':' r with
         | some (sid, h) =>
           (match natOf sid, hexOf h with
            | some sid, some b =>
              if b.isEmpty then none
              else if !s.known.contains sid then some s
              else if sid % 4 < 2 then some { s with peerData := s.peerData ++ [sid] }
              else
                -- a chunk on a unidirectional stream of the peer: the generator sends the stream
                -- type together with one complete frame, later chunks are one frame each.  Only
                -- the control stream (type 00) counts, and on it the frames `poll_control` hands
                -- out (SETTINGS, GOAWAY, CANCEL_PUSH, MAX_PUSH_ID; unknown types are skipped
                -- inside `FrameStream::poll_next`)
                let first := !s.uniSeen.contains sid
                let s := if first then
                    { s with uniSeen := s.uniSeen ++ [sid],
                             peerCtlSid := if s.peerCtlSid.isNone && b.head? == some 0 then some sid
                                           else s.peerCtlSid }
                  else s
                if s.peerCtlSid != some sid then some s
                else
                  let frame := if first then b.drop 1 else b
                  match frame.head? with
                  | none => some s
                  | some ty =>
                    if ty == 4 || ty == 7 || ty == 3 || ty == 0xd then
                      some { s with peerCtl := s.peerCtl + 1,
                                    peerGoawayUnread := s.peerGoawayUnread || ty == 7 }
                    else some s
            | _, _ => none)
         | none => none)
      | 'f' :: r => (natOf r).map (fun _ => s)
      | 'g' :: 'u' :: r => (natOf r).map (fun k => { s with uc := s.uc.map (· + k) })
      | 'g' :: 'b' :: r => (natOf r).map (fun k => { s with bc := s.bc.map (· + k) })
      | 'g' :: 'w' :: r =>
        (match splitOnce ':' r with
         | some (sid, k) =>
           (match natOf sid, natOf k with
            | some sid, some k =>
              if s.known.contains sid then
                (match s.creditOf sid with
                 | some c => some (s.setCredit sid (c + k))
                 | none => some s)
              else some s
            | _, _ => none)
         | none => none)
      | _ => none

def insertSorted (x : String) : List String → List String
  | [] => [x]
  | y :: r => if x < y then x :: y :: r else y :: insertSorted x r

def pendingOf (s : Sc) : String :=
  let names := s.tasks.filterMap (fun t =>
    if !t.alive then none
    else match t.busy with
      | some (op, _) => some s!"{t.name}.{op}"
      | none => if t.kind == .drv && s.driving then some s!"{t.name}.W" else none)
  "pending=[" ++ ",".intercalate (names.foldr insertSorted []) ++ "]"

def logsOf (s : Sc) : List SLog :=
  match s.m with
  | none => []
  | some m =>
    let ls := m.streams.map (fun e =>
      ({ sid := e.1, tx := e.2.log, fin := e.2.fin, writing := e.2.cur.isSome, other := [] } : SLog))
    -- by stream id, as the harness prints them
    (ls.foldr (fun l acc =>
      let (a, b) := acc.span (fun x => x.sid < l.sid)
      a ++ [l] ++ b) [])

def outHandle (role cfgS : String) (ops : List String) : String :=
  match parseCfg cfgS with
  | none => "bad-op"
  | some sc =>
    if role != "server" && role != "client" then "bad-op" else
    let server := role == "server"
    let s0 : Sc := { server := server, sc := sc, uc := sc.uc, bc := sc.bc }
    let main : TaskS := { name := mainName s0, kind := if server then .conn else .drv, busy := some ("build", .build) }
    let fuel := 8 * ops.length + 16
    let s0 := settle fuel (s0.spawn main)
    let rec go : Sc → List String → Except String Sc
      | s, [] => .ok s
      | s, op :: rest =>
        match applyOp s op with
        | none => .error s!"bad-op:{op}"
        | some s' => go (settle fuel s') rest
    match go s0 ops with
    | .error e => e
    | .ok s =>
      let cx : Ctx := { server := server, wt := s.cfg.wt }
      renderAll (modeOf sc) cx (logsOf s) (pendingOf s) ++ " ## valid **"

def handle : List String → String
  | ["wbuf", desc, pat] => wbufHandle desc pat
  | "out" :: role :: cfg :: ops => outHandle role cfg ops
  | "outlog" :: role :: cfg :: toks => outlogHandle role cfg toks
  | _ => "bad-op"

end H3.Drv.C14
