import H3.Drv.Util
import H3.Model.Varint
import H3.Model.Drain
import H3.Spec.Drain
import H3.Drv.C08
/-! Driver engine `drain` (C09): interprets a scenario line (BUILDERS.md, "Connection-level
engines") twice — against the model `H3.Drain.step` and against the oracle `H3.Spec.Drain` —
and prints `<conn.A results> pend=<accept still outstanding> ## <the same from the oracle>`.

This file is glue (no proofs).  It plays the harness's tasks: `conn` (mailbox; `conn.A` = one
`accept()`, `conn.AL` = accept loop until `None`/error), `q<sid>` (resolver, then stream, then
receive half), `q<sid>s` (send half after `sp`), and classifies what `resolve_request` does with
the few request-stream contents the generator uses.  Every way a request's handle goes away
becomes one `Ev.dropHandle`:  `dr`, `kill`, a failing `res` (the resolver is consumed).  The
model back end polls the accept task only when the model says it was woken. -/
namespace H3.Drv.C09
open H3.Drv H3.Drain

structure Backend (σ : Type) where
  apply : σ → Ev → σ × List Obs

/-- model: the event, then the executor runs the accept task if (and only if) it was woken. -/
def modelBackend : Backend State where
  apply s ev :=
    let r := step s ev
    let p := step r.1 .poll
    (p.1, r.2 ++ p.2)

/-- oracle: what `accept` must answer, from the history alone. -/
structure SpecSt where
  hist : List Step := []
  incoming : List Nat := []
  inFlight : Bool := false

open H3.Spec.Drain in
def specBackend : Backend SpecSt where
  apply s ev :=
    let s1 : SpecSt := match ev with
      | .arrive id => { s with incoming := s.incoming ++ [id] }
      | .callAccept => { s with inFlight := true }
      | _ => s
    let pre := s1.hist ++ [⟨ev, []⟩]
    if !s1.inFlight then ({ s1 with hist := pre }, []) else
    if errorSeen pre then ({ s1 with hist := s1.hist ++ [⟨ev, [.acceptErr]⟩], inFlight := false }, [.acceptErr]) else
    match s1.incoming with
    | id :: rest =>
      ({ s1 with hist := s1.hist ++ [⟨ev, [.handedOut id]⟩], incoming := rest, inFlight := false }, [.handedOut id])
    | [] =>
      -- "no more requests" exactly when the peer's GOAWAY is in and no request is alive
      if goawaySeen pre && noneAlive pre then
        ({ s1 with hist := s1.hist ++ [⟨ev, [.acceptNone]⟩], inFlight := false }, [.acceptNone])
      else ({ s1 with hist := pre }, [])

/-- what the peer has put on a request stream and what the tasks of that request are doing. -/
structure Req where
  id : Nat
  bytes : List Nat := []
  fin : Bool := false
  reset : Bool := false
  /-- task `q<id>`: 0 not handed out, 1 holds the resolver, 2 `res` pending, 3 holds the stream
      (or its receive half), 4 gone -/
  phase : Nat := 0
  /-- task `q<id>s` holds the send half -/
  sendTask : Bool := false
  mail : List String := []

structure G (σ : Type) where
  b : σ
  reqs : List Req := []
  /-- 0 idle, 1 one `accept()` outstanding, 2 accept loop -/
  mode : Nat := 0
  cmdq : List String := []
  toks : List String := []
  settings : Bool := false
  lastGoaway : Option Nat := none
  errCode : String := "?"
  unsupported : Bool := false
  /-- `<task>.kill` for a task that does not exist (any more): the harness answers `bad-op:<op>` -/
  badOp : Option String := none
  /-- `accept` has returned `None`: the documented pattern ends here (R-08); what the line does
      afterwards is not looked at (the final `shutdown(0)` of `accept` makes it C08's business) -/
  done : Bool := false

variable {σ : Type}

def G.req (g : G σ) (id : Nat) : Option Req := g.reqs.find? (·.id == id)
def G.setReq (g : G σ) (r : Req) : G σ :=
  { g with reqs := if g.reqs.any (·.id == r.id) then g.reqs.map (fun x => if x.id == r.id then r else x) else g.reqs ++ [r] }
def G.bad (g : G σ) : G σ := { g with unsupported := true }
def G.noTask (g : G σ) (o : String) : G σ := if g.badOp.isSome then g else { g with badOp := some o }

/-- apply an event; an `accept()` that returns is logged, hands its request to a new task, and
    in loop mode is followed by the next call. -/
def applyEv (B : Backend σ) : Nat → G σ → Ev → G σ
  | 0, g, _ => g.bad
  | f+1, g, ev =>
    let r := B.apply g.b ev
    let g := { g with b := r.1 }
    r.2.foldl (fun g o =>
      match o with
      | .handedOut id =>
        let q := (g.req id).getD { id := id }
        let g := (g.setReq { q with phase := 1 })
        let g := { g with toks := g.toks ++ [s!"conn.A=req:{id}"] }
        if g.mode == 2 then applyEv B f g .callAccept else { g with mode := 0 }
      | .acceptNone => { g with toks := g.toks ++ ["conn.A=none"], mode := 0, done := true }
      | .acceptErr => { g with toks := g.toks ++ [s!"conn.A=err:local:{g.errCode}"], mode := 0 }
      | .acceptPending => g) g

def FUEL : Nat := 64

/-- the `conn` task reads its mailbox whenever it is not inside a single `accept()`. -/
def settle (B : Backend σ) : Nat → G σ → G σ
  | 0, g => g
  | f+1, g =>
    if g.mode == 1 then g else
    match g.cmdq with
    | [] => g
    | c :: rest =>
      let g := { g with cmdq := rest }
      if c == "A" && g.mode == 0 then settle B f (applyEv B FUEL { g with mode := 1 } .callAccept)
      else if c == "AL" && g.mode == 0 then settle B f (applyEv B FUEL { g with mode := 2 } .callAccept)
      else g.bad

def HOK : List Nat := [1, 13, 0, 0, 0xd1, 0xd7, 0x50, 0x83, 0x1a, 0xf1, 0xff, 0x51, 0x82, 0x63, 0xcf]

inductive Res where
  | pending | ok | streamErr | connErr (code : String) | unknown

/-- what `resolve_request` does with the stream content the generator uses. -/
def classify (r : Req) : Res :=
  if r.bytes == HOK then .ok
  else if r.bytes == [1, 3, 0, 0, 0xd1] then .streamErr            -- H3_MESSAGE_ERROR
  else if r.bytes == [1, 3, 0, 0, 0xff] then .connErr "QPACK_DECOMPRESSION_FAILED"
  else if r.bytes == [0, 1, 0xaa] then .connErr "H3_FRAME_UNEXPECTED"
  else if r.bytes == [] then
    (if r.reset then .streamErr else if r.fin then .streamErr else .pending)  -- rterm / H3_REQUEST_INCOMPLETE
  else if r.bytes == [1, 3] then
    (if r.reset then .unknown else if r.fin then .connErr "H3_FRAME_ERROR" else .pending)
  else .unknown

/-- a command for task `q<id>` that holds the stream (phase 3). -/
def streamCmd (B : Backend σ) (g : G σ) (id : Nat) (c : String) : G σ :=
  match g.req id with
  | none => g
  | some q =>
    if q.phase != 3 then g else
    if c == "dr" then applyEv B FUEL (g.setReq { q with phase := 4 }) (.dropHandle id)
    else if c == "sp" then
      if q.sendTask then g.bad else applyEv B FUEL (g.setReq { q with sendTask := true }) (.clone id)
    else if c == "fi" || c == "rd" || c.startsWith "sr:" then g
    else g.bad

/-- task `q<id>` runs (or re-runs) `resolve_request`. -/
def resolve (B : Backend σ) (g : G σ) (id : Nat) : G σ :=
  match g.req id with
  | none => g
  | some q =>
    match classify q with
    | .pending => g.setReq { q with phase := 2 }
    | .ok =>
      let g := g.setReq { q with phase := 3, mail := [] }
      q.mail.foldl (fun g c => streamCmd B g id c) g
    | .streamErr => applyEv B FUEL (g.setReq { q with phase := 4 }) (.dropHandle id)
    | .connErr code =>
      -- the first recorded connection error is the one every later call reports (C05)
      let g := g.setReq { q with phase := 4 }
      let g := applyEv B FUEL { g with errCode := if g.errCode == "?" then code else g.errCode } .connError
      applyEv B FUEL g (.dropHandle id)
    | .unknown => g.bad

def qCmd (B : Backend σ) (g : G σ) (id : Nat) (c : String) : G σ :=
  match g.req id with
  | none => if c == "kill" then g.noTask s!"q{id}.kill" else g   -- no such task: `no-task`
  | some q =>
    if c == "kill" || c == "kill?" then
      if q.phase == 1 || q.phase == 2 || q.phase == 3 then
        applyEv B FUEL (g.setReq { q with phase := 4 }) (.dropHandle id)
      else if c == "kill" then g.noTask s!"q{id}.kill" else g
    else if q.phase == 1 then
      if c == "dr" then applyEv B FUEL (g.setReq { q with phase := 4 }) (.dropHandle id)
      else if c == "res" then resolve B g id
      else g                                   -- `bad-cmd`, the task goes on
    else if q.phase == 2 then g.setReq { q with mail := q.mail ++ [c] }
    else if q.phase == 3 then streamCmd B g id c
    else g

def qsCmd (B : Backend σ) (g : G σ) (id : Nat) (c : String) : G σ :=
  match g.req id with
  | none => if c == "kill" then g.noTask s!"q{id}s.kill" else g
  | some q =>
    if !q.sendTask then (if c == "kill" then g.noTask s!"q{id}s.kill" else g) else
    if c == "dr" || c == "kill" || c == "kill?" then applyEv B FUEL (g.setReq { q with sendTask := false }) (.dropHandle id)
    else if c == "fi" || c.startsWith "sr:" then g
    else g.bad

/-- new content on a request stream: a pending `res` looks again. -/
def content (B : Backend σ) (g : G σ) (id : Nat) (f : Req → Req) : G σ :=
  match g.req id with
  | none => g
  | some q =>
    if q.fin || q.reset then g.bad else
    let g := g.setReq (f q)
    if q.phase == 2 then resolve B g id else g

def op (B : Backend σ) (g : G σ) (o : String) : G σ :=
  match o.splitOn "." with
  | ["conn", c] => { g with cmdq := g.cmdq ++ [c] }
  | [q, c] =>
    if q.startsWith "q" then
      let name := (q.drop 1).toString
      if name.endsWith "s" then
        match (name.dropEnd 1).toString.toNat? with
        | some id => qsCmd B g id c
        | none => g.bad
      else match name.toNat? with
        | some id => qCmd B g id c
        | none => g.bad
    else g.bad
  | _ =>
    match o.toList with
    | 'o' :: r =>
      match (String.ofList r).toNat? with
      | some id =>
        if id == 2 then g
        else if id % 4 == 0 && (g.req id).isNone then applyEv B FUEL (g.setReq { id := id }) (.arrive id)
        else g.bad
      | none => g.bad
    | 's' :: r =>
      match (String.ofList r).splitOn ":" with
      | [sid, h] =>
        match sid.toNat?, parseHex h with
        | some 2, some bs =>
          if bs == [0, 4, 0] then (if g.settings then g.bad else { g with settings := true })
          else match H3.Drv.C08.parseGoawayFrame bs with
            | some v =>
              if !g.settings then g.bad
              else if (match g.lastGoaway with | some p => decide (p < v) | none => false) then g.bad
              else applyEv B FUEL { g with lastGoaway := some v } .goaway
            | none => g.bad
        | some id, some bs => if id % 4 == 0 then content B g id (fun q => { q with bytes := q.bytes ++ bs }) else g.bad
        | _, _ => g.bad
      | _ => g.bad
    | 'f' :: r =>
      match (String.ofList r).toNat? with
      | some id => if id % 4 == 0 then content B g id (fun q => { q with fin := true }) else g.bad
      | none => g.bad
    | 'r' :: r =>
      match (String.ofList r).splitOn ":" with
      | [sid, _] =>
        match sid.toNat? with
        | some id => if id % 4 == 0 then content B g id (fun q => { q with reset := true }) else g.bad
        | none => g.bad
      | _ => g.bad
    | _ => g.bad

def runLine (B : Backend σ) (init : σ) (ops : List String) : Option String :=
  let g := ops.foldl (fun g o => if g.badOp.isSome || g.done then g else settle B FUEL (op B g o)) ({ b := init } : G σ)
  if g.unsupported then none
  else if let some o := g.badOp then some ("bad-op:" ++ o)
  else some ((if g.toks.isEmpty then "-" else " ".intercalate g.toks) ++ " pend=" ++ b01 (g.mode != 0))

def handle : List String → String
  | "drain" :: "server" :: _cfg :: ops =>
    match runLine modelBackend {} ops, runLine specBackend {} ops with
    | some m, some s => m ++ " ## " ++ s
    | _, _ => "unsupported ## ?"
  | _ => "bad-op"

end H3.Drv.C09
