import H3.Drv.Util
import H3.Drv.FaultOp
import H3.Model.Control
import H3.Model.FrameStream
import H3.Model.Setup
import H3.Model.Config
import H3.Spec.ControlRules
import H3.Spec.Framing
/-! Driver engine `ctl` (C04): interprets a scenario line of the connection-level scenario
    interpreter (peer ops on unidirectional streams, stream/write credit ops, `conn.A`/`conn.AL`/
    `conn.U` resp. `drv.W`/`drv.U`) twice:

    * **model**: SimQuic's queues and credits + the task/mailbox discipline of the harness, with
      the *code models* `UniAccept.pollType`, `FS.pollNext`, `Control.drivePoll` doing the work of
      h3.  After every op the driver task is polled (the harness polls it when it was woken; a
      difference would be a lost wake-up).
    * **spec**: the same harness discipline, but what the connection must do is taken from
      `Spec.ControlRules` (stream header by RFC 9000 §16, control stream segmented by
      `Spec.Framing.observe`); `must`/`may` verdicts fork into alternatives.

    The endpoint's OWN setup streams (control, QPACK encoder, QPACK decoder) are part of the scenario:
    stream credit (`uc=`, `gu<n>`), write credit (`wc=`, `gw<sid>:<n>`), the peer's STOP_SENDING
    (`x<sid>:<c>`).  Model: `Setup.buildPoll` (the `build` future) and `Setup.pollWrite` /
    `shutdownPlan` / `shutdownWrite` (the server's final GOAWAY, `accept` → `shutdown(0)`) over `ownTr`
    (SimQuic); spec: `specSetup`, `finalAlts`, `Spec.ControlRules.ownStopped`.  With grease on the
    length of the control stream header is random (`ctlHdrMin`..`ctlHdrMax`): a line on which that
    matters prints `unsupported ## ?`.

    Output: `closed=[codes] res=<results of A/W> U=<results of U> | build=ok|pending|err:<code> stops=[…] g=… pending=[…]`
    `##` alternatives `closed=[c] res=… U=… **`.  Engine `ctlrfc`: the same, judged by
    `Spec.ControlRules.verdictRfc` (RFC 9114 by the letter also for server push, RFC 9204 §4.2 for a closed
    peer QPACK stream).  `ctl note <role> <cfg> <ops>`: instead of the two answers, which of the oracle's
    recorded leniencies the line meets — `overtaken=` (R-04d: `overtaken` added H3_CLOSED_CRITICAL_STREAM),
    `qpack=` (R-04e: `Ev.qpackClosed` was judged), `wt=` (an alternative went past frame type 0x41: `?`),
    `wtseen=` (0x41 among the control stream's events) — for the NOTE lines of the check.  -/
namespace H3.Drv.C04
open H3.Drv H3.Control

abbrev Ev := H3.FS.Ev
abbrev Bytes := List Nat

/-! ### parsing -/

inductive Op where
  | openS (sid : Nat)
  | chunk (sid : Nat) (b : Bytes)
  | fin (sid : Nat)
  | reset (sid : Nat) (c : Nat)
  | stop (sid : Nat) (c : Nat)
  | gu (n : Nat)
  | gw (sid : Nat) (n : Nat)
  | api (cmd : String)
  /-- `!<site>[<target>]:<err>`: a transport fault is armed (here: on the endpoint's grease stream) -/
  | fault (f : FaultOp.Fault)
  | bad
deriving Repr

def natOf (cs : List Char) : Option Nat := (String.ofList cs).toNat?

def splitColon (cs : List Char) : Option (List Char × List Char) :=
  match cs.span (· != ':') with
  | (a, _ :: b) => some (a, b)
  | _ => none

def two (r : List Char) (k : Nat → Nat → Op) : Op :=
  match splitColon r with
  | some (a, b) =>
    match natOf a, natOf b with
    | some x, some y => k x y
    | _, _ => .bad
  | none => .bad

def parseOp (task : String) (s : String) : Op :=
  match s.splitOn "." with
  | [t, cmd] => if t == task then .api cmd else .bad
  | [_] =>
    match s.toList with
    | 'o' :: r => (natOf r).elim .bad .openS
    | 's' :: r =>
      match splitColon r with
      | some (a, b) =>
        match natOf a, parseHexChars b with
        | some sid, some bs => if bs.isEmpty then .bad else .chunk sid bs
        | _, _ => .bad
      | none => .bad
    | 'f' :: r => (natOf r).elim .bad .fin
    | 'r' :: r => two r .reset
    | 'x' :: r => two r .stop
    | 'g' :: 'u' :: r => (natOf r).elim .bad .gu
    | 'g' :: 'w' :: r => two r .gw
    | '!' :: r => (FaultOp.parse (String.ofList r)).elim .bad .fault
    | _ => .bad
  | _ => .bad

structure RunCfg where
  server : Bool
  grease : Bool := false
  wt : Bool := false
  uc : Option Nat := none
  wc : Option Nat := none
  /-- what else goes into the SETTINGS frame (its length matters when write credit is short) -/
  mfs : Option Nat := none
  ec : Bool := false
  dg : Bool := false
  wts : Option Nat := none
deriving Repr

def parseCfg (server : Bool) (s : String) : Option RunCfg :=
  (s.splitOn ",").foldlM (init := ({ server := server } : RunCfg)) fun c t =>
    if t == "-" || t == "" then some c
    else if t == "g0" then some { c with grease := false }
    else if t == "g1" then some { c with grease := true }
    else match t.splitOn "=" with
      | [k, v] =>
        if k == "wt" then some { c with wt := server && v == "1" }   -- the client builder has no such switch
        else if k == "uc" then v.toNat?.map (fun n => { c with uc := some n })
        else if k == "wc" then v.toNat?.map (fun n => { c with wc := some n })
        else if k == "mfs" then v.toNat?.map (fun n => { c with mfs := some n })
        else if k == "wts" then v.toNat?.map (fun n => { c with wts := some n })
        else if k == "ec" then some { c with ec := v == "1" }
        else if k == "dg" then some { c with dg := v == "1" }
        else if k == "seed" || k == "bc" then some c
        else none
      | _ => none

/-! ### the harness: task and mailbox discipline, build phase (shared by model and spec) -/

inductive Mode where
  | idle | awaiting | looping
  /-- `conn.A` taken while the accept loop runs: one `accept().await`, then the loop goes on -/
  | awaitLoop
deriving Repr, DecidableEq

structure Task where
  mode : Mode := .idle
  mailbox : List String := []
  results : List String := []
  us : List String := []
  bad : Bool := false
deriving Repr

/-! ### SimQuic for the endpoint's own setup streams (shared by model and spec)

`builder.build(conn)` needs three unidirectional streams (stream credit `uc`, `gu<n>`) and room for
the three stream headers (write credit `wc`, `gw<sid>:<n>`); later the server's `accept` writes its
final GOAWAY on the control stream.  The peer may send STOP_SENDING on any of them (`x<sid>:<c>`). -/

def localBase (server : Bool) : Nat := if server then 3 else 2

/-- one of the endpoint's own setup streams, numbered in the order they are opened
    (0 control, 1 QPACK encoder, 2 QPACK decoder) -/
structure OwnS where
  /-- `tx_credit` (`none` = unlimited) -/
  credit : Option Nat := none
  /-- bytes handed over by `send_data` and not yet accepted (`writing`) -/
  left : Nat := 0
  /-- `peer_stopped` -/
  stopped : Option Nat := none
  /-- bytes accepted so far -/
  written : Nat := 0
deriving Repr

structure OwnNet where
  uc : Option Nat := none
  /-- `default_tx_credit` -/
  wc : Option Nat := none
  ss : List OwnS := []
  /-- what `send_data` on stream `k` hands over next -/
  sizes : List Nat := [0, 0, 0]
deriving Repr

def OwnNet.upd (n : OwnNet) (k : Nat) (f : OwnS → OwnS) : OwnNet :=
  { n with ss := n.ss.zipIdx.map fun (si : OwnS × Nat) => if si.2 == k then f si.1 else si.1 }

/-- `sid` is the `k`-th own setup stream and it has been opened -/
def OwnNet.index (n : OwnNet) (server : Bool) (sid : Nat) : Option Nat :=
  (List.range n.ss.length).find? (fun k => sid == localBase server + 4 * k)

/-- `x<sid>:<c>`: `peer_stop` (the first code stays; a stream that does not exist yet is not touched) -/
def OwnNet.stop (n : OwnNet) (k c : Nat) : OwnNet :=
  n.upd k fun s => { s with stopped := s.stopped.or (some c) }

/-- `gw<sid>:<n>`: `grant_write` -/
def OwnNet.grant (n : OwnNet) (k m : Nat) : OwnNet :=
  n.upd k fun s => { s with credit := s.credit.map (· + m) }

/-- sim.rs `open()`, `send_data`, `poll_ready` (STOP_SENDING is looked at before the credit) -/
def ownCall (n : OwnNet) : H3.Setup.Call → OwnNet × H3.Setup.Ans
  | .openSend _ =>
    if n.uc == some 0 then (n, .pending)
    else ({ n with uc := n.uc.map (· - 1), ss := n.ss ++ [{ credit := n.wc }] }, .ok)
  | .sendData k => (n.upd k fun s => { s with left := n.sizes.getD k 0 }, .ok)
  | .pollReady k =>
    match n.ss[k]? with
    | none => (n, .ok)
    | some s =>
      match s.stopped with
      | some c => (n.upd k fun s => { s with left := 0 }, .err (.terminated c))
      | none =>
        let take := match s.credit with
          | none => s.left
          | some c => min c s.left
        let s1 := { s with left := s.left - take, credit := s.credit.map (· - take), written := s.written + take }
        (n.upd k fun _ => s1, if s1.left == 0 then .ok else .pending)

def ownTr : H3.Setup.Transport OwnNet := { call := ownCall }

def cfgRecord (rc : RunCfg) : H3.Config.Record :=
  let d := H3.Config.Record.default
  { mfs := rc.mfs.getD d.mfs, wt := rc.server && rc.wt, ec := rc.ec, dg := rc.dg,
    wts := if rc.server then rc.wts.getD d.wts else d.wts }

/-- length of `UniStreamHeader::Control(settings)`: stream type + SETTINGS frame (C13's model);
    `n` = the draw of `SettingId::grease()` -/
def ctlHdrLen (rc : RunCfg) (n : Nat) : Option Nat :=
  match H3.Config.setup { grease := rc.grease, settings := cfgRecord rc } n with
  | .sent b => some b.length
  | _ => none

/-- With grease on the reserved setting id is random (1 to 8 bytes): the length of the control
    stream header is not a function of the case line, only its bounds are. -/
def ctlHdrMin (rc : RunCfg) : Nat := (ctlHdrLen rc 0).getD 0
def ctlHdrMax (rc : RunCfg) : Nat := (ctlHdrLen rc (2 ^ 56)).getD 0

def OwnNet.init (rc : RunCfg) : OwnNet :=
  { uc := rc.uc, wc := rc.wc, sizes := [ctlHdrMax rc, 1, 1] }

/-- the server's last GOAWAY (`accept` → `shutdown(0)`, no request was accepted): `07 01 00` -/
def GOAWAY_LEN : Nat := 3

def isStart (server : Bool) (c : String) : Bool := (server && c == "AL") || (!server && c == "W")
def isStop (server : Bool) (c : String) : Bool := (server && c == "AS") || (!server && c == "WS")

/-- runs the task until it has to wait.  `poll` = one poll of the pending `accept`/`wait_idle`
    (result when it completes), `drain` = the `U` command; `poll` may fork (specification);
    `drop` = the pending `accept()` / `wait_idle()` future is dropped (the loop's `select` took a
    command instead). -/
def runTask {σ : Type} (server : Bool) (poll : σ → List (σ × Option String)) (drain : σ → σ × String)
    (drop : σ → σ) :
    Nat → σ × Task → List (σ × Task)
  | 0, st => [st]
  | fuel+1, (s, t) =>
    if t.bad then [(s, t)] else
    match t.mode with
    | .idle =>
      match t.mailbox with
      | [] => [(s, t)]
      | c :: rest =>
        let t := { t with mailbox := rest }
        if server && c == "A" then runTask server poll drain drop fuel (s, { t with mode := .awaiting })
        else if isStart server c then runTask server poll drain drop fuel (s, { t with mode := .looping })
        else if isStop server c then runTask server poll drain drop fuel (s, t)
        else if c == "U" then
          let (s1, u) := drain s
          runTask server poll drain drop fuel (s1, { t with us := t.us ++ [u] })
        else [(s, { t with bad := true })]
    | .awaiting =>
      (poll s).flatMap fun (s1, r) =>
        match r with
        | some x => runTask server poll drain drop fuel (s1, { t with results := t.results ++ [x], mode := .idle })
        | none => [(s1, t)]
    | .awaitLoop =>
      (poll s).flatMap fun (s1, r) =>
        match r with
        | some x => runTask server poll drain drop fuel (s1, { t with results := t.results ++ [x], mode := .looping })
        | none => [(s1, t)]
    | .looping =>
      (poll s).flatMap fun (s1, r) =>
        match r with
        | some x => runTask server poll drain drop fuel (s1, { t with results := t.results ++ [x], mode := .idle })
        | none =>
          match t.mailbox with
          | [] => [(s1, t)]
          | c :: rest =>
            let t := { t with mailbox := rest }
            let s1 := drop s1
            if c == "U" then
              let (s2, u) := drain s1
              runTask server poll drain drop fuel (s2, { t with us := t.us ++ [u] })
            else if isStop server c then runTask server poll drain drop fuel (s1, { t with mode := .idle })
            else if isStart server c then runTask server poll drain drop fuel (s1, t)
            else if server && c == "A" then runTask server poll drain drop fuel (s1, { t with mode := .awaitLoop })
            else [(s1, { t with bad := true })]

def peerUni (server : Bool) (sid : Nat) : Bool := if server then sid % 4 == 2 else sid % 4 == 3

def renderList (xs : List String) (sep : String) : String :=
  if xs.isEmpty then "-" else sep.intercalate xs

def endName (e : Option UniAccept.End) : String :=
  match e with
  | none => "open"
  | some .fin => "fin"
  | some (.reset c) => s!"rst{c}"

/-- what draining a receive stream yields: everything queued up to the end -/
def drainRx : List Ev → Bytes × Option UniAccept.End
  | [] => ([], none)
  | .chunk b :: r => let (bs, e) := drainRx r; (b ++ bs, e)
  | .pend :: r => drainRx r
  | .fin :: _ => ([], some .fin)
  | .reset c :: _ => ([], some (.reset c))

/-! ### model side -/

inductive Phase where
  | pending | control | wt (session : Nat) | done
deriving Repr, DecidableEq

structure UStream where
  sid : Nat
  rx : List Ev := []
  st : UniAccept.St := {}
  phase : Phase := .pending
  stop : Option Nat := none
deriving Repr

structure Sys where
  rc : RunCfg
  conn : Conn := {}
  gs : Grease := {}
  streams : List UStream := []
  fs : H3.FS.St := {}
  /-- the endpoint's own setup streams in SimQuic, the `build` future, its outcome -/
  net : OwnNet := {}
  bst : H3.Setup.BSt := {}
  built : Bool := true
  buildErr : Option Nat := none
  /-- grease on: whether the control stream header is complete depends on the random setting id -/
  amb : Bool := false
  /-- `sent_closing`; the `accept()` future is inside `shutdown(0).await`, its write in this state -/
  sentClosing : Bool := false
  ga : Option H3.Setup.WSt := none
  uc : Option Nat := none
  gGranted : Option Nat := none
  gStopped : Bool := false
  /-- sids in the order in which `poll_accept_recv` saw a WebTransport uni stream -/
  wtOrder : List Nat := []
  wtDrained : Nat := 0
  closed : List Nat := []
  unsupported : Bool := false
  panic : Bool := false
  /-- faults armed on the grease stream's calls: `poll_open_send` (4th stream), `send_data`,
      `poll_ready`, `poll_finish`; labels of those that fired, in order -/
  gfOpen : Option FaultOp.Fault := none
  gfSend : Option FaultOp.Fault := none
  gfReady : Option FaultOp.Fault := none
  gfFinish : Option FaultOp.Fault := none
  gFired : List FaultOp.Fault := []
deriving Repr

def Sys.cfg (s : Sys) : Cfg := { role := if s.rc.server then .server else .client, wt := s.rc.wt }

def Sys.init (rc : RunCfg) : Sys :=
  { rc := rc, gs := { flag := rc.grease }, net := OwnNet.init rc, built := false,
    unsupported := (ctlHdrLen rc 0).isNone }

def cerrCode : H3.ErrCell.CErr → Nat
  | .localApp c _ => c
  | _ => 0

/-- one poll of the `build` future (`Setup.buildPoll` over SimQuic) while it is pending -/
def pollBuild (s : Sys) : Sys :=
  if s.built || s.buildErr.isSome then s else
  let o := H3.Setup.buildPoll ownTr s.net s.bst
  -- the header is `ctlHdrMax` bytes long here; a shorter one could be complete by now
  let amb := s.amb || (match o.t.ss[0]? with
    | some c => s.rc.grease && decide (c.left > 0) && decide (c.written ≥ ctlHdrMin s.rc)
    | none => false)
  let s := { s with net := o.t, bst := o.st, amb := amb }
  match o.res with
  | none => s
  | some none => { s with built := true, uc := o.t.uc }
  | some (some e) => { s with buildErr := some (cerrCode e), closed := s.closed ++ o.st.drv.closes }

/-- `poll_type` on one pending stream -/
def pollStream (u : UStream) : UStream × Option Arrival × Bool :=
  match u.phase with
  | .pending =>
    match UniAccept.pollType u.st u.rx with
    | (.ready, st1, rx1) =>
      match UniAccept.intoStream st1 with
      | some k => ({ u with st := st1, rx := rx1, phase := .done }, some (.kind k), false)
      | none => ({ u with st := st1, rx := rx1, phase := .done }, none, true)
    | (.ended, st1, rx1) => ({ u with st := st1, rx := rx1, phase := .done }, some .dropped, false)
    | (.internal, st1, rx1) => ({ u with st := st1, rx := rx1, phase := .done }, some .internal, false)
    | (.pending, st1, rx1) => ({ u with st := st1, rx := rx1 }, none, false)
  | _ => (u, none, false)

def pollStreams : List UStream → List UStream × List (Nat × Arrival) × Bool
  | [] => ([], [], false)
  | u :: r =>
    let (u1, a, p) := pollStream u
    let (r1, as, p1) := pollStreams r
    (u1 :: r1, (match a with | some x => (u.sid, x) :: as | none => as), p || p1)

/-- everything `FrameStream::poll_next` will say on the control stream with what has arrived -/
def ctlItems : Nat → H3.FS.St → List Ev → List (In × H3.FS.St × List Ev)
  | 0, _, _ => []
  | fuel+1, fs, rx =>
    match H3.FS.pollNext H3.FS.frameDec fs rx with
    | (.frame f, fs1, rx1) =>
      (.item (.frame f), fs1, rx1) :: (if fs1.remaining ≠ 0 then [] else ctlItems fuel fs1 rx1)
    | (.none, fs1, rx1) => [(.item .fin, fs1, rx1)]
    | (.errEnd, fs1, rx1) => [(.item .truncated, fs1, rx1)]
    | (.errQuic c, fs1, rx1) => [(.item (.reset c), fs1, rx1)]
    | (.errProto e, fs1, rx1) => [(.item (.proto e), fs1, rx1)]
    | (.pending, fs1, rx1) => [(.pend, fs1, rx1)]
    | (.data _, _, _) => []
    | (.panic, _, _) => []

def evBytes : List Ev → Nat
  | [] => 0
  | .chunk b :: r => b.length + evBytes r
  | _ :: r => 1 + evBytes r

def isControlArrival (a : Nat × Arrival) : Bool :=
  match a.2 with
  | .kind .control => true
  | _ => false

def isWtArrival (a : Nat × Arrival) : Bool :=
  match a.2 with
  | .kind (.wtUni _) => true
  | _ => false

/-- the `FrameStream` built by `into_stream` from a resolved control stream -/
def fsOf (u : UStream) : H3.FS.St × List Ev :=
  let fs : H3.FS.St := { buf := if u.st.buf.isEmpty then [] else [u.st.buf], eos := u.st.ended == some .fin }
  let rx := match u.st.ended with
    | some (.reset c) => .reset c :: u.rx
    | _ => u.rx
  (fs, rx)

def okAns (b : Bool) : GAns := if b then .ok else .pending

/-- answers the grease stream will get from SimQuic during this poll of the driver (cut at the
    first `Pending`: nothing changes while the poll runs).  The grease stream carries between 9
    and 23 bytes (two random varints, `06`, "grease"). -/
def greaseScript (s : Sys) : List GAns × Bool :=
  let canOpen := match s.uc with | some 0 => false | _ => true
  let ready (granted : Option Nat) : GAns × Bool :=
    -- SimQuic looks at an armed fault before STOP_SENDING, and at that before the credit
    if s.gfReady.isSome then (.err, false) else
    if s.gStopped then (.err, false) else
    match granted with
    | none => (.ok, false)
    | some t => if t ≥ 23 then (.ok, false) else if t < 9 then (.pending, false) else (.pending, true)
  let sendA : GAns := if s.gfSend.isSome then .err else .ok
  -- `poll_finish`: an error, or (`P`) `Pending` once and then `Ok` (also within the same poll)
  let finA : List GAns :=
    match s.gfFinish with
    | some f => if f.kind == .pend then [.pending, .ok] else [.err]
    | none => [.ok]
  let pre : List GAns × Bool :=
    match s.gs.step with
    | .notStarted =>
      -- an armed fault answers before the stream credit is looked at
      if s.gfOpen.isSome then ([.err, .pending], false)
      else if canOpen then let (a, u) := ready s.rc.wc; ([.ok, sendA, a], u) else ([.pending], false)
    | .started => let (a, u) := ready s.gGranted; ([sendA, a], u)
    | .dataPrepared => let (a, u) := ready s.gGranted; ([a], u)
    | .dataSent => ([], false)
    | .finished => ([.pending], false)
  let cut := pre.1.takeWhile (· != .pending)
  (if cut.length == pre.1.length then cut ++ finA else cut, pre.2)

/-- the fault that made the grease machine give up in this poll (it stops at the call that
    answered the error: `send_grease_stream_flag = false`, the step stays) -/
def greaseFired (s : Sys) (after : Grease) : Option FaultOp.Fault :=
  if s.gs.flag && !after.flag then
    match after.step with
    | .notStarted => s.gfOpen
    | .started => s.gfSend
    | .dataPrepared => s.gfReady
    | .dataSent => s.gfFinish
    | .finished => none
  else none

def isPend (f : Option FaultOp.Fault) : Bool :=
  match f with
  | some x => x.kind == .pend
  | none => false

/-- is `f` a fault on one of the grease stream's calls?  `ou3` = the fourth stream the endpoint
    opens (after control, encoder, decoder); `sd`/`pr`/`pf` on the grease stream's id. -/
def armGrease (s : Sys) (gsid : Nat) (f : FaultOp.Fault) : Option Sys :=
  if f.skip != 0 then none else
  match f.site, f.target with
  -- one fault per call site (a second one is not modelled)
  | .ou, some 3 => if s.gfOpen.isNone then some { s with gfOpen := some f } else none
  | .sd, some sid => if sid == gsid && s.gfSend.isNone then some { s with gfSend := some f } else none
  | .pr, some sid => if sid == gsid && s.gfReady.isNone then some { s with gfReady := some f } else none
  | .pf, some sid => if sid == gsid && s.gfFinish.isNone then some { s with gfFinish := some f } else none
  | _, _ => none

def setStops (streams : List UStream) (stops : List (Nat × Nat)) : List UStream :=
  streams.map fun u =>
    match stops.lookup u.sid with
    | some c => { u with stop := some c }
    | none => u

/-- one poll of the role's driver against everything that has arrived. Returns the result of the
    pending API call if it completes. -/
def pollDriver (s : Sys) : Sys × Option String :=
  let (streams1, arrivals, pnc) := pollStreams s.streams
  -- the control stream: the one we have, or the first one resolved now
  let haveCtl := s.streams.find? (fun u => u.phase == .control)
  let newCtl : Option Nat :=
    if s.conn.control then none else (arrivals.find? isControlArrival).map (·.1)
  let (fs0, rx0, ctlSid) : H3.FS.St × List Ev × Option Nat :=
    match haveCtl with
    | some u => (s.fs, u.rx, some u.sid)
    | none =>
      match newCtl.bind (fun sid => streams1.find? (fun u => u.sid == sid)) with
      | some u => let (f, r) := fsOf u; (f, r, some u.sid)
      | none => (s.fs, [], none)
  let items := match ctlSid with
    | some _ => ctlItems (evBytes rx0 + fs0.flat.length + 4) fs0 rx0
    | none => []
  let ins : List In := arrivals.map (fun a => In.uni a.1 a.2) ++ items.map (·.1)
  let (g, gUnsup) := greaseScript s
  let wasDead := s.conn.err.isSome
  let d := drivePoll false s.cfg (ins.length + 1) s.conn s.gs ins g
  let consumed := ins.length - d.ins.length
  let consumedItems := consumed - arrivals.length
  -- commit the control stream
  let (fs1, rx1) : H3.FS.St × List Ev :=
    match items.drop (consumedItems - 1) with
    | (_, f, r) :: _ => if consumedItems = 0 then (fs0, rx0) else (f, r)
    | [] => (fs0, rx0)
  let streams2 := streams1.map fun u =>
    if some u.sid == ctlSid && d.conn.control then { u with phase := .control, rx := rx1 } else u
  let streams3 := setStops streams2 d.stops
  let wtNew := ((arrivals.take consumed).filter isWtArrival).map (·.1)
  let wtOrder := if s.rc.wt then s.wtOrder ++ wtNew else s.wtOrder
  -- grease stream effects on SimQuic
  let opened := s.gs.step == .notStarted && d.gs.step != .notStarted
  let uc := if opened then s.uc.map (· - 1) else s.uc
  let gGranted := if opened then s.rc.wc else s.gGranted
  let greaseUsed := s.gs.flag && (d.acts.length > 0 || d.gs.step != s.gs.step)
  -- a `P` fault on `poll_finish` is used up when the grease machine, polled in this poll, got to that call
  let pendFired := isPend s.gfFinish && s.gs.flag && d.acts.length > 0 &&
    (d.gs.step == .dataSent || d.gs.step == .finished) && s.gs.step != .finished
  let closed := match d.res with
    | some e => if wasDead then s.closed else s.closed ++ [e]
    | none => s.closed
  let s1 : Sys := { s with conn := d.conn, gs := d.gs, streams := streams3, fs := fs1, uc := uc, gGranted := gGranted,
                           wtOrder := wtOrder, closed := closed, panic := s.panic || pnc,
                           unsupported := s.unsupported || (gUnsup && greaseUsed),
                           gFired := s.gFired ++ (greaseFired s d.gs).toList ++ (if pendFired then s.gfFinish.toList else []),
                           gfFinish := if pendFired then none else s.gfFinish }
  let res : Option String :=
    match d.res with
    | some e => some s!"err:{e}"
    | none => if s.rc.server && d.conn.recvClosing.isSome then some "none" else none
  (s1, res)

/-- the tail of server `accept()`: `Ok(None)` → `self.shutdown(0).await?; return Ok(None)`.
    `ConnectionInner::shutdown`: nothing is written when a GOAWAY went out before; otherwise
    `sent_closing` is set and GOAWAY(0) is written on the control stream (`stream::write`).  The
    write may stay pending for want of credit (`accept` is then pending inside `shutdown`, the
    control loop is not polled) or meet the peer's STOP_SENDING: H3_CLOSED_CRITICAL_STREAM. -/
def finalGoaway (s : Sys) : Sys × Option String :=
  let plan : H3.Setup.ShutdownPlan :=
    if s.ga.isSome then .write else H3.Setup.shutdownPlan {} s.sentClosing
  match plan with
  | .report _ => (s, none)
  | .nothing => (s, some "none")
  | .write =>
    let (w0, net0) : H3.Setup.WSt × OwnNet :=
      match s.ga with
      | some w => (w, s.net)
      | none => (.start, { s.net with sizes := [GOAWAY_LEN, 0, 0] })
    let (net1, w1, _) := H3.Setup.pollWrite ownTr net0 0 w0
    let s := { s with net := net1, sentClosing := true }
    match w1 with
    | .done r =>
      match H3.Setup.shutdownWrite {} r with
      | (_, none) => ({ s with ga := none }, some "none")
      | (d, some e) =>
        ({ s with ga := none, conn := s.conn.fail (cerrCode e), closed := s.closed ++ d.closes },
         some s!"err:{cerrCode e}")
    | w => ({ s with ga := some w }, none)

/-- one poll of the pending `accept()` / `wait_idle()` -/
def pollAccept (s : Sys) : Sys × Option String :=
  if s.ga.isSome then finalGoaway s else
  match pollDriver s with
  | (s1, some r) => if r == "none" then finalGoaway s1 else (s1, some r)
  | (s1, none) => (s1, none)

/-- the `accept()` future is dropped: a GOAWAY write in progress is abandoned (`sent_closing`
    stays set, what `send_data` handed over stays with the transport) -/
def dropAccept (s : Sys) : Sys := { s with ga := none }

def drainOne (u : UStream) : String :=
  match u.phase with
  | .wt session =>
    let (bs, e) := drainRx u.rx
    let e' := match u.st.ended with | some x => some x | none => e
    let bs' := if u.st.ended.isSome then [] else bs
    s!"{session}:{toHex (u.st.buf ++ bs')}:{endName e'}"
  | _ => "?"

def wtSession (u : UStream) : Phase :=
  match UniAccept.intoStream u.st with
  | some (.wtUni x) => .wt x
  | _ => .done

/-- `conn.U` / `drv.U` -/
def drainU (s : Sys) : Sys × String :=
  let accepted := s.wtOrder.take s.conn.wtUni.length
  let fresh := accepted.drop s.wtDrained
  let outs := fresh.filterMap fun sid =>
    (s.streams.find? (fun u => u.sid == sid)).map (fun u => drainOne { u with phase := wtSession u })
  ({ s with wtDrained := accepted.length }, renderList outs ",")

def Sys.peer (s : Sys) (sid : Nat) (e : Ev) : Sys :=
  { s with streams := s.streams.map fun u => if u.sid == sid then { u with rx := u.rx ++ [e] } else u }

def greaseSid (server : Bool) : Nat := localBase server + 12

def applyOp (s : Sys) (t : Task) : Op → Sys × Task
  | .openS sid =>
    if peerUni s.rc.server sid then
      if s.streams.any (·.sid == sid) then (s, t) else ({ s with streams := s.streams ++ [{ sid := sid }] }, t)
    else ({ s with unsupported := true }, t)
  | .chunk sid b => (s.peer sid (.chunk b), t)
  | .fin sid => (s.peer sid .fin, t)
  | .reset sid c => (s.peer sid (.reset c), t)
  | .stop sid c =>
    if sid == greaseSid s.rc.server then
      if s.gs.step != .notStarted then ({ s with gStopped := true }, t) else (s, t)
    else
      match s.net.index s.rc.server sid with
      | some k => ({ s with net := s.net.stop k c }, t)
      | none => (s, t)
  | .gu n => ({ s with uc := s.uc.map (· + n), net := { s.net with uc := s.net.uc.map (· + n) } }, t)
  | .gw sid n =>
    if sid == greaseSid s.rc.server then
      if s.gs.step != .notStarted then ({ s with gGranted := s.gGranted.map (· + n) }, t) else (s, t)
    else
      match s.net.index s.rc.server sid with
      | some k => ({ s with net := s.net.grant k n }, t)
      | none => (s, t)
  | .api cmd => (s, { t with mailbox := t.mailbox ++ [cmd] })
  | .fault f =>
    -- engine `ctl`: stream errors on the grease stream only (connection errors are engine `flt`'s)
    if f.kind.isConn then ({ s with unsupported := true }, t) else
    match armGrease s (greaseSid s.rc.server) f with
    | some s1 => (s1, t)
    | none => ({ s with unsupported := true }, t)
  | .bad => ({ s with unsupported := true }, t)

def runModel (s : Sys) (t : Task) : List Op → Sys × Task
  | [] => (s, t)
  | op :: rest =>
    let (s1, t1) := applyOp s t op
    let s1 := pollBuild s1
    let (s2, t2) :=
      if s1.built then
        match runTask s1.rc.server (fun x => [pollAccept x]) drainU dropAccept 64 (s1, t1) with
        | r :: _ => r
        | [] => (s1, t1)
      else (s1, t1)
    runModel s2 t2 rest

def gState (c : Grease) : String :=
  match c.step with
  | .notStarted => "none"
  | .finished => "fin"
  | .dataPrepared => if c.flag then "writing" else "idle"
  | _ => "idle"

def natList (xs : List Nat) : String := ",".intercalate (xs.map toString)

def pendingOf (server : Bool) (built failed : Bool) (t : Task) : String :=
  let task := if server then "conn" else "drv"
  if failed then ""
  else if !built then s!"{task}.build"
  else match t.mode with
    | .idle => ""
    | _ => if server then "conn.A" else "drv.W"

def renderModel (s : Sys) (t : Task) : String :=
  if s.panic then "panic"
  else if s.unsupported || t.bad || s.amb then "unsupported"
  else
    let stops := (s.streams.mergeSort (fun a b => decide (a.sid ≤ b.sid))).filterMap fun u => u.stop.map (fun c => s!"{u.sid}:{c}")
    s!"closed=[{natList s.closed}] res={renderList t.results ","} U={renderList t.us "/"} | " ++
    let build := match s.buildErr with
      | some e => s!"err:{e}"
      | none => if s.built then "ok" else "pending"
    s!"build={build} stops=[{",".intercalate stops}] g={gState s.gs} " ++
    s!"pending=[{pendingOf s.rc.server s.built s.buildErr.isSome t}]"

/-! ### specification side -/

open H3.Spec.ControlRules in
structure SStream where
  sid : Nat
  /-- bytes delivered before the end of the stream -/
  bytes : Bytes := []
  ended : Option UniAccept.End := none
  /-- the header has been judged: `some none` = closed early -/
  cls : Option (Option StreamTy) := none
  session : Nat := 0
  /-- control stream: events already produced -/
  emitted : Nat := 0
  /-- WebTransport stream: handed out by `U` -/
  drained : Bool := false
  /-- QPACK encoder / decoder stream: its closing has been judged (`Ev.qpackClosed`, reading R-04e) -/
  qClosed : Bool := false
deriving Repr

/-- the setup as the specification sees it: going on, over with a connection, over with
    H3_CLOSED_CRITICAL_STREAM -/
inductive SSetup where
  | running | done | failed
deriving Repr, DecidableEq

open H3.Spec.ControlRules in
structure SpecSt where
  rc : RunCfg
  st : St := {}
  streams : List SStream := []
  ctlSid : Option Nat := none
  dead : Option Nat := none
  wtOrder : List Nat := []
  /-- the endpoint's own setup streams in SimQuic -/
  env : OwnNet := {}
  setup : SSetup := .running
  /-- the server's final GOAWAY is out (or was left to the transport) -/
  finalSent : Bool := false
  /-- the pending `accept` has decided to answer "no more requests" and waits for its GOAWAY to be
      taken by the transport; it does not look at the peer's streams meanwhile -/
  waiting : Bool := false
  /-- engine `ctlrfc`: judge by `verdictRfc` (RFC 9114 by the letter also for server push) -/
  strict : Bool := false
  /-- the specification has no opinion on this line -/
  unknown : Bool := false
  /-- bookkeeping for the per-run NOTE lines (`ctl note …`), not part of any verdict: this alternative is
      the H3_CLOSED_CRITICAL_STREAM that `overtaken` added (R-04d) / `Ev.qpackClosed` was judged on the
      way to it (R-04e) -/
  overtook : Bool := false
  qjudged : Bool := false
  /-- the control stream's events contain frame type 0x41 (before the second audit: the whole line `?`) -/
  wtSeen : Bool := false
deriving Repr

def SpecSt.peerBytes (s : SpecSt) (sid : Nat) (b : Bytes) : SpecSt :=
  { s with streams := s.streams.map fun u =>
      if u.sid == sid && u.ended.isNone then { u with bytes := u.bytes ++ b } else u }

def SpecSt.peerEnd (s : SpecSt) (sid : Nat) (e : UniAccept.End) : SpecSt :=
  { s with streams := s.streams.map fun u =>
      if u.sid == sid && u.ended.isNone then { u with ended := some e } else u }

open H3.Spec.ControlRules in
/-- apply one event under every way the verdict allows: `(state, died with code?)` -/
def judge (s : SpecSt) (e : H3.Spec.ControlRules.Ev) : List SpecSt :=
  match (if s.strict then verdictRfc s.rc.server s.st e else verdict s.rc.server s.st e) with
  | (.ok, st1) => [{ s with st := st1 }]
  | (.must cs, _) => cs.map fun c => { s with dead := some c }
  | (.may cs, st1) => (cs.map fun c => { s with dead := some c }) ++ [{ s with st := st1 }]

open H3.Spec.ControlRules in
/-- a peer QPACK encoder / decoder stream (type known, accepted as such) whose FIN or RESET has arrived
    and has not been judged yet -/
def closedQpack (u : SStream) : Bool :=
  !u.qClosed && u.ended.isSome &&
    (u.cls == some (some StreamTy.encoder) || u.cls == some (some StreamTy.decoder))

open H3.Spec.ControlRules in
/-- the error alternatives of `Ev.qpackClosed` if such a closing waits to be judged: an endpoint may
    notice it before anything else that is available at the same time (the closing itself is judged,
    once, by `qpackPhase` at the end of the poll) -/
def qpackDead (s : SpecSt) : List SpecSt :=
  if s.dead.isNone && s.streams.any closedQpack then
    (judge { s with qjudged := true } .qpackClosed).filter (·.dead.isSome)
  else []

open H3.Spec.ControlRules in
/-- the unidirectional streams whose header can be judged now, in the order they were opened -/
def streamPhase : Nat → SpecSt → List SpecSt
  | 0, s => [s]
  | fuel+1, s =>
    if s.dead.isSome then [s] else
    match s.streams.find? (fun u => u.cls.isNone && (header u.bytes != .incomplete || u.ended.isSome)) with
    | none => [s]
    | some u =>
      qpackDead s ++
      match header u.bytes with
      | .incomplete =>
        let s1 := { s with streams := s.streams.map fun v => if v.sid == u.sid then { v with cls := some none } else v }
        (judge s1 .closedEarly).flatMap (streamPhase fuel)
      | .complete ty id _ =>
        let t := streamTy s.rc.wt ty
        let s1 := { s with
          streams := s.streams.map (fun v => if v.sid == u.sid then { v with cls := some (some t), session := id.getD 0 } else v),
          ctlSid := if t == .control && s.ctlSid.isNone then some u.sid else s.ctlSid,
          wtOrder := if t == .wtUni then s.wtOrder ++ [u.sid] else s.wtOrder }
        (judge s1 (.stream t)).flatMap (streamPhase fuel)

open H3.Spec.Framing H3.Spec.ControlRules in
def tokEv : Tok → Option CtlEv
  | .frame (.data _) => some .data
  | .frame (.headers _) => some .headers
  | .frame (.cancelPush v) => some (.cancelPush v)
  | .frame (.settings _) => some .settings
  | .frame (.pushPromise _ _) => some .pushPromise
  | .frame (.goaway v) => some (.goaway v)
  | .frame (.maxPushId v) => some (.maxPushId v)
  | .frame (.webTransport _) => some .wtSignal
  | .okSettings => some .settings
  | .badSettings => some .badSettings
  | .h2 ty => some (.h2 ty)
  | .malformed => some .malformed
  | .truncated => some .truncatedFin
  | .none_ => some .fin
  | .outside => some .wtSignal
  | .data _ => none
  | .partialData _ => none
  | .pending => none

def hdrRest (b : Bytes) : Bytes :=
  match H3.Spec.ControlRules.header b with
  | .complete _ _ r => r
  | .incomplete => []

open H3.Spec.ControlRules in
/-- Reading R-04e: a peer QPACK encoder / decoder stream — its type known and the stream accepted as
    such — whose FIN or RESET has arrived is `Ev.qpackClosed`, judged once per stream. -/
def qpackPhase : Nat → SpecSt → List SpecSt
  | 0, s => [s]
  | fuel+1, s =>
    if s.dead.isSome then [s] else
    match s.streams.find? closedQpack with
    | none => [s]
    | some u =>
      let s1 := { s with qjudged := true,
                         streams := s.streams.map fun v => if v.sid == u.sid then { v with qClosed := true } else v }
      (judge s1 .qpackClosed).flatMap (qpackPhase fuel)

open H3.Spec.ControlRules in
/-- Reading R-04d ("a RESET overtakes"): `r` = the alternatives the table leaves for one event of a
    batch, `x` = the state before it.  When the control stream has been reset *before the endpoint
    looked at this batch* (`isReset`) and the table demands an error (every alternative dead) that is
    not H3_CLOSED_CRITICAL_STREAM already, that code is accepted too: a QUIC receiver may discard
    what it has not delivered yet when RESET_STREAM arrives (RFC 9000 §3.2), so an endpoint may learn
    of the reset instead of the frame.  Nothing else is added, and nothing without a reset. -/
def overtaken (isReset : Bool) (x : SpecSt) (r : List SpecSt) : List SpecSt :=
  if isReset && r.all (·.dead.isSome) && !(r.any (·.dead == some H3_CLOSED_CRITICAL_STREAM)) then
    r ++ [{ x with dead := some H3_CLOSED_CRITICAL_STREAM, overtook := true }]
  else r

open H3.Spec.ControlRules in
/-- one event of the control stream under every alternative reached so far.  The WebTransport signal
    value 0x41 used as a frame type: the table's `may` — an error is definite; on the alternative
    without an error the specification cannot read the rest of the stream (the value has no length
    field) and has no opinion from there on (`unknown`), on THAT alternative only. -/
def ctlStep (isReset : Bool) (acc : List SpecSt) (e : CtlEv) : List SpecSt :=
  acc.flatMap fun x =>
    if x.dead.isSome || x.unknown then [x] else
    let r := judge x (.ctl e)
    let r := if e == .wtSignal then r.map (fun y => if y.dead.isSome then y else { y with unknown := true }) else r
    overtaken isReset x r

open H3.Spec.Framing H3.Spec.ControlRules in
/-- the control stream's new events: those of the bytes that arrived since the endpoint last looked
    (`emitted`), then `reset` if the stream has been reset by now.  `isReset` therefore speaks of a
    reset that arrived before the quiescence point that follows the delivery of these events — an
    event judged by an earlier call (an op of the line in between, the driver polled to quiescence)
    is never re-judged (R-04d; `C04_reset_overtakes_only_unseen_frames`). -/
def ctlPhase (s : SpecSt) : List SpecSt :=
  if s.dead.isSome then [s] else
  match s.ctlSid.bind (fun sid => s.streams.find? (fun u => u.sid == sid)) with
  | none => [s]
  | some u =>
    let w := hdrRest u.bytes
    let ending := if u.ended == some .fin then Ending.fin else Ending.open_
    let toks := observe (w.length + 1) w ending
    let evs := toks.filterMap tokEv
    let isReset := match u.ended with | some (.reset _) => true | _ => false
    let new := evs.drop u.emitted ++ (if isReset then [CtlEv.reset] else [])
    let s1 := { s with wtSeen := s.wtSeen || evs.contains .wtSignal,
                       streams := s.streams.map fun v => if v.sid == u.sid then { v with emitted := evs.length } else v }
    new.foldl (ctlStep isReset) [s1]

/-! The endpoint's own streams, specification side (RFC 9114 §6.2.1: "Each side MUST initiate a
    single control stream at the beginning of the connection and send its SETTINGS frame as the first
    frame on this stream"; "If either control stream is closed at any point, this MUST be treated as
    a connection error of type H3_CLOSED_CRITICAL_STREAM"; the peer's STOP_SENDING asks for just
    that).  The endpoint opens its three streams as stream credit allows, then puts the three
    headers on them as write credit allows; `builder.build` is over when every header is out or
    its stream was stopped.  A stopped control stream whose SETTINGS are not out: `must`
    H3_CLOSED_CRITICAL_STREAM when the setup is over, `may` before (an endpoint that notices at
    once); a stopped QPACK stream (RFC 9204 §4.2; not in the property's text): `may`. -/

def specOpen : Nat → OwnNet → OwnNet
  | 0, n => n
  | fuel+1, n =>
    if n.ss.length < 3 && n.uc != some 0 then
      specOpen fuel { n with uc := n.uc.map (· - 1),
                             ss := n.ss ++ [{ credit := n.wc, left := n.sizes.getD n.ss.length 0 }] }
    else n

def specPush (n : OwnNet) : OwnNet :=
  if n.ss.length < 3 then n else
  { n with ss := n.ss.map fun s =>
      if s.stopped.isSome then s else
      let take := match s.credit with
        | none => s.left
        | some c => min c s.left
      { s with left := s.left - take, credit := s.credit.map (· - take), written := s.written + take } }

def cutShort (s : OwnS) : Bool := s.stopped.isSome && decide (s.left > 0)

open H3.Spec.ControlRules in
/-- the alternatives a verdict on the endpoint's own streams leaves: go on (`none`) / die with a code -/
def ownAlts : Verdict → List (Option Nat)
  | .ok => [none]
  | .must cs => cs.map some
  | .may cs => none :: cs.map some

open H3.Spec.ControlRules in
def specSetup (s : SpecSt) : List SpecSt :=
  if s.setup != .running then [s] else
  let env := specPush (specOpen 3 s.env)
  let s := { s with env := env }
  let over := env.ss.length == 3 && env.ss.all (fun x => x.left == 0 || x.stopped.isSome)
  let ctlCut := (env.ss.take 1).any cutShort
  let qCut := (env.ss.drop 1).any cutShort
  let v : Verdict :=
    if ctlCut then ownStopped .control over
    else if qCut then ownStopped .qpack over
    else .ok
  (ownAlts v).filterMap fun a =>
    match a with
    | some c => some { s with setup := .failed, dead := some c }
    | none => some (if over then { s with setup := .done } else s)

open H3.Spec.ControlRules in
/-- a server whose peer has sent GOAWAY answers `accept` with "no more requests"; h3 sends its own
    last GOAWAY first (API documentation of `accept`).  With the own control stream stopped that is
    H3_CLOSED_CRITICAL_STREAM (`ownStopped .control true`); without write credit for it the property
    does not say whether the answer waits (both accepted, until the credit is there). -/
def finalAlts (x : SpecSt) : List (SpecSt × Option String) :=
  if x.finalSent then [(x, some "none")] else
  let sent := { x with finalSent := true, waiting := false }
  match x.env.ss[0]? with
  | none => [(sent, some "none")]
  | some c =>
    if c.stopped.isSome then
      (ownAlts (ownStopped .control true)).map fun a =>
        match a with
        | some e => ({ x with dead := some e }, some s!"err:{e}")
        | none => (sent, some "none")
    else if (match c.credit with | none => true | some k => decide (k ≥ GOAWAY_LEN)) then [(sent, some "none")]
    else [(sent, some "none"), ({ x with waiting := true }, none)]

open H3.Spec.ControlRules in
/-- one poll of the driver, specification side -/
def specPoll (s : SpecSt) : List (SpecSt × Option String) :=
  (if s.waiting then [s] else
    ((streamPhase (s.streams.length + 1) s).flatMap (fun x => qpackDead x ++ ctlPhase x)).flatMap
      (qpackPhase (s.streams.length + 1))).flatMap fun x =>
    match x.dead with
    | some c => [(x, some s!"err:{c}")]
    | none =>
      -- one of the endpoint's own critical streams was stopped by the peer: an endpoint that
      -- notices may close the connection from now on
      let v : Verdict :=
        if (x.env.ss.take 1).any (·.stopped.isSome) then ownStopped .control false
        else if x.env.ss.any (·.stopped.isSome) then ownStopped .qpack false
        else .ok
      let stopAlt : List (SpecSt × Option String) :=
        (ownAlts v).filterMap fun a => a.map fun e => ({ x with dead := some e }, some s!"err:{e}")
      if x.rc.server && x.st.lastGoaway.isSome then finalAlts x ++ stopAlt
      else (x, none) :: stopAlt

def specDrain (s : SpecSt) : SpecSt × String :=
  let fresh := s.wtOrder.filterMap fun sid => s.streams.find? (fun u => u.sid == sid && !u.drained)
  let outs := fresh.map fun u => s!"{u.session}:{toHex (hdrRest u.bytes)}:{endName u.ended}"
  ({ s with streams := s.streams.map fun u => if fresh.any (·.sid == u.sid) then { u with drained := true } else u },
   renderList outs ",")

def specApply (s : SpecSt) (t : Task) : Op → SpecSt × Task
  | .openS sid =>
    if peerUni s.rc.server sid then
      if s.streams.any (·.sid == sid) then (s, t) else ({ s with streams := s.streams ++ [{ sid := sid }] }, t)
    else ({ s with unknown := true }, t)
  | .chunk sid b => (s.peerBytes sid b, t)
  | .fin sid => (s.peerEnd sid .fin, t)
  | .reset sid c => (s.peerEnd sid (.reset c), t)
  | .stop sid c =>
    match s.env.index s.rc.server sid with
    | some k => ({ s with env := s.env.stop k c }, t)
    | none => (s, t)
  | .gu n => ({ s with env := { s.env with uc := s.env.uc.map (· + n) } }, t)
  | .gw sid n =>
    match s.env.index s.rc.server sid with
    | some k => ({ s with env := s.env.grant k n }, t)
    | none => (s, t)
  | .api cmd => (s, { t with mailbox := t.mailbox ++ [cmd] })
  -- a stream error on the endpoint's own grease stream: the grease stream is optional padding
  -- (RFC 9114 §6.2.3), what the peer's streams must lead to does not depend on it
  | .fault f =>
    if f.kind.isConn then ({ s with unknown := true }, t) else
    match armGrease {rc := s.rc} (greaseSid s.rc.server) f with
    | some _ => (s, t)
    | none => ({ s with unknown := true }, t)
  | .bad => ({ s with unknown := true }, t)

def runSpec : List (SpecSt × Task) → List Op → List (SpecSt × Task)
  | alts, [] => alts
  | alts, op :: rest =>
    let next := alts.flatMap fun (s, t) =>
      let (s1, t1) := specApply s t op
      (specSetup s1).flatMap fun s2 =>
        if s2.setup == .done then runTask s2.rc.server specPoll specDrain (fun x => { x with waiting := false }) 64 (s2, t1) else [(s2, t1)]
    runSpec next rest

/-- a WebTransport stream that was drained once is not listed again, but bytes that arrive later
    on it are gone for `U`: the specification only describes the first `U` of a stream fully; later
    data on a drained stream is not observable. -/
def renderSpec (alts : List (SpecSt × Task)) : String :=
  if alts.any (fun (s, t) => s.unknown || t.bad) then "?" else
  let lines := alts.map fun (s, t) =>
    let closed := match s.dead with | some c => s!"{c}" | none => ""
    s!"closed=[{closed}] res={renderList t.results ","} U={renderList t.us "/"} **"
  " || ".intercalate lines.eraseDups

def handleWith (strict note : Bool) (role cfg : String) (ops : List String) : String :=
    if role != "server" && role != "client" then "bad-op" else
    let server := role == "server"
    match parseCfg server cfg with
    | none => "bad-op"
    | some rc =>
      let task := if server then "conn" else "drv"
      let ops := ops.map (parseOp task)
      let s0 := pollBuild (Sys.init rc)
      let (s, t) := runModel s0 {} ops
      let m := renderModel s t
      -- no definite model answer (an op outside the engine, an ambiguous header length): no opinion
      if m == "unsupported" then "unsupported ## ?" else
      let sp0 : SpecSt := { rc := rc, env := OwnNet.init rc, strict := strict }
      let alts := runSpec ((specSetup sp0).map fun x => (x, {})) ops
      if note then
        -- `ctl note …`: which of the oracle's recorded leniencies this line meets (for the NOTE lines
        -- of the check; R-04d, R-04e, frame type 0x41)
        let b (x : Bool) : String := if x then "1" else "0"
        s!"overtaken={b (alts.any (·.1.overtook))} qpack={b (alts.any (·.1.qjudged))} wt={b (alts.any (·.1.unknown))} wtseen={b (alts.any (·.1.wtSeen))}"
      else
      m ++ " ## " ++ renderSpec alts

def handle : List String → String
  | "ctl" :: "note" :: role :: cfg :: ops => handleWith false true role cfg ops
  | "ctl" :: role :: cfg :: ops => handleWith false false role cfg ops
  | "ctlrfc" :: role :: cfg :: ops => handleWith true false role cfg ops
  | _ => "bad-op"

end H3.Drv.C04
