import H3.Drv.Util
import H3.Model.Setup
/-! The fault-injection op of the scenario language, `!<site>[<target>][@<skip>]:<err>`
    (harness/src/sim.rs `parse_fault`), shared by the engines `ctl` (C04) and `flt`. -/
namespace H3.Drv.FaultOp
open H3.ErrCell (QErr)

inductive Site where
  | ou | ob | sd | pr | pf | au | ab | rd
deriving Repr, DecidableEq

inductive Kind where
  /-- a connection error: sticky, the whole simulated connection fails with it -/
  | conn (q : QErr)
  /-- `StreamTerminated { error_code }` -/
  | term (c : Nat)
  /-- `StreamErrorIncoming::Unknown` -/
  | unknown
  /-- not an error: the call answers `Pending` once (`P`, `poll_finish` only) -/
  | pend
deriving Repr, DecidableEq

structure Fault where
  site : Site
  target : Option Nat
  skip : Nat := 0
  kind : Kind
  /-- the op without its `!` -/
  label : String
deriving Repr

def Kind.isConn : Kind → Bool
  | .conn _ => true
  | _ => false

def siteOf (a b : Char) : Option Site :=
  match a, b with
  | 'o', 'u' => some .ou
  | 'o', 'b' => some .ob
  | 's', 'd' => some .sd
  | 'p', 'r' => some .pr
  | 'p', 'f' => some .pf
  | 'a', 'u' => some .au
  | 'a', 'b' => some .ab
  | 'r', 'd' => some .rd
  | _, _ => none

def onStream : Site → Bool
  | .sd | .pr | .pf | .rd => true
  | _ => false

def isAccept : Site → Bool
  | .au | .ab => true
  | _ => false

def natOf (cs : List Char) : Option Nat := (String.ofList cs).toNat?

def kindOf (accept : Bool) : List Char → Option Kind
  | ['P'] => some .pend
  | ['T'] => some (.conn .timeout)
  | ['I'] => some (.conn (.internal 0))
  | ['U'] => some (.conn (.undefined 0))
  | ['K'] => if accept then none else some .unknown
  | 'C' :: r => (natOf r).map fun c => .conn (.appClose c)
  | 'X' :: r => if accept then none else (natOf r).map .term
  | _ => none

/-- `s` = the op without the leading `!` -/
def parse (s : String) : Option Fault :=
  match s.splitOn ":" with
  | [head, err] =>
    let (h, skip) : String × Option Nat :=
      match head.splitOn "@" with
      | [h, k] => (h, k.toNat?)
      | [h] => (h, some 0)
      | _ => (head, none)
    match h.toList, skip with
    | a :: b :: r, some k =>
      match siteOf a b with
      | none => none
      | some site =>
        let target : Option (Option Nat) := if r.isEmpty then some none else (natOf r).map some
        match target with
        | none => none
        | some tg =>
          if (onStream site && tg.isNone) || (isAccept site && tg.isSome) then none
          else (kindOf (isAccept site) err.toList).bind fun kd =>
            if kd == .pend && site != .pf then none
            else some { site := site, target := tg, skip := k, kind := kd, label := s }
    | _, _ => none
  | _ => none

end H3.Drv.FaultOp
