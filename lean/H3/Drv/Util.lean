/-! Line-protocol helpers shared by all driver engines (no proofs here). -/
namespace H3.Drv

def hexDigit (c : Char) : Option Nat :=
  if '0' ≤ c ∧ c ≤ '9' then some (c.toNat - '0'.toNat)
  else if 'a' ≤ c ∧ c ≤ 'f' then some (c.toNat - 'a'.toNat + 10)
  else if 'A' ≤ c ∧ c ≤ 'F' then some (c.toNat - 'A'.toNat + 10)
  else none

def parseHexChars : List Char → Option (List Nat)
  | [] => some []
  | [_] => none
  | a :: b :: r => do
    let x ← hexDigit a
    let y ← hexDigit b
    let rest ← parseHexChars r
    pure ((x * 16 + y) :: rest)

/-- `-` is the empty string. -/
def parseHex (s : String) : Option (List Nat) :=
  if s == "-" then some [] else parseHexChars s.toList

def hexChar (n : Nat) : Char :=
  if n < 10 then Char.ofNat (48 + n) else Char.ofNat (87 + n)

def toHex (bs : List Nat) : String :=
  if bs.isEmpty then "-" else
  String.ofList (bs.foldr (fun b acc => hexChar (b / 16 % 16) :: hexChar (b % 16) :: acc) [])

def words (line : String) : List String :=
  (line.trimAscii.toString.splitOn " ").filter (· ≠ "")

def b01 (b : Bool) : String := if b then "1" else "0"

end H3.Drv
