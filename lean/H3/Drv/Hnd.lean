import H3.Drv.Util
import H3.Model.Setup
/-! Driver engine `hnd5` (C05): whole connections over SimQuic in which a REAL request handle detects
    the connection error — `server::RequestResolver::resolve_request` / `client::RequestStream::
    recv_response` meeting a frame error on its request stream (`handle_frame_stream_error_on_request_stream`
    → `handle_connection_error_on_stream`), or a pending read meeting the transport's connection error
    (`handle_quic_stream_error`) — followed by calls of the driver (`accept` / `wait_idle` / `shutdown`)
    and of the other handles in every order.

    Case line: `hnd5 <server|client> <cfg> <op> …` (the scenario language of `harness/src/scen.rs`, cfg
    contains `ev=1,ops=1`).  History tokens (projection `tools/props/c05.py`): `@<op>`; then what the op
    made happen: the request handles' answers (sorted — the order in which the executor polls tasks that
    were woken together is not modelled), then, in their order, `close:<code>`, `goaway` (a GOAWAY frame
    written on the own control stream) and the driver's answers; at the end `pending=[…]`.  Answers:
    `ok`, `E:<class>` (a connection error), `se` (a stream-level error), `no-task`.

    * **model**: the shared error state is `H3.ErrCell.State`, moved by the steps of that machine only
      (a handle's raise = its two steps `sset`, `swake`; a driver poll = `poll, pce, pce`, then `park`;
      `shutdown` = `DOp.shut` and `Setup.shutdownPlanShared`: cell AND handled).  What a request stream's
      bytes make the handle detect is a table over the generator's pool (`detects`; that frame layer is
      C02 / C03's subject) — a wrong entry shows as a correspondence difference.
    * **spec** (`verdict`, judge engine `hndj`): written from the property text over the history alone.

    Output: `<verdict on the model's history> <history> ## ok **`. -/
namespace H3.Drv.Hnd
open H3.Drv H3.ErrCell

/-! ### the model -/

/-- what reading a request stream with this content (one delivery, `fin` = FIN seen) answers:
    `none` = the read waits; `some none` = a healthy message head; `some (some code)` = the frame layer /
    QPACK decoder fails and the handle raises `code`. -/
def detects (hex : String) (fin : Bool) : Option (Option Nat) :=
  if hex == "0000" || hex == "0400" || hex == "0003616263" then some (some 261)
  else if hex == "0100" then some (some 512)
  else if hex == "0105" || hex == "0103" || hex == "00" then (if fin then some (some 262) else none)
  else if hex == "010a0000d1d750831af1ffc1" || hex == "01030000d9" then some none
  else if hex == "" then none
  else some (some 0)      -- outside the pool: `unsupported` below

def poolOk (hex : String) : Bool :=
  ["0000", "0400", "0003616263", "0100", "0105", "0103", "00", "010a0000d1d750831af1ffc1", "01030000d9", ""].contains hex

inductive HSt where
  /-- server: opened by the peer, not yet handed out by `accept` -/
  | queued
  /-- the handle exists and has not read its head -/
  | fresh
  /-- its head read is in flight (`res` / `rr` posted, no answer yet) -/
  | reading
  /-- the head has been read (`ok`) -/
  | open
  /-- the task has ended (a server resolver that failed) -/
  | gone
  /-- a client stream whose read failed: the handle exists, further reads are outside the grammar -/
  | failed
deriving Repr, DecidableEq

structure Strm where
  sid : Nat
  hex : String := ""
  fin : Bool := false
  st : HSt
  /-- commands posted while the head read is in flight: the task takes them when the read has answered -/
  queued : Nat := 0
deriving Repr

structure M where
  server : Bool
  ec : State := init []
  /-- the transport has failed (`T`, `C<code>`) -/
  connErr : Option QErr := none
  streams : List Strm := []
  /-- `conn.A` is pending / `drv.W` is driving -/
  inflight : Bool := false
  sentClosing : Bool := false
  nextSid : Nat := 0
  /-- server: commands for the driver task posted while its `accept` is pending -/
  mailbox : List String := []
  hist : List String := []
  unsupported : Bool := false
deriving Repr

def showClass : CErr → String
  | .localApp c _ => s!"local:{c}"
  | .remote (.appClose c) => s!"remote:app:{c}"
  | .remote (.internal _) => "remote:internal"
  | .remote (.undefined _) => "remote:undefined"
  | .remote .timeout => "remote:timeout"
  | .timeout => "timeout"

def M.say (m : M) (t : String) : M := { m with hist := m.hist ++ [t] }
def M.drvName (m : M) : String := if m.server then "conn" else "drv"
def M.callName (m : M) : String := if m.server then "conn.A" else "drv.W"

/-- the shared state moves: new close calls go into the history -/
def M.setEc (m : M) (ec : State) : M :=
  let new := ec.closes.drop m.ec.closes.length
  { m with ec := ec, hist := m.hist ++ new.map (fun (c, _) => s!"close:{c}") }

/-- a request handle raises `e`: `set_conn_error_and_wake` = the two steps of a handle of `H3.ErrCell`;
    answers what the handle reports (the error in the cell) -/
def raiseH (ec : State) (e : Err) : State × CErr :=
  let s1 := { ec with tasks := [{ todo := [e], mid := none, rets := [] }] }
  let s2 := run true s1 [.str 0, .str 0]
  let r := match s2.tasks with
    | t :: _ => (t.rets.headD e)
    | [] => e
  ({ s2 with tasks := [] }, convert r)

/-- one poll of the driver's future as far as the error state goes: `poll`, one `poll_connection_error`
    call; `some c` = the poll ends with the error -/
def drvCheck (ec : State) : State × Option CErr :=
  let s := run true ec [.drv .poll, .drv .pce, .drv .pce]
  if s.drets.length > ec.drets.length then (s, s.drets.head?) else (s, none)

/-- the poll answers `Pending` -/
def drvPark (ec : State) : State := run true ec [.drv .park]
/-- the poll answers `Ready(Ok(..))` (a request was accepted) -/
def drvReady (ec : State) : State := { ec with pc := .idle }

def M.updStream (m : M) (sid : Nat) (f : Strm → Strm) : M :=
  { m with streams := m.streams.map fun s => if s.sid == sid then f s else s }

def M.find (m : M) (sid : Nat) : Option Strm := m.streams.find? (·.sid == sid)

/-- one poll of the driver: the error; else (server) the next queued request; else `Pending` -/
def drvPoll (m : M) : M :=
  let (ec1, r) := drvCheck m.ec
  match r with
  | some c => ({ (m.setEc ec1) with inflight := false }).say s!"{m.callName}=E:{showClass c}"
  | none =>
    match m.connErr with
    | some q =>
      -- `poll_accept_recv` meets the transport's error: `handle_connection_error`
      let ec2 := run true ec1 [.drv (.det (.quic q))]
      let c := (ec2.drets.head?).getD (convert (.quic q))
      ({ (m.setEc ec2) with inflight := false }).say s!"{m.callName}=E:{showClass c}"
    | none =>
      match (if m.server then m.streams.find? (·.st == .queued) else none) with
      | some s =>
        let m1 := { m with ec := drvReady ec1, inflight := false }
        (m1.updStream s.sid fun s => { s with st := .fresh }).say s!"{m.callName}=ok"
      | none =>
        -- after its GOAWAY the server's `accept` waits for the requests in progress (C09); lines in which
        -- none is left, or one was refused, are outside this grammar
        if m.server && m.sentClosing &&
            (m.streams.any (·.st == .queued) || !m.streams.any (fun s => s.st == .fresh || s.st == .reading || s.st == .open))
        then { m with unsupported := true }
        else { m with ec := drvPark ec1, inflight := true }

/-- the executor polls the driver again if its waker fired while a call is in flight -/
def wakeDrv (m : M) : M := if m.inflight && m.ec.woken then drvPoll m else m

/-- the head read of a handle: answers now or stays in flight -/
def readHead (m : M) (s : Strm) (name : String) : M :=
  let fail := fun (m : M) (e : Err) =>
    let (ec1, c) := raiseH m.ec e
    let m1 := ({ m with ec := ec1 }).say s!"{name}=E:{showClass c}"
    m1.updStream s.sid fun s => { s with st := if m.server then .gone else .failed }
  match m.connErr, detects s.hex s.fin with
  | _, some none =>
    -- (a command waiting behind a read that succeeds is outside the grammar)
    if s.queued > 0 then { m with unsupported := true } else
    (m.say s!"{name}=ok").updStream s.sid fun s => { s with st := .open }
  | _, some (some 0) => { m with unsupported := true }
  | _, some (some code) => fail m (.internal code 0)
  | some q, none => fail m (.quic q)
  | none, none => m.updStream s.sid fun s => { s with st := .reading }

def headCmd (m : M) : String := if m.server then "res" else "rr"

/-- reads in flight whose stream has changed (or whose connection has failed) are polled again -/
def wakeReads (m : M) : M :=
  let rs := m.streams.filter (·.st == .reading)
  rs.foldl (fun m s =>
    match m.find s.sid with
    | some s' => readHead (m.updStream s.sid fun s => { s with st := .fresh }) s' s!"q{s.sid}.{headCmd m}"
    | none => m) m

def shutdown (m : M) : M :=
  if m.ec.pc != .idle then { m with unsupported := true } else
  match H3.Setup.shutdownPlanShared m.ec m.sentClosing with
  | .report _ =>
    let ec1 := run true m.ec [.drv .shut]
    let c := ec1.drets.head?
    (m.setEc ec1).say s!"{m.drvName}.S=E:{(c.map showClass).getD "?"}"
  | .nothing => m.say s!"{m.drvName}.S=ok"
  | .write =>
    match m.connErr with
    | some _ => { m with unsupported := true }
    | none => (({ m with sentClosing := true }).say "goaway").say s!"{m.drvName}.S=ok"

def natOfS (s : String) : Option Nat := s.toNat?

/-- a command of the driver task (`A` / `W` / `S`), the task being free to take it -/
def drvCmd (m : M) (c : String) : M :=
  if (m.server && c == "A") || (!m.server && c == "W") then
    -- client: a `W` while driving drops the `wait_idle` future and starts a new one
    drvPoll m
  else if c == "S" then
    let m1 := shutdown m
    -- client: `select(wait_idle, next command)`: the driver future goes on
    if !m.server && m1.inflight && m1.ec.handled.isSome then drvPoll m1 else m1
  else { m with unsupported := true }

/-- the server's driver task takes the commands posted while its `accept` was pending -/
def drain : Nat → M → M
  | 0, m => m
  | n+1, m =>
    if m.unsupported || m.inflight then m else
    match m.mailbox with
    | [] => m
    | c :: r => drain n (drvCmd { m with mailbox := r } c)

def applyOp (m : M) (op : String) : M :=
  if m.unsupported then m else
  let m := m.say ("@" ++ op)
  match (if op.contains '.' then [] else op.toList) with
  | 'o' :: r =>
    match natOfS (String.ofList r) with
    | some sid =>
      if sid % 4 == 2 || sid % 4 == 3 then m            -- the peer's control stream (setup)
      else if m.server && sid % 4 == 0 then
        -- a stream arrives: the transport wakes a waiting `accept`
        let m : M := { m with streams := m.streams ++ [({ sid := sid, st := .queued } : Strm)] }
        if m.inflight then drvPoll m else m
      else { m with unsupported := true }
    | none => { m with unsupported := true }
  | 's' :: r =>
    match (String.ofList r).splitOn ":" with
    | [sid, hex] =>
      match natOfS sid with
      | some sid =>
        if sid % 4 == 2 || sid % 4 == 3 then (if hex == "000400" then m else { m with unsupported := true })
        else
          match m.find sid with
          | some s =>
            if s.hex != "" || !poolOk hex then { m with unsupported := true }
            else wakeDrv (wakeReads (m.updStream sid fun s => { s with hex := hex }))
          | none => { m with unsupported := true }
      | none => { m with unsupported := true }
    | _ => { m with unsupported := true }
  | 'f' :: r =>
    match natOfS (String.ofList r) with
    | some sid =>
      match m.find sid with
      | some _ => wakeDrv (wakeReads (m.updStream sid fun s => { s with fin := true }))
      | none => { m with unsupported := true }
    | none => { m with unsupported := true }
  | _ =>
    let q : Option QErr :=
      match op.toList with
      | ['T'] => some .timeout
      | 'C' :: r => (natOfS (String.ofList r)).map .appClose
      | _ => none
    match q with
    | some q =>
      -- the connection fails: every waiting task is woken
      let m := { m with connErr := m.connErr.or (some q) }
      let m := wakeReads m
      if m.inflight then drvPoll m else m
    | none =>
      match op.splitOn "." with
      | [task, cmd] =>
        let c := (cmd.splitOn ":").headD ""
        if task == m.drvName then
          if m.server && m.inflight then { m with mailbox := m.mailbox ++ [c] }
          else drvCmd m c
        else if task == "snd" && !m.server && c == "R" then
          -- after the client's own `shutdown` no request is started: a stream-level refusal
          if m.sentClosing then m.say "snd.R=se" else
          match m.connErr with
          | some q =>
            let (ec1, e) := raiseH m.ec (.quic q)
            wakeDrv (({ m with ec := ec1 } : M).say s!"snd.R=E:{showClass e}")
          | none =>
            let sid := m.nextSid
            let m1 : M := { m with nextSid := sid + 4, streams := m.streams ++ [({ sid := sid, st := .fresh } : Strm)] }
            m1.say "snd.R=ok"
        else
          match (if task.startsWith "q" then natOfS (task.drop 1).toString else none) with
          | some sid =>
            match m.find sid with
            | none => { m with unsupported := true }
            | some s =>
              if s.st == .gone then m.say s!"{task}.{c}=no-task"
              else if c == headCmd m && s.st == .fresh then wakeDrv (readHead m s s!"{task}.{c}")
              -- server: posted while the resolver is reading; the task ends with the failing read and
              -- nobody answers (the interpreter's mailbox goes with the task)
              else if m.server && c == headCmd m && s.st == .reading then m.updStream sid fun s => { s with queued := s.queued + 1 }
              else { m with unsupported := true }
          | none => { m with unsupported := true }
      | _ => { m with unsupported := true }

def pendingOf (m : M) : String :=
  let reads := (m.streams.filter (·.st == .reading)).map fun s => s!"q{s.sid}.{headCmd m}"
  let all := (if m.inflight then [m.callName] else []) ++ reads
  s!"pending=[{",".intercalate (all.toArray.qsort (· < ·)).toList}]"

/-- the handles' answers first (sorted), then the rest in order: the normal form of one op's segment -/
def normSeg (seg : List String) : List String :=
  let isH := fun (t : String) => (t.startsWith "q" || t.startsWith "snd.") && t.contains '='
  let hs := seg.filter isH
  (hs.toArray.qsort (· < ·)).toList ++ seg.filter (fun t => !isH t)

def normalize (hist : List String) : List String :=
  let rec go (acc : List String) (seg : List String) : List String → List String
    | [] => acc ++ normSeg seg
    | t :: r => if t.startsWith "@" then go (acc ++ normSeg seg ++ [t]) [] r else go acc (seg ++ [t]) r
  go [] [] hist

/-! ### the specification: C05 over the history -/

/-- What the bytes on a request stream are, by the RFCs (not by the code): RFC 9114 §4.1 — a DATA frame
    before the HEADERS frame is H3_FRAME_UNEXPECTED (0x0105); §7.2.4 — SETTINGS on a request stream is
    H3_FRAME_UNEXPECTED; §7.1 — a frame cut short by the end of the stream is H3_FRAME_ERROR (0x0106);
    RFC 9204 §2.2.3 / §4.5.1 — a HEADERS frame whose field section cannot be decoded (here: shorter than
    its two-byte prefix) is QPACK_DECOMPRESSION_FAILED (0x0200).  `none` = nothing is wrong (so far). -/
def rfcClass (hex : String) (fin : Bool) : Option String :=
  if hex.startsWith "00" && hex.length ≥ 4 then some "local:261"
  else if hex.startsWith "04" && hex.length ≥ 4 then some "local:261"
  else if hex == "0100" then some "local:512"
  else if fin && (hex == "0105" || hex == "0103" || hex == "00") then some "local:262"
  else none

structure SS where
  hex : String := ""
  fin : Bool := false
  /-- a head read of this stream's handle has been posted and not answered -/
  reading : Bool := false
deriving Repr

structure J where
  server : Bool
  streams : List (Nat × SS) := []
  /-- the transport has failed with this class -/
  failed : Option String := none
  /-- the first connection error detected: its class -/
  winner : Option String := none
  closes : List Nat := []
  /-- a driver call is outstanding -/
  drvWaiting : Bool := false
  /-- a driver call was outstanding or was made since the winner exists -/
  drvMet : Bool := false
  drvReported : Bool := false
  bad : Option String := none
deriving Repr

def J.fail (j : J) (w : String) : J := if j.bad.isSome then j else { j with bad := some w }
def J.get (j : J) (sid : Nat) : SS := (j.streams.lookup sid).getD {}
def J.set (j : J) (sid : Nat) (s : SS) : J :=
  { j with streams := (j.streams.filter (·.1 != sid)) ++ [(sid, s)] }

def closesFor (cls : String) : List Nat :=
  match cls.splitOn ":" with
  | ["local", c] => (c.toNat?).toList
  | _ => []

/-- an error is detected (if it is the first, it is the connection's outcome) -/
def J.detect (j : J) (cls : String) : J :=
  match j.winner with
  | some _ => j
  | none => { j with winner := some cls, drvMet := j.drvWaiting }

/-- a read of stream `sid` looks at the stream now -/
def J.look (j : J) (sid : Nat) : J :=
  let s := j.get sid
  match rfcClass s.hex s.fin with
  | some c => (j.detect c).set sid { s with reading := false }
  | none =>
    match j.failed with
    | some c => if s.hex == "" then (j.detect c).set sid { s with reading := false } else j
    | none => j

def isDrvCall (server : Bool) (call : String) : Bool :=
  if server then call == "conn.A" || call == "conn.S" else call == "drv.W" || call == "drv.S"

def onOp (j : J) (op : String) : J :=
  match (if op.contains '.' then [] else op.toList) with
  | 'o' :: _ => j
  | 's' :: r =>
    match (String.ofList r).splitOn ":" with
    | [sid, hex] =>
      match sid.toNat? with
      | some sid =>
        if sid % 4 != 0 then j else
        let s := j.get sid
        let j := j.set sid { s with hex := s.hex ++ hex }
        if s.reading then j.look sid else j
      | none => j.fail "token"
    | _ => j.fail "token"
  | 'f' :: r =>
    match (String.ofList r).toNat? with
    | some sid =>
      let s := j.get sid
      let j := j.set sid { s with fin := true }
      if s.reading then j.look sid else j
    | none => j.fail "token"
  | ['T'] =>
    let j := { j with failed := j.failed.or (some "timeout") }
    let j := j.streams.foldl (fun j (sid, s) => if s.reading then j.look sid else j) j
    if j.drvWaiting then j.detect "timeout" else j
  | 'C' :: r =>
    let cls := s!"remote:app:{String.ofList r}"
    let j := { j with failed := j.failed.or (some cls) }
    let j := j.streams.foldl (fun j (sid, s) => if s.reading then j.look sid else j) j
    if j.drvWaiting then j.detect cls else j
  | _ =>
    match op.splitOn "." with
    | [task, cmd] =>
      let c := (cmd.splitOn ":").headD ""
      if isDrvCall j.server s!"{task}.{c}" then
        -- a driver call: it meets the connection's error if there is one; a failed transport is
        -- detected by it if nothing was before
        let j := match j.failed with
          | some cls => j.detect cls
          | none => j
        let j := if j.winner.isSome then { j with drvMet := true } else j
        if c == "S" then j else { j with drvWaiting := true }
      else if task == "snd" then
        match j.failed with
        | some cls => j.detect cls
        | none => j
      else if task.startsWith "q" && (c == "res" || c == "rr") then
        match (task.drop 1).toString.toNat? with
        | some sid => (j.set sid { j.get sid with reading := true }).look sid
        | none => j.fail "token"
      else j
    | _ => j.fail "token"

def onResult (j : J) (call res : String) : J :=
  let drv := isDrvCall j.server call
  let j := if drv && !call.endsWith ".S" then { j with drvWaiting := false } else j
  if res.startsWith "E:" then
    let cls := (res.drop 2).toString
    let j := match j.winner with
      | none => j.fail s!"unexplained-error:{call}={res}"
      | some w => if w == cls then j else j.fail s!"different-error:{call}={res}-winner:{w}"
    if drv then
      -- closed exactly as the error demands before the driver first reports it
      let j := if j.drvReported then j else
        (if j.closes == closesFor cls then j else j.fail s!"close-calls-at-first-report:{call}")
      { j with drvReported := true }
    else j
  else if drv then
    -- "the driver reports it on every later call"
    if j.winner.isSome then j.fail s!"{call}={res}-after-the-connection-error" else j
  else j

def onToken (j : J) (tok : String) : J :=
  match tok.toList with
  | '@' :: r => onOp j (String.ofList r)
  | _ =>
    if tok.startsWith "close:" then
      match (tok.drop 6).toString.toNat? with
      | some c =>
        let j := match j.winner with
          | none => j.fail "close-without-error"
          | some w =>
            if closesFor w != [c] then j.fail s!"close:{c}-for:{w}"
            else if !j.closes.isEmpty then j.fail "second-close"
            else if j.drvReported then j.fail "close-after-the-error-was-reported" else j
        { j with closes := j.closes ++ [c] }
      | none => j.fail "token"
    else if tok == "goaway" then
      if j.winner.isSome then j.fail "goaway-after-the-connection-error" else j
    else if tok.startsWith "pending=[" then
      let inner := ((tok.drop 9).toString.dropEnd 1).toString
      let pend := (inner.splitOn ",").filter (· != "")
      -- "always reaches a driver that is being polled, and never leaves it parked"
      let j := if j.winner.isSome && pend.any (isDrvCall j.server) then j.fail "driver-parked-with-the-error" else j
      -- the close is demanded once a driver call has met the error (R-05b)
      match j.winner with
      | some w => if j.drvMet && j.closes != closesFor w then j.fail s!"not-closed-for:{w}" else j
      | none => j
    else
      match tok.splitOn "=" with
      | [call, res] => onResult j call res
      | _ => j.fail s!"unknown-token({tok})"

def verdict (server : Bool) (toks : List String) : String :=
  let j := toks.foldl onToken { server := server }
  match j.bad with
  | some w => "bad:" ++ w
  | none => "ok"

/-! ### engines -/

def cfgOk (cfg : String) : Bool :=
  let ts := cfg.splitOn ","
  ts.contains "ev=1" && ts.contains "ops=1" && ts.contains "g0" &&
    ts.all fun t => t == "g0" || t == "ev=1" || t == "ops=1" || t.startsWith "seed="

def handle : List String → String
  | "hnd5" :: role :: cfg :: ops =>
    if (role != "server" && role != "client") || !cfgOk cfg then "bad-op" else
    let server := role == "server"
    let m := ops.foldl (fun m op => let m1 := applyOp m op; drain (m1.mailbox.length + 1) m1) { server := server }
    if m.unsupported then "unsupported ## ?" else
    let hist := normalize m.hist ++ [pendingOf m]
    s!"{verdict server hist} {" ".intercalate hist} ## ok **"
  | "hndj" :: role :: toks => verdict (role == "server") toks
  | _ => "bad-op"

end H3.Drv.Hnd
