import H3.Drv.Util
import H3.Drv.C15
import H3.Model.Qpack
import H3.Spec.Qpack
/-! Driver engine `qpack` (C11, C10 at function level).  Model answer `##` specification answer.

    `qpack enc <fields>`           `encode_stateless`, then the block through `decode_stateless`
    `qpack dec <max> <hex>`        `decode_stateless(block, max)`
    `qpack range <max> <prefix hex> <lo> <hi>`   blocks `prefix ++ payload(i)`, `lo ≤ i < hi`
                                   (payload numbering of `huff range`): counts and a digest

    fields: `name=value;…` in hex (`-` = empty string), `none` = empty list. -/
namespace H3.Drv.C11
open H3.Drv H3.Qpack

/-! ### rendering -/

def fieldStr (n v : List Nat) : String := toHex n ++ "=" ++ toHex v

def fieldsStr (fs : List (List Nat × List Nat)) : String :=
  if fs.isEmpty then "none" else ";".intercalate (fs.map fun (n, v) => fieldStr n v)

def pairs (fs : List Field) : List (List Nat × List Nat) := fs.map fun f => (f.name, f.value)

def parseField (s : String) : Option Field :=
  match s.splitOn "=" with
  | [n, v] => do
    let n ← parseHex n
    let v ← parseHex v
    pure ⟨n, v⟩
  | _ => none

def parseFields (s : String) : Option (List Field) :=
  if s == "none" then some [] else (s.splitOn ";").mapM parseField

def intErr : IntErr → String
  | .overflow => "Overflow"
  | .unexpectedEnd => "UnexpectedEnd"

def errStr : Err → String
  | .invalidInteger e => "InvalidInteger " ++ intErr e
  | .invalidString .unexpectedEnd => "InvalidString UnexpectedEnd"
  | .invalidString .integerOverflow => "InvalidString Integer Overflow"
  | .invalidString (.huffman e) => "InvalidString Huffman " ++ H3.Drv.C15.huffErr e
  | .invalidString .bufSize => "InvalidString BufSize"
  | .invalidStaticIndex i => s!"InvalidStaticIndex {i}"
  | .unknownPrefix p => s!"UnknownPrefix {p}"
  | .missingRefs n => s!"MissingRefs {n}"
  | .badBaseIndex b => s!"BadBaseIndex {b}"
  | .headerTooLong n => s!"HeaderTooLong {n}"
  | .fuel => "model-fuel"

def resStr : Res → String
  | .ok fs m => s!"ok {m} {fieldsStr (pairs fs)}"
  | .err e => "err " ++ errStr e

/-- model answer of `qpack dec`; the site tag marks a section one of whose string literals went
    through the lax Huffman branch -/
def decModel (bs : List Nat) (max : Nat) : String :=
  let (r, lax) := decodeStatelessX bs max
  resStr r ++ (if lax then " #D-15" else "")

/-! ### specification side -/

/-- the errors that stand for "decompression failed" (everything but the size limit) -/
def decompErr : String :=
  "err InvalidInteger ** || err InvalidString ** || err InvalidStaticIndex * || err UnknownPrefix * || " ++
  "err MissingRefs * || err BadBaseIndex *"

/-- does the size of the valid lines before the first invalid one exceed `max`?  (Then a decoder
    that checks the limit line by line may report the size instead of the invalid line.) -/
def prefixExceeds (max : Nat) : Nat → List Nat → Nat → Bool
  | _, [], _ => false
  | 0, _, _ => false
  | fuel+1, first :: r, size =>
    match Spec.Qpack.parseLine first r with
    | .error _ => false
    | .ok (l, rest) =>
      match Spec.Qpack.interp l with
      | .error _ => false
      | .ok (n, v) =>
        let size := size + n.length + v.length + 32
        if size > max then true else prefixExceeds max fuel rest size

def exceeds (bs : List Nat) (max : Nat) : Bool :=
  match Spec.Qpack.parsePrefix bs with
  | .error _ => false
  | .ok rest => prefixExceeds max rest.length rest 0

/-- RFC 7541 §5.1: "Integer encodings that exceed implementation limits — in value or octet
    length — MUST be treated as decoding errors"; RFC 9204 §4.1.1 obliges implementations to
    decode integers up to 62 bits.  `true` when the integer at the head of `bs` is one that an
    implementation may refuse (DESIGN R-15): value ≥ 2^62 or more than nine continuation octets. -/
def bigInt (n : Nat) (bs : List Nat) : Bool :=
  match bs with
  | [] => false
  | first :: r =>
    decide (first % 2 ^ n = 2 ^ n - 1) &&
      (decide (PrefixInt.contLen r > 9) ||
        (match PrefixInt.rfcDecode n bs with
         | some (v, _) => decide (v ≥ 2 ^ 62)
         | none => false))

/-- the integer at the head of `bs`, then the length of the value string after it -/
def bigIntThenValue (n : Nat) (bs : List Nat) : Bool :=
  bigInt n bs || (match PrefixInt.rfcDecode n bs with
    | some (_, r1) => bigInt 7 r1
    | none => false)

/-- some integer of the line at `first :: r` may be refused (the line is known to parse) -/
def bigLine (first : Nat) (r : List Nat) : Bool :=
  let bs := first :: r
  if first ≥ 128 then bigInt 6 bs
  else if first ≥ 64 then bigIntThenValue 4 bs
  else if first ≥ 32 then
    bigInt 3 bs || (match Spec.Qpack.stringLiteral 3 bs with
      | .ok (_, r1) => bigInt 7 r1
      | .error _ => false)
  else if first ≥ 16 then bigInt 4 bs
  else bigIntThenValue 3 bs

def bigLines : Nat → List Nat → Bool
  | _, [] => false
  | 0, _ => false
  | fuel+1, first :: r =>
    bigLine first r || (match Spec.Qpack.parseLine first r with
      | .ok (_, rest) => bigLines fuel rest
      | .error _ => false)

/-- some integer of the (valid) section may be refused by an implementation -/
def bigSection (bs : List Nat) : Bool :=
  bigIntThenValue 8 bs || (match Spec.Qpack.parsePrefix bs with
    | .ok rest => bigLines rest.length rest
    | .error _ => false)

inductive Want where
  | ok (size : Nat) (fs : List (List Nat × List Nat)) (orOverflow : Bool)
  | tooLong (orOverflow : Bool)
  | decomp (orTooLong : Bool)

def want (bs : List Nat) (max : Nat) : Want :=
  match Spec.Qpack.specDecode bs with
  | .ok fs =>
    if Spec.Qpack.size fs ≤ max then .ok (Spec.Qpack.size fs) fs (bigSection bs)
    else .tooLong (bigSection bs)
  | .error _ => .decomp (exceeds bs max)

def overflowAlt : String := " || err InvalidInteger Overflow || err InvalidString Integer Overflow"

def Want.str : Want → String
  | .ok size fs o => s!"ok {size} {fieldsStr fs}" ++ (if o then overflowAlt else "")
  | .tooLong o => "err HeaderTooLong *" ++ (if o then overflowAlt else "")
  | .decomp false => decompErr
  | .decomp true => decompErr ++ " || err HeaderTooLong *"

def isOverflow : Res → Bool
  | .err (.invalidInteger .overflow) => true
  | .err (.invalidString .integerOverflow) => true
  | _ => false

/-- the same judgement on a model result (used inside `range`, where no lines are printed) -/
def Want.admits : Want → Res → Bool
  | .ok size fs o, r =>
    (match r with
     | .ok gs m => m == size && pairs gs == fs
     | _ => false) || (o && isOverflow r)
  | .tooLong o, r =>
    (match r with
     | .err (.headerTooLong _) => true
     | _ => false) || (o && isOverflow r)
  | .decomp _, .err .fuel => false
  | .decomp o, .err (.headerTooLong _) => o
  | .decomp _, .err _ => true
  | .decomp _, .ok _ _ => false

/-! ### range -/

structure Acc where
  h : UInt64 := 14695981039346656037
  ok : Nat := 0
  tooLong : Nat := 0
  other : Nat := 0
  /-- first index whose (non-lax) model result the specification does not admit -/
  bad : Option Nat := none

def rangeGo (max : Nat) (pre : List Nat) (lo : Nat) : Nat → Acc → Acc
  | 0, a => a
  | k+1, a =>
    let bs := pre ++ H3.Drv.C15.payloadOf lo
    let (r, lax) := decodeStatelessX bs max
    let a := match r with
      | .ok _ _ => { a with ok := a.ok + 1 }
      | .err (.headerTooLong _) => { a with tooLong := a.tooLong + 1 }
      | .err _ => { a with other := a.other + 1 }
    let a := if a.bad.isNone && !lax && !(want bs max).admits r then { a with bad := some lo } else a
    rangeGo max pre (lo + 1) k { a with h := H3.Drv.C15.fnv a.h (resStr r) }

/-! ### the engine -/

def U64_MAX : Nat := 2 ^ 64 - 1

def handle : List String → String
  | ["qpack", "dec", max, h] =>
    match max.toNat?, parseHex h with
    | some max, some bs =>
      if max > U64_MAX then "bad-op" else decModel bs max ++ " ## " ++ (want bs max).str
    | _, _ => "bad-op"
  | ["qpack", "enc", fs] =>
    match parseFields fs with
    | none => "bad-op"
    | some fs =>
      match encodeStateless? fs with
      | none => "panic ## ?"
      | some (block, size) =>
        let m := s!"ok {toHex block} {size} rt {decModel block U64_MAX}"
        -- the block is judged by the independent decoder; the size by the RFC 9114 rule
        let sp := match Spec.Qpack.specDecode block with
          | .ok gs =>
            if gs == pairs fs ∧ block.take 2 = [0, 0] then
              s!"ok * {Spec.Qpack.size gs} rt ok {Spec.Qpack.size gs} {fieldsStr gs}"
            else "!spec-decodes-to " ++ fieldsStr gs
          | .error _ => "!spec-rejects-encoding"
        m ++ " ## " ++ sp
  | ["qpack", "range", max, pre, lo, hi] =>
    match max.toNat?, parseHex pre, lo.toNat?, hi.toNat? with
    | some max, some pre, some lo, some hi =>
      let a := rangeGo max pre lo (hi - lo) {}
      let m := s!"range n={hi - lo} ok={a.ok} toolong={a.tooLong} other={a.other} digest={H3.Drv.C15.hex64 a.h}"
      let sp := match a.bad with
        | none => "range **"
        | some i => s!"!model-result-not-admitted-at {i}"
      m ++ " ## " ++ sp
    | _, _, _, _ => "bad-op"
  | _ => "bad-op"

end H3.Drv.C11
