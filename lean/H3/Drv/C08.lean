import H3.Drv.Util
import H3.Model.Varint
import H3.Model.Goaway
import H3.Spec.Goaway
import H3.Gen.Consts
/-! Driver engine `goaway` (C08): interprets a scenario line (BUILDERS.md, "Connection-level
engines") against `H3.Goaway.step` and prints the projection `tools/props/c08.py` computes from
the real run, `##`, the same line as the RFC oracle `H3.Spec.Goaway` forces it to be.

This file is glue (no proofs): it plays the harness's `conn` / `drv` / `snd` tasks — a mailbox
per task, `conn.A` = one `accept()` (the task does nothing else until it returns), `conn.AL` =
accept loop interruptible by commands — and turns peer ops into model events.  After every op
an outstanding `accept()` is polled again (a spurious poll changes nothing). -/
namespace H3.Drv.C08
open H3.Drv H3.Goaway

/-- `07 <len> <varint>` as one chunk. -/
def parseGoawayFrame (bs : List Nat) : Option Nat :=
  match bs with
  | 7 :: len :: payload =>
    if len != payload.length then none else
    match H3.Varint.decode payload with
    | .ok v [] => some v
    | _ => none
  | _ => none

/-- HEADERS of `GET https://a.b/x`: the only content the `goaway` lines put on a request stream. -/
def HOK : List Nat := [1, 13, 0, 0, 0xd1, 0xd7, 0x50, 0x83, 0x1a, 0xf1, 0xff, 0x51, 0x82, 0x63, 0xcf]

/-- what the harness's task `q<id>` holds. -/
structure RQ where
  id : Nat
  /-- the peer has opened the stream (`o<id>`); bytes for a stream that is not open go nowhere -/
  isOpen : Bool := false
  /-- complete HEADERS frames the peer has put on the stream so far -/
  hok : Nat := 0
  /-- 0 no task (not shown to the application), 1 holds the resolver, 3 holds the stream, 4 gone -/
  phase : Nat := 0

structure G where
  s : State := {}
  reqs : List RQ := []
  /-- 0 idle, 1 one `accept()` outstanding, 2 accept loop -/
  mode : Nat := 0
  cmdq : List String := []
  obs : List Obs := []
  settings : Bool := false
  /-- the peer has opened its control stream (`o2` / `o3`); bytes for a stream that is not open go nowhere -/
  ctlOpen : Bool := false
  driving : Bool := false
  /-- the line uses something this glue does not interpret -/
  unsupported : Bool := false
  /-- cfg `ops=1`: the peer's `o<sid>` ops are in the trace, the history carries `O=<sid>` -/
  ops1 : Bool := false
  /-- client: bidirectional stream credit (`bc=<n>`, `gb<n>`); `none` = unlimited -/
  credit : Option Nat := none
  /-- client: the `snd` task is inside a `send_request` call that waits for its stream -/
  sndBusy : Bool := false
  /-- client: `snd.R` ops waiting in the task's mailbox behind that call -/
  sndq : Nat := 0

def G.rq (g : G) (id : Nat) : RQ := (g.reqs.find? (·.id == id)).getD { id := id }
def G.setRq (g : G) (r : RQ) : G :=
  { g with reqs := if g.reqs.any (·.id == r.id) then g.reqs.map (fun x => if x.id == r.id then r else x) else g.reqs ++ [r] }

/-- a request shown to the application gets its task `q<id>` (holding the resolver). -/
def G.emit (g : G) (r : State × List Obs) : G :=
  let g := { g with s := r.1, obs := g.obs ++ r.2 }
  r.2.foldl (fun g o =>
    match o with
    | .surfaced i => g.setRq { g.rq i with phase := 1 }
    | _ => g) g
def G.ev (g : G) (e : Ev) : G := g.emit (step g.s e)

def execCmd (g : G) (c : String) : G :=
  if c == "A" then (if g.mode == 2 then { g with unsupported := true } else { g with mode := 1 })
  else if c == "AL" then { g with mode := 2 }
  else if c == "AS" then { g with mode := 0 }
  else match c.splitOn ":" with
    | ["S", n] => match n.toNat? with
      | some n =>
        -- the count of the call goes into the history in front of the call's answer (`S=<n> conn.S=…`)
        let r := step g.s (.shutdown n)
        g.emit (r.1, r.2.dropLast ++ [.shutdownCalled n] ++ r.2.drop (r.2.length - 1))
      | none => { g with unsupported := true }
    | _ => { g with unsupported := true }

def lastIs (os : List Obs) (o : Obs) : Bool := os.getLast? == some o

/-- run the `conn` task until it parks. -/
def settle : Nat → G → G
  | 0, g => g
  | f+1, g =>
    if g.mode == 0 then
      match g.cmdq with
      | [] => g
      | c :: r => settle f (execCmd { g with cmdq := r } c)
    else
      let r := step g.s .accept
      let parked := lastIs r.2 .acceptPending
      -- a parked poll shows nothing new except the refusals it made
      let g1 := g.emit (r.1, r.2.filter (· != .acceptPending))
      if parked then
        if g.mode == 2 then
          match g.cmdq with
          | [] => g1
          | c :: rest => settle f (execCmd { g1 with cmdq := rest } c)
        else g1
      else
        let again := g.mode == 2 && !(lastIs r.2 .acceptNone || lastIs r.2 .acceptErr)
        settle f { g1 with mode := if again then 2 else 0 }

def isReqStream (id : Nat) : Bool := id % 4 == 0

def clientPoll (g : G) : G :=
  if !g.driving then g else
  let r := step g.s .pollClose
  let err := r.2.contains .idError
  { g with s := r.1, obs := g.obs ++ r.2.filter (· != .drvPending), driving := !err }

def opServer (g : G) (op : String) : G :=
  match op.splitOn "." with
  | ["conn", c] => { g with cmdq := g.cmdq ++ [c] }
  | [q, c] =>
    if q.startsWith "q" then
      match (q.drop 1).toString.toNat? with
      | some id =>
        let r := g.rq id
        -- no such task (not shown to the application, or gone): the harness answers `no-task`,
        -- nothing reaches h3
        if r.phase == 0 || r.phase == 4 then g
        else if c == "dr" then
          let g1 := g.setRq { r with phase := 4 }
          ({ g1 with obs := g1.obs ++ [Obs.completed id] }).ev (.complete id)
        else if c == "res" && r.phase == 1 && decide (1 ≤ r.hok) then (g.setRq { r with phase := 3 }).ev (.resolve id)
        -- `res` before the request is there (it would wait), a second `res`, other commands: not interpreted
        else { g with unsupported := true }
      | none => { g with unsupported := true }
    else { g with unsupported := true }
  | _ =>
    match op.toList with
    | 'o' :: r =>
      match (String.ofList r).toNat? with
      | some id =>
        -- SimQuic: opening a stream a second time does nothing
        if id == 2 then { g with ctlOpen := true }
        else if isReqStream id then
          (if (g.rq id).isOpen then g else
            let g1 := g.setRq { g.rq id with isOpen := true }
            ({ g1 with obs := if g.ops1 then g1.obs ++ [Obs.arrived id] else g1.obs }).ev (.arrive id))
        else { g with unsupported := true }
      | none => { g with unsupported := true }
    | 's' :: r =>
      match (String.ofList r).splitOn ":" with
      | [sid, h] =>
        match sid.toNat?, parseHex h with
        | some 2, some bs =>
          if !g.ctlOpen then g
          else if bs == [0, 4, 0] then { g with settings := true }
          else match parseGoawayFrame bs with
            | some id => if g.settings then g.ev (.recvGoaway id) else { g with unsupported := true }
            | none => { g with unsupported := true }
        | some id, some bs =>
          -- request streams carry whole well-formed HEADERS frames only (what `served` presupposes)
          if isReqStream id && bs == HOK then
            (if (g.rq id).isOpen then g.setRq { g.rq id with hok := (g.rq id).hok + 1 } else g)
          else { g with unsupported := true }
        | _, _ => { g with unsupported := true }
      | _ => { g with unsupported := true }
    | _ => { g with unsupported := true }

/-- the `snd` task runs one `send_request`: first gate; with stream credit the stream is opened at once
    (second gate, the request is written), without it the call waits. -/
def sndCall (g : G) : G :=
  let g1 := g.ev .sendCall
  if g1.s.parked == 0 then g1
  else match g1.credit with
    | none => g1.ev .sendOpened
    | some (c + 1) => ({ g1 with credit := some c }).ev .sendOpened
    | some 0 => { g1 with sndBusy := true }

/-- credit has arrived: the waiting call gets its stream, then the task takes the calls queued behind it. -/
def sndResume : Nat → G → G
  | 0, g => g
  | f + 1, g =>
    if g.sndBusy then
      match g.credit with
      | some 0 => g
      | some (c + 1) => sndResume f (({ g with credit := some c, sndBusy := false }).ev .sendOpened)
      | none => sndResume f (({ g with sndBusy := false }).ev .sendOpened)
    else if g.sndq == 0 then g
    else sndResume f (sndCall { g with sndq := g.sndq - 1 })

def opClient (g : G) (op : String) : G :=
  if op == "drv.W" then clientPoll { g with driving := true }
  else if op.startsWith "snd.R:" then (if g.sndBusy then { g with sndq := g.sndq + 1 } else sndCall g)
  else if op.startsWith "gb" then
    match (op.drop 2).toString.toNat? with
    | some n => sndResume (2 * g.sndq + 4) { g with credit := g.credit.map (· + n) }
    | none => { g with unsupported := true }
  else
    match op.toList with
    | 'o' :: r => if (String.ofList r).toNat? == some 3 then { g with ctlOpen := true } else { g with unsupported := true }
    | 's' :: r =>
      match (String.ofList r).splitOn ":" with
      | [sid, h] =>
        match sid.toNat?, parseHex h with
        | some 3, some bs =>
          if !g.ctlOpen then g
          else if bs == [0, 4, 0] then { g with settings := true }
          else match parseGoawayFrame bs with
            | some id => if g.settings then clientPoll (g.ev (.recvGoaway id)) else { g with unsupported := true }
            | none => { g with unsupported := true }
        | _, _ => { g with unsupported := true }
      | _ => { g with unsupported := true }
    | _ => { g with unsupported := true }

def REJ : Nat := H3.Gen.Consts.CODE_H3_REQUEST_REJECTED

/-- the ordered observation tokens (the same alphabet `tools/props/c08.py` extracts from a run
    with `ev=1`). -/
def tokenOf : Obs → Option String
  | .surfaced i => some s!"conn.A=req:{i}"
  | .rejected i => some s!"R={i}:{REJ}:{REJ}"
  | .goaway g => some s!"G={g}"
  | .acceptNone => some "conn.A=none"
  | .acceptErr => some "conn.A=err:local:H3_ID_ERROR"
  | .shutdownOk => some "conn.S=ok"
  | .shutdownErr => some "conn.S=err:local:H3_ID_ERROR"
  | .idError => some "drv.W=err:local:H3_ID_ERROR"
  | .opened i => some s!"snd.R=req:{i}"
  | .remoteClosing => some "snd.R=err:rclosing"
  | .served i => some s!"Q={i}:ok"
  | .notServed i => some s!"Q={i}:not-served"
  | .arrived i => some s!"O={i}"
  | .completed i => some s!"D={i}"
  | .shutdownCalled n => some s!"S={n}"
  | _ => none

def renderToks (os : List Obs) : String :=
  let toks := os.filterMap tokenOf
  if toks.isEmpty then "-" else " ".intercalate toks

/-- the client's tokens.  With `ev=1` every `snd.R` result carries the request streams h3 wrote on while
    the call ran (`/w=<ids>`): `opened i` = the stream was opened and the request written on it,
    `remoteClosing` = no stream was opened, so nothing was written; then the request streams written
    after the last call (`w=`) and, from the transport's final state, the client-initiated bidirectional
    streams with / without bytes (`streams=<written>/<opened, nothing written>`). -/
def renderClient (ev1 : Bool) (os : List Obs) : String :=
  let w (x : String) := if ev1 then x else "?"
  let toks := os.filterMap (fun o =>
    match o with
    | .opened i => some s!"snd.R=req:{i}/w={w (toString i)}"
    | .remoteClosing => some s!"snd.R=err:rclosing/w={w "-"}"
    | .idError => some "drv.W=err:local:H3_ID_ERROR"
    | _ => none)
  let ids (l : List Nat) := if l.isEmpty then "-" else ",".intercalate (l.map toString)
  let written := os.filterMap (fun o => match o with | .opened i => some i | _ => none)
  let empty := os.filterMap (fun o => match o with | .unused i => some i | _ => none)
  " ".intercalate (toks ++ [s!"w={w "-"}", s!"streams={ids written}/{ids empty}"])

/-! ### the judge: RFC 9114 §5.2 (`H3.Spec.Goaway`) applied to an observed history -/

inductive JTok where
  | obs (o : Obs)
  /-- a stream refused with other codes than H3_REQUEST_REJECTED -/
  | badReject (i a b : Nat)
  /-- `stop_sending` or `reset` alone on request stream `i` (not the pair a refusal consists of) -/
  | half (i code : Nat) (tok : String)
  /-- a token outside the alphabet: an error of the projection, never skipped -/
  | unknown (tok : String)

def parseJTok (t : String) : JTok :=
  if t.startsWith "conn.A=req:" then
    match (t.drop 11).toString.toNat? with
    | some i => .obs (.surfaced i)
    | none => .unknown t
  else if t == "conn.A=none" then .obs .acceptNone
  else if t.startsWith "conn.A=err:" then .obs .acceptErr
  else if t == "conn.S=ok" then .obs .shutdownOk
  else if t.startsWith "conn.S=err:" then .obs .shutdownErr
  else if t.startsWith "G=" then
    match (t.drop 2).toString.toNat? with
    | some g => .obs (.goaway g)
    | none => .unknown t
  else if t.startsWith "O=" || t.startsWith "D=" || t.startsWith "S=" then
    match (t.drop 2).toString.toNat? with
    | some i => .obs (if t.startsWith "O=" then .arrived i else if t.startsWith "D=" then .completed i else .shutdownCalled i)
    | none => .unknown t
  else if t.startsWith "R=" then
    match ((t.drop 2).toString.splitOn ":").map (·.toNat?) with
    | [some i, some a, some b] => if a == REJ && b == REJ then .obs (.rejected i) else .badReject i a b
    | _ => .unknown t
  else if t.startsWith "Q=" then
    -- `Q=<i>:ok` = `resolve_request` returned the request; anything else (an error, `pending`) = it did not
    match (t.drop 2).toString.splitOn ":" with
    | i :: res :: more =>
      match i.toNat? with
      | some i => if res == "ok" && more.isEmpty then .obs (.served i) else .obs (.notServed i)
      | none => .unknown t
    | _ => .unknown t
  else if t.startsWith "stop" || t.startsWith "rst" then
    match ((t.drop (if t.startsWith "stop" then 4 else 3)).toString.splitOn ":").map (·.toNat?) with
    | [some i, some c] => .half i c t
    | _ => .unknown t
  else .unknown t

open H3.Spec.Goaway in
def explain (h : Hist) : Obs → String
  | .goaway g =>
    if !clientBidi g then s!"goaway-id-not-client-bidi({g})"
    else match h.sent.find? (fun p => decide (p < g)) with
      | some p => s!"goaway-id-increased({g}>{p})"
      | none => match h.surfaced.find? (fun i => decide (g ≤ i)) with
        | some i => s!"goaway-id-not-above-surfaced-request({g}<={i})"
        | none => "?"
  | .surfaced i => s!"surfaced-at-or-above-last-goaway({i}>={(lastSent h).getD 0})"
  | .rejected i =>
    match lastSent h with
    | none => s!"rejected-without-goaway({i})"
    | some g => s!"rejected-below-last-goaway({i}<{g})"
  | .notServed i => s!"surfaced-request-not-served({i})"
  | _ => "?"

open H3.Spec.Goaway in
def explainQ (h : Hist) : Obs → String
  | .surfaced i => s!"second-outcome-for-stream({i})"
  | .rejected i => s!"second-outcome-for-stream({i})"
  | .acceptNone =>
    match h.opened.reverse.find? (fun i => !disposed h i) with
    | some i => s!"none-with-opened-stream-neither-served-nor-refused({i})"
    | none => match h.surfaced.reverse.find? (fun i => !h.done.contains i) with
      | some i => s!"none-with-request-in-progress({i})"
      | none => "?"
  | .shutdownOk =>
    match lastSent h, h.call with
    | none, _ => "shutdown-ok-without-goaway"
    | some g, some n => s!"shutdown({n})-ok-with-identifier-in-force-above-its-bound({g}>{shutdownBound h n})"
    | _, _ => "?"
  | _ => "?"

open H3.Spec.Goaway in
def judgeFrom : Hist → List JTok → String
  | _, [] => "ok"
  | _, .unknown t :: _ => s!"BAD:unknown-token({t})"
  | _, .badReject i a b :: _ => s!"VIOLATES:refused-with-other-code({i}:{a}:{b})"
  | h, .half i c t :: r =>
    -- on a request the application holds, a reset / stop_sending with another code is the application's
    -- (or C07's) business; H3_REQUEST_REJECTED there, or half a refusal of a stream never shown, is not
    if h.surfaced.contains i && c != REJ then judgeFrom h r
    else if h.surfaced.contains i then s!"VIOLATES:refused-after-surfacing({t})"
    else s!"VIOLATES:half-refused({t})"
  | h, .obs o :: r =>
    if !okObs true h o then "VIOLATES:" ++ explain h o
    else if !okQueue h o then "VIOLATES:" ++ explainQ h o
    else judgeFrom (h.push o) r

/-- unknown tokens first: a projection that emits something the judge does not know must not get a
    verdict on the rest. -/
def judge (toks : List JTok) : String :=
  match toks.find? (fun t => match t with | .unknown _ => true | _ => false) with
  | some (.unknown t) => s!"BAD:unknown-token({t})"
  | _ => judgeFrom {} toks

def judgeObs (os : List Obs) : String := judge (os.map .obs)

/-- the client line from the scenario and the oracle alone. -/
structure CS where
  buf : List Nat := []
  proc : List Nat := []
  driving : Bool := false
  settings : Bool := false
  ctlOpen : Bool := false
  toks : List String := []
  /-- `ev=1`: the transport events are in the trace -/
  ev1 : Bool := false
  /-- requests the oracle says are started (no GOAWAY processed before the call) -/
  started : Nat := 0
  /-- a call the oracle has no opinion on (after the connection error) has been made: nothing is
      demanded from there on -/
  noOpinion : Bool := false
  /-- bidirectional stream credit (`bc=<n>`, `gb<n>`); `none` = unlimited -/
  credit : Option Nat := none
  /-- a call has been made while no GOAWAY was processed and waits for its stream -/
  parked : Bool := false
  /-- calls made behind it -/
  queued : Nat := 0

def csProcess (c : CS) : CS :=
  if !c.driving then c else
  let c1 := { c with proc := c.proc ++ c.buf, buf := [] }
  if (H3.Spec.Goaway.clientAfter c1.proc).err then
    { c1 with driving := false, toks := c1.toks ++ ["drv.W=err:local:H3_ID_ERROR"] }
  else c1

/-- a call gets its stream: `H3.Spec.Goaway.mayStart` on the GOAWAYs processed by NOW decides. -/
def csDecide (c : CS) : CS :=
  if c.noOpinion then c else
  match H3.Spec.Goaway.mayStart c.proc with
  -- "a client that has processed a GOAWAY starts no new request": the call is refused AND nothing is
  -- written on any request stream while it runs — also when the GOAWAY was processed while it waited
  | some false => { c with toks := c.toks ++ [if c.ev1 then "snd.R=err:rclosing/w=-" else "snd.R=err:rclosing/w=?"] }
  | some true => { c with toks := c.toks ++ ["snd.R=req:*/w=*"], started := c.started + 1 }
  | none => { c with noOpinion := true }

/-- a call is made: refused at once after a GOAWAY; otherwise it needs a stream. -/
def csCall (c : CS) : CS :=
  if c.noOpinion then c
  else if H3.Spec.Goaway.mayStart c.proc != some true then csDecide c
  else match c.credit with
    | none => csDecide c
    | some (k + 1) => csDecide { c with credit := some k }
    | some 0 => { c with parked := true }

def csResume : Nat → CS → CS
  | 0, c => c
  | f + 1, c =>
    if c.noOpinion then c
    else if c.parked then
      match c.credit with
      | some 0 => c
      | some (k + 1) => csResume f (csDecide { c with credit := some k, parked := false })
      | none => csResume f (csDecide { c with parked := false })
    else if c.queued == 0 then c
    else csResume f (csCall { c with queued := c.queued - 1 })

def csOp (c : CS) (op : String) : CS :=
  if op == "drv.W" then csProcess { c with driving := true }
  else if op.startsWith "snd.R:" then (if c.parked then { c with queued := c.queued + 1 } else csCall c)
  else if op.startsWith "gb" then
    match (op.drop 2).toString.toNat? with
    | some n => csResume (2 * c.queued + 4) { c with credit := c.credit.map (· + n) }
    | none => c
  else
    match op.toList with
    | 'o' :: _ => { c with ctlOpen := true }
    | 's' :: r =>
      match (String.ofList r).splitOn ":" with
      | [_, h] =>
        -- bytes for a control stream the peer has not opened go nowhere
        if !c.ctlOpen then c else
        match (parseHex h).bind parseGoawayFrame with
        | some id => csProcess { c with buf := c.buf ++ [id] }
        | none => c
      | _ => c
    | _ => c

def handle : List String → String
  | "goaway" :: role :: _cfg :: ops =>
    if role == "server" then
      let ops1 := (_cfg.splitOn ",").contains "ops=1"
      let g := ops.foldl (fun g op => settle (4 * ops.length + 8) (opServer g op)) ({ ops1 := ops1 } : G)
      if g.unsupported then "unsupported ## ?" else
      -- model: its own history with the oracle's verdict on it; specification: the oracle's
      -- verdict on the observed history must be `ok`
      judgeObs g.obs ++ " " ++ renderToks g.obs ++ " pend=" ++ b01 (g.mode != 0) ++ " ## ok **"
    else if role == "client" then
      let ev1 := (_cfg.splitOn ",").contains "ev=1"
      let credit := (_cfg.splitOn ",").findSome? (fun x => if x.startsWith "bc=" then (x.drop 3).toString.toNat? else none)
      let g := ops.foldl opClient ({ credit := credit } : G)
      if g.unsupported then "unsupported ## ?" else
      let c := ops.foldl csOp ({ ev1 := ev1, credit := credit } : CS)
      let ids := (List.range c.started).map (fun k => toString (4 * k))
      -- written request streams: exactly those of the requests started; streams opened without a byte: no opinion
      let tail := if c.noOpinion then ["**"]
        else [if ev1 then "w=-" else "w=?", s!"streams={if ids.isEmpty then "-" else ",".intercalate ids}/*", "pend=*"]
      renderClient ev1 g.obs ++ " pend=" ++ b01 g.driving ++ " ## " ++
        " ".intercalate (c.toks ++ tail)
    else "bad-op"
  | "goawayj" :: toks => judge ((toks.filter (fun t => t != "-" && t != "")).map parseJTok)
  | _ => "bad-op"

end H3.Drv.C08
