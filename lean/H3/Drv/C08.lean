import H3.Drv.Util
import H3.Model.Varint
import H3.Model.Goaway
import H3.Spec.Goaway
import H3.Gen.Consts
/-! Driver engine `goaway` (C08): interprets a scenario line (BUILDERS.md, "Connection-level
engines") against `H3.Goaway.step` and prints the projection `tools/props/c08.py` computes from
the real run, `##`, the same line as the RFC oracle `H3.Spec.Goaway` forces it to be.

This file is glue (no proofs): it plays the harness's `conn` / `drv` / `snd` tasks — a mailbox
per task, `conn.A` = one `accept()` (the task does nothing else until it returns), `conn.AL` =
accept loop interruptible by commands — and turns peer ops into model events.  After every op
an outstanding `accept()` is polled again (a spurious poll changes nothing). -/
namespace H3.Drv.C08
open H3.Drv H3.Goaway

/-- `07 <len> <varint>` as one chunk. -/
def parseGoawayFrame (bs : List Nat) : Option Nat :=
  match bs with
  | 7 :: len :: payload =>
    if len != payload.length then none else
    match H3.Varint.decode payload with
    | .ok v [] => some v
    | _ => none
  | _ => none

structure G where
  s : State := {}
  /-- 0 idle, 1 one `accept()` outstanding, 2 accept loop -/
  mode : Nat := 0
  cmdq : List String := []
  obs : List Obs := []
  settings : Bool := false
  driving : Bool := false
  /-- the line uses something this glue does not interpret -/
  unsupported : Bool := false

def G.emit (g : G) (r : State × List Obs) : G := { g with s := r.1, obs := g.obs ++ r.2 }
def G.ev (g : G) (e : Ev) : G := g.emit (step g.s e)

def execCmd (g : G) (c : String) : G :=
  if c == "A" then (if g.mode == 2 then { g with unsupported := true } else { g with mode := 1 })
  else if c == "AL" then { g with mode := 2 }
  else if c == "AS" then { g with mode := 0 }
  else match c.splitOn ":" with
    | ["S", n] => match n.toNat? with
      | some n => g.ev (.shutdown n)
      | none => { g with unsupported := true }
    | _ => { g with unsupported := true }

def lastIs (os : List Obs) (o : Obs) : Bool := os.getLast? == some o

/-- run the `conn` task until it parks. -/
def settle : Nat → G → G
  | 0, g => g
  | f+1, g =>
    if g.mode == 0 then
      match g.cmdq with
      | [] => g
      | c :: r => settle f (execCmd { g with cmdq := r } c)
    else
      let r := step g.s .accept
      let parked := lastIs r.2 .acceptPending
      -- a parked poll shows nothing new except the refusals it made
      let g1 := g.emit (r.1, r.2.filter (· != .acceptPending))
      if parked then
        if g.mode == 2 then
          match g.cmdq with
          | [] => g1
          | c :: rest => settle f (execCmd { g1 with cmdq := rest } c)
        else g1
      else
        let again := g.mode == 2 && !(lastIs r.2 .acceptNone || lastIs r.2 .acceptErr)
        settle f { g1 with mode := if again then 2 else 0 }

def isReqStream (id : Nat) : Bool := id % 4 == 0

def clientPoll (g : G) : G :=
  if !g.driving then g else
  let r := step g.s .pollClose
  let err := r.2.contains .idError
  { g with s := r.1, obs := g.obs ++ r.2.filter (· != .drvPending), driving := !err }

def opServer (g : G) (op : String) : G :=
  match op.splitOn "." with
  | ["conn", c] => { g with cmdq := g.cmdq ++ [c] }
  | [q, c] =>
    if q.startsWith "q" then
      match (q.drop 1).toString.toNat? with
      | some id => if c == "dr" then g.ev (.complete id) else g
      | none => { g with unsupported := true }
    else { g with unsupported := true }
  | _ =>
    match op.toList with
    | 'o' :: r =>
      match (String.ofList r).toNat? with
      | some id => if id == 2 then g else if isReqStream id then g.ev (.arrive id) else { g with unsupported := true }
      | none => { g with unsupported := true }
    | 's' :: r =>
      match (String.ofList r).splitOn ":" with
      | [sid, h] =>
        match sid.toNat?, parseHex h with
        | some 2, some bs =>
          if bs == [0, 4, 0] then { g with settings := true }
          else match parseGoawayFrame bs with
            | some id => if g.settings then g.ev (.recvGoaway id) else { g with unsupported := true }
            | none => { g with unsupported := true }
        | some id, some _ => if isReqStream id then g else { g with unsupported := true }
        | _, _ => { g with unsupported := true }
      | _ => { g with unsupported := true }
    | 'f' :: _ => g
    | _ => { g with unsupported := true }

def opClient (g : G) (op : String) : G :=
  if op == "drv.W" then clientPoll { g with driving := true }
  else if op.startsWith "snd.R:" then g.ev .sendRequest
  else
    match op.toList with
    | 'o' :: r => if (String.ofList r).toNat? == some 3 then g else { g with unsupported := true }
    | 's' :: r =>
      match (String.ofList r).splitOn ":" with
      | [sid, h] =>
        match sid.toNat?, parseHex h with
        | some 3, some bs =>
          if bs == [0, 4, 0] then { g with settings := true }
          else match parseGoawayFrame bs with
            | some id => if g.settings then clientPoll (g.ev (.recvGoaway id)) else { g with unsupported := true }
            | none => { g with unsupported := true }
        | _, _ => { g with unsupported := true }
      | _ => { g with unsupported := true }
    | _ => { g with unsupported := true }

def REJ : Nat := H3.Gen.Consts.CODE_H3_REQUEST_REJECTED

/-- the ordered observation tokens (the same alphabet `tools/props/c08.py` extracts from a run
    with `ev=1`). -/
def tokenOf : Obs → Option String
  | .surfaced i => some s!"conn.A=req:{i}"
  | .rejected i => some s!"R={i}:{REJ}:{REJ}"
  | .goaway g => some s!"G={g}"
  | .acceptNone => some "conn.A=none"
  | .acceptErr => some "conn.A=err:local:H3_ID_ERROR"
  | .shutdownOk => some "conn.S=ok"
  | .shutdownErr => some "conn.S=err:local:H3_ID_ERROR"
  | .idError => some "drv.W=err:local:H3_ID_ERROR"
  | .opened i => some s!"snd.R=req:{i}"
  | .remoteClosing => some "snd.R=err:rclosing"
  | _ => none

def renderToks (os : List Obs) : String :=
  let toks := os.filterMap tokenOf
  if toks.isEmpty then "-" else " ".intercalate toks

/-! ### the judge: RFC 9114 §5.2 (`H3.Spec.Goaway`) applied to an observed history -/

inductive JTok where
  | obs (o : Obs)
  /-- a stream refused with other codes than H3_REQUEST_REJECTED -/
  | badReject (i a b : Nat)
  | other

def parseJTok (t : String) : JTok :=
  if t.startsWith "conn.A=req:" then
    match (t.drop 11).toString.toNat? with
    | some i => .obs (.surfaced i)
    | none => .other
  else if t.startsWith "G=" then
    match (t.drop 2).toString.toNat? with
    | some g => .obs (.goaway g)
    | none => .other
  else if t.startsWith "R=" then
    match ((t.drop 2).toString.splitOn ":").map (·.toNat?) with
    | [some i, some a, some b] => if a == REJ && b == REJ then .obs (.rejected i) else .badReject i a b
    | _ => .other
  else .other

open H3.Spec.Goaway in
def explain (h : Hist) : Obs → String
  | .goaway g =>
    if !clientBidi g then s!"goaway-id-not-client-bidi({g})"
    else match h.sent.find? (fun p => decide (p < g)) with
      | some p => s!"goaway-id-increased({g}>{p})"
      | none => match h.surfaced.find? (fun i => decide (g ≤ i)) with
        | some i => s!"goaway-id-not-above-surfaced-request({g}<={i})"
        | none => "?"
  | .surfaced i => s!"surfaced-at-or-above-last-goaway({i}>={(lastSent h).getD 0})"
  | .rejected i =>
    match lastSent h with
    | none => s!"rejected-without-goaway({i})"
    | some g => s!"rejected-below-last-goaway({i}<{g})"
  | _ => "?"

open H3.Spec.Goaway in
def judge : Hist → List JTok → String
  | _, [] => "ok"
  | h, .other :: r => judge h r
  | _, .badReject i a b :: _ => s!"VIOLATES:refused-with-other-code({i}:{a}:{b})"
  | h, .obs o :: r => if okObs true h o then judge (h.push o) r else "VIOLATES:" ++ explain h o

def judgeObs (os : List Obs) : String := judge {} (os.map .obs)

/-- the client line from the scenario and the oracle alone. -/
structure CS where
  buf : List Nat := []
  proc : List Nat := []
  driving : Bool := false
  settings : Bool := false
  toks : List String := []

def csProcess (c : CS) : CS :=
  if !c.driving then c else
  let c1 := { c with proc := c.proc ++ c.buf, buf := [] }
  if (H3.Spec.Goaway.clientAfter c1.proc).err then
    { c1 with driving := false, toks := c1.toks ++ ["drv.W=err:local:H3_ID_ERROR"] }
  else c1

def csOp (c : CS) (op : String) : CS :=
  if op == "drv.W" then csProcess { c with driving := true }
  else if op.startsWith "snd.R:" then
    let t := if (H3.Spec.Goaway.clientAfter c.proc).stopped then "snd.R=err:rclosing"
      else if !(H3.Spec.Goaway.clientAfter c.proc).err then "snd.R=req:*" else "snd.R=*"
    { c with toks := c.toks ++ [t] }
  else
    match op.toList with
    | 's' :: r =>
      match (String.ofList r).splitOn ":" with
      | [_, h] =>
        match (parseHex h).bind parseGoawayFrame with
        | some id => csProcess { c with buf := c.buf ++ [id] }
        | none => c
      | _ => c
    | _ => c

def handle : List String → String
  | "goaway" :: role :: _cfg :: ops =>
    if role == "server" then
      let g := ops.foldl (fun g op => settle (4 * ops.length + 8) (opServer g op)) ({} : G)
      if g.unsupported then "unsupported ## ?" else
      -- model: its own history with the oracle's verdict on it; specification: the oracle's
      -- verdict on the observed history must be `ok`
      judgeObs g.obs ++ " " ++ renderToks g.obs ++ " pend=" ++ b01 (g.mode != 0) ++ " ## ok **"
    else if role == "client" then
      let g := ops.foldl opClient ({} : G)
      if g.unsupported then "unsupported ## ?" else
      let c := ops.foldl csOp ({} : CS)
      renderToks g.obs ++ " pend=" ++ b01 g.driving ++ " ## " ++
        (if c.toks.isEmpty then "-" else " ".intercalate c.toks) ++ " pend=*"
    else "bad-op"
  | "goawayj" :: toks => judge {} (toks.map parseJTok)
  | _ => "bad-op"

end H3.Drv.C08
