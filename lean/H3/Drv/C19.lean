import H3.Drv.Util
import H3.Model.Session
/-! Driver engine `wt` (C19): the oracle computed from the scenario line.  The session id is the
    stream id of the CONNECT request that `conn.WT` accepts (the bidirectional stream the peer
    opened most recently before it — the generator opens exactly one unanswered request before
    `conn.WT`); streams the server opens start with the WebTransport header carrying that id;
    incoming WebTransport streams report the session id the peer wrote and deliver exactly the
    bytes after the header; uni streams are surfaced only when the extension is enabled. -/
namespace H3.Drv.C19
open H3.Drv H3.Session

structure St where
  wtEnabled : Bool
  connect : Option Nat := none          -- stream id of the CONNECT request
  rx : List (Nat × List Nat) := []      -- bytes delivered per peer stream
  fins : List Nat := []
  lastBidi : Option Nat := none
  accepted : Bool := false
  nextBidi : Nat := 1                   -- next server-initiated bidi stream id
  nextUni : Nat := 15                   -- 3, 7, 11 are control / QPACK streams
  opened : List (Nat × List Nat) := []  -- streams the server opened: id, bytes expected on the wire
  out : List String := []
  pendingUni : List Nat := []           -- peer uni WT streams not yet accepted (arrival order)
  pendingBidi : List Nat := []

def numPrefix (s : String) : Option (Nat × String) :=
  let ds := s.toList.takeWhile Char.isDigit
  if ds.isEmpty then none else
  (String.ofList ds).toNat?.map (fun n => (n, String.ofList (s.toList.drop ds.length)))

def addRx (l : List (Nat × List Nat)) (sid : Nat) (b : List Nat) : List (Nat × List Nat) :=
  if l.any (·.1 == sid) then l.map (fun p => if p.1 == sid then (p.1, p.2 ++ b) else p) else l ++ [(sid, b)]

def rxOf (st : St) (sid : Nat) : List Nat := ((st.rx.find? (·.1 == sid)).map (·.2)).getD []

/-- split `type varint, session varint, payload` with the RFC 9000 parser -/
def parseHeader (bs : List Nat) : Option (Nat × Nat × List Nat) :=
  match Varint.rfcDecode bs with
  | some (ty, r1) => match Varint.rfcDecode r1 with
    | some (s, r2) => some (ty, s, r2)
    | none => none
  | none => none

def addOpened (l : List (Nat × List Nat)) (id : Nat) (b : List Nat) : List (Nat × List Nat) :=
  if l.any (·.1 == id) then l.map (fun p => if p.1 == id then (p.1, p.2 ++ b) else p) else l ++ [(id, b)]

def step (st : St) (op : String) : St :=
  match op.toList with
  | 'o' :: rest =>
    match (String.ofList rest).toNat? with
    | some sid =>
      if sid % 4 == 0 then
        (if st.accepted then { st with pendingBidi := st.pendingBidi ++ [sid] } else { st with lastBidi := some sid })
      else if sid % 4 == 2 && sid != 2 then { st with pendingUni := st.pendingUni ++ [sid] }
      else st
    | none => st
  | 's' :: rest =>
    match numPrefix (String.ofList rest) with
    | some (sid, r) => { st with rx := addRx st.rx sid ((parseHex ((r.drop 1).toString)).getD []) }
    | none => st
  | 'f' :: rest =>
    match (String.ofList rest).toNat? with
    | some sid => { st with fins := st.fins ++ [sid] }
    | none => st
  | _ =>
    match op.splitOn "." with
    | ["conn", "WT"] =>
      match st.lastBidi with
      | some c => { st with connect := some c, accepted := true,
                            out := st.out ++ [s!"conn.WT=ok:connect={c}:session={acceptedSessionId c}"] }
      | none => st
    | ["conn", "sid"] =>
      match st.connect with
      | some c => { st with out := st.out ++ [s!"conn.sid={acceptedSessionId c}"] }
      | none => st
    | ["conn", cmd] =>
      let parts := cmd.splitOn ":"
      let sess := match parts with
        | [_, n] => n.toNat?.getD (st.connect.getD 0)
        | _ => st.connect.getD 0
      match parts.headD "" with
      | "ob" =>
        let id := st.nextBidi
        { st with nextBidi := id + 4, opened := addOpened st.opened id (bidiHeader sess),
                  out := st.out ++ [s!"conn.ob=ok:{id}"] }
      | "ou" =>
        let id := st.nextUni
        { st with nextUni := id + 4, opened := addOpened st.opened id (uniHeader sess),
                  out := st.out ++ [s!"conn.ou=ok:{id}"] }
      | "ab" =>
        match st.pendingBidi with
        | b :: r =>
          match parseHeader (rxOf st b) with
          | some (_, s, _) => { st with pendingBidi := r, out := st.out ++ [s!"conn.ab=bidi:session={s}:stream={b}"] }
          | none => st
        | [] => st
      | "au" =>
        if !st.wtEnabled then { st with out := st.out ++ ["conn.au=pending"] } else
        match st.pendingUni with
        | u :: r =>
          match parseHeader (rxOf st u) with
          | some (_, s, _) => { st with pendingUni := r, out := st.out ++ [s!"conn.au=uni:session={s}:stream={u}"] }
          | none => st
        | [] => st
      | _ => st
    | [task, cmd] =>
      match task.toList with
      | 'w' :: ds =>
        match (String.ofList ds).toNat? with
        | some id =>
          match cmd.splitOn ":" with
          | ["wr", h] => { st with opened := addOpened st.opened id ((parseHex h).getD []),
                                   out := st.out ++ [s!"w{id}.wr=ok"] }
          | ["ra"] =>
            match parseHeader (rxOf st id) with
            | some (_, _, payload) => { st with out := st.out ++ [s!"w{id}.ra=data:{toHex payload}:end"] }
            | none => st
          | _ => st
        | none => st
      | _ => st
    | _ => st

def handle : List String → String
  | "wt" :: _ :: cfg :: ops =>
    let enabled := (cfg.splitOn ",").contains "wt=1"
    let st := ops.foldl step { wtEnabled := enabled }
    let sorted := st.opened.foldl (fun acc p =>
      (acc.takeWhile (·.1 < p.1)) ++ [p] ++ (acc.dropWhile (·.1 < p.1))) []
    let tx := sorted.map (fun (id, b) => s!"{id}:tx={toHex b}")
    let out := " ".intercalate (st.out ++ tx)
    out ++ " ## " ++ out
  | _ => "bad-op"

end H3.Drv.C19
