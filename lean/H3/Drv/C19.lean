import H3.Drv.Util
import H3.Model.Session
import H3.Model.Datagram
/-! Driver engine `wt` (C19, and the datagram part of C18 over the simulated transport).

    The scenario line is interpreted twice, token by token:

    * the **model** half runs the executable models of the code: `FS.pollNext` / `UniAccept.resolve`
      for the stream headers, `Session.readLim` over `Session.pollRead` for reads through the
      `AsyncRead` impls with the caller's buffer sizes, `WriteBuf.WB.step` / `Session.sendSlice` for
      what the transport accepts under the write credit it has, `Datagram.encode` / `decode`;
    * the **spec** half is computed from the property text only: the session id is the stream id of
      the CONNECT request that `conn.WT` accepts; a stream the server opens carries the stream type
      (0x41 / 0x54) and that id as RFC 9000 varints, then exactly the bytes handed to the write calls,
      in order (a flow-controlled byte pipe: as many of them as the peer has given credit for); an
      incoming stream reports the id the peer wrote and delivers exactly the bytes behind the header,
      the end only behind the last of them; uni streams are surfaced only when the extension is on; a
      datagram carries varint(CONNECT id / 4) then the payload, a truncated or too large quarter id
      is H3_DATAGRAM_ERROR.  Where the spec has no opinion (how many bytes each call moved) it
      writes `*`.

    Tasks run their commands one after the other; a command that has to wait (for data, for write
    credit, for a datagram) blocks its task, later commands of the task queue behind it.

    **Accepting incoming streams.**  The model half keeps `pending_recv_streams` and the `Vec`
    `wt_uni_streams` (`H3.Session.Accepted`): every `poll_accept_recv` (in `accept_uni`, in the first
    phase of `accept_bi`, in `accept`) resolves the pending uni streams in the order they were
    opened and pushes the WebTransport ones; `accept_uni` pops the entry pushed LAST.  The property
    has no opinion on the ORDER in which buffered streams are surfaced, so the specification is a
    predicate over the observed answers: engine `wtj <role> <cfg> <ops> @@ <observed tokens>` (the
    judge) interprets the line once more, lets every `accept_uni` surface the stream the
    implementation says it surfaced — provided that stream is a peer-opened WebTransport uni stream
    with a complete header that has not been surfaced before — and demands of it the session id ITS
    header carries (RFC 9000 parser over the stream's own bytes) and, in the reads that follow, ITS
    OWN payload; the verdict (`ok` / `BAD@<position>:<expected>`) is prefixed to the implementation's
    tokens by the projection.  Engine `wt` prints the verdict on the model's own answers, the model
    tokens, and `## ok **`.  A stream that ends inside its header has no session id and no payload:
    a uni stream is then never surfaced (the accept goes on waiting for another one), `accept_bi`
    must answer an error or `None` but never a stream; after `accept_bi` / `accept_uni` has answered a
    connection error every later accept answers an error; whether and with which code the
    connection is closed then is C04's / C06's subject (the `closed=[…]` token may be absent).

    **Second audit (readings R-19a, finding D-19b).**  What the first bytes of a client-initiated bidi stream
    ARE is decided by `classify` (RFC 9000 varints + RFC 9114 §7.1 framing, no model code): the 0x41 signal at
    the very first bytes = a WebTransport stream (session id and payload offset from there); the signal behind
    complete frames of unknown type = must be refused (the draft: H3_FRAME_ERROR) — h3 surfaces it (`#D-19b`,
    spec alternative `?D-19b:…`, verdict `KNOWN:D-19b` when nothing else departs; in judge mode the interpreter
    follows the implementation at this fork, `abObs`); a frame of a type HTTP/3 defines = a request
    (`conn.ab=req:<b>` or an error, never a stream).  The CONNECT request is the FIRST bidi stream not yet handed
    over when `conn.WT` runs (`pendingBidi` is a FIFO that `conn.A`, `conn.WT` and `accept_bi` take from).  The
    receive side of a bidi stream the server opened is a `Peer` with `payOff = 0`: every byte is payload.
    `open_bi` / `open_uni` wait for stream credit (`uc=` / `bc=`, `gu` / `gb`).  An accept left `pending` at the end
    of the line is expected only if the RFC parsers find no complete header it could surface (`run`, `pendS`):
    "surfaced once the header is there" is not taken from the model. -/
namespace H3.Drv.C19
open H3.Drv H3.Session
open H3.FS (Ev)
open H3.WriteBuf (WB)

/-- a stream the peer opened -/
structure Peer where
  id : Nat
  /-- before the accept: every event delivered so far; afterwards: what the transport still has -/
  evs : List Ev := []
  /-- the `BufRecvStream` of the accepted stream -/
  rd : Option Rd := none
  /-- spec half: every byte delivered before the end; how the peer ended the stream (`some none` =
      FIN, `some (some c)` = RESET); payload bytes handed to the application so far -/
  bytes : List Nat := []
  ended : Option (Option Nat) := none
  taken : Nat := 0
  /-- spec half: where the payload starts in `bytes` — fixed by the RFC parser when `accept_bi` surfaces
      the stream; `some 0` for the receive side of a bidi stream the server opened itself (no header in
      that direction); `none` = behind the two varints of the uni header -/
  payOff : Option Nat := none

/-- the send side of a stream h3 writes on -/
structure Send where
  id : Nat
  /-- model half: write credit (`none` = unlimited), bytes the transport accepted -/
  credit : Option Nat
  wire : List Nat := []
  /-- spec half: a byte pipe with flow control -/
  sCredit : Option Nat
  sQueue : List Nat := []
  sWire : List Nat := []
  fin : Bool := false
  rst : Option Nat := none
  /-- the peer sent STOP_SENDING -/
  stopped : Option Nat := none
  /-- first `stop_sending` code h3 issued on the receive side of this stream -/
  stop : Option Nat := none
  shown : Bool := false

inductive Job where
  /-- a `WriteBuf` being handed to the transport: stream header (`ob`/`ou`) or `send_data` (`sd`) -/
  | wbuf (op : String) (sid : Nat) (w : WB) (okText : String)
  /-- a byte slice being handed over by repeated `poll_write` / `poll_send` -/
  | slice (op : String) (sid : Nat) (left : List Nat) (counts : List Nat)
  /-- a read loop through `AsyncRead::poll_read` -/
  | read (op : String) (sid : Nat) (cyc : List Nat) (pos : Nat) (calls : Option Nat)
      (acc : List Nat) (counts : List Nat)
  /-- a FILL-mode read loop (`rff` / `rtf`): every caller buffer of the cycle is filled to its end by as many
      `poll_read` calls as that takes, each asking for what is left of it (`room`; 0 = take the next buffer) -/
  | readFill (op : String) (sid : Nat) (cyc : List Nat) (idx room : Nat) (calls : Option Nat)
      (acc : List Nat) (counts : List Nat)
  /-- `poll_data` until the end -/
  | readAll (sid : Nat) (acc : List Nat)
  | dgr
  /-- `accept_uni` with the extension off -/
  | forever (op : String)
  /-- `accept_uni().await`: polled again whenever the transport has something new -/
  | au
  /-- `accept_bi().await`: first `poll_accept_request_stream` (which also runs `poll_accept_recv`)
      until the transport hands over a bidi stream, then `poll_next` on that stream (`hold`) -/
  | ab (hold : Option Nat)
  /-- `open_bi` / `open_uni` waiting for stream credit (`poll_open_bidi` / `poll_open_send` answer `Pending`) -/
  | open_ (op : String) (sess : Nat)

def Job.op : Job → String
  | .wbuf op .. => op
  | .slice op .. => op
  | .read op .. => op
  | .readFill op .. => op
  | .readAll .. => "ra"
  | .dgr => "dgr"
  | .forever op => op
  | .au => "au"
  | .ab _ => "ab"
  | .open_ op _ => op

structure St where
  wtEnabled : Bool
  wc : Option Nat := none
  connect : Option Nat := none
  /-- stream credit left for streams the server opens (`none` = unlimited; cfg `uc=` / `bc=`, peer ops `gu` / `gb`;
      the three setup streams have taken theirs from `uc`) -/
  uc : Option Nat := none
  bc : Option Nat := none
  nextBidi : Nat := 1
  nextUni : Nat := 15
  peers : List Peer := []
  sends : List Send := []
  /-- `pending_recv_streams`: peer uni streams whose header is not complete yet, in the order opened -/
  uniPending : List Nat := []
  /-- `accepted_streams.wt_uni_streams` -/
  wtStack : List WtUni := []
  /-- the peer's bidi streams the transport has not handed over yet, in the order opened: `accept()` (`conn.A`,
      and inside `conn.WT`) and `accept_bi` each take the first -/
  pendingBidi : List Nat := []
  /-- judge mode: the streams the implementation's `accept_uni` calls surfaced, in order -/
  choices : Option (List Nat) := none
  /-- judge mode: the answers of the implementation's `accept_bi` calls, in order; how many of them have been
      matched so far.  Used at ONE place: where the specification allows two continuations (D-19b: an error, or
      the recorded leniency) the judge follows the one the implementation took. -/
  abObs : List String := []
  abN : Nat := 0
  out : List String := []
  /-- per position the acceptable tokens (`*` = any run of characters; `?absent` = the token may be missing) -/
  spec : List (List String) := []
  blocked : List (String × Job) := []
  queue : List (String × String) := []
  dgRx : List (List Nat) := []
  dgTx : List (List Nat) := []
  dgTxSpec : List (List Nat) := []
  /-- the first connection error h3 raised itself: name and code (sticky) -/
  localErr : Option (String × Nat) := none
  /-- the code the connection was closed with (at the first accept after `localErr` was set) -/
  closed : Option Nat := none
  /-- the peer closed the connection / it timed out (as `render_conn_err` prints it) -/
  connErr : Option String := none
  /-- the stream tasks that exist (`w<id>` once the stream is opened / accepted, `w<id>s` after `sp`) -/
  tasks : List String := []

def numPrefix (s : String) : Option (Nat × String) :=
  let ds := s.toList.takeWhile Char.isDigit
  if ds.isEmpty then none else
  (String.ofList ds).toNat?.map (fun n => (n, String.ofList (s.toList.drop ds.length)))

/-- split `type varint, session varint, payload` with the RFC 9000 parser -/
def parseHeader (bs : List Nat) : Option (Nat × Nat × List Nat) :=
  match Varint.rfcDecode bs with
  | some (ty, r1) => match Varint.rfcDecode r1 with
    | some (s, r2) => some (ty, s, r2)
    | none => none
  | none => none

def St.log (st : St) (m s : String) : St :=
  { st with out := st.out ++ [m], spec := st.spec ++ [[s]],
            abN := if m.startsWith "conn.ab=" then st.abN + 1 else st.abN }
def St.log1 (st : St) (m : String) : St := st.log m m
def St.logAlt (st : St) (m : String) (alts : List String) : St :=
  { st with out := st.out ++ [m], spec := st.spec ++ [alts],
            abN := if m.startsWith "conn.ab=" then st.abN + 1 else st.abN }

def getPeer (st : St) (id : Nat) : Option Peer := st.peers.find? (·.id == id)
def updPeer (st : St) (id : Nat) (f : Peer → Peer) : St :=
  { st with peers := st.peers.map (fun p => if p.id == id then f p else p) }
def getSend (st : St) (id : Nat) : Option Send := st.sends.find? (·.id == id)
def updSend (st : St) (id : Nat) (f : Send → Send) : St :=
  { st with sends := st.sends.map (fun p => if p.id == id then f p else p) }

/-- bytes the script delivers before the stream ends, and how it ends -/
def bytesBefore : List Ev → List Nat
  | [] => []
  | .chunk b :: r => b ++ bytesBefore r
  | .pend :: r => bytesBefore r
  | .fin :: _ => []
  | .reset _ :: _ => []

def fromEnd : List Ev → List Ev
  | [] => []
  | .chunk _ :: r => fromEnd r
  | .pend :: r => fromEnd r
  | e :: r => e :: r

def joinNat (l : List Nat) : String := if l.isEmpty then "-" else ",".intercalate (l.map toString)

/-- the spec's byte pipe: as many queued bytes as there is credit for go out, in order -/
def Send.pipe (s : Send) : Send :=
  let n := match s.sCredit with
    | none => s.sQueue.length
    | some c => min c s.sQueue.length
  { s with sWire := s.sWire ++ s.sQueue.take n, sQueue := s.sQueue.drop n,
           sCredit := s.sCredit.map (· - n) }

/-- the transport's side of `poll_send` / `poll_ready` on a `WriteBuf` under write credit: it takes
    `min(chunk, credit)` bytes per call and answers `Pending` at credit 0 -/
def pumpWB : Nat → Option Nat → WB → List Nat × Option Nat × WB
  | 0, c, w => ([], c, w)
  | f+1, c, w =>
    if w.remaining = 0 then ([], c, w) else
    let k := match c with
      | none => w.chunk.length
      | some n => n
    if k = 0 then ([], c, w) else
    match w.step k with
    | none => ([], c, w)
    | some (o, w') =>
      let r := pumpWB f (c.map (· - o.length)) w'
      (o ++ r.1, r.2.1, r.2.2)

def expand (cyc : List Nat) (pos n : Nat) : List Nat :=
  (List.range n).map (fun i => cyc.getD ((pos + i) % cyc.length) 4096)

def hdrPayload (p : Peer) : List Nat :=
  match p.payOff with
  | some k => p.bytes.drop k
  | none => ((parseHeader p.bytes).map (·.2.2)).getD []

/-- what the first bytes of a client-initiated bidi stream are, by the RFC 9000 / RFC 9114 §7.1 parsers alone
    (no model code): the WebTransport signal 0x41 + session id at the VERY FIRST bytes (`wt`: the stream is a
    WebTransport stream, payload from offset `off`); the same behind one or more complete frames of types
    HTTP/3 tells a receiver to ignore (`wtLate`: draft-ietf-webtrans-http3 §4.2 — "Endpoints MUST NOT send
    WEBTRANSPORT_STREAM as a frame type on HTTP/3 streams other than the very first bytes of a request stream.
    Receiving this frame type in any other circumstances MUST be treated as a connection error of type
    H3_FRAME_ERROR"; reading R-03b / R-19a, finding D-19b); a frame of a type HTTP/3 defines (`other`: a
    request, C03's subject); not decided yet. -/
inductive BidiClass where
  | wt (sess off : Nat)
  | wtLate (sess off : Nat)
  | other (ty : Nat)
  | incomplete
deriving Repr, DecidableEq

/-- the frame types RFC 9114 (§7.2, §11.2.1 incl. the reserved HTTP/2 types) and the WebTransport draft define -/
def knownType (t : Nat) : Bool := t ≤ 9 || t == 0x0d || t == 0x41

def classify : Nat → Nat → Bool → List Nat → BidiClass
  | 0, _, _, _ => .incomplete
  | f+1, off, late, bs =>
    match Varint.rfcDecode bs with
    | none => .incomplete
    | some (ty, r1) =>
      if ty == 0x41 then
        match Varint.rfcDecode r1 with
        | none => .incomplete
        | some (s, r2) =>
          if late then .wtLate s (off + (bs.length - r2.length)) else .wt s (off + (bs.length - r2.length))
      else if knownType ty then .other ty
      else
        match Varint.rfcDecode r1 with
        | none => .incomplete
        | some (len, r2) =>
          if r2.length < len then .incomplete
          else classify f (off + (bs.length - r2.length) + len) true (r2.drop len)

def Peer.bidiClass (p : Peer) : BidiClass := classify (p.bytes.length + 1) 0 false p.bytes

def endText : Option (Option Nat) → String
  | some none => "end"
  | some (some c) => s!"err:rterm:{c}"
  | none => "open"

def newSend (st : St) (id : Nat) (shown : Bool) : St :=
  if (getSend st id).isSome then st
  else { st with sends := st.sends ++ [{ id := id, credit := st.wc, sCredit := st.wc, shown := shown }] }

def block (st : St) (task : String) (j : Job) : St := { st with blocked := st.blocked ++ [(task, j)] }

/-- one `poll_accept_recv` as far as the peer's WebTransport uni streams are concerned
    (`H3.Session.Accepted.pass` over the events delivered so far) -/
def pollRecv (st : St) : St :=
  let pend := st.uniPending.filterMap (fun u => (getPeer st u).map (fun p => ({ stream := u, evs := p.evs } : UniIn)))
  let a := Accepted.pass st.wtEnabled { pending := pend, wt := st.wtStack }
  { st with uniPending := a.pending.map (·.stream), wtStack := a.wt }

/-- h3 raises a connection error itself: the first one sticks -/
def St.raise (st : St) (name : String) (code : Nat) : St :=
  { st with localErr := some (st.localErr.getD (name, code)) }

/-- the next accept after a local connection error closes the connection with its code -/
def St.closeWith (st : St) (code : Nat) : St := { st with closed := some (st.closed.getD code) }

/-- `accept_uni`, once `poll_accept_recv` has run: the model pops the entry pushed last; the judge
    surfaces the stream the implementation surfaced, if that is one of the buffered ones -/
def auTry (st : St) (task : String) : St :=
  let st := pollRecv st
  let pick : Option (WtUni × List WtUni × Option (List Nat) × Option Nat) :=
    match st.choices with
    | some (c :: cs) =>
      match st.wtStack.find? (·.stream == c) with
      | some e => some (e, st.wtStack.filter (·.stream != c), some cs, none)
      | none => (popLast st.wtStack).map (fun (e, r) => (e, r, some cs, some c))
    | ch => (popLast st.wtStack).map (fun (e, r) => (e, r, ch, none))
  match pick with
  | none =>
    -- nothing buffered: the call waits; a choice the implementation made here is answered below,
    -- when (if ever) the judge has a stream to surface
    block st task .au
  | some (e, rest, ch, bad) =>
    let u := e.stream
    let st := updPeer { st with wtStack := rest, choices := ch } u (fun p => { p with rd := some e.rd, evs := e.script })
    let st := newSend st u true
    let st := { st with tasks := st.tasks ++ [s!"w{u}"] }
    let sp : String :=
      match bad with
      | some c => s!"conn.au=!stream-{c}-is-not-a-buffered-WebTransport-stream"
      | none =>
        match (getPeer st u).bind (fun p => parseHeader p.bytes) with
        | some (ty, sess, _) =>
          if ty == 0x54 then s!"conn.au=uni:session={sess}:stream={u}"
          else s!"conn.au=!stream-{u}-has-type-{ty}"
        | none => s!"conn.au=!stream-{u}-has-no-complete-header"
    st.log s!"conn.au=uni:session={e.session}:stream={u}" sp

/-- second phase of `accept_bi`: the first frame of the stream it took from the transport -/
def abHold (st : St) (task : String) (b : Nat) : St :=
  match getPeer st b with
  | none => st
  | some p =>
    match H3.FS.pollNext H3.FS.frameDec {} p.evs with
    | (.frame (.webTransport x), s, rest) =>
      -- the specification's view comes from the RFC parsers over the stream's own bytes
      let cls := p.bidiClass
      -- judge mode, D-19b: an implementation that refuses the late signal (what the draft demands) has raised a
      -- connection error, H3_FRAME_ERROR; the judge follows it
      if (match cls with | .wtLate .. => true | _ => false) && ((st.abObs.getD st.abN "").startsWith "conn.ab=err") then
        (st.raise "H3_FRAME_ERROR" 262).log "conn.ab=err:conn:local:H3_FRAME_ERROR" "conn.ab=err:*"
      else
      let off : Nat := match cls with
        | .wt _ o => o
        | .wtLate _ o => o
        | _ => p.bytes.length
      let st := updPeer st b (fun p => { p with rd := some (Rd.ofFS s), evs := rest, payOff := some off })
      let st := updSend st b (fun s => { s with shown := true })
      let st := { st with tasks := st.tasks ++ [s!"w{b}"] }
      match cls with
      | .wt sess _ => st.log s!"conn.ab=bidi:session={x}:stream={b}" s!"conn.ab=bidi:session={sess}:stream={b}"
      -- D-19b: the signal is accepted behind skipped frames of unknown type; the draft demands H3_FRAME_ERROR.  If it
      -- is surfaced all the same (known finding), the id and the payload are those behind THAT 0x41.
      | .wtLate sess _ =>
        st.logAlt s!"conn.ab=bidi:session={x}:stream={b}#D-19b"
          ["conn.ab=err:*", s!"?D-19b:conn.ab=bidi:session={sess}:stream={b}"]
      | .other ty => st.log s!"conn.ab=bidi:session={x}:stream={b}" s!"conn.ab=!stream-{b}-starts-with-frame-type-{ty}"
      | .incomplete => st.log s!"conn.ab=bidi:session={x}:stream={b}" s!"conn.ab=!stream-{b}-has-no-complete-header"
    -- a request (`AcceptedBi::Request`): `accept_with_frame(HEADERS)` + `resolve()`; what the request API does
    -- with it is C03's subject, here: it is never handed out as a WebTransport stream
    | (.frame (.headers _), _, _) =>
      match p.bidiClass with
      | .other _ => st.logAlt s!"conn.ab=req:{b}" [s!"conn.ab=req:{b}", "conn.ab=err:*"]
      | _ => st.log s!"conn.ab=req:{b}" s!"conn.ab=!stream-{b}-is-not-a-request"
    | (.pending, _, _) => block st task (.ab (some b))
    -- the stream ended before its first byte: `Ok(None)`
    | (.none, _, _) => st.logAlt "conn.ab=none" ["conn.ab=none", "conn.ab=err:*"]
    -- FIN inside the header: `FrameStreamError::UnexpectedEnd`, a connection error H3_FRAME_ERROR
    | (.errEnd, _, _) => (st.raise "H3_FRAME_ERROR" 262).log "conn.ab=err:conn:local:H3_FRAME_ERROR" "conn.ab=err:*"
    -- RESET inside the header
    | (.errQuic c, _, _) => st.logAlt s!"conn.ab=err:rterm:{c}" ["conn.ab=err:*", "conn.ab=none"]
    -- requests and malformed frames that come in through `accept_bi` are C03's / C02's subject
    | _ => st

/-- A closed connection (`C<code>` / `T`) reaches a stream read as the transport's error answer once h3's own
    buffer is empty (what the transport still had queued is lost): the script is replaced by the sticky
    error event `reset CONN`, rendered `err:conn` (`CONN` = 2^62 is no QUIC error code).  Added for C06. -/
def CONN : Nat := 2^62

def evsOf (st : St) (p : Peer) : List Ev := if st.connErr.isSome then [.reset CONN] else p.evs

def errText (c : Nat) : String := if c == CONN then "err:conn" else s!"err:rterm:{c}"

/-- the calls of a FILL-mode read loop: each asks `Session.pollRead` (through `readLim` with a single size)
    for what is left of the current caller buffer; a full buffer is followed by the next size of the cycle.
    Answer: the pieces of the completed calls, how the loop ended, and where it stands. -/
def fillLoop : Nat → List Nat → Nat → Nat → Option Nat → Rd → List Ev → List (List Nat) →
    List (List Nat) × RdEnd × Rd × List Ev × Nat × Nat × Option Nat
  | 0, _, idx, room, calls, s, sc, ps => (ps, .open_, s, sc, idx, room, calls)
  | fuel + 1, cyc, idx, room, calls, s, sc, ps =>
    if calls == some 0 then (ps, .more, s, sc, idx, room, calls)
    else
      let idx1 := if room = 0 then idx + 1 else idx
      let room1 := if room = 0 then max 1 (cyc.getD (idx % cyc.length) 4096) else room
      let r := readLim [room1] s sc
      match r.fin, r.pieces with
      | .more, [d] => fillLoop fuel cyc idx1 (room1 - d.length) (calls.map (· - 1)) r.s r.script (ps ++ [d])
      | .more, _ => (ps, .open_, r.s, r.script, idx1, room1, calls)
      | e, _ => (ps, e, r.s, r.script, idx1, room1, calls)

/-- the spec half learns that bytes were handed to a write call -/
def handSpec (st : St) (sid : Nat) (bs : List Nat) : St :=
  updSend st sid (fun s => if s.stopped.isSome then s else ({ s with sQueue := s.sQueue ++ bs }).pipe)

/-- a `WriteBuf` (stream header, DATA frame) on its way to the transport -/
def runWbuf (st : St) (task op : String) (sid : Nat) (w : WB) (okText : String) : St :=
  match getSend st sid with
  | none => st
  | some s =>
    match s.stopped with
    | some c => st.log1 s!"{task}.{op}=err:rterm:{c}"
    | none =>
      let r := pumpWB (w.remaining + 1) s.credit w
      let st := updSend st sid (fun s => { s with wire := s.wire ++ r.1, credit := r.2.1 })
      if r.2.2.remaining = 0 then
        let st := if op == "ob" || op == "ou" then { st with tasks := st.tasks ++ [s!"w{sid}"] } else st
        st.log1 s!"{task}.{op}={okText}"
      else block st task (.wbuf op sid r.2.2 okText)

/-- let a job make progress: it completes (one trace entry) or blocks its task again -/
def runJob (st : St) (task : String) (job : Job) : St :=
  match job with
  | .forever op => block st task (.forever op)
  | .open_ op sess =>
    -- `poll_open_bidi` / `poll_open_send`: `Pending` while the peer has granted no stream credit
    if (if op == "ob" then st.bc else st.uc) == some 0 then block st task (.open_ op sess) else
    if op == "ob" then
      let id := st.nextBidi
      let st := newSend { st with nextBidi := id + 4, bc := st.bc.map (· - 1) } id true
      -- the receive side of the new stream: no header in that direction, every byte is payload
      let st := { st with peers := st.peers ++ [{ id := id, rd := some {}, payOff := some 0 }] }
      let st := handSpec st id (bidiHeader sess)
      match H3.WriteBuf.fromBidiHeader sess with
      | some w => runWbuf st task "ob" id w s!"ok:{id}"
      | none => st.log1 "conn.ob=panic"
    else
      let id := st.nextUni
      let st := newSend { st with nextUni := id + 4, uc := st.uc.map (· - 1) } id true
      let st := handSpec st id (uniHeader sess)
      match H3.WriteBuf.fromUniHeader (.webTransportUni sess) with
      | some w => runWbuf st task "ou" id w s!"ok:{id}"
      | none => st.log1 "conn.ou=panic"
  | .au =>
    if let some e := st.connErr then st.log s!"conn.au=err:{e}" "conn.au=err:*" else
    match st.localErr with
    | some (n, c) =>
      -- the datagram error is C18's (code demanded); for the others C19 only says "an error"
      if c == 51 then (st.closeWith c).log1 s!"conn.au=err:local:{n}"
      else (st.closeWith c).log s!"conn.au=err:local:{n}" "conn.au=err:*"
    | none => if !st.wtEnabled then block (pollRecv st) task (.forever "au") else auTry st task
  | .ab hold =>
    match hold with
    | some b => abHold st task b
    | none =>
      if let some e := st.connErr then st.log s!"conn.ab=err:conn:{e}" "conn.ab=err:*" else
      match st.localErr with
      | some (n, c) =>
        if c == 51 then (st.closeWith c).log1 s!"conn.ab=err:conn:local:{n}"
        else (st.closeWith c).log s!"conn.ab=err:conn:local:{n}" "conn.ab=err:*"
      | none =>
        let st := pollRecv st
        match st.pendingBidi with
        | b :: r => abHold { st with pendingBidi := r } task b
        | [] => block st task (.ab none)
  | .dgr =>
    -- the transport reports its failure before it looks at the queue; the spec has no opinion on which error
    if let some e := st.connErr then st.log s!"{task}.dgr=err:conn:{e}" s!"{task}.dgr=err:*" else
    match st.dgRx with
    | [] => block st task .dgr
    | d :: rest =>
      let st := { st with dgRx := rest }
      let m := match H3.Datagram.decode d with
        | .ok sid p => (s!"dg:{sid}:{toHex p}", false)
        | .datagramError => ("err:conn:local:H3_DATAGRAM_ERROR", true)
      let s := match Varint.rfcDecode d with
        | none => "err:conn:local:H3_DATAGRAM_ERROR"
        | some (q, p) => if q * 4 > 2^62 - 1 then "err:conn:local:H3_DATAGRAM_ERROR" else s!"dg:{q * 4}:{toHex p}"
      (if m.2 then st.raise "H3_DATAGRAM_ERROR" 51 else st).log s!"{task}.dgr={m.1}" s!"{task}.dgr={s}"
  | .wbuf op sid w okText => runWbuf st task op sid w okText
  | .slice op sid left counts =>
    match getSend st sid with
    | none => st
    | some s =>
      let cnt := if op == "wr" then "" else s!":n={joinNat counts}"
      -- nothing (left) to hand over: no call reaches the transport
      if left.isEmpty then st.log s!"{task}.{op}=ok{cnt}" (if op == "wr" then s!"{task}.{op}=ok" else s!"{task}.{op}=ok:n=*") else
      match s.stopped with
      | some c => st.log s!"{task}.{op}=err:rterm:{c}{cnt}" (if op == "wr" then s!"{task}.{op}=err:rterm:{c}" else s!"{task}.{op}=err:rterm:{c}:n=*")
      | none =>
          let k := match s.credit with
            | none => left.length
            | some n => n
          let r := sendSlice left [k]
          let counts := if r.1.isEmpty then counts else counts ++ [r.1.length]
          let st := updSend st sid (fun s => { s with wire := s.wire ++ r.1, credit := s.credit.map (· - r.1.length) })
          if r.2.isEmpty then
            let cnt := if op == "wr" then "" else s!":n={joinNat counts}"
            st.log s!"{task}.{op}=ok{cnt}" (if op == "wr" then s!"{task}.{op}=ok" else s!"{task}.{op}=ok:n=*")
          else block st task (.slice op sid r.2 counts)
  | .read op sid cyc pos calls acc counts =>
    match getPeer st sid with
    | none => st
    | some p =>
      match p.rd with
      | none => st
      | some rd =>
        let evs := evsOf st p
        let avail := rd.buf.flatten.length + (bytesBefore evs).length
        let n := match calls with
          | none => avail + 2
          | some m => min m (avail + 2)
        let r := readLim (expand cyc pos n) rd evs
        let acc := acc ++ r.pieces.flatten
        let counts := counts ++ r.pieces.map List.length
        let st := updPeer st sid (fun p => { p with rd := some r.s, evs := r.script })
        let finish (st : St) (endM : String) (more : Bool) : St :=
          let pay := (hdrPayload p).drop p.taken
          let sdata := if more then pay.take acc.length else pay
          let send := if more then "more" else endText p.ended
          (updPeer st sid (fun p => { p with taken := p.taken + sdata.length })).log
            s!"{task}.{op}=data:{toHex acc}:n={joinNat counts}:{endM}"
            (if endM == "err:conn" then s!"{task}.{op}=data:*:n=*:err:conn"
             else s!"{task}.{op}=data:{toHex sdata}:n=*:{send}")
        match r.fin with
        | .eof => finish st "end" false
        | .err c => finish st (errText c) false
        | .more => finish st "more" true
        | .open_ =>
          block st task (.read op sid cyc (pos + r.pieces.length) (calls.map (· - r.pieces.length)) acc counts)
  | .readFill op sid cyc idx room calls acc counts =>
    match getPeer st sid with
    | none => st
    | some p =>
      match p.rd with
      | none => st
      | some rd =>
        let evs := evsOf st p
        let avail := rd.buf.flatten.length + (bytesBefore evs).length
        let (ps, fin, rd', evs', idx', room', calls') := fillLoop (avail + 2) cyc idx room calls rd evs []
        let acc := acc ++ ps.flatten
        let counts := counts ++ ps.map List.length
        let st := updPeer st sid (fun p => { p with rd := some rd', evs := evs' })
        let finish (st : St) (endM : String) (more : Bool) : St :=
          let pay := (hdrPayload p).drop p.taken
          let sdata := if more then pay.take acc.length else pay
          let send := if more then "more" else endText p.ended
          (updPeer st sid (fun p => { p with taken := p.taken + sdata.length })).log
            s!"{task}.{op}=data:{toHex acc}:n={joinNat counts}:{endM}"
            (if endM == "err:conn" then s!"{task}.{op}=data:*:n=*:err:conn"
             else s!"{task}.{op}=data:{toHex sdata}:n=*:{send}")
        match fin with
        | .eof => finish st "end" false
        | .err c => finish st (errText c) false
        | .more => finish st "more" true
        | .open_ => block st task (.readFill op sid cyc idx' room' calls' acc counts)
  | .readAll sid acc =>
    match getPeer st sid with
    | none => st
    | some p =>
      match p.rd with
      | none => st
      | some rd =>
        let evs := evsOf st p
        let acc := acc ++ readAll rd.buf [bytesBefore evs]
        let rest := fromEnd evs
        let st := updPeer st sid (fun p => { p with rd := some { rd with buf := [] }, evs := rest })
        let finish (st : St) (endM : String) : St :=
          let pay := (hdrPayload p).drop p.taken
          (updPeer st sid (fun p => { p with taken := p.taken + pay.length })).log
            s!"{task}.ra=data:{toHex acc}:{endM}"
            (if endM == "err:conn" then s!"{task}.ra=data:*:err:conn" else s!"{task}.ra=data:{toHex pay}:{endText p.ended}")
        match rest with
        | .fin :: _ => finish st "end"
        | .reset c :: _ => finish st (errText c)
        | _ => block st task (.readAll sid acc)

def taskSid (task : String) : Option Nat :=
  match task.toList with
  | 'w' :: r => (String.ofList (r.takeWhile Char.isDigit)).toNat?
  | _ => none

def parseSizes (arg : String) : List Nat × Option Nat :=
  let parts := arg.splitOn ":"
  let sizes := ((parts.headD "").splitOn ",").filterMap String.toNat?
  let sizes := if sizes.isEmpty then [4096] else sizes
  (sizes, (parts.getD 1 "").toNat?)

/-- a task starts a command -/
def exec (st : St) (task cmd : String) : St :=
  let parts := cmd.splitOn ":"
  let op := parts.headD ""
  let arg := ":".intercalate (parts.drop 1)
  if task == "conn" then
    match op with
    | "WT" =>
      let st := pollRecv st
      -- `accept()` takes the FIRST bidi stream the transport has not handed over yet: that is the CONNECT request
      match st.pendingBidi with
      | c :: r => ({ st with connect := some c, pendingBidi := r }).log
          s!"conn.WT=ok:connect={c}:session={acceptedSessionId c}" s!"conn.WT=ok:connect={c}:session={c}"
      -- no request to accept: `accept()` waits (the generators always deliver the CONNECT request first)
      | [] => block st task (.forever "WT")
    | "sid" =>
      match st.connect with
      | some c => st.log s!"conn.sid={acceptedSessionId c}" s!"conn.sid={c}"
      | none => st
    | "ob" => runJob st task (.open_ "ob" (arg.toNat?.getD (st.connect.getD 0)))
    | "ou" => runJob st task (.open_ "ou" (arg.toNat?.getD (st.connect.getD 0)))
    | "ab" => runJob st task (.ab none)
    | "au" => runJob st task .au
    -- `accept()` (also inside `conn.WT`) runs `poll_control`, hence `poll_accept_recv`
    | "A" => let st := pollRecv st; { st with pendingBidi := st.pendingBidi.drop 1 }
    | "dgs" =>
      -- the sender's answer names the `SendDatagramError` variant (C18): a transport connection error goes through
      -- `handle_quic_stream_error` like every other handle's, so the answer is the connection's FIRST error under the name
      -- the connection reports it (C05; D-18b repaired): the error h3 raised itself if there is one, else the transport's
      if let some e := st.connErr then
        let m := match st.localErr with
          | some (n, _) => s!"conn.dgs=err:conn:local:{n}"
          | none => s!"conn.dgs=err:conn:{e}"
        st.log m (if st.localErr.isNone then s!"conn.dgs=err:conn:{e}" else "conn.dgs=err:*") else
      match st.connect, parseHex arg with
      | some c, some p =>
        let m := match H3.Datagram.new c p with
          | some _ => (H3.Datagram.encode c p).view
          | none => []
        ({ st with dgTx := st.dgTx ++ [m], dgTxSpec := st.dgTxSpec ++ [Varint.encode (c / 4) ++ p] }).log1 "conn.dgs=ok"
      | _, _ => st
    | "dgr" => runJob st task .dgr
    | _ => st
  else
    match taskSid task with
    | none => st
    | some id =>
      let bytes := (parseHex arg).getD []
      match op with
      | "wr" => runJob (handSpec st id bytes) task (.slice "wr" id bytes [])
      | "wf" => runJob (handSpec st id bytes) task (.slice "wf" id bytes [])
      | "wt" => runJob (handSpec st id bytes) task (.slice "wt" id bytes [])
      | "sd" =>
        let st := handSpec st id ([0x00] ++ Varint.encode bytes.length ++ bytes)
        match H3.WriteBuf.fromFrame (.data bytes) with
        | some w => runJob st task (.wbuf "sd" id w "ok")
        | none => st.log1 s!"{task}.sd=panic"
      | "fi" => (updSend st id (fun s => { s with fin := true })).log1 s!"{task}.fi=ok"
      | "cl" => (updSend st id (fun s => { s with fin := true })).log1 s!"{task}.cl=ok"
      | "sh" => (updSend st id (fun s => { s with fin := true })).log1 s!"{task}.sh=ok"
      | "rst" =>
        let c := arg.toNat?.getD 0
        (updSend st id (fun s => { s with rst := some (s.rst.getD c) })).log1 s!"{task}.rst=ok"
      | "ss" =>
        let c := arg.toNat?.getD 0
        (updSend st id (fun s => { s with stop := some (s.stop.getD c) })).log1 s!"{task}.ss=ok"
      | "sp" => ({ st with tasks := st.tasks ++ [task ++ "s"] }).log1 s!"{task}.sp=ok"
      | "ra" => runJob st task (.readAll id [])
      | "rf" =>
        let (cyc, calls) := parseSizes arg
        runJob st task (.read "rf" id cyc 0 calls [] [])
      | "rt" =>
        let (cyc, calls) := parseSizes arg
        runJob st task (.read "rt" id cyc 0 calls [] [])
      | "rff" =>
        let (cyc, calls) := parseSizes arg
        runJob st task (.readFill "rff" id cyc 0 0 calls [] [])
      | "rtf" =>
        let (cyc, calls) := parseSizes arg
        runJob st task (.readFill "rtf" id cyc 0 0 calls [] [])
      | _ => st

def isBlocked (st : St) (task : String) : Bool := st.blocked.any (·.1 == task)

/-- a task that has become free runs the commands queued for it -/
def drainQueue : Nat → St → String → St
  | 0, st, _ => st
  | f+1, st, task =>
    if isBlocked st task then st else
    match st.queue.find? (·.1 == task) with
    | none => st
    | some (_, cmd) =>
      let q := st.queue.span (·.1 != task)
      drainQueue f (exec { st with queue := q.1 ++ q.2.drop 1 } task cmd) task

/-- after something changed on the transport: every blocked job gets another go -/
def kick (st : St) : St :=
  st.blocked.foldl (fun st (task, _) =>
    match st.blocked.find? (·.1 == task) with
    | none => st
    | some (_, job) =>
      let st := runJob { st with blocked := st.blocked.filter (·.1 != task) } task job
      drainQueue (st.queue.length + 1) st task) st

def addEv (st : St) (sid : Nat) (e : Ev) : St :=
  let live := ((getPeer st sid).map (fun p => p.ended.isNone)).getD false
  let st := if live then { st with wtStack := st.wtStack.map (fun w =>
                if w.stream == sid then { w with script := w.script ++ [e] } else w) } else st
  updPeer st sid (fun p =>
    match p.ended, e with
    | some _, _ => p
    | none, .chunk b => { p with evs := p.evs ++ [e], bytes := p.bytes ++ b }
    | none, .fin => { p with evs := p.evs ++ [e], ended := some none }
    | none, .reset c => { p with evs := p.evs ++ [e], ended := some (some c) }
    | none, .pend => p)

def UNLIMITED : Nat := 2^64 - 1

def step (st : St) (op : String) : St :=
  if op.startsWith "#" then st else
  match op.toList with
  | 'o' :: rest =>
    match (String.ofList rest).toNat? with
    | some sid =>
      let st := if (getPeer st sid).isSome then st else { st with peers := st.peers ++ [{ id := sid }] }
      if sid % 4 == 0 then
        let st := newSend st sid false
        { st with pendingBidi := st.pendingBidi ++ [sid] }
      else if sid % 4 == 2 && sid != 2 then { st with uniPending := st.uniPending ++ [sid] }
      else st
    | none => st
  | 's' :: rest =>
    match numPrefix (String.ofList rest) with
    | some (sid, r) => kick (addEv st sid (.chunk ((parseHex ((r.drop 1).toString)).getD [])))
    | none => st
  | 'f' :: rest =>
    match (String.ofList rest).toNat? with
    | some sid => kick (addEv st sid .fin)
    | none => st
  | 'r' :: rest =>
    match numPrefix (String.ofList rest) with
    | some (sid, r) => kick (addEv st sid (.reset (((r.drop 1).toString).toNat?.getD 0)))
    | none => st
  | 'x' :: rest =>
    match numPrefix (String.ofList rest) with
    | some (sid, r) =>
      let c := ((r.drop 1).toString).toNat?.getD 0
      kick (updSend st sid (fun s => { s with stopped := some (s.stopped.getD c), sQueue := [] }))
    | none => st
  | 'C' :: rest =>
    match (String.ofList rest).toNat? with
    | some c => kick { st with connErr := some (st.connErr.getD s!"remote:app:{c}") }
    | none => st
  | ['T'] => kick { st with connErr := some (st.connErr.getD "timeout") }
  | 'd' :: ':' :: rest => kick { st with dgRx := st.dgRx ++ [(parseHex (String.ofList rest)).getD []] }
  | 'g' :: 'w' :: rest =>
    match numPrefix (String.ofList rest) with
    | some (sid, r) =>
      let n := ((r.drop 1).toString).toNat?.getD 0
      kick (updSend st sid (fun s =>
        ({ s with credit := s.credit.map (· + n), sCredit := s.sCredit.map (· + n) }).pipe))
    | none => st
  | 'g' :: 'u' :: rest =>
    match (String.ofList rest).toNat? with
    | some n => kick { st with uc := st.uc.map (· + n) }
    | none => st
  | 'g' :: 'b' :: rest =>
    match (String.ofList rest).toNat? with
    | some n => kick { st with bc := st.bc.map (· + n) }
    | none => st
  | 'c' :: 'w' :: rest =>
    match numPrefix (String.ofList rest) with
    | some (sid, r) =>
      let n := ((r.drop 1).toString).toNat?.getD 0
      let c := if n ≥ UNLIMITED then none else some n
      kick (updSend st sid (fun s => ({ s with credit := c, sCredit := c }).pipe))
    | none => st
  | _ =>
    match op.splitOn "." with
    | task :: rest@(_ :: _) =>
      let cmd := ".".intercalate rest
      if (taskSid task).isSome && !st.tasks.contains task then
        st.log1 s!"{task}.{(cmd.splitOn ":").headD ""}=no-task"
      else if isBlocked st task || st.queue.any (·.1 == task) then { st with queue := st.queue ++ [(task, cmd)] }
      else exec st task cmd
    | _ => st

def insertBy {α} (lt : α → α → Bool) (x : α) : List α → List α
  | [] => [x]
  | y :: r => if lt x y then x :: y :: r else y :: insertBy lt x r

def sortBy {α} (lt : α → α → Bool) (l : List α) : List α := l.foldl (fun acc x => insertBy lt x acc) []

def cfgNat (cfg key : String) : Option Nat :=
  ((cfg.splitOn ",").filterMap (fun kv =>
    match kv.splitOn "=" with
    | [k, v] => if k == key then v.toNat? else none
    | _ => none)).head?

/-- `*` matches any run of characters (as `vlib._tok_match`) -/
def globMatch : List Char → List Char → Bool
  | [], [] => true
  | [], _ :: _ => false
  | '*' :: p, [] => globMatch p []
  | '*' :: p, d :: t => globMatch p (d :: t) || globMatch ('*' :: p) t
  | _ :: _, [] => false
  | c :: p, d :: t => c == d && globMatch p t
termination_by p t => p.length + t.length

/-- `?D-19b:<token pattern>` ↦ (`D-19b`, pattern): an answer that a listed finding explains -/
def knownAlt (a : String) : Option (String × String) :=
  if a.startsWith "?D-" then
    match a.splitOn ":" with
    | tag :: rest@(_ :: _) => some ((tag.drop 1).toString, ":".intercalate rest)
    | _ => none
  else none

/-- the observed tokens against the specification's tokens: `ok`; or the first position that is
    not acceptable together with what was expected there; or — when every departure is an answer the
    specification lists as the symptom of a recorded finding (`?D-xx:<token>`) and the rest of the
    line is as it must be — `KNOWN:<tags>` (a VIOLATION unless the finding is listed as open) -/
def judgeK : Nat → List String → List (List String) → List String → String
  | _, known, [], [] => if known.isEmpty then "ok" else "KNOWN:" ++ ",".intercalate known.eraseDups
  | i, _, [], t :: _ => s!"BAD@{i}:nothing-more-expected:got:{t}"
  | i, known, alts :: rest, [] =>
    if alts.contains "?absent" then judgeK i known rest []
    else s!"BAD@{i}:missing:{"|".intercalate (alts.filter (fun a => !a.startsWith "?"))}"
  | i, known, alts :: rest, t :: ts =>
    if alts.any (fun a => !a.startsWith "?" && globMatch a.toList t.toList) then judgeK (i + 1) known rest ts
    else
      match (alts.filterMap knownAlt).find? (fun (_, pat) => globMatch pat.toList t.toList) with
      | some (tag, _) => judgeK (i + 1) (known ++ [tag]) rest ts
      | none =>
        if alts.contains "?absent" then judgeK i known rest (t :: ts)
        else s!"BAD@{i}:expected:{"|".intercalate (alts.filter (fun a => !a.startsWith "?"))}"

def judge (i : Nat) (spec : List (List String)) (obs : List String) : String := judgeK i [] spec obs

structure Result where
  model : List String
  spec : List (List String)

def run (cfg : String) (ops : List String) (choices : Option (List Nat)) (abObs : List String) : Result :=
  let enabled := (cfg.splitOn ",").contains "wt=1"
  let st := ops.foldl step { wtEnabled := enabled, wc := cfgNat cfg "wc", choices := choices, abObs := abObs,
                             uc := (cfgNat cfg "uc").map (· - 3), bc := cfgNat cfg "bc" }
  let blocked := sortBy (fun (a b : String × Job) => decide (a.1 < b.1)) st.blocked
  let pend := blocked.map (fun (t, j) => s!"{t}.{j.op}=pending")
  -- "surfaced once the header is there" is NOT left to the model: an accept may be left waiting only if the
  -- RFC parsers find no complete WebTransport header on a stream it could surface (the scheduling of the
  -- earlier answers is the interpreter's; what is refused here is the stall: a header that is completely
  -- there and an accept that never answers)
  let pendS := blocked.map (fun (t, j) =>
    match j with
    | .ab (some b) =>
      match (getPeer st b).map Peer.bidiClass with
      | some (.wt ..) => s!"conn.ab=!stream-{b}-has-a-complete-WebTransport-header"
      | some (.wtLate ..) => s!"conn.ab=!stream-{b}-has-a-complete-WebTransport-header-behind-unknown-frames"
      | _ => s!"{t}.{j.op}=pending"
    | .au =>
      if st.wtEnabled && st.connErr.isNone && st.localErr.isNone then
        match st.peers.find? (fun p => p.id % 4 == 2 && p.rd.isNone &&
            (match parseHeader p.bytes with | some (ty, _, _) => ty == 0x54 | none => false)) with
        | some p => s!"conn.au=!stream-{p.id}-has-a-complete-WebTransport-header"
        | none => s!"{t}.{j.op}=pending"
      else s!"{t}.{j.op}=pending"
    | _ => s!"{t}.{j.op}=pending")
  let shown := sortBy (fun (a b : Send) => decide (a.id < b.id)) (st.sends.filter (·.shown))
  let flags (s : Send) : String :=
    (if s.fin then ",fin" else "") ++
    (match s.rst with | some c => s!",rst={c}" | none => "") ++
    (match s.stop with | some c => s!",stop={c}" | none => "") ++
    (if st.blocked.any (fun (_, j) => match j with | .wbuf "sd" sid .. => sid == s.id | _ => false) then ",writing" else "")
  let txM := shown.map (fun s => s!"{s.id}:tx={toHex s.wire}{flags s}")
  let txS := shown.map (fun s => s!"{s.id}:tx={toHex s.sWire}{flags s}")
  let closedM := match st.closed with | some c => [s!"closed=[{c}]"] | none => []
  -- C18 demands the close with H3_DATAGRAM_ERROR; for other errors C19 has no opinion on the close
  let closedS : List (List String) :=
    match st.closed with
    | some c => if c == 51 then [["closed=[51]"]] else [["closed=[*]", "?absent"]]
    | none => []
  let dg (l : List (List Nat)) : List String :=
    if l.isEmpty then [] else ["dgrams=[" ++ ",".intercalate (l.map toHex) ++ "]"]
  { model := st.out ++ pend ++ txM ++ closedM ++ dg st.dgTx,
    spec := st.spec ++ (pendS ++ txS).map (fun t => [t]) ++ closedS ++ (dg st.dgTxSpec).map (fun t => [t]) }

/-- `conn.au=uni:session=<s>:stream=<u>` ↦ `u` -/
def choiceOf (tok : String) : Option Nat :=
  if tok.startsWith "conn.au=uni:" then
    match tok.splitOn ":stream=" with
    | [_, u] => u.toNat?
    | _ => none
  else none

def untagTok (t : String) : String := (t.splitOn "#D-").headD t

def handle : List String → String
  | "wt" :: _ :: cfg :: ops =>
    let r := run cfg ops none []
    -- the verdict of the specification on the model's own answers, the model's answers, and the
    -- demand on the implementation: its answers, judged by engine `wtj`, are `ok`
    " ".intercalate (judge 0 r.spec (r.model.map untagTok) :: r.model) ++ " ## ok **"
  | "wtj" :: _ :: cfg :: rest =>
    let ops := rest.takeWhile (· != "@@")
    let obs := (rest.dropWhile (· != "@@")).drop 1
    let r := run cfg ops (some (obs.filterMap choiceOf)) (obs.filter (·.startsWith "conn.ab="))
    judge 0 r.spec obs
  | _ => "bad-op"

end H3.Drv.C19
