import H3.Drv.Util
import H3.Model.Settings
import H3.Model.Config
import H3.Spec.Settings
import H3.Model.UniAccept
import H3.Model.WriteBuf
import H3.Model.Control
/-! Driver engine `set` (C13).  Case lines and output formats: see `harness/src/e_c13.rs`.

    Grease: h3 draws the grease identifier at random.  A `set cfg` line with grease on carries
    the `fastrand` seed (used by the harness only) and `gid`, the identifier that seed yields
    (obtained from the real `SettingId::grease()` when the cases are generated); the model is run
    with the corresponding `N`, so both sides print the complete control-stream bytes. -/
namespace H3.Drv.C13
open H3.Drv H3.Varint H3.Settings H3.Config H3.Gen.Consts H3.Gen.Settings

def kind : SettingsError → String
  | .exceeded => "exceeded"
  | .malformed => "malformed"
  | .repeated id => s!"repeated:{id}"
  | .invalidSettingId id => s!"invalid-id:{id}"
  | .invalidSettingValue id v => s!"invalid-value:{id}:{v}"

def codeName (c : Nat) : String :=
  if c == CODE_H3_SETTINGS_ERROR then "H3_SETTINGS_ERROR"
  else if c == CODE_H3_INTERNAL_ERROR then "H3_INTERNAL_ERROR"
  else if c == CODE_H3_FRAME_UNEXPECTED then "H3_FRAME_UNEXPECTED"
  else if c == CODE_H3_FRAME_ERROR then "H3_FRAME_ERROR"
  else if c == CODE_H3_STREAM_CREATION_ERROR then "H3_STREAM_CREATION_ERROR"
  else s!"code:{c}"

def entStr (ps : List (Nat × Nat)) : String :=
  if ps.isEmpty then "-" else ",".intercalate (ps.map (fun p => s!"{p.1}:{p.2}"))

def recLong (r : Record) : String :=
  s!"mfs {r.mfs} wt {b01 r.wt} ec {b01 r.ec} dg {b01 r.dg} wts {r.wts}"

def recShort (r : Record) : String :=
  s!"{r.mfs}/{b01 r.wt}/{b01 r.ec}/{b01 r.dg}/{r.wts}"

def sortPairs (ps : List (Nat × Nat)) : List (Nat × Nat) :=
  ps.mergeSort (fun a b => a.1 < b.1 || (a.1 == b.1 && a.2 ≤ b.2))

/-- `pairs <id> <val> ...`, sorted -/
def pairsStr (ps : List (Nat × Nat)) : String :=
  " ".intercalate ("pairs" :: (sortPairs ps).flatMap (fun p => [toString p.1, toString p.2]))

/-- the control stream as a peer reads it (specification reading): `00`, a SETTINGS frame whose
    length covers the rest, pairs. -/
def peerView (b : Bytes) : String :=
  let r : Option (List (Nat × Nat)) := do
    let (ty, r) ← rfcDecode b
    let (ft, r) ← rfcDecode r
    let (len, r) ← rfcDecode r
    if ty ≠ 0 ∨ ft ≠ 4 ∨ len ≠ r.length then none else H3.Spec.Settings.parse r
  match r with
  | none => "pairs malformed"
  | some ps => pairsStr ps

/-- the SETTINGS frame around a payload, as the harness builds it -/
def settingsFrame (p : Bytes) : Bytes := Varint.encode FRAME_SETTINGS ++ Varint.encode p.length ++ p

structure CfgLine where
  mfs : Option Nat := none
  wt : Option Bool := none
  ec : Option Bool := none
  dg : Option Bool := none
  wts : Option Nat := none
  grease : Option Bool := none
  seed : Option Nat := none
  gid : Option Nat := none

def pBool (s : String) : Option Bool :=
  if s == "0" then some false else if s == "1" then some true else none

def u64? (s : String) : Option Nat := s.toNat?.bind (fun n => if n < 2^64 then some n else none)

def parseCfg : List String → CfgLine → Option CfgLine
  | [], c => some c
  | t :: ts, c =>
    match t.splitOn "=" with
    | [k, v] =>
      let c' : Option CfgLine :=
        if k == "mfs" then (u64? v).map (fun n => { c with mfs := some n })
        else if k == "wts" then (u64? v).map (fun n => { c with wts := some n })
        else if k == "seed" then (u64? v).map (fun n => { c with seed := some n })
        else if k == "gid" then (u64? v).map (fun n => { c with gid := some n })
        else if k == "wt" then (pBool v).map (fun b => { c with wt := some b })
        else if k == "ec" then (pBool v).map (fun b => { c with ec := some b })
        else if k == "dg" then (pBool v).map (fun b => { c with dg := some b })
        else if k == "grease" then (pBool v).map (fun b => { c with grease := some b })
        else none
      c'.bind (parseCfg ts)
    | _ => none

/-- the draw `N` behind a grease identifier, if it is one the code can produce -/
def greaseN? (gid : Nat) : Option Nat :=
  if gid < GREASE_ADD then none
  else if (gid - GREASE_ADD) % GREASE_MUL ≠ 0 then none
  else
    let n := (gid - GREASE_ADD) / GREASE_MUL
    if n < GREASE_N_BOUND then some n else none

def cfgCase (role : String) (l : CfgLine) : String :=
  let grease := l.grease.getD DEFAULT_SEND_GREASE
  if grease != (l.seed.isSome && l.gid.isSome) || l.seed.isSome != l.gid.isSome then "bad-op"
  else if role != "server" && role != "client" then "bad-op"
  else if role == "client" && (l.wt.isSome || l.wts.isSome) then "bad-op"
  else
    match (if grease then l.gid.bind greaseN? else some 0) with
    | none => "bad-op"
    | some n =>
      let r : Record :=
        { mfs := l.mfs.getD Record.default.mfs, wt := l.wt.getD Record.default.wt,
          ec := l.ec.getD Record.default.ec, dg := l.dg.getD Record.default.dg,
          wts := l.wts.getD Record.default.wts }
      let m := match setup { grease := grease, settings := r } n with
        | .sent b => s!"ok {toHex b} {peerView b}"
        | .refused c => s!"err wrote=- closed {codeName c}"
        | .panic => "panic"
      -- specification: the configured values under the RFC names (a key that is absent on the line =
      -- the builder's default, taken from `config.rs` by the translator), the grease value left open
      let sp :=
        if r.mfs ≥ 2^62 || r.wts ≥ 2^62 then "err wrote=- **"
        else
          let want : List (Nat × String) :=
            [(H3.Spec.Settings.MAX_FIELD_SECTION_SIZE, toString r.mfs),
             (H3.Spec.Settings.ENABLE_CONNECT_PROTOCOL, b01 r.ec),
             (H3.Spec.Settings.H3_DATAGRAM, b01 r.dg),
             (H3.Spec.Settings.ENABLE_WEBTRANSPORT, b01 r.wt),
             (H3.Spec.Settings.WEBTRANSPORT_MAX_SESSIONS, toString r.wts)]
            ++ (if grease then [(l.gid.getD 0, "*")] else [])
          let sorted := want.mergeSort (fun a b => a.1 ≤ b.1)
          " ".intercalate (["ok", "*", "pairs"] ++ sorted.flatMap (fun p => [toString p.1, p.2]))
      m ++ " ## " ++ sp

/-- model: real `Frame::decode` of `04 len payload` -/
def decModel (p : Bytes) : Except String Settings :=
  match frameDecode (settingsFrame p) with
  | some (.ok s, []) => .ok s
  | some (.ok _, r) => .error s!"left-over {r.length}"
  | some (.error e, _) => .error s!"err {codeName (connCode e)} {kind e}"
  | none => .error "frame-error"

open H3.Spec.Settings in
/-- what the specification expects `fromSettings` to report; flags with no demand print `*` -/
def specFields (ps : List (Nat × Nat)) : List String :=
  let f (id : Nat) : String := match flag ps id with
    | some b => b01 b
    | none => "*"
  [toString (numeric ps MAX_FIELD_SECTION_SIZE unlimited), f ENABLE_WEBTRANSPORT, f ENABLE_CONNECT_PROTOCOL,
   f H3_DATAGRAM, toString (numeric ps WEBTRANSPORT_MAX_SESSIONS 0)]

def specRecLong (ps : List (Nat × Nat)) : String :=
  match specFields ps with
  | [a, b, c, d, e] => s!"mfs {a} wt {b} ec {c} dg {d} wts {e}"
  | _ => "?"

/-- short record; a field the specification has no demand on (ENABLE_WEBTRANSPORT with a value above 1) is an
    in-token wildcard: `5/*/0/0/0` -/
def specRecShort (ps : List (Nat × Nat)) : String := "/".intercalate (specFields ps)

def defaultShort : String := s!"{H3.Spec.Settings.unlimited}/0/0/0/0"

open H3.Spec.Settings in
def decSpec (p : Bytes) : String :=
  match demand p with
  | .anyError => "err **"
  | .settingsError => "err H3_SETTINGS_ERROR **"
  | .applyOrError ps => s!"ok ent * {specRecLong ps} || err H3_SETTINGS_ERROR **"
  | .apply ps =>
    let r := s!"ok ent * {specRecLong ps}"
    if (specFields ps).contains "*" then r ++ " || err H3_SETTINGS_ERROR **" else r

def parsePairs (s : String) : Option (List (Nat × Nat)) :=
  if s == "-" then some [] else
  (s.splitOn ",").mapM (fun t => match t.splitOn ":" with
    | [a, b] => do
      let a ← u64? a
      let b ← u64? b
      pure (a, b)
    | _ => none)

def insertAllOps : Settings → List (Nat × Nat) → Settings × List String
  | s, [] => (s, [])
  | s, (id, v) :: r =>
    match insert s id v with
    | .ok s' => let (sf, l) := insertAllOps s' r; (sf, "ok" :: l)
    | .error e => let (sf, l) := insertAllOps s r; (sf, kind e :: l)

/-- specification of `Settings::insert` (the property's anchors: "at most 8 (id, value) entries"; "lists no
    identifier twice"; identifiers and values are varints): the pairs taken, in order -/
def specInsert : List (Nat × Nat) → List (Nat × Nat) → List (Nat × Nat)
  | [], acc => acc
  | (id, v) :: r, acc =>
    if acc.length < 8 && id < 2^62 && v < 2^62 && !(acc.any (fun p => p.1 == id)) then specInsert r (acc ++ [(id, v)])
    else specInsert r acc

/-- `ok` for a pair that is taken, `*` (any refusal) for one that is not -/
def specInsertRes : List (Nat × Nat) → List (Nat × Nat) → List String
  | [], _ => []
  | (id, v) :: r, acc =>
    if acc.length < 8 && id < 2^62 && v < 2^62 && !(acc.any (fun p => p.1 == id)) then "ok" :: specInsertRes r (acc ++ [(id, v)])
    else "*" :: specInsertRes r acc

/-- the control stream header as the RFC reader sees it, one token: `<id>:<val>,…` sorted, `-`, or `malformed` -/
def viewTok (b : Bytes) : String :=
  let r : Option (List (Nat × Nat)) := do
    let (ty, r) ← rfcDecode b
    let (ft, r) ← rfcDecode r
    let (len, r) ← rfcDecode r
    if ty ≠ 0 ∨ ft ≠ 4 ∨ len ≠ r.length then none else H3.Spec.Settings.parse r
  match r with
  | none => "malformed"
  | some ps => entStr (sortPairs ps)

def encCase (ps : List (Nat × Nat)) : String :=
  let (s, res) := insertAllOps empty ps
  let g0 := match get s 0 with
    | some v => s!"some:{v}"
    | none => "none"
  let ins := s!"ins {if res.isEmpty then "-" else ",".intercalate res} ent {entStr s.entries} get0 {g0}"
  let hdr := match controlHeader? s with
    | none => "hdr panic"
    | some b =>
      let rt := match frameDecode (b.drop 1) with
        | some (.ok s2, []) => s!"ent {entStr s2.entries}"
        | some (.ok _, _) => "other"
        | some (.error e, _) => s!"err:{kind e}"
        | none => "frame-error"
      s!"hdr {toHex b} view {viewTok b} rt {rt}"
  -- specification (never `?`): which inserts a list of at most 8 distinct varint-sized pairs takes (the property's
  -- "fixed-capacity settings list", "lists no identifier twice"), and that the bytes written — read back by the
  -- RFC reader, which shares nothing with h3 — are `00 04 len` + exactly the pairs taken.  What h3's own decoder
  -- makes of them (`rt`) follows the receive rules.  A header longer than the 64-byte array is outside what the
  -- builders can produce (at most 42 bytes, `C13_sent_settings`): the panic is recorded, not judged.
  let acc := specInsert ps []
  let insS := if ps.isEmpty then "-" else ",".intercalate (specInsertRes ps [])
  let sz := (acc.map (fun p => Varint.size p.1 + Varint.size p.2)).sum
  let total := 1 + 1 + Varint.size sz + sz
  let sp :=
    if total > 64 then s!"ins {insS} ent {entStr acc} get0 * hdr **"
    else
      let rt := match H3.Spec.Settings.demand (acc.flatMap (fun p => Varint.encode p.1 ++ Varint.encode p.2)) with
        | .anyError => "err:*"
        | .settingsError => "err:*"
        | _ => s!"ent {entStr (acc.filter (fun p => H3.Spec.Settings.known.contains p.1))}"
      s!"ins {insS} ent {entStr acc} get0 * hdr * view {entStr (sortPairs acc)} rt {rt}"
  s!"{ins} {hdr} ## {sp}"

/-- `set cfgw`: at most this many grants (harness: `CFGW_ROUNDS`) -/
def CFGW_ROUNDS : Nat := 96

/-- the acceptance script of `set cfgw`: the pattern, cycled, `CFGW_ROUNDS` grants in all -/
def cycle (pat : List Nat) (n : Nat) : List Nat :=
  (List.range n).map (fun i => pat.getD (i % pat.length) 0)

/-- number of polls in which the transport took at least one byte -/
def piecesOf : H3.WriteBuf.WB → List Nat → Nat
  | _, [] => 0
  | w, k :: ks =>
    match w.step k with
    | none => 0
    | some (o, w') => (if o.isEmpty then 0 else 1) + piecesOf w' ks

def parsePattern (s : String) : Option (List Nat) :=
  let l := (s.splitOn ",").mapM (fun t => t.toNat?.bind (fun k => if k ≤ 64 then some k else none))
  l.bind (fun l => if l.isEmpty || l.length > 64 then none else some l)

/-- `set cfgw`: as `cfgCase`, the control stream header drained through the `WriteBuf` model
    (`H3.WriteBuf`, C14) by the acceptance script.  By `H3.WriteBuf.drain_spec` /
    `C13_sent_settings_any_acceptance` the bytes do not depend on the script. -/
def cfgwCase (role : String) (pat : List Nat) (l : CfgLine) : String :=
  let grease := l.grease.getD DEFAULT_SEND_GREASE
  if grease != (l.seed.isSome && l.gid.isSome) || l.seed.isSome != l.gid.isSome then "bad-op"
  else if role != "server" && role != "client" then "bad-op"
  else if role == "client" && (l.wt.isSome || l.wts.isSome) then "bad-op"
  else
    match (if grease then l.gid.bind greaseN? else some 0) with
    | none => "bad-op"
    | some n =>
      let r : Record :=
        { mfs := l.mfs.getD Record.default.mfs, wt := l.wt.getD Record.default.wt,
          ec := l.ec.getD Record.default.ec, dg := l.dg.getD Record.default.dg,
          wts := l.wts.getD Record.default.wts }
      let script := cycle pat CFGW_ROUNDS
      let m := match toSettings { grease := grease, settings := r } n with
        | .error _ => s!"err wrote=- closed {codeName CODE_H3_INTERNAL_ERROR} pieces=0"
        | .ok s =>
          let wb := (H3.WriteBuf.WB.new none).putOpt (controlHeader? s)
          match wb, H3.WriteBuf.write wb script with
          | some w, .ready b => s!"ok {toHex b} {peerView b} pieces={piecesOf w script}"
          | some w, .pending b _ => s!"pending wrote={toHex b} pieces={piecesOf w script}"
          | _, _ => "panic"
      -- specification: as for `set cfg`, whatever the acceptance pattern — provided the transport has
      -- taken at least 42 bytes by the end of the script (no header is longer, `C13_sent_settings`);
      -- with less credit setup may still be waiting: no demand
      let sp :=
        if r.mfs ≥ 2^62 || r.wts ≥ 2^62 then "err wrote=- **"
        else if (script.foldl (· + ·) 0) < 42 then "?"
        else
          let want : List (Nat × String) :=
            [(H3.Spec.Settings.MAX_FIELD_SECTION_SIZE, toString r.mfs),
             (H3.Spec.Settings.ENABLE_CONNECT_PROTOCOL, b01 r.ec),
             (H3.Spec.Settings.H3_DATAGRAM, b01 r.dg),
             (H3.Spec.Settings.ENABLE_WEBTRANSPORT, b01 r.wt),
             (H3.Spec.Settings.WEBTRANSPORT_MAX_SESSIONS, toString r.wts)]
            ++ (if grease then [(l.gid.getD 0, "*")] else [])
          let sorted := want.mergeSort (fun a b => a.1 ≤ b.1)
          " ".intercalate (["ok", "*", "pairs"] ++ sorted.flatMap (fun p => [toString p.1, p.2]) ++ ["*"])
      m ++ " ## " ++ sp

/-- `set applyq`: is this a stream header on which `AcceptRecvStream::poll_type` answers `Pending`
    (model: `H3.UniAccept.pollType` over the bytes delivered so far)? -/
def headerWaits (b : Bytes) : Bool :=
  match H3.UniAccept.pollType {} (if b.isEmpty then [] else [.chunk b]) with
  | (.pending, _, _) => true
  | _ => false

def tailStr : Option Nat → String
  | none => "open"
  | some c => s!"closed {codeName c}"

open H3.Spec.Settings in
/-- specification for one received payload at connection level: the alternatives it allows, each a short record
    after the payload (fields without a demand are in-token wildcards) and whether the connection must be closed.
    Never empty: every line is judged. -/
def applyAlts (p : Bytes) : List (String × String) :=
  match demand p with
  | .anyError => [(defaultShort, "closed *")]
  | .settingsError => [(defaultShort, "closed H3_SETTINGS_ERROR")]
  | .applyOrError ps => [(specRecShort ps, "open"), (defaultShort, "closed H3_SETTINGS_ERROR")]
  | .apply ps =>
    if (specFields ps).contains "*" then [(specRecShort ps, "open"), (defaultShort, "closed H3_SETTINGS_ERROR")]
    else [(specRecShort ps, "open")]

def alts (l : List String) : String := " || ".intercalate l

/-- the local configuration of a `set apply*` line: the `set cfg` keys without seed / gid; grease is OFF unless the
    line says `grease=1` (no byte of the own control stream is printed, so the draw does not matter) -/
def localCfg (role : String) (rest : List String) : Option Config :=
  match parseCfg rest {} with
  | none => none
  | some l =>
    if l.seed.isSome || l.gid.isSome then none
    else if role == "client" && (l.wt.isSome || l.wts.isSome) then none
    else some { grease := l.grease.getD false,
                settings := { mfs := l.mfs.getD Record.default.mfs, wt := l.wt.getD Record.default.wt,
                              ec := l.ec.getD Record.default.ec, dg := l.dg.getD Record.default.dg,
                              wts := l.wts.getD Record.default.wts } }

/-- does `build` succeed with this configuration (model: `Config.setup`)? -/
def builds (c : Config) : Bool :=
  match setup c 0 with
  | .sent _ => true
  | _ => false

/-- `set applyq`: one stream opened before the control stream, as `poll_accept_recv` finds it.  Header incomplete
    (`poll_type` = `Pending`) ⇒ `.header`; complete, nothing behind it, and a QPACK encoder / decoder stream, a
    WebTransport stream with its session id or an unknown / grease type ⇒ `.foreign` with what C04's model of the
    accept arms (`H3.Control.acceptKind`) does with it; anything else (control, push, bytes behind the header) is
    outside this family: `none`. -/
def preStream (cfg : H3.Control.Cfg) (k : H3.Control.Conn) (b : Bytes) : Option (Waiting × H3.Control.Conn) :=
  if headerWaits b then some (.header, k) else
  match H3.UniAccept.resolve 4 {} [.chunk b] with
  | .resolved s _ =>
    if !s.buf.isEmpty then none else
    match H3.UniAccept.intoStream s with
    | some .control => none
    | some .push => none
    | some kind =>
      let r := H3.Control.acceptKind cfg k kind
      some (.foreign r.err, r.conn)
    | none => none
  | _ => none

def preStreams (cfg : H3.Control.Cfg) : H3.Control.Conn → List Bytes → Option (List Waiting)
  | _, [] => some []
  | k, b :: r =>
    match preStream cfg k b with
    | none => none
    | some (w, k') => (preStreams cfg k' r).map (w :: ·)

/-- specification side of the streams in front: RFC 9204 §4.2 — a second QPACK encoder (type 0x02) or decoder
    (0x03) stream is H3_STREAM_CREATION_ERROR (C04's clause; C13 only needs to know that its own demand ends there) -/
def secondQpack (pres : List Bytes) : Bool :=
  let tys := pres.filterMap (fun b => (rfcDecode b).map (·.1))
  (tys.filter (· == 2)).length ≥ 2 || (tys.filter (· == 3)).length ≥ 2

def handle : List String → String
  | "set" :: "cfg" :: role :: rest =>
    match parseCfg rest {} with
    | none => "bad-op"
    | some l => cfgCase role l
  | ["set", "dec", h] =>
    match parseHex h with
    | none => "bad-op"
    | some p =>
      let m := match decModel p with
        | .ok s => s!"ok ent {entStr s.entries} {recLong (fromSettings s)}"
        | .error e => e
      m ++ " ## " ++ decSpec p
  | ["set", "enc", l] =>
    match parsePairs l with
    | none => "bad-op"
    | some ps => encCase ps
  | ["set", "cell", h1, h2] =>
    match parseHex h1, parseHex h2 with
    | some p1, some p2 =>
      match decModel p1, decModel p2 with
      | .ok s1, .ok s2 =>
        let c0 := Cell.new
        let c1 := c0.set (fromSettings s1)
        let c2 := c1.set (fromSettings s2)
        let m := s!"init={recShort c0.get} first={recShort c1.get} second={recShort c2.get}"
        let a1 := applyAlts p1
        let a2 := applyAlts p2
        let okAlts := (a1.filter (·.2 == "open")).filter (fun _ => a2.any (·.2 == "open"))
        let bad := a1.any (·.2 != "open") || a2.any (·.2 != "open")
        let sp := alts (okAlts.map (fun (r, _) => s!"init={defaultShort} first={r} second={r}")
          ++ (if bad then ["bad-case"] else []))
        m ++ " ## " ++ sp
      | _, _ =>
        let bad := (applyAlts p1).any (·.2 != "open") || (applyAlts p2).any (·.2 != "open")
        "bad-case ## " ++ (if bad then "bad-case" else "init=* first=* second=*")
    | _, _ => "bad-op"
  | "set" :: "apply" :: role :: h :: cut :: rest =>
    match parseHex h, cut.toNat?, localCfg role rest with
    | some p, some cut, some cfg =>
      if role != "server" && role != "client" then "bad-op"
      else if !builds cfg then "setup-failed ## setup-failed" else
      let total := 1 + (settingsFrame p).length
      let two := 0 < cut && cut < total
      -- the connection carries its local configuration; what is received does not depend on it
      -- (`C13_received_settings_independent_of_local_config`)
      let (k, code) := Conn.receive ⟨cfg, Cell.new⟩ p
      let after := recShort k.cell.get
      let mid := if two then recShort Cell.new.get else after
      let m := s!"before={recShort Cell.new.get} mid={mid} after={after} {tailStr code}"
      let sp := alts ((applyAlts p).map (fun (r, t) =>
        s!"before={defaultShort} mid={if two then defaultShort else r} after={r} {t}"))
      m ++ " ## " ++ sp
    | _, _, _ => "bad-op"
  | "set" :: "applyq" :: role :: h :: cut :: pre :: rest =>
    match parseHex h, cut.toNat?, (pre.splitOn ",").mapM parseHex, localCfg role rest with
    | some p, some cut, some pres, some cfg =>
      if role != "server" && role != "client" then "bad-op"
      else if pres.isEmpty || pres.length > 8 then "bad-op" else
      let ccfg : H3.Control.Cfg := { role := if role == "server" then .server else .client, wt := cfg.settings.wt }
      match preStreams ccfg {} pres with
      | none => "bad-op"
      | some front =>
      if !builds cfg then "setup-failed ## setup-failed" else
      let total := 1 + (settingsFrame p).length
      let two := 0 < cut && cut < total
      -- the streams as `poll_accept_recv` finds them: the ones in front, then the control stream
      let ws : List Waiting := front ++ [.control p]
      let (c, code) := receiveScan Cell.new ws
      let after := recShort c.get
      let failedFront := match scan front with
        | .failed _ => true
        | _ => false
      let mid := if two && !failedFront then recShort Cell.new.get else after
      let m := s!"before={recShort Cell.new.get} mid={mid} after={after} {tailStr code}"
      let sp :=
        if secondQpack pres then s!"before={defaultShort} mid=* after=* closed H3_STREAM_CREATION_ERROR"
        else alts ((applyAlts p).map (fun (r, t) =>
          s!"before={defaultShort} mid={if two then defaultShort else r} after={r} {t}"))
      m ++ " ## " ++ sp
    | _, _, _, _ => "bad-op"
  | "set" :: "cfgw" :: role :: pat :: rest =>
    match parseCfg rest {}, parsePattern pat with
    | some l, some pat => cfgwCase role pat l
    | _, _ => "bad-op"
  | "set" :: "apply2" :: role :: h1 :: h2 :: rest =>
    match parseHex h1, parseHex h2, localCfg role rest with
    | some p1, some p2, some cfg =>
      if role != "server" && role != "client" then "bad-op"
      else if !builds cfg then "setup-failed ## setup-failed" else
      let (k1, code1) := Conn.receive ⟨cfg, Cell.new⟩ p1
      let c1 := k1.cell
      let r1 := recShort c1.get
      -- a second SETTINGS frame: decoded first (its own errors win), then H3_FRAME_UNEXPECTED;
      -- after a connection error nothing more is read
      let code2 := match code1 with
        | some c => some c
        | none => match (receive c1 p2).2 with
          | some c => some c
          | none => some CODE_H3_FRAME_UNEXPECTED
      let c2 := match code1 with
        | some _ => c1
        | none => (receive c1 p2).1
      let m := s!"before={recShort Cell.new.get} after1={r1} {tailStr code1} after2={recShort c2.get} {tailStr code2}"
      -- the first frame as for `set apply`; the settings never change afterwards (write-once) and a second SETTINGS
      -- frame closes the connection (which code: RFC 9114 §7.2.4 / C04; its own payload error is as good)
      let sp := alts ((applyAlts p1).map (fun (r, t) =>
        if t == "open" then s!"before={defaultShort} after1={r} open after2={r} closed *"
        else s!"before={defaultShort} after1={r} {t} after2={r} {t}"))
      m ++ " ## " ++ sp
    | _, _, _ => "bad-op"
  | _ => "bad-op"

end H3.Drv.C13
