import H3.Drv.Util
import H3.Model.PrefixInt
import H3.Model.Huffman
import H3.Model.PrefixString
import H3.Spec.Huffman
/-! Driver engines `pint`, `huff`, `pstr` (C15).  Model answer `##` specification answer. -/
namespace H3.Drv.C15
open H3.Drv

/-! ### pint -/

/-- `decm` input: pieces in hex separated by `,`, none empty -/
def parseChunks (h : String) : Option (List (List Nat)) :=
  (h.splitOn ",").mapM (fun p => (parseHex p).bind (fun b => if b.isEmpty then none else some b))

def pintRes : Option PrefixInt.Res → String
  | none => "panic"
  | some (.ok f v rest) => s!"ok {f} {v} {toHex rest}"
  | some .overflow => "err Overflow"
  | some .endOf => "err UnexpectedEnd"

/-- RFC 7541 §5.1 encoder, written from its pseudo-code (fuel: a u64 needs ≤ 10 groups). -/
def rfcEncCont : Nat → Nat → List Nat
  | 0, _ => []
  | f+1, i => if i < 128 then [i] else (i % 128 + 128) :: rfcEncCont f (i / 128)

def rfcEncode (n flags v : Nat) : List Nat :=
  if v < 2 ^ n - 1 then [flags * 2 ^ n + v]
  else (flags * 2 ^ n + (2 ^ n - 1)) :: rfcEncCont 11 (v - (2 ^ n - 1))

/-- What the property demands of the integer decoder on `bs` (see DESIGN R-15): the RFC value or
    a rejection, never another value; the RFC value *must* be produced when it is below 2^62 and
    its encoding has at most nine continuation bytes (every shortest encoding of such a value
    has); a truncated encoding is `UnexpectedEnd` unless the length limit is hit first. -/
def pintSpec (n : Nat) (bs : List Nat) : String :=
  if n = 0 ∨ n > 8 then "?" else
  match bs with
  | [] => "err UnexpectedEnd"
  | first :: r =>
    let long := decide (first % 2 ^ n = 2 ^ n - 1) && decide (PrefixInt.contLen r > 9)
    match PrefixInt.rfcDecode n bs with
    | none => if decide (first % 2 ^ n = 2 ^ n - 1) && decide (PrefixInt.contLen r ≥ 9) then
        "err UnexpectedEnd || err Overflow" else "err UnexpectedEnd"
    | some (v, rest) =>
      let okS := s!"ok {first / 2 ^ n} {v} {toHex rest}"
      if v < 2 ^ 62 && !long then okS
      else if v < 2 ^ 64 then okS ++ " || err Overflow"
      else "err Overflow"

def handlePint : List String → String
  | ["pint", "dec", n, h] =>
    match n.toNat?, parseHex h with
    | some n, some bs => pintRes (PrefixInt.decode? n bs) ++ " ## " ++ pintSpec n bs
    | _, _ => "bad-op"
  | ["pint", "decm", n, h] =>
    -- the same function over a multi-chunk `Buf` (pieces separated by `,`): the specification is that of
    -- the concatenation, it has no opinion on cuts
    match n.toNat?, parseChunks h with
    | some n, some cs => pintRes (PrefixInt.decodeM? n cs) ++ " ## " ++ pintSpec n cs.flatten
    | _, _ => "bad-op"
  | ["pint", "enc", n, f, v] =>
    match n.toNat?, f.toNat?, v.toNat? with
    | some n, some f, some v =>
      if f ≥ 256 ∨ v ≥ 2 ^ 64 then "bad-op" else
      let m := match PrefixInt.encode? n f v with
        | none => "panic"
        | some bs => s!"ok {toHex bs} rt {pintRes (PrefixInt.decode? n bs)}"
      let sp :=
        if n = 0 ∨ n > 8 ∨ f ≥ 2 ^ (8 - n) then "?"
        else
          let w := rfcEncode n f v
          if v - (2 ^ n - 1) < 2 ^ 63 then s!"ok {toHex w} rt ok {f} {v} -"
          else s!"ok {toHex w} rt err Overflow"
      m ++ " ## " ++ sp
    | _, _, _ => "bad-op"
  | _ => "bad-op"

/-! ### huff -/

def huffErr : Huffman.Err → String
  | .missingBits w => s!"MissingBits {w.byte} {w.bit} {w.count}"
  | .unhandled w v => s!"Unhandled {w.byte} {w.bit} {w.count} {v}"
  | .fuel => "model-fuel"

/-- model answer for a Huffman payload; the site tag marks the lax branch of `check_eof` -/
def huffDecModel (bs : List Nat) : String :=
  match Huffman.hdecodeX bs with
  | .ok (v, lax) => s!"ok {toHex v}" ++ (if lax then " #D-15" else "")
  | .error e => "err " ++ huffErr e

def huffDecSpec (bs : List Nat) : String :=
  match Spec.Huffman.specDecode bs with
  | some v => s!"ok {toHex v}"
  | none => "err **"

def isBytes (bs : List Nat) : Bool := bs.all (· < 256)

/-- FNV-1a (64 bit) over the characters of a result line and a newline. -/
def fnv (h : UInt64) (s : String) : UInt64 :=
  let step (h : UInt64) (c : Char) : UInt64 := (h ^^^ c.toNat.toUInt64) * 1099511628211
  step (s.foldl step h) '\n'

/-- payload number `i`: lengths 0, 1, 2, 3, … in turn, big-endian within a length -/
def payloadOf (i : Nat) : List Nat :=
  if i < 1 then []
  else if i < 257 then [i - 1]
  else if i < 65793 then [(i - 257) / 256, (i - 257) % 256]
  else if i < 16843009 then
    let j := i - 65793
    [j / 65536, j / 256 % 256, j % 256]
  else
    let j := i - 16843009
    [j / 16777216 % 256, j / 65536 % 256, j / 256 % 256, j % 256]

structure RangeAcc where
  h : UInt64 := 14695981039346656037
  ok : Nat := 0
  missing : Nat := 0
  unhandled : Nat := 0
  okBytes : Nat := 0

def rangeGo (lo : Nat) : Nat → RangeAcc → RangeAcc
  | 0, a => a
  | k+1, a =>
    let bs := payloadOf lo
    let (line, a) := match Huffman.hdecode bs with
      | .ok v => (s!"ok {toHex v}", { a with ok := a.ok + 1, okBytes := a.okBytes + v.length })
      | .error e =>
        let a := match e with
          | .missingBits _ => { a with missing := a.missing + 1 }
          | _ => { a with unhandled := a.unhandled + 1 }
        ("err " ++ huffErr e, a)
    rangeGo (lo + 1) k { a with h := fnv a.h line }

def hex64 (x : UInt64) : String :=
  String.ofList ((List.range 16).map fun i => hexChar ((x.toNat / 16 ^ (15 - i)) % 16))

/-! ### `huff encn`: the encoder on `count` copies of a unit, answered by arithmetic

    The coded bytes are periodic (`8 / gcd(U, 8)` units, `U` = bits of the unit's coding, fill whole bytes), so
    length, byte sum and tail follow from one period and the remainder.  Whether the real encoder gets that far
    is the question of `Huffman.hencodeC`: the prediction evaluates the model's own `reserveC` / `vecPushes` at
    the `put`s where `capacity() <= end_range.byte` (found by arithmetic, not by running 10^9 `put`s), with the
    standard library's growth policy `Huffman.stdGrow` (the harness build has overflow checks on). -/

def symBits (c : Nat) : Nat :=
  match H3.Gen.HuffEnc.raw[c]? with
  | some (n, _) => n
  | none => 0

/-- `p_0 = 0, p_1, …, p_m`: bits of the unit's coding before symbol `i` -/
def prefixBits (unit : List Nat) : List Nat :=
  (unit.foldl (fun (acc : List Nat × Nat) c => (acc.1 ++ [acc.2 + symBits c], acc.2 + symBits c)) ([0], 0)).1

/-- the first `put` (global symbol index) whose `end_range.byte` reaches `cap` -/
def nextReserve (cap U m : Nat) (p : List Nat) : Nat :=
  (List.range m).foldl (fun best i =>
    let need := 8 * cap - p.getD (i + 1) 0
    let t := ((need + U - 1) / U) * m + i
    if t < best then t else best) (2 ^ 200)

/-- `true` = some reservation (or position) overflows before `count` symbols are written -/
def encnOverflows (g : Bool) (U m count : Nat) (p : List Nat) : Nat → Nat → Bool
  | 0, _ => false
  | fuel+1, cap =>
    let t := nextReserve cap U m p
    if t ≥ count then false
    else
      let before := (t / m) * U + p.getD (t % m) 0
      let after := (t / m) * U + p.getD (t % m + 1) 0
      let b := after / 8
      let len := (before + 7) / 8
      if b ≥ 2 ^ 32 then true
      else
        match Huffman.reserveC g Huffman.stdGrow cap len b with
        | none => true
        | some cap' =>
          encnOverflows g U m count p fuel
            (Huffman.vecPushes Huffman.stdGrow (b - len + (if after % 8 > 0 then 1 else 0)) cap' len)

/-- `buffer_pos.byte` when the last `put` starts -/
def encnLastPutByte (unit : List Nat) (U m count : Nat) (p : List Nat) : Nat :=
  if count < 2 then 0
  else
    let t := count - 1
    let before := (t / m) * U + p.getD (t % m) 0
    let prev := symBits (unit.getD ((t - 1) % m) 0)
    (before - (if prev % 8 = 0 then 8 else prev % 8)) / 8

def encnOk (enc : List Nat → List Nat) (unit : List Nat) (U count : Nat) : String :=
  let k := 8 / Nat.gcd U 8
  let period := enc (List.replicate k unit).flatten
  let q := count / k
  let last := enc (List.replicate (count % k) unit).flatten
  let len := q * period.length + last.length
  let sum := q * period.sum + last.sum
  let ctx := (List.replicate (min q 4) period).flatten ++ last
  s!"ok len={len} sum={sum} tail={toHex (ctx.drop (ctx.length - 4))}"

def handleEncn (unit : List Nat) (count : Nat) : String :=
  let m := unit.length
  let p := prefixBits unit
  let U := p.getD m 0
  if m = 0 ∨ count = 0 then "ok len=0 sum=0 tail=- ## ok len=0 sum=0 tail=-"
  else if unit.any (· ≥ 256) then "bad-op"
  else
    let g := H3.Gen.HuffEnc.hugeCodingRefused
    let L := (count * U + 7) / 8
    let model :=
      if g then
        if encnLastPutByte unit U m count p > 2 ^ 32 - 1 - 8 then "err HuffmanEncoding"
        else encnOk Huffman.hencode unit U count
      else if encnOverflows g U m count p 400 0 || decide ((count * U) / 8 ≥ 2 ^ 32) then "panic #D-15e"
      else encnOk Huffman.hencode unit U count
    -- the specification: the RFC 7541 §5.2 coding; a refusal is admitted only for codings that do not fit a
    -- 32-bit byte position (reading R-15e); never a panic
    let spec := encnOk Spec.Huffman.specEncode unit U count ++
      (if L + 8 ≥ 2 ^ 32 then " || err HuffmanEncoding" else "")
    model ++ " ## " ++ spec

def handleHuff : List String → String
  | ["huff", "dec", h] =>
    match parseHex h with
    | some bs => huffDecModel bs ++ " ## " ++ huffDecSpec bs
    | none => "bad-op"
  | ["huff", "enc", h] =>
    match parseHex h with
    | some s =>
      let m := match Huffman.hencode? s with
        | none => "panic"
        | some w => s!"ok {toHex w} rt {huffDecModel w}"
      m ++ " ## " ++ s!"ok {toHex (Spec.Huffman.specEncode s)} rt ok {toHex s}"
    | none => "bad-op"
  | ["huff", "encn", h, c] =>
    match parseHex h, c.toNat? with
    | some unit, some count => handleEncn unit count
    | _, _ => "bad-op"
  | ["huff", "decn", h, c] =>
    -- a Huffman literal of `c` copies of the unit `h` (inputs too long for a case line).  The model runs the
    -- short ones; from `8·len + 16 ≥ 2^32` on it answers without building the list: the repaired
    -- `prefix_string::decode` refuses the literal (`PrefixString.hugeHuffman`), the unrepaired one overflows
    -- `src.len() as u32 * 8` for 2^29 ≤ len < 2^32 (`C15_huffman_positions_fit` (4); a panic in the harness
    -- build, which has overflow checks on; from 2^32 on the cast wraps silently and the model has no
    -- prediction).  The specification: an answer, never a panic.
    match parseHex h, c.toNat? with
    | some unit, some count =>
      let total := unit.length * count
      let m :=
        if total * 8 + 16 ≥ 2 ^ 32 then
          if H3.Gen.HuffDec.hugeLiteralRefused then "err BufSize"
          else if 2 ^ 29 ≤ total ∧ total < 2 ^ 32 then "panic"
          else "model-unsupported"
        else if total ≤ 65536 then
          match Huffman.hdecode (List.replicate count unit).flatten with
          | .ok v => s!"ok len={v.length}"
          | .error (.missingBits _) => "err MissingBits"
          | .error (.unhandled _ _) => "err Unhandled"
          | .error .fuel => "model-fuel"
        else "model-unsupported"
      m ++ " ## ok * || err **"
    | _, _ => "bad-op"
  | ["huff", "range", lo, hi] =>
    match lo.toNat?, hi.toNat? with
    | some lo, some hi =>
      let a := rangeGo lo (hi - lo) {}
      s!"range n={hi - lo} ok={a.ok} okbytes={a.okBytes} missing={a.missing} unhandled={a.unhandled} digest={hex64 a.h} ## ?"
    | _, _ => "bad-op"
  | _ => "bad-op"

/-! ### pstr -/

def pstrRes (payloadLax : Bool) : Option PrefixString.Res → String
  | none => "panic"
  | some (.ok _ v rest) => s!"ok {toHex v} {toHex rest}" ++ (if payloadLax then " #D-15" else "")
  | some (.err .unexpectedEnd) => "err UnexpectedEnd"
  | some (.err .integerOverflow) => "err Integer Overflow"
  | some (.err (.huffman e)) => "err Huffman " ++ huffErr e
  | some (.err .bufSize) => "err BufSize"

/-- the Huffman payload `decode?` hands to the Huffman decoder, if it gets that far -/
def pstrPayload (n : Nat) (bs : List Nat) : Option (List Nat) :=
  if n = 0 then none else
  match PrefixInt.decode? (n - 1) bs with
  | some (.ok f len rest) => if f % 2 = 1 ∧ len ≤ rest.length then some (rest.take len) else none
  | _ => none

def pstrDecModel (n : Nat) (bs : List Nat) : String :=
  let lax := match pstrPayload n bs with
    | some p => Huffman.lax p
    | none => false
  pstrRes lax (PrefixString.decode? n bs)

/-- the same for a multi-chunk `Buf` -/
def pstrDecModelM (n : Nat) (cs : List (List Nat)) : String :=
  let lax := match pstrPayload n cs.flatten with
    | some p => Huffman.lax p
    | none => false
  pstrRes lax (PrefixString.decodeM? n cs)

/-- RFC 7541 §5.2 string literal with an `(n−1)`-bit length prefix. -/
def pstrSpec (n : Nat) (bs : List Nat) : String :=
  if n < 2 ∨ n > 9 then "?" else
  match bs with
  | [] => "err UnexpectedEnd"
  | first :: r =>
    match PrefixInt.rfcDecode (n - 1) bs with
    | none =>
      if decide (first % 2 ^ (n - 1) = 2 ^ (n - 1) - 1) && decide (PrefixInt.contLen r ≥ 9) then
        "err UnexpectedEnd || err Integer Overflow" else "err UnexpectedEnd"
    | some (len, rest) =>
      -- a length the integer decoder may refuse (DESIGN R-15): ≥ 2^62 or an over-long encoding
      let sat := decide (first % 2 ^ (n - 1) = 2 ^ (n - 1) - 1)
      let alt := if len ≥ 2 ^ 62 ∨ (sat ∧ PrefixInt.contLen r > 9) then " || err Integer Overflow" else ""
      -- a Huffman literal of 2^29 − 2 bytes or more (its bit length + 16 does not fit `u32`) may be refused
      -- as such (DESIGN R-15b, the repair of D-06u); no case line holds that many bytes, so on a case line
      -- this is always a truncated literal, which the repaired decoder reports as `BufSize`
      let alt := if first / 2 ^ (n - 1) % 2 = 1 ∧ len * 8 + 16 ≥ 2 ^ 32 then alt ++ " || err BufSize" else alt
      if len ≥ 2 ^ 64 then "err Integer Overflow"
      else if rest.length < len then "err UnexpectedEnd" ++ alt
      else
        let payload := rest.take len
        let rest' := rest.drop len
        if first / 2 ^ (n - 1) % 2 = 0 then s!"ok {toHex payload} {toHex rest'}" ++ alt
        else match Spec.Huffman.specDecode payload with
          | some v => s!"ok {toHex v} {toHex rest'}" ++ alt
          | none => "err Huffman **" ++ alt

def handlePstr : List String → String
  | ["pstr", "dec", n, h] =>
    match n.toNat?, parseHex h with
    | some n, some bs => pstrDecModel n bs ++ " ## " ++ pstrSpec n bs
    | _, _ => "bad-op"
  | ["pstr", "decm", n, h] =>
    match n.toNat?, parseChunks h with
    | some n, some cs => pstrDecModelM n cs ++ " ## " ++ pstrSpec n cs.flatten
    | _, _ => "bad-op"
  | ["pstr", "enc", n, f, h] =>
    match n.toNat?, f.toNat?, parseHex h with
    | some n, some f, some s =>
      if f ≥ 256 then "bad-op" else
      let m := match PrefixString.encode? n f s with
        | none => "panic"
        | some w => s!"ok {toHex w} rt {pstrDecModel n w}"
      let sp :=
        -- the `H` flag and `flags` have to fit above the length prefix: sizes 2..8
        if n < 2 ∨ n > 8 ∨ f ≥ 2 ^ (8 - n) then "?"
        else
          let p := Spec.Huffman.specEncode s
          s!"ok {toHex (rfcEncode (n - 1) (2 * f + 1) p.length ++ p)} rt ok {toHex s} -"
      m ++ " ## " ++ sp
    | _, _, _ => "bad-op"
  | _ => "bad-op"

def handle (ws : List String) : String :=
  match ws with
  | "pint" :: _ => handlePint ws
  | "huff" :: _ => handleHuff ws
  | "pstr" :: _ => handlePstr ws
  | _ => "bad-op"

end H3.Drv.C15
