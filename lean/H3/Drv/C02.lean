import H3.Drv.Util
import H3.Model.FrameStream
import H3.Spec.Framing
/-! Driver engines `frame` and `fs` (C02). -/
namespace H3.Drv.C02
open H3.Drv H3.Frame H3.FS

def supportedOrder : List Nat := [0x1, 0x6, 0x7, 0x8, 0x33, 0x2b603742, 0x2b603743]

def renderSettings (es : List (Nat × Nat)) : String :=
  let parts := supportedOrder.filterMap (fun id => (es.find? (·.1 == id)).map (fun e => s!"{e.1}={e.2}"))
  "settings(" ++ ";".intercalate parts ++ ")"

def renderFrame : Frame → String
  | .data n => s!"data({n})"
  | .headers p => s!"headers({toHex p})"
  | .cancelPush v => s!"cancel_push({v})"
  | .settings es => renderSettings es
  | .pushPromise id _ => s!"push_promise({id})"
  | .goaway v => s!"goaway({v})"
  | .maxPushId v => s!"max_push_id({v})"
  | .webTransport s => s!"wt({s})"

def renderSErr : SettingsErr → String
  | .malformed => "malformed" | .invalidId id => s!"invalid({id})"
  | .repeated id => s!"repeated({id})" | .exceeded => "exceeded"

def renderErr : FrameErr → String
  | .malformed => "malformed"
  | .unsupported ty => s!"unsupported({ty})"
  | .settings e => s!"settings({renderSErr e})"

def renderOut : FOut → String
  | .frame f => "F:" ++ renderFrame f
  | .data b => "D:" ++ toHex b
  | .none => "N"
  | .pending => "P"
  | .errProto e => "E:proto:" ++ renderErr e
  | .errEnd => "E:end"
  | .errQuic c => s!"E:quic:{c}"
  | .panic => "X"

def parseEv (s : String) : Option Ev :=
  match s.toList with
  | ['p'] => some .pend
  | ['f'] => some .fin
  | 'r' :: r => (String.ofList r).toNat?.map .reset
  | 'c' :: r => (parseHexChars r).bind (fun b => if b.isEmpty then none else some (.chunk b))
  | _ => none

def parseScript (s : String) : Option (List Ev) :=
  if s == "-" then some [] else (s.splitOn ",").mapM parseEv

def parseCalls (s : String) : Option (List Call) :=
  s.toList.mapM (fun c => if c == 'n' then some .next else if c == 'd' then some .data else none)

/-- merge consecutive data pieces, drop `P` unless it is the last observation -/
def normalise : List FOut → List FOut
  | [] => []
  | [o] => [o]
  | .pending :: rest => normalise rest
  | .data a :: rest =>
    match normalise rest with
    | .data b :: r => .data (a ++ b) :: r
    | r => .data a :: r
  | o :: rest => o :: normalise rest

def scriptBytes : List Ev → Varint.Bytes
  | [] => []
  | .chunk b :: r => b ++ scriptBytes r
  | _ :: r => scriptBytes r

open H3.Spec.Framing in
def renderTok : Tok → String
  | .frame f => "F:" ++ renderFrame f
  | .data b => "D:" ++ toHex b
  | .partialData b => "D:" ++ toHex b
  | .none_ => "N"
  | .pending => "P"
  | .truncated => "E:end"
  | .malformed => "E:proto:malformed"
  | .h2 ty => s!"E:proto:unsupported({ty})"
  | .badSettings => "E:proto:settings(*)"
  | .okSettings => "F:settings(*)"
  | .outside => "?"

open H3.Spec.Framing in
def specLine (script : List Ev) : String :=
  -- the specification speaks about FIN and still-open endings (DESIGN §7 C02 / App. B.1)
  if script.any (fun e => match e with | .reset _ => true | _ => false) then "?" else
  -- events after the first `fin` are never looked at
  let upto := script.takeWhile (· != .fin)
  let w := scriptBytes upto
  let ending := if script.contains .fin then Ending.fin else Ending.open_
  let toks := observe (w.length + 1) w ending
  if toks.contains .outside then "?" else
  -- a truncated DATA payload: any prefix of the bytes present may have been handed out
  let alts : List (List Tok) :=
    match toks.reverse with
    | .truncated :: .partialData bs :: pre =>
      (List.range (bs.length + 1)).map (fun k =>
        pre.reverse ++ (if k = 0 then [] else [Tok.data (bs.take k)]) ++ [Tok.truncated])
    | _ => [toks]
  " || ".intercalate (alts.map (fun ts => " ".intercalate (ts.map renderTok)))

def renderDec : H3.Frame.DecRes → String
  | .frame f n => s!"ok {renderFrame f} {n}"
  | .unknown n => s!"unknown {n}"
  | .incomplete m => s!"incomplete {m}"
  | .error e => s!"err {renderErr e}"

def handle : List String → String
  | ["frame", "dec", h] =>
    match parseHex h with
    | none => "bad-op"
    | some bs => renderDec (decode bs) ++ " ## ?"
  | ["fs", "calls", sc, cs] =>
    match parseScript sc, parseCalls cs with
    | some script, some calls =>
      " ".intercalate ((runCalls {} script calls).map renderOut) ++ " ## ?"
    | _, _ => "bad-op"
  | ["fs", "loop", sc] =>
    match parseScript sc with
    | some script =>
      let fuel := 4 * (scriptBytes script).length + 4 * script.length + 8
      let outs := normalise (readerLoop fuel {} script)
      " ".intercalate (outs.map renderOut) ++ " ## " ++ specLine script
    | none => "bad-op"
  | _ => "bad-op"

end H3.Drv.C02
