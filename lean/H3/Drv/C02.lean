import H3.Drv.Util
import H3.Model.FrameStream
import H3.Spec.Framing
/-! Driver engines `frame` and `fs` (C02). -/
namespace H3.Drv.C02
open H3.Drv H3.Frame H3.FS

def supportedOrder : List Nat := [0x1, 0x6, 0x7, 0x8, 0x33, 0x2b603742, 0x2b603743]

def renderSettings (es : List (Nat × Nat)) : String :=
  let parts := supportedOrder.filterMap (fun id => (es.find? (·.1 == id)).map (fun e => s!"{e.1}={e.2}"))
  "settings(" ++ ";".intercalate parts ++ ")"

def renderFrame : Frame → String
  | .data n => s!"data({n})"
  | .headers p => s!"headers({toHex p})"
  | .cancelPush v => s!"cancel_push({v})"
  | .settings es => renderSettings es
  | .pushPromise id _ => s!"push_promise({id})"
  | .goaway v => s!"goaway({v})"
  | .maxPushId v => s!"max_push_id({v})"
  | .webTransport s => s!"wt({s})"

def renderSErr : SettingsErr → String
  | .malformed => "malformed" | .invalidId id => s!"invalid({id})"
  | .repeated id => s!"repeated({id})" | .exceeded => "exceeded"

def renderErr : FrameErr → String
  | .malformed => "malformed"
  | .unsupported ty => s!"unsupported({ty})"
  | .settings e => s!"settings({renderSErr e})"

def renderOut : FOut → String
  | .frame f => "F:" ++ renderFrame f
  | .data b => "D:" ++ toHex b
  | .none => "N"
  | .pending => "P"
  | .errProto e => "E:proto:" ++ renderErr e
  | .errEnd => "E:end"
  | .errQuic c => s!"E:quic:{c}"
  | .panic => "X"

def parseEv (s : String) : Option Ev :=
  match s.toList with
  | ['p'] => some .pend
  | ['f'] => some .fin
  | 'r' :: r => (String.ofList r).toNat?.map .reset
  | 'c' :: r => (parseHexChars r).bind (fun b => if b.isEmpty then none else some (.chunk b))
  | _ => none

def parseScript (s : String) : Option (List Ev) :=
  if s == "-" then some [] else (s.splitOn ",").mapM parseEv

def parseCalls (s : String) : Option (List Call) :=
  s.toList.mapM (fun c => if c == 'n' then some .next else if c == 'd' then some .data else none)

/-- merge consecutive data pieces, drop `P` unless it is the last observation -/
def normalise : List FOut → List FOut
  | [] => []
  | [o] => [o]
  | .pending :: rest => normalise rest
  | .data a :: rest =>
    match normalise rest with
    | .data b :: r => .data (a ++ b) :: r
    | r => .data a :: r
  | o :: rest => o :: normalise rest

def scriptBytes : List Ev → Varint.Bytes
  | [] => []
  | .chunk b :: r => b ++ scriptBytes r
  | _ :: r => scriptBytes r

open H3.Spec.Framing in
def renderTok : Tok → String
  | .frame f => "F:" ++ renderFrame f
  | .data b => "D:" ++ toHex b
  | .partialData b => "D:" ++ toHex b
  | .none_ => "N"
  | .pending => "P"
  | .truncated => "E:end"
  | .malformed => "E:proto:malformed"
  | .h2 ty => s!"E:proto:unsupported({ty})"
  | .badSettings => "E:proto:settings(*)"
  | .okSettings => "F:settings(*)"
  | .outside => "?"

open H3.Spec.Framing in
def specLine (script : List Ev) : String :=
  -- the specification speaks about FIN and still-open endings (DESIGN §7 C02 / App. B.1)
  if script.any (fun e => match e with | .reset _ => true | _ => false) then "?" else
  -- events after the first `fin` are never looked at
  let upto := script.takeWhile (· != .fin)
  let w := scriptBytes upto
  let ending := if script.contains .fin then Ending.fin else Ending.open_
  let toks := observe (w.length + 1) w ending
  if toks.contains .outside then "?" else
  -- a truncated DATA payload: any prefix of the bytes present may have been handed out
  let alts : List (List Tok) :=
    match toks.reverse with
    | .truncated :: .partialData bs :: pre =>
      (List.range (bs.length + 1)).map (fun k =>
        pre.reverse ++ (if k = 0 then [] else [Tok.data (bs.take k)]) ++ [Tok.truncated])
    | _ => [toks]
  " || ".intercalate (alts.map (fun ts => " ".intercalate (ts.map renderTok)))

/-! ### request-level call letters `r` (`poll_recv_data`) and `s` (`split()`) -/

/-- at most one `s`: the halves of a split request stream cannot be split again -/
def parseCallsR (s : String) : Option (List CallR) :=
  if s.isEmpty then none else
  let cs := s.toList.mapM (fun c => if c == 'r' then some CallR.recv else if c == 's' then some CallR.split else none)
  cs.bind (fun l => if (l.filter (· == CallR.split)).length > 1 then none else some l)

/-- what `client::RequestStream::poll_recv_data` answers (error mapping of
    `handle_frame_stream_error_on_request_stream` / `got_frame_error`) -/
def renderROut : FOut → String
  | .data b => "D:" ++ toHex b
  | .none => "N"
  | .pending => "P"
  | .frame _ => "E:conn:H3_FRAME_UNEXPECTED"
  | .errProto .malformed => "E:conn:H3_FRAME_ERROR"
  | .errProto (.unsupported _) => "E:conn:H3_FRAME_UNEXPECTED"
  | .errProto (.settings _) => "E:conn:H3_SETTINGS_ERROR"
  | .errEnd => "E:conn:H3_FRAME_ERROR"
  | .errQuic c => s!"E:quic:{c}"
  | .panic => "X"

def flushData (acc : Varint.Bytes) : List String := if acc.isEmpty then [] else ["D:" ++ toHex acc]

open H3.Spec.Framing in
/-- What a reader of the message body must see of the token sequence of `observe`: the payload
    bytes of the DATA frames in order (frame boundaries are not visible to it), then the end — a
    clean end or a HEADERS frame ends the body, a cut-off or malformed frame is H3_FRAME_ERROR, an
    HTTP/2 frame type H3_FRAME_UNEXPECTED; any other frame is some connection error (WHICH one is
    C03's / C04's / C13's business).  `none` = outside this specification. -/
def reqView : Varint.Bytes → List Tok → Option (List String)
  | acc, [] => some (flushData acc)
  | acc, .frame (.data _) :: r => reqView acc r
  | acc, .data b :: r => reqView (acc ++ b) r
  | acc, .partialData b :: r => reqView (acc ++ b) r
  | acc, .frame (.headers _) :: _ => some (flushData acc ++ ["N"])
  | acc, .frame _ :: _ => some (flushData acc ++ ["E:conn:*"])
  | acc, .okSettings :: _ => some (flushData acc ++ ["E:conn:*"])
  | acc, .badSettings :: _ => some (flushData acc ++ ["E:conn:*"])
  | acc, .none_ :: _ => some (flushData acc ++ ["N"])
  | acc, .pending :: _ => some (flushData acc ++ ["P"])
  | acc, .truncated :: _ => some (flushData acc ++ ["E:conn:H3_FRAME_ERROR"])
  | acc, .malformed :: _ => some (flushData acc ++ ["E:conn:H3_FRAME_ERROR"])
  | acc, .h2 _ :: _ => some (flushData acc ++ ["E:conn:H3_FRAME_UNEXPECTED"])
  | _, .outside :: _ => none

open H3.Spec.Framing in
/-- the specification for a body reader that has read the stream to its end (or as far as it has come) -/
def specLineR (script : List Ev) : String :=
  if script.any (fun e => match e with | .reset _ => true | _ => false) then "?" else
  let upto := script.takeWhile (· != .fin)
  let w := scriptBytes upto
  let ending := if script.contains .fin then Ending.fin else Ending.open_
  let toks := observe (w.length + 1) w ending
  let alts : List (List Tok) :=
    match toks.reverse with
    | .truncated :: .partialData bs :: pre =>
      (List.range (bs.length + 1)).map (fun k =>
        pre.reverse ++ (if k = 0 then [] else [Tok.data (bs.take k)]) ++ [Tok.truncated])
    | _ => [toks]
  match alts.mapM (reqView []) with
  | none => "?"
  | some vs => " || ".intercalate (vs.map (fun v => " ".intercalate v))

/-- `fs calls <script> <calls over r, s>` -/
def requestCalls (script : List Ev) (calls : List CallR) : String :=
  let x := runR {} script calls
  let m := " ".intercalate ((normalise x.outs).map renderROut)
  -- the specification speaks about a reader that has come to the end of what there is: a terminal
  -- answer was given, or the script is used up, the last call has answered Pending and so would one more
  let quiet := x.script.isEmpty &&
    (match x.outs.getLast? with | some .pending => true | _ => false) &&
    (match (recvData (recvFuel x.st []) x.st []).out with | .pending => true | _ => false)
  let sp := if x.ended || quiet then specLineR script else "?"
  m ++ " ## " ++ sp

def renderDec : H3.Frame.DecRes → String
  | .frame f n => s!"ok {renderFrame f} {n}"
  | .unknown n => s!"unknown {n}"
  | .incomplete m => s!"incomplete {m}"
  | .error e => s!"err {renderErr e}"

def handle : List String → String
  | ["frame", "dec", h] =>
    match parseHex h with
    | none => "bad-op"
    | some bs => renderDec (decode bs) ++ " ## ?"
  | ["fs", "calls", sc, cs] =>
    if !cs.isEmpty && cs.toList.all (fun c => c == 'r' || c == 's') then
      match parseScript sc, parseCallsR cs with
      | some script, some calls => requestCalls script calls
      | _, _ => "bad-op"
    else
    match parseScript sc, parseCalls cs with
    | some script, some calls =>
      " ".intercalate ((runCalls {} script calls).map renderOut) ++ " ## ?"
    | _, _ => "bad-op"
  | ["fs", "loop", sc] =>
    match parseScript sc with
    | some script =>
      let fuel := 4 * (scriptBytes script).length + 4 * script.length + 8
      let outs := normalise (readerLoop fuel {} script)
      " ".intercalate (outs.map renderOut) ++ " ## " ++ specLine script
    | none => "bad-op"
  | _ => "bad-op"

end H3.Drv.C02
