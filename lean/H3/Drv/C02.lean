import H3.Drv.Util
import H3.Model.FrameStream
import H3.Lemmas.FrameStreamFast
import H3.Spec.FramingJudge
/-! Driver engines `frame` and `fs` (C02). -/
namespace H3.Drv.C02
open H3.Drv H3.Frame H3.FS

def supportedOrder : List Nat := [0x1, 0x6, 0x7, 0x8, 0x33, 0x2b603742, 0x2b603743]

def renderSettings (es : List (Nat × Nat)) : String :=
  let parts := supportedOrder.filterMap (fun id => (es.find? (·.1 == id)).map (fun e => s!"{e.1}={e.2}"))
  "settings(" ++ ";".intercalate parts ++ ")"

def renderFrame : Frame → String
  | .data n => s!"data({n})"
  | .headers p => s!"headers({toHex p})"
  | .cancelPush v => s!"cancel_push({v})"
  | .settings es => renderSettings es
  | .pushPromise id _ => s!"push_promise({id})"
  | .goaway v => s!"goaway({v})"
  | .maxPushId v => s!"max_push_id({v})"
  | .webTransport s => s!"wt({s})"

def renderSErr : SettingsErr → String
  | .malformed => "malformed" | .invalidId id => s!"invalid({id})" | .invalidValue id v => s!"invalid_value({id},{v})"
  | .repeated id => s!"repeated({id})" | .exceeded => "exceeded"

def renderErr : FrameErr → String
  | .malformed => "malformed"
  | .unsupported ty => s!"unsupported({ty})"
  | .settings e => s!"settings({renderSErr e})"

def renderOut : FOut → String
  | .frame f => "F:" ++ renderFrame f
  | .data b => "D:" ++ toHex b
  | .none => "N"
  | .pending => "P"
  | .errProto e => "E:proto:" ++ renderErr e
  | .errEnd => "E:end"
  | .errQuic c => s!"E:quic:{c}"
  | .panic => "X"

def parseEv (s : String) : Option Ev :=
  match s.toList with
  | ['p'] => some .pend
  | ['f'] => some .fin
  | 'r' :: r => (String.ofList r).toNat?.map .reset
  | 'c' :: r => (parseHexChars r).bind (fun b => if b.isEmpty then none else some (.chunk b))
  | _ => none

def parseScript (s : String) : Option (List Ev) :=
  if s == "-" then some [] else (s.splitOn ",").mapM parseEv

def parseCalls (s : String) : Option (List Call) :=
  s.toList.mapM (fun c => if c == 'n' then some .next else if c == 'd' then some .data else none)

/-- merge consecutive data pieces, drop `P` unless it is the last observation -/
def normalise : List FOut → List FOut
  | [] => []
  | [o] => [o]
  | .pending :: rest => normalise rest
  | .data a :: rest =>
    match normalise rest with
    | .data b :: r => .data (a ++ b) :: r
    | r => .data a :: r
  | o :: rest => o :: normalise rest

def scriptBytes : List Ev → Varint.Bytes
  | [] => []
  | .chunk b :: r => b ++ scriptBytes r
  | _ :: r => scriptBytes r

open H3.Spec.Framing in
def renderTok : Tok → String
  | .frame f => "F:" ++ renderFrame f
  | .data b => "D:" ++ toHex b
  | .partialData b => "D:" ++ toHex b
  | .none_ => "N"
  | .pending => "P"
  | .truncated => "E:end"
  -- `E:proto:malformed` is the answer the callers turn into H3_FRAME_ERROR, `E:proto:settings(<reason>)`
  -- (any reason) the one they turn into H3_SETTINGS_ERROR (`got_frame_error`; `C02_frame_error_code_at_callers`)
  | .malformed => "E:proto:malformed"
  | .h2 ty => s!"E:proto:unsupported({ty})"
  | .badSettings => "E:proto:settings(*)"
  | .okSettings => "F:settings(*)"
  | .outside => "?"

/-- how the stream of a script ends (the first `fin` or `reset`; later events are never looked at), the
    bytes before that, and how often the transport answers `Pending` before that -/
def scriptEnd : List Ev → Varint.Bytes × H3.Spec.Framing.Stop × Nat
  | [] => ([], .open_, 0)
  | .chunk b :: r => let (w, s, p) := scriptEnd r; (b ++ w, s, p)
  | .pend :: r => let (w, s, p) := scriptEnd r; (w, s, p + 1)
  | .fin :: _ => ([], .fin, 0)
  | .reset c :: _ => ([], .reset c, 0)

/-- a pattern with at most one `*` against a token -/
def tokMatch (pat tok : String) : Bool :=
  if pat == "*" || pat == tok then true else
  match pat.splitOn "*" with
  | [a, b] => tok.length ≥ a.length + b.length && tok.startsWith a && tok.endsWith b
  | _ => false

open H3.Spec.Framing in
def parseAns (s : String) : Ans String :=
  if s == "N" then .none_
  else if s == "P" then .pending
  else if s == "E:end" then .errEnd
  else if s.startsWith "D:" then
    match parseHex (s.drop 2).toString with
    | some b => .data b
    | none => .other
  else if s.startsWith "E:quic:" then
    match (s.drop 7).toString.toNat? with
    | some c => .errQuic c
    | none => .other
  else if s.startsWith "F:" || s.startsWith "E:proto:" then .tok s
  else .other

/-- the longest payload cut short by FIN for which the specification line lists every prefix (beyond
    that the line ends `**` and the judge alone decides about the data handed out) -/
def maxListedPrefixes : Nat := 24

open H3.Spec.Framing in
/-- the lines a reader loop may print for the token list `toks` of the oracle -/
def loopPatterns (toks : List Tok) : List String :=
  let line (ts : List Tok) := " ".intercalate (ts.map renderTok)
  match toks.reverse with
  | .truncated :: .partialData bs :: pre =>
    -- a truncated DATA payload: any prefix of the bytes present may have been handed out
    if bs.length ≤ maxListedPrefixes then
      (List.range (bs.length + 1)).map (fun k =>
        line (pre.reverse ++ (if k = 0 then [] else [Tok.data (bs.take k)]) ++ [Tok.truncated]))
    else [line pre.reverse ++ " **"]
  | _ => [line toks]

open H3.Spec.Framing in
/-- `strict`: the SETTINGS reading R-02s alone; otherwise also what `observe` says -/
def specLoop (strict : Bool) (script : List Ev) : String :=
  let (w, stop, _) := scriptEnd script
  let alts := observeAlts (!strict) w stop.ending
  if alts.any (·.contains .outside) then "?" else
  match stop with
  -- which prefix of the observations is seen before the reset's error is not fixed: the judge decides
  | .reset _ => "ok **"
  | _ => " || ".intercalate ((alts.flatMap loopPatterns).eraseDups.map ("ok " ++ ·))

open H3.Spec.Framing in
def judgeInit (stop : Stop) (pends : Nat) (calls : Bool) (toks : List Tok) : JSt :=
  { ref := toks, pends := if calls && stop != .open_ then some pends else none }

open H3.Spec.Framing in
/-- the judge's verdict on a list of printed answers: `ok`, or `BAD@<index of the first unacceptable answer>` -/
def verdict (strict : Bool) (script : List Ev) (calls : Option (List JCall)) (answers : List String) : String :=
  let (w, stop, pends) := scriptEnd script
  let alts := observeAlts (!strict) w stop.ending
  if alts.any (·.contains .outside) then "ok" else
  let m : Tok → String → Bool := fun t s => tokMatch (renderTok t) s
  let as := answers.map parseAns
  let rs := alts.map (fun toks =>
    match calls with
    | some cs => judgeCalls m stop (judgeInit stop pends true toks) cs as 0
    | none => judgeLoop m stop (judgeInit stop pends false toks) as 0)
  if rs.any (·.isNone) then "ok" else
  match rs with
  | some i :: _ => s!"BAD@{i}"
  | _ => "BAD"

/-! ### request-level call letters `r` (`poll_recv_data`) and `s` (`split()`) -/

/-- at most one `s`: the halves of a split request stream cannot be split again -/
def parseCallsR (s : String) : Option (List CallR) :=
  if s.isEmpty then none else
  let cs := s.toList.mapM (fun c => if c == 'r' then some CallR.recv else if c == 's' then some CallR.split else none)
  cs.bind (fun l => if (l.filter (· == CallR.split)).length > 1 then none else some l)

/-- what `client::RequestStream::poll_recv_data` answers (error mapping of
    `handle_frame_stream_error_on_request_stream` / `got_frame_error`) -/
def renderROut : FOut → String
  | .data b => "D:" ++ toHex b
  | .none => "N"
  | .pending => "P"
  | .frame _ => "E:conn:H3_FRAME_UNEXPECTED"
  | .errProto .malformed => "E:conn:H3_FRAME_ERROR"
  | .errProto (.unsupported _) => "E:conn:H3_FRAME_UNEXPECTED"
  | .errProto (.settings _) => "E:conn:H3_SETTINGS_ERROR"
  | .errEnd => "E:conn:H3_FRAME_ERROR"
  | .errQuic c => s!"E:quic:{c}"
  | .panic => "X"

def flushData (acc : Varint.Bytes) : List String := if acc.isEmpty then [] else ["D:" ++ toHex acc]

open H3.Spec.Framing in
/-- What a reader of the message body must see of the token sequence of `observe`: the payload
    bytes of the DATA frames in order (frame boundaries are not visible to it), then the end — a
    clean end or a HEADERS frame ends the body, a cut-off or malformed frame is H3_FRAME_ERROR, an
    HTTP/2 frame type H3_FRAME_UNEXPECTED; any other frame is some connection error (WHICH one is
    C03's / C04's / C13's business).  `none` = outside this specification. -/
def reqView : Varint.Bytes → List Tok → Option (List String)
  | acc, [] => some (flushData acc)
  | acc, .frame (.data _) :: r => reqView acc r
  | acc, .data b :: r => reqView (acc ++ b) r
  | acc, .partialData b :: r => reqView (acc ++ b) r
  | acc, .frame (.headers _) :: _ => some (flushData acc ++ ["N"])
  | acc, .frame _ :: _ => some (flushData acc ++ ["E:conn:*"])
  | acc, .okSettings :: _ => some (flushData acc ++ ["E:conn:*"])
  | acc, .badSettings :: _ => some (flushData acc ++ ["E:conn:*"])
  | acc, .none_ :: _ => some (flushData acc ++ ["N"])
  | acc, .pending :: _ => some (flushData acc ++ ["P"])
  | acc, .truncated :: _ => some (flushData acc ++ ["E:conn:H3_FRAME_ERROR"])
  | acc, .malformed :: _ => some (flushData acc ++ ["E:conn:H3_FRAME_ERROR"])
  | acc, .h2 _ :: _ => some (flushData acc ++ ["E:conn:H3_FRAME_UNEXPECTED"])
  | _, .outside :: _ => none

open H3.Spec.Framing in
/-- the specification for a body reader that has read the stream to its end (or as far as it has come) -/
def specLineR (script : List Ev) : String :=
  if script.any (fun e => match e with | .reset _ => true | _ => false) then "?" else
  let upto := script.takeWhile (· != .fin)
  let w := scriptBytes upto
  let ending := if script.contains .fin then Ending.fin else Ending.open_
  let toks := observe (w.length + 1) w ending
  let alts : List (List Tok) :=
    match toks.reverse with
    | .truncated :: .partialData bs :: pre =>
      (List.range (bs.length + 1)).map (fun k =>
        pre.reverse ++ (if k = 0 then [] else [Tok.data (bs.take k)]) ++ [Tok.truncated])
    | _ => [toks]
  match alts.mapM (reqView []) with
  | none => "?"
  | some vs => " || ".intercalate (vs.map (fun v => " ".intercalate v))

/-- `fs calls <script> <calls over r, s>` -/
def requestCalls (script : List Ev) (calls : List CallR) : String :=
  let x := runR {} script calls
  let m := " ".intercalate ((normalise x.outs).map renderROut)
  -- the specification speaks about a reader that has come to the end of what there is: a terminal
  -- answer was given, or the script is used up, the last call has answered Pending and so would one more
  let quiet := x.script.isEmpty &&
    (match x.outs.getLast? with | some .pending => true | _ => false) &&
    (match (recvData (recvFuel x.st []) x.st []).out with | .pending => true | _ => false)
  let sp := if x.ended || quiet then specLineR script else "?"
  m ++ " ## " ++ sp

def renderDec : H3.Frame.DecRes → String
  | .frame f n => s!"ok {renderFrame f} {n}"
  | .unknown n => s!"unknown {n}"
  | .incomplete m => s!"incomplete {m}"
  | .error e => s!"err {renderErr e}"

open H3.Spec.Framing in
def renderFirst : First → String
  | .incomplete => "incomplete *"
  | .data len hdr => s!"ok data({len}) {hdr}"
  | .known (.frame f) n => s!"ok {renderFrame f} {n}"
  | .known .okSettings n => s!"ok settings(*) {n}"
  | .known .malformed _ => "err malformed"
  | .known (.h2 ty) _ => s!"err unsupported({ty})"
  | .known .badSettings _ => "err settings(*)"
  | .known _ _ => "?"
  | .skipped n => s!"unknown {n}"
  | .outside => "?"

open H3.Spec.Framing in
/-- what `Frame::decode` has to answer on the buffer `w`: the segmentation of the first frame -/
def specDec (strict : Bool) (w : Varint.Bytes) : String :=
  let a := firstFrame (classifyS false) w
  let b := firstFrame (classifyS true) w
  let c := firstFrame classify w
  let l := if b = a then [a] else [a, b]
  let l := if !strict && !l.contains c then l ++ [c] else l
  if l.contains .outside then "?" else " || ".intercalate (l.map renderFirst)

def parseJCalls (s : String) : Option (List H3.Spec.Framing.JCall) :=
  s.toList.mapM (fun c => if c == 'n' then some .next else if c == 'd' then some .data else none)

def strictOp (op base : String) : Option Bool :=
  if op == base then some false else if op == base ++ "S" then some true else none

def handleDec (strict : Bool) (h : String) : String :=
  match parseHex h with
  | none => "bad-op"
  | some bs => renderDec (decode bs) ++ " ## " ++ specDec strict bs

def handleCalls (strict : Bool) (sc cs : String) : String :=
  -- call letters `r`/`s`: `poll_recv_data` on a real `RequestStream` and `split()` (builder aC13)
  if !cs.isEmpty && cs.toList.all (fun c => c == 'r' || c == 's') then
    match parseScript sc, parseCallsR cs with
    | some script, some calls => requestCalls script calls
    | _, _ => "bad-op"
  else
  match parseScript sc, parseCalls cs, parseJCalls cs with
  | some script, some calls, some jcalls =>
    -- `runCallsF = runCalls` (`H3.FS.runCallsF_eq`, `C02_driver_runs_the_model`)
    let outs := (runCallsF {} script calls).map renderOut
    let spec := if specLoop strict script == "?" then "?" else "ok **"
    (verdict strict script (some jcalls) outs ++ " " ++ " ".intercalate outs).trimAscii.toString ++ " ## " ++ spec
  | _, _, _ => "bad-op"

def handleLoop (strict : Bool) (sc : String) : String :=
  match parseScript sc with
  | some script =>
    let fuel := 4 * (scriptBytes script).length + 4 * script.length + 8
    -- `readerLoopF = readerLoop` (`H3.FS.readerLoopF_eq`, `C02_driver_runs_the_model`)
    let outs := (normalise (readerLoopF fuel {} script)).map renderOut
    (verdict strict script none outs ++ " " ++ " ".intercalate outs).trimAscii.toString ++ " ## " ++ specLoop strict script
  | none => "bad-op"

/-- `fs judge <0|1 strict> loop <script> @@ <answers>` / `fs judge <0|1> calls <script> <calls> @@ <answers>`:
    the verdict of `H3.Spec.Framing.judgeLoop` / `judgeCalls` on answers observed elsewhere (the
    implementation's, sent here by `Prop.project_all`) -/
def handleJudge : List String → String
  | s :: "loop" :: sc :: "@@" :: answers =>
    match parseScript sc with
    | some script => verdict (s == "1") script none answers
    | none => "bad-op"
  | s :: "calls" :: sc :: cs :: "@@" :: answers =>
    match parseScript sc, parseJCalls cs with
    | some script, some jcalls => verdict (s == "1") script (some jcalls) answers
    | _, _ => "bad-op"
  | _ => "bad-op"

/-- ops `dec` / `loop` / `calls`: the committed reading (lenient about WHICH error a SETTINGS payload
    that ends inside an entry is); ops `decS` / `loopS` / `callsS`: the same cases under the strict
    reading R-02s (DESIGN.md section 9). -/
def handle : List String → String
  | "fs" :: "judge" :: rest => handleJudge rest
  | ["frame", op, h] =>
    match strictOp op "dec" with
    | some strict => handleDec strict h
    | none => "bad-op"
  | ["fs", op, sc, cs] =>
    match strictOp op "calls" with
    | some strict => handleCalls strict sc cs
    | none => "bad-op"
  | ["fs", op, sc] =>
    match strictOp op "loop" with
    | some strict => handleLoop strict sc
    | none => "bad-op"
  | _ => "bad-op"

end H3.Drv.C02
