import H3.Drv.C04
import H3.Spec.Faults
import H3.Model.Setup
/-! Driver engine `flt`: scenario lines in which the transport fails — faults armed with
    `!<site>[<target>]:<err>` (harness/src/sim.rs), the builder call part of the scenario (cfg
    `hold=1`, api op `<task>.B`), the complete interleaved history logged (cfg `ev=1,ops=1`).

    * **model**: SimQuic's fault table, sticky connection error, stream credit and STOP_SENDING
      (`Net`, a `Setup.Transport`), with the *code models* doing h3's work: `Setup.buildPoll` (the
      `build` future), `C04.pollDriver` (→ `UniAccept.pollType`, `FS.pollNext`, `Control.drivePoll`: one
      poll of the role's driver, the grease machine answering the armed faults), `Setup.raise` /
      `ctlStreamErr` / `clientAcceptBi` / `shutdownWrite` (the error arms).
    * **spec**: `Spec.Faults.verdict` on the history (a predicate over histories: C05's single outcome
      and close discipline, C04's critical-stream and grease rules, C06's completion).

    Output: `<verdict on the model's history> <history> | uni=<n> ctl=<frames> g=<state> pending=[…] ## ok **`.
    Judge engine `fltj <role> <cfg> <history…>` prints the verdict on an observed history. -/
namespace H3.Drv.Fault
open H3.Drv H3.Drv.FaultOp H3.Setup
open H3.ErrCell (QErr Err CErr)

/-! ### SimQuic with faults -/

structure Net where
  server : Bool
  faults : List Fault := []
  /-- `conn_err`: sticky -/
  connErr : Option QErr := none
  uniOpened : Nat := 0
  uc : Option Nat := none
  /-- cfg `wc=0`: no stream accepts a byte -/
  wc0 : Bool := false
  /-- stream number of the setup (0 control, 1 encoder, 2 decoder) ↦ stream id -/
  sids : List (Nat × Nat) := []
  txStopped : List (Nat × Nat) := []
  txBroken : List Nat := []
  /-- `!<label>` of the faults that fired and are not yet in the history -/
  log : List String := []
  unsupported : Bool := false
deriving Repr

def takeFault : List Fault → Site → Nat → List Fault × Option Fault
  | [], _, _ => ([], none)
  | f :: r, site, tg =>
    if f.site == site && (f.target.isNone || f.target == some tg) then
      if f.skip > 0 then ({ f with skip := f.skip - 1 } :: r, none) else (r, some f)
    else
      let (r', x) := takeFault r site tg
      (f :: r', x)

/-- sim.rs `fault()`: is a fault due at this call? -/
def Net.fire (n : Net) (site : Site) (tg : Nat) : Net × Option Kind :=
  match takeFault n.faults site tg with
  | (fs, some f) =>
    let n1 := { n with faults := fs, log := n.log ++ ["!" ++ f.label] }
    match f.kind with
    | .conn q => ({ n1 with connErr := n1.connErr.or (some q) }, some f.kind)
    | k => (n1, some k)
  | (fs, none) => ({ n with faults := fs }, none)

def kindErr : Kind → SErr
  | .conn q => .conn q
  | .term c => .terminated c
  | .unknown => .unknown 0
  | .pend => .unknown 0

def Net.markTx (n : Net) (sid : Nat) : Kind → Net
  | .term c => if (n.txStopped.lookup sid).isSome then n else { n with txStopped := n.txStopped ++ [(sid, c)] }
  | .unknown => { n with txBroken := n.txBroken ++ [sid] }
  | .conn _ => n
  | .pend => n

def localBase (server : Bool) : Nat := if server then 3 else 2

def Net.sidOf (n : Net) (k : Nat) : Nat := (n.sids.lookup k).getD 0

/-- SimQuic answering the calls of the setup (`open()`, `send_data`, `poll_ready` of sim.rs) -/
def netCall (n : Net) : Call → Net × Ans
  | .openSend k =>
    match n.connErr with
    | some q => (n, .err (.conn q))
    | none =>
      match n.fire .ou n.uniOpened with
      | (n1, some kd) => (n1, .err (kindErr kd))
      | (n1, none) =>
        if n1.uc == some 0 then (n1, .pending)
        else ({ n1 with uc := n1.uc.map (· - 1), sids := n1.sids ++ [(k, localBase n1.server + 4 * n1.uniOpened)],
                        uniOpened := n1.uniOpened + 1 }, .ok)
  | .sendData k =>
    let sid := n.sidOf k
    if n.txBroken.contains sid then (n, .err (.unknown 0)) else
    match n.fire .sd sid with
    | (n1, some kd) => (n1.markTx sid kd, .err (kindErr kd))
    | (n1, none) => (n1, .ok)
  | .pollReady k =>
    let sid := n.sidOf k
    match n.connErr with
    | some q => (n, .err (.conn q))
    | none =>
      if n.txBroken.contains sid then (n, .err (.unknown 0)) else
      match n.fire .pr sid with
      | (n1, some kd) => (n1.markTx sid kd, .err (kindErr kd))
      | (n1, none) =>
        match n1.txStopped.lookup sid with
        | some c => (n1, .err (.terminated c))
        | none => if n1.wc0 then (n1, .pending) else (n1, .ok)

def netTr : Transport Net := { call := netCall }

/-! ### the scenario -/

inductive BPhase where
  | notStarted
  | running (b : BSt)
  | ok
  | failed
deriving Repr

structure FSt where
  rc : C04.RunCfg
  net : Net
  sys : C04.Sys
  bp : BPhase := .notStarted
  drv : Setup.Drv := {}
  /-- `conn.A` is pending / `drv.W` is driving -/
  inflight : Bool := false
  sentClosing : Bool := false
  /-- incoming bidirectional streams not yet accepted -/
  bidiQ : Nat := 0
  /-- frame types written on the own control stream -/
  ctlFrames : List Nat := []
  hist : List String := []
  /-- engine `flt5`: the history is judged for C05 (`shutdown` must report the error too) -/
  strict : Bool := false
  /-- commands posted while the task is busy (a pending `build` or, on a server, a pending `accept`) -/
  mailbox : List String := []
  unsupported : Bool := false
deriving Repr

def renderErr : CErr → String
  | .localApp c _ => s!"err:local:{c}"
  | .remote (.appClose c) => s!"err:remote:app:{c}"
  | .remote (.internal _) => "err:remote:internal"
  | .remote (.undefined _) => "err:remote:undefined"
  | .remote .timeout => "err:remote:timeout"
  | .timeout => "err:timeout"

def FSt.taskName (s : FSt) : String := if s.rc.server then "conn" else "drv"
def FSt.callName (s : FSt) : String := if s.rc.server then "conn.A" else "drv.W"

/-- move the labels of the faults that fired into the history -/
def FSt.flush (s : FSt) : FSt :=
  { s with hist := s.hist ++ s.net.log, net := { s.net with log := [] },
           unsupported := s.unsupported || s.net.unsupported }

def FSt.say (s : FSt) (tok : String) : FSt := { s with hist := s.hist ++ [tok] }

/-- the driver's error state changes: the new close calls go into the history -/
def FSt.setDrv (s : FSt) (d : Setup.Drv) : FSt :=
  let new := d.closes.drop s.drv.closes.length
  { s with drv := d, hist := s.hist ++ new.map (fun c => s!"close:{c}") }

/-- the call in flight completes with `res` -/
def FSt.complete (s : FSt) (res : String) : FSt :=
  let s1 := s.say s!"{s.callName}={res}"
  { s1 with inflight := false }

/-- `handle_connection_error(e)` ends the call in flight -/
def FSt.raiseRes (s : FSt) (e : Err) : FSt :=
  let s := s.flush
  let (d, c) := raise s.drv e
  (s.setDrv d).complete (renderErr c)

/-! ### `builder.build(conn)` -/

def pollBuild (s : FSt) (b : BSt) : FSt :=
  let o := buildPoll netTr s.net b
  let s := ({ s with net := o.t } : FSt).flush
  match o.res with
  | none => { s with bp := .running o.st }
  | some none =>
    -- a grease stream would be the fourth stream: ids as the projection assumes them
    let odd := s.rc.grease && s.net.uniOpened != 3
    let s1 := s.say s!"{s.taskName}.build=ok"
    let sys1 := { s1.sys with uc := s1.net.uc }
    { s1 with bp := .ok, ctlFrames := [4], unsupported := s1.unsupported || odd, sys := sys1 }
  | some (some e) =>
    let s1 := { s with hist := s.hist ++ o.st.drv.closes.map (fun c => s!"close:{c}") }
    let s2 := s1.say s!"{s1.taskName}.build={renderErr e}"
    { s2 with bp := .failed }

/-! ### `ConnectionInner::shutdown` -/

/-- the GOAWAY write; `none` = the write is pending (not supported here) -/
def shutdownCall (s : FSt) : FSt × Option (Option CErr) :=
  match shutdownPlan s.drv s.sentClosing with
  | .report h => (s, some (some h))          -- `check_connection_error()?`
  | .nothing => (s, some none)
  | .write =>
    let s := { s with sentClosing := true }
    let (n1, w, _) := pollWrite netTr s.net 0 .start
    let s := ({ s with net := n1 } : FSt).flush
    match w with
    | .done r =>
      let (d, c) := shutdownWrite s.drv r
      let s := if r.isNone then { s with ctlFrames := s.ctlFrames ++ [7] } else s
      (s.setDrv d, some c)
    | _ => ({ s with unsupported := true }, none)

/-! ### one poll of the role's driver -/

def connOf : Kind → Option QErr
  | .conn q => some q
  | _ => none

/-- armed `rd` faults on streams the driver reads in this poll: a connection error ends the poll,
    a stream error is what a RESET at the head of the stream is (`PollTypeError::EndOfStream` /
    `StreamEnd::Other`; on the control stream `FrameStreamError::Quic`) -/
def rdPhase (s : FSt) : FSt × Option QErr :=
  let go := fun (acc : FSt × Option QErr × List Fault) (f : Fault) =>
    let (s, hit, keep) := acc
    if hit.isSome || f.site != .rd || f.skip != 0 then (s, hit, keep ++ [f]) else
    match f.target.bind (fun sid => s.sys.streams.find? (fun u => u.sid == sid)) with
    | none => (s, hit, keep ++ [f])
    | some u =>
      let reads := (u.phase == .pending && u.st.ended.isNone) || (u.phase == .control && !s.sys.fs.eos)
      if !reads then (s, hit, keep ++ [f]) else
      let s := s.say ("!" ++ f.label)
      match f.kind with
      | .conn q => ({ s with net := { s.net with connErr := s.net.connErr.or (some q) } }, some q, keep)
      | k =>
        let c := match k with | .term c => c | _ => 0
        let streams := s.sys.streams.map fun v => if v.sid == u.sid then { v with rx := [H3.FS.Ev.reset c] } else v
        ({ s with sys := { s.sys with streams := streams } }, none, keep)
  let (s1, hit, keep) := s.net.faults.foldl go (s, none, [])
  ({ s1 with net := { s1.net with faults := keep } }, hit)

/-- after the control loop answered `Pending` (or, on a server, the peer's GOAWAY is in):
    `poll_accept_bi`, then the server's `Ok(None)` → `shutdown(0)` -/
def acceptBiPhase (s : FSt) (closing : Bool) : FSt :=
  match s.net.fire .ab 0 with
  | (n1, some kd) =>
    let s := ({ s with net := n1 } : FSt).flush
    match connOf kd with
    | none => { s with unsupported := true }
    | some q =>
      if s.rc.server then s.raiseRes (.quic q)
      else
        let (d, c) := clientAcceptBi s.drv (.err q)
        (s.setDrv d).complete ((c.map renderErr).getD "?")
  | (n1, none) =>
    let s := { s with net := n1 }
    if s.bidiQ > 0 then
      if s.rc.server then { s with unsupported := true }
      else
        let (d, c) := clientAcceptBi s.drv .stream
        (s.setDrv d).complete ((c.map renderErr).getD "?")
    else if s.rc.server && closing then
      match shutdownCall s with
      | (s1, some none) => s1.complete "none"
      | (s1, some (some c)) => s1.complete (renderErr c)
      | (s1, none) => s1
    else s

def drvPoll (s : FSt) : FSt :=
  match s.drv.handled with
  | some h => s.complete (renderErr h)                       -- `poll_connection_error`
  | none =>
    match s.net.connErr with
    | some q => s.raiseRes (.quic q)                         -- `poll_accept_recv`: the connection has failed
    | none =>
      match s.net.fire .au 0 with
      | (n1, some kd) =>
        match connOf kd with
        | some q => ({ s with net := n1 } : FSt).raiseRes (.quic q)
        | none => { s with unsupported := true }
      | (n1, none) =>
        match rdPhase { s with net := n1 } with
        | (s1, some q) => s1.raiseRes (.quic q)
        | (s1, none) =>
          let (sys1, res) := C04.pollDriver s1.sys
          let fired := sys1.gFired.drop s1.sys.gFired.length
          let s2 := { s1 with sys := sys1, hist := s1.hist ++ fired.map (fun f => "!" ++ f.label) }
          match fired.findSome? (fun f => connOf f.kind) with
          | some q =>
            -- the grease machine gave up on a connection error; the next `poll_accept_recv` reports it
            { s2 with net := { s2.net with connErr := s2.net.connErr.or (some q) } }.raiseRes (.quic q)
          | none =>
            match res with
            | some r =>
              if r.startsWith "err:" then
                match (r.drop 4).toString.toNat? with
                | some code => s2.raiseRes (.internal code 0)
                | none => { s2 with unsupported := true }
              else acceptBiPhase s2 true
            | none => acceptBiPhase s2 false

/-! ### ops -/

def isGreaseFault (s : FSt) (f : Fault) : Bool :=
  (C04.armGrease s.sys (C04.greaseSid s.rc.server) f).isSome

def netFaultOk (s : FSt) (f : Fault) : Bool :=
  let base := localBase s.rc.server
  f.skip == 0 &&
  match f.site, f.target with
  | .ou, some k => k < 3
  | .sd, some sid => sid == base || sid == base + 4 || sid == base + 8
  | .pr, some sid => sid == base || sid == base + 4 || sid == base + 8
  | .au, none => true
  | .ab, none => true
  | .rd, some sid => C04.peerUni s.rc.server sid
  | _, _ => false

def wakesReader (s : FSt) (sid : Nat) : Bool :=
  match s.sys.streams.find? (fun u => u.sid == sid) with
  | some u => u.phase == .pending || u.phase == .control
  | none => false

def pollIfInflight (s : FSt) : FSt := if s.inflight then drvPoll s else s

def buildRunning (s : FSt) : Option BSt :=
  match s.bp with
  | .running b => some b
  | _ => none

def isBuilt (s : FSt) : Bool :=
  match s.bp with
  | .ok => true
  | _ => false

def isFailed (s : FSt) : Bool :=
  match s.bp with
  | .failed => true
  | _ => false

def apiOp (s : FSt) (cmd : String) : FSt :=
  let c := (cmd.splitOn ":").headD ""
  if isFailed s then s.say s!"{s.taskName}.{c}=no-task" else
  if c == "B" then
    match s.bp with
    | .notStarted => pollBuild s {}
    | _ => { s with unsupported := true }
  else if (buildRunning s).isSome then { s with mailbox := s.mailbox ++ [cmd] }
  else if c == "D" && !isBuilt s then
    -- dropped before it was built: the task answers and ends (`.failed` = nobody answers any more)
    { (s.say s!"{s.taskName}.D=ok") with bp := .failed }
  else if !isBuilt s then { s with unsupported := true }
  else if s.rc.server && s.inflight then { s with mailbox := s.mailbox ++ [cmd] }
  else if (s.rc.server && c == "A") || (!s.rc.server && c == "W") then
    -- client: a `W` while driving drops the `wait_idle` future and starts a new one
    drvPoll { s with inflight := true }
  else if c == "S" then
    match shutdownCall s with
    | (s1, some r) =>
      let s2 := s1.say s!"{s.taskName}.S={(r.map renderErr).getD "ok"}"
      -- client: `select(wait_idle, next command)`: the driver future is dropped and started again
      pollIfInflight s2
    | (s1, none) => s1
  else if c == "D" then
    -- the application drops the driver (a client's `wait_idle` future with it): the server's `Drop`
    -- calls `close(H3_NO_ERROR)` whatever happened before (`Setup.dropConn`, reading R-05); the task
    -- has ended, nobody answers later commands
    let s1 := s.say s!"{s.taskName}.D=ok"
    let s2 := s1.setDrv (dropConn s.rc.server s1.drv)
    { s2 with bp := .failed, inflight := false }
  else { s with unsupported := true }

/-- the task takes the commands that were posted while it was busy -/
def drain : Nat → FSt → FSt
  | 0, s => s
  | n+1, s =>
    if isFailed s then { s with mailbox := [] }      -- the task has ended; nobody answers
    else if !isBuilt s || s.unsupported || (s.rc.server && s.inflight) then s
    else
      match s.mailbox with
      | [] => s
      | c :: r => drain n (apiOp { s with mailbox := r } c)

def applyOp1 (s : FSt) (op : String) : FSt :=
  let s := s.say ("@" ++ op)
  let task := s.taskName
  match C04.parseOp task op with
  | .fault f =>
    if isGreaseFault s f then
      match C04.armGrease s.sys (C04.greaseSid s.rc.server) f with
      | some sys1 => { s with sys := sys1 }
      | none => s
    else if netFaultOk s f then { s with net := { s.net with faults := s.net.faults ++ [f] } }
    else { s with unsupported := true }
  | .api cmd => apiOp s cmd
  | .openS sid =>
    if C04.peerUni s.rc.server sid then
      let (sys1, _) := C04.applyOp s.sys {} (.openS sid)
      let s := { s with sys := sys1 }
      if isBuilt s then pollIfInflight s else s
    else if !s.rc.server && sid % 4 == 1 then
      let s := { s with bidiQ := s.bidiQ + 1 }
      if isBuilt s then pollIfInflight s else s
    else { s with unsupported := true }
  | .chunk sid b =>
    let wake := wakesReader s sid
    let (sys1, _) := C04.applyOp s.sys {} (.chunk sid b)
    let s := { s with sys := sys1 }
    if wake && isBuilt s then pollIfInflight s else s
  | .fin sid =>
    let wake := wakesReader s sid
    let (sys1, _) := C04.applyOp s.sys {} (.fin sid)
    let s := { s with sys := sys1 }
    if wake && isBuilt s then pollIfInflight s else s
  | .reset sid c =>
    let wake := wakesReader s sid
    let (sys1, _) := C04.applyOp s.sys {} (.reset sid c)
    let s := { s with sys := sys1 }
    if wake && isBuilt s then pollIfInflight s else s
  | .stop sid c =>
    if sid == C04.greaseSid s.rc.server then
      let (sys1, _) := C04.applyOp s.sys {} (.stop sid c)
      { s with sys := sys1 }
    else
      let s := { s with net := s.net.markTx sid (.term c) }
      -- wakes a write that is waiting on this stream: only the setup has one
      match buildRunning s with
      | some b => pollBuild s b
      | none => s
  | .gu _ => { s with unsupported := true }
  | .gw _ _ => { s with unsupported := true }
  | .bad =>
    -- `C<code>` application close, `T` timeout: the connection fails, every waiting task is woken
    let q : Option QErr :=
      match op.toList with
      | ['T'] => some .timeout
      | 'C' :: r => (FaultOp.natOf r).map .appClose
      | _ => none
    match q with
    | none => { s with unsupported := true }
    | some q =>
      let s := { s with net := { s.net with connErr := s.net.connErr.or (some q) } }
      match buildRunning s with
      | some b => pollBuild s b
      | none => if isBuilt s then pollIfInflight s else s

def applyOp (s : FSt) (op : String) : FSt :=
  let s1 := applyOp1 s op
  drain (s1.mailbox.length + 1) s1

/-! ### rendering -/

def gName (s : FSt) : String :=
  if s.sys.gFired.any (fun f => f.site == .pr && f.kind.isConn) then "writing" else C04.gState s.sys.gs

def pendingOf (s : FSt) : String :=
  match s.bp with
  | .running _ => s!"{s.taskName}.build"
  | _ => if s.inflight then s.callName else ""

def dotted (xs : List Nat) : String := if xs.isEmpty then "-" else ".".intercalate (xs.map toString)

def render (s : FSt) : String :=
  if s.unsupported || s.sys.unsupported || s.sys.panic then "unsupported ## ?" else
  let pend := s!"pending=[{pendingOf s}]"
  let v := H3.Spec.Faults.verdict s.rc.server s.rc.grease s.strict (s.hist ++ [pend])
  let uni := s.net.uniOpened + (if s.sys.gs.step != .notStarted then 1 else 0)
  s!"{v} {" ".intercalate s.hist} | uni={uni} ctl={dotted s.ctlFrames} g={gName s} {pend} ## ok **"

/-- cfg of an `flt` line: `g0|g1`, `hold=1` (required), `ev=1`, `ops=1`, `seed=…`, `uc=<n>`, `wc=0` -/
def parseCfg (server : Bool) (s : String) : Option (C04.RunCfg × Bool) :=
  (s.splitOn ",").foldlM (init := (({ server := server } : C04.RunCfg), false)) fun (c, hold) t =>
    if t == "-" || t == "" then some (c, hold)
    else if t == "g0" then some ({ c with grease := false }, hold)
    else if t == "g1" then some ({ c with grease := true }, hold)
    else match t.splitOn "=" with
      | [k, v] =>
        if k == "hold" then some (c, v == "1")
        else if k == "uc" then v.toNat?.map (fun n => ({ c with uc := some n }, hold))
        else if k == "wc" then (if v == "0" then some ({ c with wc := some 0 }, hold) else none)
        else if k == "ev" || k == "ops" || k == "seed" then some (c, hold)
        else none
      | _ => none

def handleFlt (strict : Bool) (role cfg : String) (ops : List String) : String :=
    if role != "server" && role != "client" then "bad-op" else
    let server := role == "server"
    match parseCfg server cfg with
    | none => "bad-op"
    | some (rc, hold) =>
      if !hold then "unsupported ## ?" else
      let s0 : FSt := { rc := rc, strict := strict, net := { server := server, uc := rc.uc, wc0 := rc.wc == some 0 },
                        sys := { rc := { rc with uc := none, wc := none }, gs := { flag := rc.grease } } }
      render (ops.foldl applyOp s0)

def handle : List String → String
  | "flt" :: role :: cfg :: ops => handleFlt false role cfg ops
  | "flt5" :: role :: cfg :: ops => handleFlt true role cfg ops
  | "fltj" :: role :: cfg :: toks =>
    H3.Spec.Faults.verdict (role == "server") ((cfg.splitOn ",").contains "g1") false toks
  | "fltj5" :: role :: cfg :: toks =>
    H3.Spec.Faults.verdict (role == "server") ((cfg.splitOn ",").contains "g1") true toks
  | _ => "bad-op"

end H3.Drv.Fault
