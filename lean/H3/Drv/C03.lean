import H3.Drv.Util
import H3.Model.ReqRecv
import H3.Spec.Framing
import H3.Spec.ReqSeq
/-! Driver engine `req` (C03): a scenario line of the connection-level interpreter, restricted to
    one request stream:

      req server <cfg> o2 s2:<hex> o<sid> conn.AL  <ops on sid>…
      req client <cfg> o3 s3:<hex> drv.W snd.R:<…> <ops on stream 0>…
      ops: s<sid>:<hex> | f<sid> | r<sid>:<code> | q<sid>.<res|rr|rd|rda|rt>[!]

    Model part: what `tools/props/c03.py:project` keeps of the harness output.
    Spec part: the RFC 9114 §4.1 recogniser on the frames of the wire bytes (cut by the
    §7.1 segmentation of `H3.Spec.Framing`), when the calls are the documented pattern. -/
namespace H3.Drv.C03
open H3.Drv H3.ReqRecv

/-! ### the header blocks the generator uses, and what the real decoder makes of them
    (QPACK and header validation are C11/C12; here they are an oracle) -/

def blkRequest : Bytes := [0x00, 0x00, 0xd1, 0xd7, 0x50, 0x83, 0x1a, 0xf1, 0xff, 0x51, 0x82, 0x63, 0xcf]
def blkResponse : Bytes := [0x00, 0x00, 0xd9]
def blkTrailer : Bytes := [0x00, 0x00, 0x29, 0xf3, 0x81, 0xf5]
def blkMethodOnly : Bytes := [0x00, 0x00, 0xd1]
def blkBadQpack : Bytes := [0xff, 0xff]

def known (b : Bytes) : Bool :=
  b == blkRequest || b == blkResponse || b == blkTrailer || b == blkMethodOnly || b == blkBadQpack

def hdrFor (role : Role) : Hdr where
  head := fun b =>
    if b == blkBadQpack then .qpack
    else if role == .server && b == blkRequest then .ok
    else if role == .client && b == blkResponse then .ok
    else .malformed
  -- pseudo-header fields make a trailer section malformed (RFC 9114 §4.3)
  trailer := fun b => if b == blkBadQpack then .qpack else if b == blkTrailer then .ok else .malformed

/-! ### parsing -/

def parseCmd (s : String) : Option Call :=
  let (base, halt) := if s.endsWith "!" then ((s.dropEnd 1).toString, true) else (s, false)
  match base with
  | "res" => some { cmd := .res, halt }
  | "rr" => some { cmd := .rr, halt }
  | "rd" => some { cmd := .rd, halt }
  | "rda" => some { cmd := .rda, halt }
  | "rt" => some { cmd := .rt, halt }
  | "sp" => some { cmd := .sp, halt }
  | _ => none

inductive POp where
  | open_ (id : Nat)
  | send (id : Nat) (b : Bytes)
  | fin (id : Nat)
  | reset (id : Nat) (c : Nat)
  | driver            -- conn.AL / drv.W
  | request           -- snd.R:…
  | call (id : Nat) (c : Call)
  /-- `#<text>`: an annotation of the generator, ignored by the interpreter -/
  | note (s : String)

def parseOp (s : String) : Option POp :=
  if s.startsWith "#" then some (.note s)
  else if s == "conn.AL" || s == "drv.W" then some .driver
  else if s.startsWith "snd.R:" then some .request
  else match s.toList with
  | 'o' :: r => (String.ofList r).toNat?.map .open_
  | 'f' :: r => (String.ofList r).toNat?.map .fin
  | 's' :: r =>
    match (String.ofList r).splitOn ":" with
    | [id, h] => do
      let id ← id.toNat?
      let b ← parseHex h
      if b.isEmpty then none else pure (.send id b)
    | _ => none
  | 'r' :: r =>
    match (String.ofList r).splitOn ":" with
    | [id, c] => do pure (.reset (← id.toNat?) (← c.toNat?))
    | _ => none
  | 'q' :: r =>
    match (String.ofList r).splitOn "." with
    | [id, c] => do pure (.call (← id.toNat?) (← parseCmd c))
    | _ => none
  | _ => none

/-- `wt=0|1`: WebTransport enabled in the configuration or not makes no difference to a stream read
    through `resolve_request` / `recv_response` (R-03b) -/
def cfgOk (s : String) : Bool :=
  (s.splitOn ",").all fun t => t == "-" || t == "g0" || t == "g1" || t.startsWith "seed=" || t == "wt=0" || t == "wt=1"

structure Scen where
  role : Role
  sid : Nat
  ops : List Op
  /-- the generator's promise `#pieces`: the single `recv_data` calls that precede the body loop
      find a piece of data each (they do not reach the end of the body) -/
  pieces : Bool := false

/-- `none` = a line this engine does not model -/
def parseScen (role : Role) (ops : List String) : Option Scen := do
  let ps ← ops.mapM parseOp
  -- set-up part: everything up to the op that creates the request stream's task
  let isUni (id : Nat) : Bool := id % 4 == (if role == .server then 2 else 3)
  let pieces : Bool := ps.any fun p => match p with | .note s => s == "#pieces" | _ => false
  let rec go (ps : List POp) (driver : Bool) (sid : Option Nat) (created : Bool) (acc : List Op) :
      Option Scen :=
    match ps with
    | [] =>
      match sid with
      | some sid =>
        if driver && created then
          some { role, sid, ops := acc.reverse, pieces }
        else none
      | none => none
    | .note _ :: r => go r driver sid created acc
    | .open_ id :: r =>
      if isUni id then go r driver sid created acc
      else if role == .server && id % 4 == 0 && sid.isNone then go r driver (some id) driver acc
      else none
    | .driver :: r => go r true sid (created || (role == .server && sid.isSome) || false) acc
    | .request :: r =>
      if role == .client && sid.isNone then go r driver (some 0) true acc else none
    | .send id b :: r =>
      if isUni id && sid.isNone then go r driver sid created acc
      else if some id == sid then go r driver sid created (.ev (.chunk b) :: acc) else none
    | .fin id :: r => if some id == sid then go r driver sid created (.ev .fin :: acc) else none
    | .reset id c :: r => if some id == sid then go r driver sid created (.ev (.reset c) :: acc) else none
    | .call id c :: r =>
      if some id == sid && created && driver then go r driver sid created (.call c :: acc) else none
  go ps false none false []

/-! ### rendering the model's answer -/

def cmdName : Cmd → String
  | .res => "res" | .rr => "rr" | .rd => "rd" | .rda => "rda" | .rt => "rt" | .sp => "sp"

def renderRes : Res → String
  | .head _ => "ok"
  | .data b => "data:" ++ toHex b
  | .end_ => "end"
  | .trailers _ => "trailers"
  | .noTrailers => "none"
  | .errConn c => s!"err:conn:{c}"
  | .errStream c => s!"err:stream:{c}"
  | .errReset c => s!"err:rterm:{c}"
  | .pending => "PENDING"
  | .panic => "PANIC"
  | .invalid => "INVALID"

inductive G where
  | data (all : Bytes) (sizes : List Nat)
  | other (c : Cmd) (a : Ans)

/-- entries oldest first; consecutive data pieces of `rd` are merged; `no-task` entries (an
    artefact of posting commands to a task that has ended) are dropped; so is a `split` that was
    carried out (it has no result of its own: what is compared is what the receive calls answer,
    whole or split — `C03_split_preserves_outcome`) -/
def group : List (Cmd × Ans) → List G
  | [] => []
  | (_, .noTask) :: r => group r
  | (.sp, .ok) :: r => group r
  | (.rd, .res (.data b)) :: r =>
    match group r with
    | .data all ns :: gs => .data (b ++ all) (b.length :: ns) :: gs
    | gs => .data b [b.length] :: gs
  | (c, a) :: r => .other c a :: group r

def renderG : G → String
  | .data all ns => "rd=data:" ++ toHex all ++ "/" ++ "+".intercalate (ns.map toString)
  | .other c .badCmd => cmdName c ++ "=bad-cmd"
  | .other c .noTask => cmdName c ++ "=no-task"
  | .other c .ok => cmdName c ++ "=ok"
  | .other c (.res x) => cmdName c ++ "=" ++ renderRes x

def optCode : Option Nat → String
  | none => "-"
  | some c => toString c

def hasPanic (log : List (Cmd × Ans)) : Bool :=
  log.any fun e => match e.2 with | .res .panic => true | _ => false

def renderSim (m : Sim) : String :=
  if hasPanic m.log then "panic" else
  let calls := (group m.log.reverse).map renderG
  let closed := match m.st.env.cell with | some c => toString c | none => ""
  let pend := match m.inflight with
    | some c => cmdName (if c.cmd == Cmd.rda then Cmd.rd else c.cmd)
    | none => ""
  (if calls.isEmpty then "-" else " ".intercalate calls) ++
    s!" | rst={optCode m.st.env.rst} stop={optCode m.st.env.stop} closed=[{closed}] pending=[{pend}]"

/-! ### the specification's answer -/

/-- the bytes behind the first frame type 0x41 at a frame position (walks the frames as
    `H3.Spec.Framing.observe` does, which stops there with `outside`) -/
def wtRest : Nat → Bytes → Option Bytes
  | 0, _ => none
  | fuel+1, w =>
    if w = [] then none else
    match H3.Varint.rfcDecode w with
    | none => none
    | some (ty, r1) =>
      if ty = 0x41 then some r1 else
      match H3.Varint.rfcDecode r1 with
      | none => none
      | some (len, r2) => if r2.length < len then none else wtRest fuel (r2.drop len)

open H3.Spec.ReqSeq in
/-- R-03b: is the 0x41 header complete (type and session id)? -/
def wtKind (w : ReqRecv.Bytes) : K :=
  match wtRest (w.length + 1) w with
  | some r => if (H3.Varint.rfcDecode r).isSome then .W else .Wpart
  | none => .W

open H3.Spec.ReqSeq in
/-- frames of the wire bytes by meaning (`none` = outside this specification); `wk` / `wstop`: what
    the WebTransport header at which the framing oracle stops is, and how the stream stops there -/
def toKs (role : Role) (wk : K) (wstop : Stop) : List H3.Spec.Framing.Tok → Bool → Option (List K × Stop)
  | [], _ => some ([], .open_)
  | .none_ :: _, _ => some ([], .fin)
  | .pending :: _, _ => some ([], .open_)
  | .truncated :: _, _ => some ([], .truncated)
  | .malformed :: _, _ => some ([.M], .open_)
  | .h2 _ :: _, _ => some ([.R], .open_)
  | .badSettings :: _, _ => some ([.S], .open_)
  | .okSettings :: r, sawHead => (toKs role wk wstop r sawHead).map fun (ks, st) => (.X :: ks, st)
  | .outside :: _, _ => some ([wk], wstop)
  | .data _ :: _, _ => none
  | .partialData _ :: _, _ => none
  | .frame (.headers p) :: r, sawHead =>
    let cls := if sawHead then (hdrFor role).trailer p else (hdrFor role).head p
    if cls == .ok && known p then (toKs role wk wstop r true).map fun (ks, st) => (.H p :: ks, st) else none
  | .frame (.data n) :: .data bs :: r, sawHead =>
    if bs.length == n then (toKs role wk wstop r sawHead).map fun (ks, st) => (.D bs :: ks, st)
    else (toKs role wk wstop r sawHead).map fun (_, st) => ([.Dpart bs], st)
  | .frame (.data _) :: .partialData bs :: r, sawHead =>
    (toKs role wk wstop r sawHead).map fun (_, st) => ([.Dpart bs], st)
  | .frame (.data n) :: r, sawHead =>
    if n == 0 then (toKs role wk wstop r sawHead).map fun (ks, st) => (.D [] :: ks, st)
    else (toKs role wk wstop r sawHead).map fun (_, st) => ([.Dpart []], st)
  | .frame (.pushPromise _ _) :: r, sawHead => (toKs role wk wstop r sawHead).map fun (ks, st) => (.P :: ks, st)
  | .frame (.webTransport _) :: _, _ => none
  | .frame _ :: r, sawHead => (toKs role wk wstop r sawHead).map fun (ks, st) => (.X :: ks, st)

open H3.Spec.ReqSeq in
/-- tokens of one acceptable outcome, in the vocabulary of `renderSim` -/
def renderOutcome (role : Role) (o : Outcome) : String :=
  let headName := if role == .server then "res" else "rr"
  -- the call an error / pending belongs to is fixed by what was observed before it
  let rec go : List Obs → String → List String × String
    | [], _ => ([], "")
    | .head _ :: r, _ => let (ts, p) := go r "rd"; ((headName ++ "=ok") :: ts, p)
    | .body bs :: r, c =>
      let (ts, p) := go r c
      (if bs.isEmpty then ts else ("rd=data:" ++ toHex bs ++ "/*") :: ts, p)
    | .bodyEnd :: r, _ => let (ts, p) := go r "rt"; ("rd=end" :: ts, p)
    | .trailers _ :: r, c => let (ts, p) := go r c; ("rt=trailers" :: ts, p)
    | .noTrailers :: r, c => let (ts, p) := go r c; ("rt=none" :: ts, p)
    | .connError code :: r, c => let (ts, p) := go r c; (s!"{c}=err:conn:{code}" :: ts, p)
    | .streamError code :: r, c => let (ts, p) := go r c; (s!"{c}=err:stream:{code}" :: ts, p)
    | .resetBy code :: r, c => let (ts, p) := go r c; (s!"{c}=err:rterm:{code}" :: ts, p)
    | .pending :: _, c => ([], c)
  let (ts, pend) := go o.calls headName
  let closed := match o.connError with | some c => toString c | none => ""
  (if ts.isEmpty then "-" else " ".intercalate ts) ++
    s!" | rst={optCode o.streamReset} stop=* closed=[{closed}] pending=[{pend}]"

open H3.Spec.ReqSeq in
def renderExpect (role : Role) : Expect → List String
  | .oneOf os => os.map (renderOutcome role)

open H3.Spec.ReqSeq in
/-- every way a RESET (or a FIN inside a DATA payload) can cut the delivery short: the frames
    handed out before it is noticed are a prefix, the last DATA payload possibly in part -/
def cuts (ks : List K) : List (List K) :=
  (List.range (ks.length + 1)).flatMap fun i =>
    let base := ks.take i
    match ks.drop i with
    | .D p :: _ => base :: (List.range p.length).map fun j => base ++ [.Dpart (p.take (j + 1))]
    | .Dpart p :: _ => base :: (List.range p.length).map fun j => base ++ [.Dpart (p.take (j + 1))]
    | _ => [base]

def streamBytes : List Op → Bytes
  | [] => []
  | .ev (.chunk b) :: r => b ++ streamBytes r
  | .ev .fin :: _ => []
  | .ev (.reset _) :: _ => []
  | _ :: r => streamBytes r

def streamEnd : List Op → H3.Spec.ReqSeq.Stop
  | [] => .open_
  | .ev .fin :: _ => .fin
  | .ev (.reset c) :: _ => .reset c
  | _ :: r => streamEnd r

/-- the calls of the line are the documented pattern: head, body until its end, trailers —
    each given up when it fails.  `split` may come anywhere after the head call (it has no result
    of its own), and the body may be begun with single `recv_data` calls before the loop (the
    generator sees to it that these do not reach the end of the body: the pieces are there). -/
def documentedCalls (role : Role) (ops : List Op) (pieces : Bool) : Bool :=
  let calls := ops.filterMap fun o => match o with | .call c => some c | _ => none
  let h : Cmd := if role == .server then .res else .rr
  match calls with
  | first :: rest =>
    let rest := rest.filter fun c => c.cmd != Cmd.sp
    let rest := if pieces then rest.dropWhile fun c => c == { cmd := Cmd.rd, halt := true } else rest
    first == { cmd := h, halt := true } &&
    (rest == [{ cmd := .rda, halt := true }, { cmd := .rt, halt := false }] ||
     rest == [{ cmd := .rda, halt := true }, { cmd := .rt, halt := true }])
  | [] => false

def dedup : List String → List String
  | [] => []
  | a :: r => if r.contains a then dedup r else a :: dedup r

open H3.Spec.ReqSeq in
def specLine (sc : Scen) : String :=
  if !documentedCalls sc.role sc.ops sc.pieces then "?" else
  let w := streamBytes sc.ops
  let stop := streamEnd sc.ops
  let side : Side := if sc.role == .server then .server else .client
  let fend : H3.Spec.Framing.Ending := if stop == .fin then .fin else .open_
  let toks := H3.Spec.Framing.observe (w.length + 1) w fend
  match toKs sc.role (wtKind w) (if stop == .fin then .truncated else .open_) toks false with
  | none => "?"
  | some (ks, st) =>
    -- `st` is the framing's view of the end (clean, inside a frame, still open)
    let alts : List String :=
      match stop with
      | .reset c => (cuts ks).flatMap fun ks' => renderExpect sc.role (spec side ks' (.reset c))
      | _ =>
        match ks.getLast?, st with
        | some (.Dpart g), .truncated =>
          -- any part of the bytes that arrived may have been handed out before the end is seen
          (List.range (g.length + 1)).flatMap fun j =>
            renderExpect sc.role (spec side (ks.dropLast ++ [.Dpart (g.take j)]) .truncated)
        | _, _ => renderExpect sc.role (spec side ks st)
    if alts.contains "?" then "?" else " || ".intercalate (dedup alts)

def handle : List String → String
  | "req" :: role :: cfg :: ops =>
    let r : Option Role := if role == "server" then some .server else if role == "client" then some .client else none
    match r with
    | none => "bad-op"
    | some role =>
      if !cfgOk cfg then "unsupported ## ?" else
      match parseScen role ops with
      | none => "unsupported ## ?"
      | some sc =>
        let m := runOps (hdrFor role) { role := role } sc.ops
        renderSim m ++ " ## " ++ specLine sc
  | _ => "bad-op"

end H3.Drv.C03
