import H3.Drv.Util
import H3.Model.ErrCell
/-! Driver engine `cell` (C05).  Case line:
    `cell <pce|acc|clo|idl> S1=<err>,.. S2=.. : <label> ..` with labels `D.poll D.pce D.det:<err> D.park D.shut S<k>`
    (`D.shut`: a `shutdown()` call made while the driver is not inside a poll — `DOp.shut`,
    `H3.ErrCell.checkErr`; the harness calls the real `shutdown()` / `check_connection_error`).
    Modes `clo` / `idl` are the client's driver (`poll_close` called directly / the `wait_idle()`
    future): there a `D.det:<quic error>` is the transport failing inside the `poll_accept_bi` at
    the end of the poll and `D.det:I259.0` the transport handing out a server-initiated stream —
    both are the model's `DOp.bidi` (`H3.ErrCell.clientTail`).
    Model half: the run of `H3.ErrCell` with `registerFirst := sourceRegisterFirst`, printed as
    final observables, `|`, one outcome token per label (`!` = the driver's waker has fired and
    the driver has not been polled since).
    Spec half: written from the property text; it knows nothing about wakers or the order of
    the operations inside a call, only which raise came first in the schedule. -/
namespace H3.Drv.C05
open H3.Drv H3.ErrCell

/-- Which order of `register`/`get` describes `poll_connection_error` in the source tree the
    check is run against.  Decided by the correspondence run: with the wrong value the model's
    lines differ from the implementation's. -/
def sourceRegisterFirst : Bool := true

def dropPrefix (s p : String) : Option String :=
  if p.toList.isPrefixOf s.toList then some (String.ofList (s.toList.drop p.length)) else none

def parseErr (s : String) : Option Err :=
  match dropPrefix s "I" with
  | some r =>
    match r.splitOn "." with
    | [c, t] => do pure (.internal (← c.toNat?) (← t.toNat?))
    | _ => none
  | none =>
  match dropPrefix s "Qa" with
  | some r => r.toNat?.map fun c => .quic (.appClose c)
  | none =>
  if s == "Qt" then some (.quic .timeout) else
  match dropPrefix s "Qi." with
  | some r => r.toNat?.map fun t => .quic (.internal t)
  | none =>
  match dropPrefix s "Qu." with
  | some r => r.toNat?.map fun t => .quic (.undefined t)
  | none => none

def showQ (p : String) : QErr → String
  | .appClose c => s!"{p}a{c}"
  | .timeout => s!"{p}t"
  | .internal t => s!"{p}i.{t}"
  | .undefined t => s!"{p}u.{t}"

def showErr : Err → String
  | .internal c t => s!"I{c}.{t}"
  | .quic q => showQ "Q" q

def showC : CErr → String
  | .localApp c t => s!"L{c}.{t}"
  | .remote q => showQ "R" q
  | .timeout => "T"

def parseLabel (s : String) : Option TaskId :=
  if s == "D.poll" then some (.drv .poll)
  else if s == "D.pce" then some (.drv .pce)
  else if s == "D.park" then some (.drv .park)
  else if s == "D.shut" then some (.drv .shut)
  else match dropPrefix s "D.det:" with
    | some r => (parseErr r).map fun e => .drv (.det e)
    | none =>
      match dropPrefix s "S" with
      | some r => match r.toNat? with
        | some (k+1) => some (.str k)
        | _ => none
      | none => none

/-- modes `clo` / `idl`: the driver is the client's; the detections at the end of its poll go
    through the tail of `poll_close` -/
def clientLabel : TaskId → TaskId
  | .drv (.det (.quic q)) => .drv (.bidi (some q))
  | .drv (.det (.internal 259 0)) => .drv (.bidi none)
  | l => l

def parseSpecs : Nat → List String → Option (List (List Err))
  | _, [] => some []
  | i, s :: rest => do
    let r ← dropPrefix s s!"S{i+1}="
    let es ← if r == "-" then some [] else (r.splitOn ",").mapM parseErr
    let more ← parseSpecs (i+1) rest
    pure (es :: more)

def joinOr (l : List String) : String := if l.isEmpty then "-" else ",".intercalate l

/-- outcome token of one step, from the states before and after. -/
def outcome (s : State) (l : TaskId) (s' : State) : String :=
  match l with
  | .drv .shut =>
    if s'.drets.length > s.drets.length then
      match s'.drets with
      | h :: _ => s!"D.E:{showC h}"
      | [] => "D.?"
    else if s.pc == .idle then "D.ok" else "D.skip"
  | .drv _ =>
    if s'.drets.length > s.drets.length then
      match s'.drets with
      | h :: _ => s!"D.E:{showC h}"
      | [] => "D.?"
    else if s.pc == .idle && s'.pc == .started then "D.poll"
    else if s.pc != .mid && s'.pc == .mid then "D.mid"
    else if s.pc != .armed && s'.pc == .armed then "D.pend"
    else if s.pc == .armed && s'.pc == .idle then "D.park"
    else "D.skip"
  | .str i =>
    match s.tasks[i]?, s'.tasks[i]? with
    | some t, some t' =>
      if t'.rets.length > t.rets.length then
        match t'.rets with
        | r :: _ => s!"S{i+1}.E:{showC (convert r)}"
        | [] => "S?"
      else if t.mid.isNone && t'.mid.isSome then s!"S{i+1}.set"
      else s!"S{i+1}.end"
    | _, _ => s!"S{i+1}.end"

structure Acc where
  st : State
  trace : List String := []
  drvLast : String := "none"
  dflip : Bool := false
  errs : List String := []
  /-- some state of the run was a lost wake-up: all tasks at a yield point, the cell set, the
      driver parked, no notification pending -/
  lost : Bool := false

def addErr (errs : List String) (e : String) : List String := if errs.contains e then errs else errs ++ [e]

def runTrace (rf : Bool) (a : Acc) (l : TaskId) : Acc :=
  let s' := step rf a.st l
  let tok := outcome a.st l s'
  let tokw := if s'.woken then tok ++ "!" else tok
  let isD := tok.startsWith "D."
  let body := String.ofList (tok.toList.drop 2)
  let reported : Option String :=
    match tok.splitOn ".E:" with
    | [_, e] => some e
    | _ => none
  let errs := match reported with | some e => addErr a.errs e | none => a.errs
  let drvLast :=
    if isD then
      if body.startsWith "E:" then body else if body == "pend" then "pend" else a.drvLast
    else a.drvLast
  let dflip := a.dflip || (isD && body == "pend" && a.drvLast.startsWith "E:")
  { st := s', trace := a.trace ++ [tokw], drvLast := drvLast, dflip := dflip, errs := errs,
    lost := a.lost || lostWakeup s' }

def showTasks (ts : List Task) : List String :=
  (ts.zipIdx).map fun (t, i) => s!"S{i+1}={joinOr (t.rets.reverse.map fun r => showC (convert r))}"

def modelLine (specs : List (List Err)) (sched : List TaskId) : String :=
  let a := sched.foldl (runTrace sourceRegisterFirst) { st := init specs }
  let s := a.st
  let fin := [
    s!"cell={match s.cell with | some e => showErr e | none => "-"}",
    s!"drv={a.drvLast}",
    s!"closes={joinOr (s.closes.map fun (c, t) => s!"{c}.{t}")}",
    "woken", b01 s.woken, "parked", b01 s.parked, "quiet", b01 (quiescent s),
    s!"lost={b01 a.lost}", s!"dflip={b01 a.dflip}", s!"errs={joinOr a.errs}"] ++ showTasks s.tasks
  " ".intercalate (fin ++ ["|"] ++ a.trace)

/-! ### the specification half -/

/-- The driver's possible positions once the connection has its error.  `rep` = a driver call has
    reported the error (absorbing: every later call reports it again); `idle` = not inside a poll, not
    reported yet; `started` / `armed` = inside a poll, between calls; `midOld` = inside a
    `poll_connection_error` call that began BEFORE the error was stored (it may or may not see it);
    `midNew` = inside a call that began after the error was stored (it must report it). -/
inductive W where
  | rep | idle | started | armed | midOld | midNew
deriving Repr, DecidableEq

/-- What a driver label can do to one possible position.  Written from the property text: a call
    of the driver that is made after the error exists reports it — `shutdown()` at once, a poll by
    the end of its first complete `poll_connection_error` call (which half of the call looks at the
    cell is not the specification's business: both outcomes of a half are possible). -/
def wStep (op : DOp) : W → List W
  | .rep => [.rep]
  | .idle =>
    match op with
    | .poll => [.started]
    | .shut => [.rep]
    | _ => [.idle]
  | .started =>
    match op with
    | .pce => [.midNew, .rep]
    | .det _ => [.rep]
    | .bidi _ => [.rep]
    | _ => [.started]
  | .armed =>
    match op with
    | .pce => [.midNew, .rep]
    | .det _ => [.rep]
    | .bidi _ => [.rep]
    | .park => [.idle]
    | _ => [.armed]
  | .midOld =>
    match op with
    | .pce => [.armed, .rep]
    | _ => [.midOld]
  | .midNew =>
    match op with
    | .pce => [.rep]
    | _ => [.midNew]

def wOfPc : DPc → W
  | .idle => .idle
  | .started => .started
  | .mid => .midOld
  | .armed => .armed

def wAll (op : DOp) (ws : List W) : List W := (ws.flatMap (wStep op)).eraseDups

/-- What the schedule alone says, before any error exists: the driver's position (every
    `poll_connection_error` call returns `Pending` while nothing has been raised), and for each
    handle how many calls it has started / completed.  A *raise* is the start of a handle's
    call or an enabled `D.det`. -/
structure Scan where
  dpc : DPc := .idle
  todo : List (List Err)
  mids : List Bool
  done : List Nat
  winner : Option Err := none
  /-- behind the winner: where the driver may be (`W`), given that the specification does not know
      the order of the operations inside a `poll_connection_error` call -/
  poss : List W := []


def specBidi : Option QErr → Err
  | some q => .quic q
  | none => .internal 0x0103 0

def scanStep (sc : Scan) : TaskId → Scan
  | .drv op =>
    if sc.winner.isSome then { sc with poss := wAll op sc.poss } else
    match op, sc.dpc with
    | .poll, .idle => { sc with dpc := .started }
    | .pce, .started => { sc with dpc := .mid }
    | .pce, .armed => { sc with dpc := .mid }
    | .pce, .mid => { sc with dpc := .armed }
    | .park, .armed => { sc with dpc := .idle }
    -- the driver detects the error itself: that call reports it
    | .det e, .started => { sc with winner := some e, poss := [.rep] }
    | .det e, .armed => { sc with winner := some e, poss := [.rep] }
    -- a client whose transport fails / hands it a server-initiated bidirectional stream
    -- (RFC 9114 §6.1: H3_STREAM_CREATION_ERROR = 0x0103) at the end of a poll
    | .bidi r, .started => { sc with winner := some (specBidi r), poss := [.rep] }
    | .bidi r, .armed => { sc with winner := some (specBidi r), poss := [.rep] }
    | _, _ => sc
  | .str i =>
    match sc.mids[i]?, sc.todo[i]? with
    | some true, _ =>
      { sc with mids := sc.mids.set i false, done := sc.done.set i (sc.done.getD i 0 + 1) }
    | some false, some (e :: rest) =>
      { sc with mids := sc.mids.set i true, todo := sc.todo.set i rest,
                winner := match sc.winner with | some w => some w | none => some e,
                poss := if sc.winner.isSome then sc.poss else [wOfPc sc.dpc] }
    | _, _ => sc

/-- The property's demand on `close`, from its text and the `quic` trait documentation (not
    from the model): an error h3 detected itself closes the connection with its own code; an
    `InternalError` of the QUIC trait implementation closes it with H3_INTERNAL_ERROR (0x0102,
    RFC 9114 §8.1); errors that come from the peer or the transport close nothing. -/
def specClose : Err → String
  | .internal code tag => s!"{code}.{tag}"
  | .quic (.internal tag) => s!"{0x0102}.{tag}"
  | .quic _ => "-"

def specLine (specs : List (List Err)) (sched : List TaskId) : String :=
  let sc := sched.foldl scanStep
    { todo := specs, mids := specs.map fun _ => false, done := specs.map fun _ => 0 }
  match sc.winner with
  | none =>
    let ss := (specs.zipIdx).map fun (_, i) => s!"S{i+1}=-"
    " ".intercalate (["cell=-", "*", "closes=-", "woken", "0", "parked", "*", "quiet", "*", "lost=0", "dflip=0", "errs=-"] ++ ss ++ ["**"])
  | some w =>
    let cw := showC (convert w)
    let ss := (sc.done.zipIdx).map fun (n, i) => s!"S{i+1}={joinOr (List.replicate n cw)}"
    let cl := specClose w
    let tail := " ".intercalate (ss ++ ["**"])
    let anyDone := sc.done.any (· > 0)
    let errsNoDrv := if anyDone then s!"errs={cw}" else "errs=-"
    -- the driver has reported the error: closed iff local, with its code, once
    let a := s!"cell={showErr w} drv=E:{cw} closes={cl} woken * parked 0 quiet * lost=0 dflip=0 errs={cw} {tail}"
    -- the driver has not reported yet and is not parked
    let b := s!"cell={showErr w} drv=none closes=- woken * parked 0 quiet * lost=0 dflip=0 {errsNoDrv} {tail}"
    let c := s!"cell={showErr w} drv=pend closes=- woken * parked 0 quiet * lost=0 dflip=0 {errsNoDrv} {tail}"
    -- parked, but the executor holds a notification
    let d := s!"cell={showErr w} drv=pend closes=- woken 1 parked 1 quiet * lost=0 dflip=0 {errsNoDrv} {tail}"
    -- parked, not notified yet, but a handle is still between its store and its wake
    let e := s!"cell={showErr w} drv=pend closes=- woken 0 parked 1 quiet 0 lost=0 dflip=0 {errsNoDrv} {tail}"
    -- every driver call made behind the error has reported it (`shutdown()`, or a complete
    -- `poll_connection_error` call of a poll): only the first alternative is left — the driver
    -- has reported and, for an error detected locally, closed
    if sc.poss == [.rep] then a else
    " || ".intercalate [a, b, c, d, e]

/-- `cell dg <first|-> <transport error>`: the datagram handle of h3-datagram
    (`DatagramSender::handle_send_datagram_error`).  Model = the code: the sender is a handle like every
    other - it hands the transport's error to `handle_quic_stream_error`, i.e. `set_conn_error_and_wake`
    (the cell model's handle step `sstep`, twice: store, then wake and return) and answers
    `convert_to_connection_error` of what that call returns, the error that IS in the cell (D-05g,
    repaired; the arm is read from the tree: `Gen/DgSendArms`, `Lemmas/GenAgreeDgSend`).  Spec = the
    property: every handle reports the connection's single error, the one the driver reports. -/
def handleDg (first q : String) : String :=
  match (if first == "-" then some none else (parseErr first).map some), parseErr q with
  | some f, some (.quic qe) =>
    let s := sstep (sstep { init [[.quic qe]] with cell := f } 0) 0
    let dg := match s.tasks[0]? with
      | some t => (t.rets.head?.map (fun r => showC (convert r))).getD "none"
      | none => "none"
    let cellM := (s.cell.map showErr).getD "-"
    let drvM := (s.cell.map (fun c => showC (convert c))).getD "none"
    -- the specification: the first error wins, every handle and the driver name it alike
    let cell := f.getD (.quic qe)
    let drv := showC (convert cell)
    s!"cell={cellM} dg={dg} drv={drvM} ## cell={showErr cell} dg={drv} drv={drv}"
  | _, _ => "bad-op"

def handle : List String → String
  | ["cell", "dg", first, q] => handleDg first q
  | "cell" :: mode :: rest =>
    if mode != "pce" && mode != "acc" && mode != "clo" && mode != "idl" then "bad-op" else
    let client := mode == "clo" || mode == "idl"
    let (sp, lb) := rest.span (· != ":")
    match lb with
    | ":" :: labels =>
      match parseSpecs 0 sp, labels.mapM parseLabel with
      | some specs, some sched0 =>
        let sched := if client then sched0.map clientLabel else sched0
        modelLine specs sched ++ " ## " ++ specLine specs sched
      | _, _ => "bad-op"
    | _ => "bad-op"
  | _ => "bad-op"

/-- engine `cellmv`: the same scenario with the driver polled from a different task each time.
    Which task a wake reaches is outside the model (its waker is a Bool); what the property
    speaks about — the cell, what the driver and the handles report, the close calls, and
    whether the driver is left parked with the error set (`lost`) — does not depend on it, so
    only those tokens are compared. -/
def reduceMv (alt : String) : String :=
  let head := (alt.splitOn " | ").headD ""
  let rec go : List String → List String
    | "woken" :: _ :: r => go r
    | "parked" :: _ :: r => go r
    | "quiet" :: _ :: r => go r
    | "**" :: r => go r
    | t :: r => t :: go r
    | [] => []
  " ".intercalate (go (head.splitOn " "))

def handleMv (ws : List String) : String :=
  match ws with
  | "cellmv" :: rest =>
    let out := handle ("cell" :: rest)
    match out.splitOn " ## " with
    | [m, s] => reduceMv m ++ " ## " ++ " || ".intercalate ((s.splitOn " || ").map reduceMv)
    | _ => out
  | _ => "bad-op"

end H3.Drv.C05
