import H3.Drv.Util
import H3.Model.Varint
import H3.Model.QuinnAdapter
import H3.Model.Datagram
/-! Driver engine `quinn` (C17).

    A case line is a scenario `quinn <cfg> <op>…` run by the harness over a real Quinn loopback
    connection. The adapter's answers come from `H3.QuinnAdapter` (write loop, ownership machine,
    error tables). What *Quinn and the raw peer* do in between — how many bytes a flow-control window
    lets through, which Quinn error value a peer action produces, which code the peer sees — is not
    part of the model: it is the small environment `Env` below, an assumption about Quinn that the
    correspondence run observes on every case (and nothing more than observes). The case generator
    keeps to scenarios in which that environment is deterministic. -/
namespace H3.Drv.C17
open H3.Drv H3.QuinnAdapter

def hashP : Nat := 4294967291
def hashM : Nat := 16777619
def hashBytes (bs : Bytes) : Nat := bs.foldl (fun h b => (h * hashM + b + 1) % hashP) 0
def hex8 (n : Nat) : String :=
  String.ofList ((List.range 8).reverse.map fun i => hexChar (n / 16 ^ i % 16))
def showHash (bs : Bytes) : String := s!"{bs.length}:{hex8 (hashBytes bs)}"

def pbyte (seed i : Nat) : Nat := (seed + i * 131 + (i / 251) * 17) % 256
def payload (n seed : Nat) : Bytes := (List.range n).map (pbyte seed)

/-- header bytes and payload of the `WriteBuf` the harness builds for `<F>:<n>:<seed>`. -/
def frameParts (f : String) (n seed : Nat) : Option (Bytes × Bytes) :=
  if f == "D" then some (0 :: Varint.encode n, payload n seed)
  else if f == "H" then some (1 :: Varint.encode n, payload n seed)
  else if f == "G" then
    if n < 2^62 then some (7 :: (Varint.encode (Varint.size n) ++ Varint.encode n), []) else none
  else if f == "U" then some (Varint.encode 0x54 ++ (0 :: Varint.encode n), payload n seed)
  else none

def undefName : ConnectionError → String
  | .locallyClosed => "locally-closed"
  | .connectionClosed => "conn-closed"
  | .reset => "reset"
  | .versionMismatch => "version"
  | .cidsExhausted => "cids"
  | .transportError => "transport"
  | _ => "other"

def connErrStr : ConnErr → String
  | .applicationClose c => s!"c.appclose:{c}"
  | .timeout => "c.timeout"
  | .internalError => "c.internal"
  | .undefined e => "c.undefined:" ++ undefName e

def streamErrStr : StreamErr → String
  | .connection e => connErrStr e
  | .terminated c => s!"s.terminated:{c}"
  | .unknown .closedStream => "s.unknown:closed-stream"
  | .unknown .zeroRttRejected => "s.unknown:zero-rtt"

def readyStr : Ready → String
  | .pending => "pending"
  | .ok => "ok"
  | .err e => "err:" ++ streamErrStr e

/-- Is this error one of the property's four conditions (so the specification has an opinion)? -/
def specErr : StreamErr → Bool
  | .connection (.applicationClose _) => true
  | .connection .timeout => true
  | .terminated _ => true
  | _ => false

structure Cfg where
  sw : Nat := 0
  cw : Nat := 0
  tw : Nat := 0
  client : Bool := true
  bi : Bool := true
  opn : Bool := true
  skip : Nat := 0
  idle : Nat := 0
  split : Bool := true
  mb : Option Nat := none
  mu : Option Nat := none
  dga : Bool := true
  dgp : Bool := true
  hs : String := ""
  /-- Quinn's `max_datagram_size()` on the adapter side, as the case line reports it (the harness prints the real
      value for the op `dgmax`; with `dgmax=` MTU discovery is off, so it is a constant of the case) -/
  dgmax : Option Nat := none
  mtu : Option Nat := none

def parseCfg (s : String) : Option Cfg :=
  (s.splitOn ",").foldlM (init := ({} : Cfg)) fun c kv =>
    match kv.splitOn "=" with
    | [k, v] =>
      if k == "sw" then v.toNat?.map fun n => { c with sw := n }
      else if k == "cw" then v.toNat?.map fun n => { c with cw := n }
      else if k == "tw" then v.toNat?.map fun n => { c with tw := n }
      else if k == "skip" then v.toNat?.bind fun n => if n ≤ 64 then some { c with skip := n } else none
      else if k == "idle" then v.toNat?.map fun n => { c with idle := n }
      else if k == "role" then
        if v == "c" then some { c with client := true } else if v == "s" then some { c with client := false } else none
      else if k == "kind" then
        if v == "bi" then some { c with bi := true } else if v == "uni" then some { c with bi := false } else none
      else if k == "dir" then
        if v == "open" then some { c with opn := true } else if v == "acc" then some { c with opn := false } else none
      else if k == "split" then
        if v == "1" then some { c with split := true } else if v == "0" then some { c with split := false } else none
      else if k == "mb" then v.toNat?.bind fun n => if n ≤ 1000 then some { c with mb := some n } else none
      else if k == "mu" then v.toNat?.bind fun n => if n ≤ 1000 then some { c with mu := some n } else none
      else if k == "dga" then
        if v == "1" then some { c with dga := true } else if v == "0" then some { c with dga := false } else none
      else if k == "dgp" then
        if v == "1" then some { c with dgp := true } else if v == "0" then some { c with dgp := false } else none
      else if k == "dgmax" then v.toNat?.map fun n => { c with dgmax := some n }
      else if k == "mtu" then v.toNat?.bind fun n => if 1200 ≤ n ∧ n ≤ 1452 then some { c with mtu := some n } else none
      else if k == "hs" then
        if v == "rej" || v == "kill" || v == "z0" || v == "z0r" || v == "z0t" || v == "z0v" then some { c with hs := v } else none
      else none
    | _ => none

/-- the combinations the harness refuses -/
def cfgOk (c : Cfg) : Bool :=
  (c.split || c.bi) && (c.mtu.isNone || c.dgmax.isSome) &&
  (if c.hs == "rej" then !c.client
   else if c.hs == "kill" then c.client
   else if c.hs == "" then true
   else c.client && c.opn)

/-- RFC 9000 §2.1: the two low bits say who opened the stream and whether it is unidirectional;
    the `skip` streams of the same kind opened before it take the lower indices. -/
def streamId (c : Cfg) : Nat :=
  let initiatorIsClient := if c.opn then c.client else !c.client
  4 * c.skip + (if c.bi then 0 else 2) + (if initiatorIsClient then 0 else 1)

/-- Quinn's default `stream_receive_window`. -/
def defaultStreamWindow : Nat := 1250000
def unlimited : Nat := 2^62

/-- The environment: the adapter models plus what Quinn and the peer are assumed to do. -/
structure Env where
  id : Nat
  hasSend : Bool
  hasRecv : Bool
  sw : Nat
  cw : Nat
  idle : Bool
  send : Send := ⟨none⟩
  recv : Recv
  -- adapter → peer direction
  accepted : Bytes := []            -- bytes Quinn has accepted from the adapter, in order
  peerReading : Bool := false
  finished : Bool := false
  resetLocal : Option Nat := none
  peerStop : Option Nat := none
  peerStopKnown : Bool := false
  -- connection
  connKnown : Option ConnectionError := none
  connComing : Option ConnectionError := none
  aClosed : Option Nat := none
  -- peer → adapter direction
  peerWritten : Bytes := []
  aRead : Bytes := []               -- everything the adapter side has read
  peerFin : Bool := false
  peerReset : Option Nat := none
  allRead : Bool := false           -- Quinn's `all_data_read` on the adapter's receive stream
  -- specification side: what was handed over and completely written
  specBusy : Bool := false
  specPending : Bytes := []
  specWire : Bytes := []
  specClean : Bool := true
  /-- the error the last write on the stream failed with (a failed write is *finished*) -/
  specFailed : Option StreamErr := none
  /-- what `stop_sending` owes the peer (`H3.QuinnAdapter.StopSpec`, reading R-17): fed with the calls
      and with whether Quinn's read future completed — the ownership machine `recv` is not consulted -/
  specStop : StopSpec := {}
  -- second part: openers, unsplit stream, unframed writes, datagrams, special set-ups
  client : Bool := true
  hs : String := ""
  unsplit : Bool := false
  usedB : Nat := 0                  -- streams the adapter side has opened so far, per kind
  usedU : Nat := 0
  concB : Nat := 100                -- the peer's max_concurrent_*_streams
  concU : Nat := 100
  limB : Nat := 100                 -- cumulative stream credit the peer grants (its `max_remote`)
  limU : Nat := 100
  annB : Nat := 100                 -- …and what it has announced of it (MAX_STREAMS)
  annU : Nat := 100
  closedU : Nat := 0                -- adapter-opened uni streams the peer has read to the end
  opened : List (Bool × Nat) := []  -- streams opened by `ob`/`ou`: (bidirectional?, id)
  tags : List Bytes := []           -- what `otag` wrote on the first `tags.length` of them
  paccB : Nat := 0                  -- how many of them the peer has accepted, per kind
  paccU : Nat := 0
  pOpenB : Nat := 0                 -- streams the peer has opened, per kind
  pOpenU : Nat := 0
  takenB : Nat := 0                 -- …and how many of them the adapter side has accepted
  takenU : Nat := 0
  dga : Bool := true
  dgp : Bool := true
  dgToPeer : List Bytes := []
  dgToA : List Bytes := []
  /-- the environment parameter: Quinn's maximal datagram size (`none`: it moves with MTU discovery) -/
  dgmax : Option Nat := none
  /-- specification side: what the peer has to see, datagram by datagram: `varint(sid/4) ‖ payload` -/
  specDgToPeer : List Bytes := []
  ubuf : Option (List Bytes) := none
  zeroRtt : Bool := false           -- the stream under test was opened in 0-RTT
  zeroRej : Bool := false           -- …and the server rejected 0-RTT
  zacc : Option Bool := none
  killed : Bool := false
  peerGone : Bool := false
  aReason : Bytes := []

/-- `ok` answers that let through `b` bytes of what `d` offers (header chunk, then payload chunk). -/
def oksFor (d : WriteBuf) (b : Nat) : List Accept :=
  let c1 := d.chunk.length
  (if min b c1 > 0 then [Accept.ok (min b c1)] else []) ++ (if b > c1 then [Accept.ok (b - c1)] else [])

def budget (e : Env) : Nat :=
  if e.peerReading then unlimited else min e.sw e.cw - e.accepted.length

/-- What Quinn answers to the `poll_write`s of one immediate poll. -/
def pollScript (e : Env) (d : WriteBuf) : List Accept :=
  if e.zeroRej then [.err .zeroRttRejected] else
  match e.connKnown with
  | some x => [.err (.connectionLost x)]
  | none =>
    if e.peerStopKnown then [.err (.stopped (e.peerStop.getD 0))]
    else if e.cw - e.accepted.length = 0 ∧ !e.peerReading then [.pending]
    else if e.finished ∨ e.resetLocal.isSome then [.err .closedStream]
    else oksFor d (budget e) ++ [.pending]

/-- …and to those of a `poll_ready` awaited to completion; the second component is the condition
    that surfaced, if one did. -/
def awaitTail (e : Env) : List Accept × Env :=
  match e.peerStop with
  | some c => ([.err (.stopped c)], { e with peerStopKnown := true })
  | none =>
    match e.connComing with
    | some x => ([.err (.connectionLost x)], { e with connKnown := some x, connComing := none })
    | none =>
      if e.idle then ([.err (.connectionLost .timedOut)], { e with connKnown := some .timedOut })
      else ([], e)

def awaitScript (e : Env) (d : WriteBuf) : List Accept × Env :=
  if e.zeroRej then ([.err .zeroRttRejected], e) else
  match e.connKnown with
  | some x => ([.err (.connectionLost x)], e)
  | none =>
    if e.peerStopKnown then ([.err (.stopped (e.peerStop.getD 0))], e)
    else if e.finished ∨ e.resetLocal.isSome then ([.err .closedStream], e)
    else
      let b := budget e
      if b ≥ d.remaining then (oksFor d b, e)
      else
        let (t, e') := awaitTail e
        (oksFor d b ++ t, e')

/-- `hs=kill`: the first packet that carries data to the dead peer's address is answered with a
    stateless reset. -/
def afterAccepted (e : Env) (acc : Bytes) : Env :=
  if e.killed && !acc.isEmpty && e.connKnown.isNone then { e with connComing := some .reset } else e

/-- Run a poll of the write half and fold the outcome into the environment. -/
def applyPoll (e : Env) (o : PollOut) : Env :=
  let e := afterAccepted { e with send := o.state, accepted := e.accepted ++ o.acc } o.acc
  match o.res with
  | .ok => { e with specBusy := false, specWire := e.specWire ++ e.specPending, specPending := [] }
  | .err x =>
    -- specification: a write that failed is over; the stream is free for the next `send_data`
    if e.specBusy then { e with specBusy := false, specPending := [], specClean := false, specFailed := some x } else e
  | .pending => e

def specReady (tag : String) (r : Ready) : String :=
  match r with
  | .ok => tag ++ "=ok"
  | .err x => if specErr x then tag ++ "=err:" ++ streamErrStr x else "*"
  | .pending => "*"

def doPoll (e : Env) (tag : String) (await : Bool) : Env × String × String :=
  match e.send.writing with
  | none =>
    let o := pollReady e.send []
    -- nothing is being written: `Ok`, or (after a failed write) the same error again — no opinion then
    (applyPoll e o, s!"{tag}={readyStr o.res}", if e.specFailed.isSome then "*" else specReady tag o.res)
  | some d =>
    if await then
      let (sc, e') := awaitScript e d
      let o := drive e.send sc
      (applyPoll e' o, s!"{tag}={readyStr o.res}", specReady tag o.res)
    else
      let o := pollReady e.send (pollScript e d)
      (applyPoll e o, s!"{tag}={readyStr o.res}", specReady tag o.res)

def doSend (e : Env) (tag : String) (hdr pl : Bytes) : Env × Bool × String × String :=
  let (s', r) := sendData e.send (WriteBuf.new hdr pl)
  -- refused only while an earlier write is still pending; after a failed write the new buffer is either
  -- accepted (and will fail the same way) or answered with that error at once — never the internal error
  let sp := if e.specBusy then tag ++ "=refused" else
    match e.specFailed with
    | none => tag ++ "=ok"
    | some x => s!"{tag}=ok|{tag}=err:" ++ (if specErr x then streamErrStr x else "*")
  match r with
  | .refused => ({ e with send := s' }, false, tag ++ "=refused", sp)
  | .ok => ({ e with send := s', specBusy := true, specPending := hdr ++ pl }, true, tag ++ "=ok", sp)

/-- What the adapter's read future does when polled now (`await = false`) or when awaited.
    Quinn reports the peer's reset ONCE: `poll_read_generic` sets `all_data_read` together with
    `Err(Reset(code))`, and every later read of that stream answers `Ok(None)` — so a `poll_data` made
    after `StreamTerminated{code}` was reported answers the end of the stream (`allRead`). That is
    Quinn's answer, handed on unchanged by the adapter; the specification demands the class and the
    code on the first read that meets the reset and has no opinion on later reads (reading R-17,
    observation (b); what h3 makes of such a read is R-07 (a) / O-07b). -/
def readEv (e : Env) (await : Bool) : ReadEv × Env :=
  if e.zeroRej then (.err .zeroRttRejected, e) else
  if e.allRead then (.fin, e) else
  match e.connKnown with
  | some x => (.err (.connectionLost x), e)
  | none =>
    if !await then (.pending, e)
    else if e.peerWritten.length > e.aRead.length then (.data, { e with aRead := e.peerWritten })
    else match e.peerReset with
    | some c => (.err (.reset c), { e with allRead := true })
    | none =>
      if e.peerFin then (.fin, { e with allRead := true })
      else match e.connComing with
      | some x => (.err (.connectionLost x), { e with connKnown := some x, connComing := none })
      | none =>
        if e.idle then (.err (.connectionLost .timedOut), { e with connKnown := some .timedOut })
        else (.pending, e)

def recvOutStr : RecvOut → String
  | .pending => "pending"
  | .data => "data"
  | .fin => "end"
  | .err x => "err:" ++ streamErrStr x
  | .id n => toString n
  | .unit => "unit"
  | .panic => "panic"

def specRecv (tag : String) (o : RecvOut) : String :=
  match o with
  | .err x => if specErr x then tag ++ "=err:" ++ streamErrStr x else "*"
  | _ => "*"

/-- one `poll_data` through the model; an applied stop makes Quinn report the end from then on. -/
def doRead (e : Env) (await : Bool) : Env × RecvOut :=
  let (ev, e) := readEv e await
  let (r', o) := e.recv.step (.pollData ev)
  let e := { e with recv := r', specStop := e.specStop.step (.pollData ev) }
  ({ e with allRead := e.allRead || (!r'.stops.isEmpty && !e.zeroRej) }, o)

/-- `rdall`: poll until the end or an error (fuel: one data event, then a terminal one, suffices). -/
def readAll : Nat → Env → Env × String × String
  | 0, e => (e, "rdall=timeout", "*")
  | n + 1, e =>
    let (e, o) := doRead e true
    match o with
    | .data => readAll n e
    | .fin =>
      -- the specification: a stream the peer finished cleanly, never stopped from this side, read to its end, has
      -- handed out exactly the bytes the peer wrote - length and content (the environment's record `peerWritten`,
      -- not the model's `aRead`); after a reset / a stop of this side's own / a rejected 0-RTT stream: no opinion
      let clean := e.peerFin && e.peerReset.isNone && e.specStop.asked.isEmpty && e.specStop.due.isEmpty && !e.zeroRej
      (e, s!"rdall={showHash e.aRead}:end", if clean then s!"rdall={showHash e.peerWritten}:end" else "*")
    | .pending => (e, "rdall=timeout", "*")
    | o => (e, "rdall=" ++ recvOutStr o, specRecv "rdall" o)

/-! ### second part -/

def connErrTok (x : ConnectionError) : String := "err:" ++ connErrStr (convertConn x)

/-- the specification's view of an error token: class and code for the property's conditions -/
def specConnTok (tag : String) (x : ConnectionError) : String :=
  if specErr (.connection (convertConn x)) then s!"{tag}={connErrTok x}" else "*"

/-- What an operation that waits for the connection eventually sees: the error already known, the
    one on its way, the idle timeout — or nothing (the harness gives up: `timeout`). -/
def awaitConn (e : Env) : Option ConnectionError × Env :=
  match e.connKnown with
  | some x => (some x, e)
  | none =>
    match e.connComing with
    | some x => (some x, { e with connKnown := some x, connComing := none })
    | none => if e.idle then (some .timedOut, { e with connKnown := some .timedOut }) else (none, e)

def openId (e : Env) (bi : Bool) : Nat :=
  if bi then 4 * e.usedB + (if e.client then 0 else 1) else 4 * e.usedU + 2 + (if e.client then 0 else 1)
def acceptId (e : Env) (bi : Bool) : Nat :=
  if bi then 4 * e.takenB + (if e.client then 1 else 0) else 4 * e.takenU + 2 + (if e.client then 1 else 0)

/-- credit follows the peer's `max_concurrent` plus the streams it has finished with -/
def relimit (e : Env) : Env :=
  let e := { e with limB := max e.limB e.concB, limU := max e.limU (e.concU + e.closedU) }
  -- Quinn (`queue_max_stream_id`): "only announce updates if at least 1/8 of the window has been consumed"
  { e with annB := if e.limB - e.annB > e.concB / 8 then e.limB else e.annB,
           annU := if e.limU - e.annU > e.concU / 8 then e.limU else e.annU }

def closeUni : Nat → Env → Env
  | 0, e => e
  | n + 1, e => closeUni n (relimit { e with closedU := e.closedU + 1 })

/-- Quinn's `open_bi()` / `open_uni()` future, polled once (`await = false`) or awaited. -/
def openEv (e : Env) (bi await : Bool) : OpenEv × Env :=
  match e.connKnown with
  | some x => (.err x, e)
  | none =>
    if (if bi then e.usedB < e.annB else e.usedU < e.annU) then (.ok (openId e bi), e)
    else if !await then (.pending, e)
    else match awaitConn e with
      | (some x, e') => (.err x, e')
      | (none, e') => (.pending, e')

def doOpen (e : Env) (tag : String) (bi await : Bool) : Env × String × String :=
  let (ev, e) := openEv e bi await
  let (_, out) := if bi then pollOpenBidi Opener.new ev else pollOpenSend Opener.new ev
  match out with
  | .pending => (e, tag ++ (if await then "=timeout" else "=pending"), "*")
  | .bidi b =>
    let ids := if recvId b.recv == .id b.sendId then toString b.sendId else s!"{b.sendId}/{recvOutStr (recvId b.recv)}"
    ({ e with usedB := e.usedB + 1, opened := e.opened ++ [(true, b.sendId)] }, s!"{tag}={ids}", "*")
  | .send id => ({ e with usedU := e.usedU + 1, opened := e.opened ++ [(false, id)] }, s!"{tag}={id}", "*")
  | .err x => (e, s!"{tag}=err:{streamErrStr x}", if specErr x then s!"{tag}=err:{streamErrStr x}" else "*")

/-- Quinn's `accept_bi()` / `accept_uni()`: streams that arrived come before the connection's error. -/
def acceptEv (e : Env) (bi await : Bool) : OpenEv × Env :=
  if (if bi then e.takenB < e.pOpenB else e.takenU < e.pOpenU) then (.ok (acceptId e bi), e)
  else match e.connKnown with
    | some x => (.err x, e)
    | none =>
      if !await then (.pending, e)
      else match awaitConn e with
        | (some x, e') => (.err x, e')
        | (none, e') => (.pending, e')

def doAccept (e : Env) (tag : String) (bi await : Bool) : Env × String × String :=
  let (ev, e) := acceptEv e bi await
  match (if bi then pollAcceptBidi ev else pollAcceptRecv ev) with
  | .pending => (e, tag ++ (if await then "=timeout" else "=pending"), "*")
  | .bidi b =>
    let ids := if recvId b.recv == .id b.sendId then toString b.sendId else s!"{b.sendId}/{recvOutStr (recvId b.recv)}"
    ({ e with takenB := e.takenB + 1 }, s!"{tag}={ids}", "*")
  | .recv r => ({ e with takenU := e.takenU + 1 }, s!"{tag}={recvOutStr (recvId r)}", "*")
  | .err x =>
    (e, s!"{tag}=err:{connErrStr x}", if specErr (.connection x) then s!"{tag}=err:{connErrStr x}" else "*")

/-- the frame `otag:<n>:<seed>` writes on the j-th opened stream -/
def tagWire (n seed j : Nat) : Bytes := 0 :: Varint.encode (n + j) ++ payload (n + j) (seed + j)

def paccItems : List (Nat × Bytes) → List String
  | [] => []
  | (id, w) :: r => s!"{id}:{showHash w}:fin" :: paccItems r

/-- the opened streams of one kind with what was written on them (`none`: not written yet) -/
def openedOfKind (e : Env) (bi : Bool) : List (Nat × Option Bytes) :=
  ((List.range e.opened.length).zip e.opened).filterMap fun (j, (b, id)) =>
    if b == bi then some (id, e.tags[j]?) else none

def allSome : List (Nat × Option Bytes) → Option (List (Nat × Bytes))
  | [] => some []
  | (id, some w) :: r => (allSome r).map fun l => (id, w) :: l
  | (_, none) :: _ => none

/-- What Quinn answers to the one `poll_write` of an immediate `poll_send` offering `chunkLen` bytes. -/
def unframedAnswer (e : Env) (chunkLen : Nat) : Accept :=
  if e.zeroRej then .err .zeroRttRejected else
  match e.connKnown with
  | some x => .err (.connectionLost x)
  | none =>
    if e.peerStopKnown then .err (.stopped (e.peerStop.getD 0))
    else if e.cw - e.accepted.length = 0 ∧ !e.peerReading then .pending
    else if e.finished ∨ e.resetLocal.isSome then .err .closedStream
    else if budget e = 0 then .pending
    else .ok (min (budget e) chunkLen)

def sendOutStr (o : SendOut) (await : Bool) : String :=
  match o with
  | .pending => if await then "timeout" else "pending"
  | .ok k => toString k
  | .err x => "err:" ++ streamErrStr x
  | .refused => "refused"
  | .panic => "panic"

/-- one `poll_send` through the model; when awaited, a `Pending` answer is followed by whatever
    condition surfaces (`awaitTail`) -/
def doPollSend (e : Env) (buf : List Bytes) (await : Bool) : Env × USendOut :=
  let a := unframedAnswer e (ubChunk buf).length
  let (a, e) :=
    if await && a == .pending && e.send.writing.isNone then
      match awaitTail e with
      | (x :: _, e') => (x, e')
      | ([], e') => (a, e')
    else (a, e)
  let o := pollSend e.send buf a
  let e := afterAccepted { e with accepted := e.accepted ++ o.acc, specWire := e.specWire ++ o.acc } o.acc
  (e, o)

def specPs (tag : String) (e : Env) (o : USendOut) : String :=
  if e.specBusy then s!"{tag}=refused/{(ubView o.buf).length}" else
  match o.res with
  | .err x => if specErr x then s!"{tag}=err:{streamErrStr x}/{(ubView o.buf).length}" else "*"
  | _ => "*"

/-- `psall`: the callers' loop, one model call per iteration (fuel: two chunks, then the tail). -/
def psAll : Nat → Env → List Bytes → Env × List Bytes × String
  | 0, e, buf => (e, buf, "timeout")
  | n + 1, e, buf =>
    if (ubView buf).length = 0 then (e, buf, "ok") else
    let (e', o) := doPollSend e buf true
    match o.res with
    | .ok _ => psAll n e' o.buf
    | r => (e', o.buf, sendOutStr r true)

/-- The specification's answer to `pstopped` (reading R-17, DESIGN.md section 9). A stop that is *due*
    (`StopSpec`: `stop_sending(c)` was called with no read in flight, or the read that was in flight
    has completed since) must have reached the peer: its writer sees STOP_SENDING with exactly the
    code handed in — one of the codes, if several calls were made during one pending read — within
    the operation's timeout; `timeout`, Quinn's implicit 0 and any other code are failures. No
    opinion: nothing due (no stop asked for, or asked for during a read that never completed — the
    unchanged adapter then loses the code, observation (a) of R-17, outside the property's text);
    a peer that has already ended or reset its side (a STOP_SENDING need not be observable any
    more); a connection that is failing; a rejected 0-RTT stream. -/
def specStopped (e : Env) : String :=
  if e.specStop.due.isEmpty || e.peerFin || e.peerReset.isSome || e.connKnown.isSome || e.connComing.isSome
     || e.idle || e.zeroRej || e.peerGone || !e.hasRecv then "*"
  else "|".intercalate (e.specStop.due.eraseDups.map fun c => s!"pstopped={c}")

def step (e : Env) (op : String) : Option (Env × String × String) :=
  let p := op.splitOn ":"
  let num (i : Nat) : Option Nat := (p[i]?).bind (·.toNat?)
  match p.head? with
  | none => none
  | some h =>
  if h == "sd" || h == "w" then
    if !e.hasSend then none else
    match p[1]?, num 2, num 3 with
    | some f, some n, some seed =>
      match frameParts f n seed with
      | none => none
      | some (hdr, pl) =>
        let (e, ok, m, sp) := doSend e h hdr pl
        if h == "sd" || !ok then some (e, m, sp)
        else some (doPoll e "w" true)
    | _, _, _ => none
  else if h == "pr1" then if e.hasSend then some (doPoll e "pr1" false) else none
  else if h == "pr" then if e.hasSend then some (doPoll e "pr" true) else none
  else if h == "fin" then
    if !e.hasSend then none else
    if e.zeroRej then some (e, "fin=ok", "*") else
    if e.finished ∨ e.resetLocal.isSome then some (e, "fin=err:s.unknown:closed-stream", "*")
    else
      let e := { e with specClean := e.specClean && e.send.writing.isNone }
      some ({ e with finished := e.peerStop.isNone }, "fin=ok", "*")
  else if h == "rst" then
    if !e.hasSend then none else
    match num 1 with
    | none => none
    | some c =>
      some ({ e with resetLocal := e.resetLocal.orElse fun _ => some (resetArg c), specClean := false }, "rst", "*")
  else if h == "sid" then
    if e.hasSend then some (e, s!"sid={e.id}", s!"sid={e.id}") else none
  else if h == "rid" then
    if !e.hasRecv || !e.recv.alive then none else
    let (r', o) := e.recv.step .recvId
    some ({ e with recv := r' }, "rid=" ++ recvOutStr o, s!"rid={e.id}")
  else if h == "pd1" then
    if !e.hasRecv || !e.recv.alive then none else
    let (e, o) := doRead e false
    some (e, "pd1=" ++ recvOutStr o, specRecv "pd1" o)
  else if h == "pdc" then
    if !e.hasRecv || !e.recv.alive then none else
    let (e, o) := doRead e false
    some (e, (if o == .pending then "pdc=cancelled" else "pdc=" ++ recvOutStr o), specRecv "pdc" o)
  else if h == "pd" then
    if !e.hasRecv || !e.recv.alive then none else
    let (e, o) := doRead e true
    some (e, (if o == .pending then "pd=timeout" else "pd=" ++ recvOutStr o), specRecv "pd" o)
  else if h == "rdall" then
    if !e.hasRecv || !e.recv.alive then none else some (readAll 4 e)
  else if h == "stop" then
    if !e.hasRecv || !e.recv.alive then none else
    match num 1 with
    | none => none
    | some c =>
      let (r', o) := e.recv.step (.stopSending c)
      let e := { e with recv := r', specStop := e.specStop.step (.stopSending c) }
      some ({ e with allRead := e.allRead || (!r'.stops.isEmpty && !e.zeroRej) }, (if o == .panic then "stop=panic" else "stop"), "*")
  else if h == "dropr" then
    if !e.hasRecv || e.unsplit then none else
    let (r', _) := e.recv.step .drop
    some ({ e with recv := r', specStop := e.specStop.step .drop }, "dropr", "*")
  else if h == "aclose" then
    match num 1 with
    | none => none
    | some c =>
      match closeArg c with
      | none => some (e, "aclose=panic", "*")
      | some c =>
        if e.connKnown.isSome then some (e, "aclose", "*")
        else some ({ e with connKnown := some .locallyClosed, aClosed := some c }, "aclose", "*")
  else if h == "pbg" then some ({ e with peerReading := true }, "pbg", "*")
  else if h == "pjoin" then
    if !e.peerReading && e.peerStop.isNone then some (e, "peer=none", "*")
    else if e.peerStop.isSome then some (e, "peer=stopped", "*")
    else match e.resetLocal with
    | some c => some (e, s!"peer=reset:{c}", "*")
    | none =>
      if e.finished then
        some (e, s!"peer={showHash e.accepted}:fin",
          if e.specClean && !e.specBusy then s!"peer={showHash e.specWire}:fin" else "*")
      else some (e, "peer=timeout", "*")
  else if h == "pstop" then
    match num 1 with
    | none => none
    | some c => some ({ e with peerStop := e.peerStop.orElse fun _ => some c, peerReading := false }, "pstop", "*")
  else if h == "pw" then
    match num 1, num 2 with
    | some n, some seed => some ({ e with peerWritten := e.peerWritten ++ payload n seed }, "pw", "*")
    | _, _ => none
  else if h == "pfin" then some ({ e with peerFin := true }, "pfin", "*")
  else if h == "prst" || h == "prstnow" then
    match num 1 with
    | none => none
    | some c => some ({ e with peerReset := e.peerReset.orElse fun _ => some c }, h, "*")
  else if h == "pstopped" then
    let sp := specStopped e
    match e.recv.stops.head? with
    | some c => some (e, s!"pstopped={c}", sp)
    | none =>
      if !e.recv.alive then some (e, (if e.allRead then "pstopped=none" else "pstopped=0"), sp)
      else some (e, "pstopped=timeout", sp)
  else if h == "pclose" then
    if e.peerGone then none else
    match num 1 with
    | none => none
    | some c =>
      if e.connKnown.isSome then some (e, "pclose", "*")
      else some ({ e with connComing := some (.applicationClosed c), peerReading := false }, "pclose", "*")
  else if h == "pclosed" then
    if e.peerGone then none else
    match e.aClosed with
    | some c => some (e, s!"pclosed=app:{c}", "*")
    | none =>
      match e.connKnown.orElse fun _ => e.connComing with
      | some (.applicationClosed _) => some (e, "pclosed=locally-closed", "*")
      | some .timedOut => some (e, "pclosed=timed-out", "*")
      | _ => if e.idle then some (e, "pclosed=timed-out", "*") else some (e, "pclosed=timeout", "*")
  else if h == "split" then
    if e.unsplit then some ({ e with unsplit := false }, "split", "*") else none
  else if h == "z0" then
    if !e.hasRecv || !e.recv.alive then none else some (e, (if e.zeroRtt then "z0=1" else "z0=0"), "*")
  else if h == "zacc" then
    match e.zacc with
    | some b => some (e, (if b then "zacc=1" else "zacc=0"), "*")
    | none => none
  else if h == "ub" then
    match num 1, num 2 with
    | some n, some seed =>
      let cut := min ((num 3).getD 0) n
      let b := payload n seed
      some ({ e with ubuf := some [b.take cut, b.drop cut] }, "ub", "*")
    | _, _ => none
  else if h == "ps1" || h == "ps" then
    if !e.hasSend then none else
    match e.ubuf with
    | none => none
    | some buf =>
      let (e', o) := doPollSend e buf (h == "ps")
      some ({ e' with ubuf := some o.buf }, s!"{h}={sendOutStr o.res (h == "ps")}/{(ubView o.buf).length}", specPs h e o)
  else if h == "psall" then
    if !e.hasSend then none else
    match e.ubuf with
    | none => none
    | some buf =>
      if e.send.writing.isSome then
        if (ubView buf).length = 0 then some (e, "psall=ok/0", "*")
        else some (e, s!"psall=refused/{(ubView buf).length}", s!"psall=refused/{(ubView buf).length}")
      else
      let (e', buf', r) := psAll 8 e buf
      some ({ e' with ubuf := some buf' }, s!"psall={r}/{(ubView buf').length}",
        if r.startsWith "err:c.appclose" || r.startsWith "err:c.timeout" || r.startsWith "err:s.terminated"
        then s!"psall={r}/{(ubView buf').length}" else "*")
  else if h == "ob1" || h == "ob" || h == "ou1" || h == "ou" then
    match p[1]? with
    | some w =>
      if w == "c" || w == "o" || w == "k" then some (doOpen e h (h == "ob1" || h == "ob") (h == "ob" || h == "ou")) else none
    | none => none
  else if h == "ab1" || h == "ab" || h == "ar1" || h == "ar" then
    some (doAccept e h (h == "ab1" || h == "ab") (h == "ab" || h == "ar"))
  else if h == "sdm" then
    -- the `Chain` variant of `sd`: a uni stream opened through the Connection, ONE DATA frame whose payload is a
    -- multi-chunk `Buf` (cut at the given positions), `poll_ready` awaited, finished.  The write loop hands Quinn
    -- the header and then chunk after chunk; what reaches the peer is the frame over the FLATTENED payload.
    match num 1, num 2, p[3]? with
    | some n, some seed, some cs =>
      let ks := (cs.splitOn ",").map String.toNat?
      let v := ks.filterMap id
      if !(ks.all Option.isSome && (v.zip (0 :: v)).all (fun (a, b) => decide (a > b)) && v.all (fun a => decide (a < n))) then none
      else if e.tags.length != e.opened.length then none
      else
        let (e', t, sp) := doOpen e "sdm" false true
        if e'.opened.length == e.opened.length then some (e', t, sp)      -- not opened: the error / nothing
        else
          let e' := { e' with tags := e'.tags ++ [0 :: Varint.encode n ++ payload n seed] }
          some (afterAccepted e' [0], t, sp)
    | _, _, _ => none
  else if h == "otag" then
    match num 1, num 2 with
    | some n, some seed =>
      let js := (List.range e.opened.length).drop e.tags.length
      if js.isEmpty then some (e, "otag=0", "*") else
      (match e.connKnown with
       | some x =>
         let t := s!"otag=err:{streamErrStr (convertWrite (.connectionLost x))}@{e.tags.length}"
         some ({ e with tags := e.tags ++ [[]] }, t, if specErr (convertWrite (.connectionLost x)) then t else "*")
       | none =>
         let e' := { e with tags := e.tags ++ js.map (tagWire n seed) }
         some (afterAccepted e' [0], s!"otag={js.length}", s!"otag={js.length}"))
    | _, _ => none
  else if h == "pacc" then
    if e.peerGone then none else
    match p[1]?, num 2 with
    | some k, some n =>
      if k != "bi" && k != "uni" then none else
      let bi := k == "bi"
      let done := if bi then e.paccB else e.paccU
      let next := ((openedOfKind e bi).drop done).take n
      if next.length < n then some (e, "pacc=timeout", "*") else
      (match allSome next with
       | none => some (e, "pacc=timeout", "*")
       | some items =>
         let t := if items.isEmpty then "pacc=-" else "pacc=" ++ ",".intercalate (paccItems items)
         let e := if bi then { e with paccB := e.paccB + n } else closeUni n { e with paccU := e.paccU + n }
         -- the specification: the peer sees exactly the opened streams, each once, with the bytes handed over
         some (e, t, t))
    | _, _ => none
  else if h == "pmb" || h == "pmu" then
    if e.peerGone then none else
    match num 1 with
    | some n =>
      if n ≥ 2^62 || n < (if h == "pmb" then e.concB else e.concU) then none   -- only raising is modelled
      else some (relimit (if h == "pmb" then { e with concB := n } else { e with concU := n }), h, "*")
    | none => none
  else if h == "pob" || h == "pou" then
    if e.peerGone then none
    else some ((if h == "pob" then { e with pOpenB := e.pOpenB + 1 } else { e with pOpenU := e.pOpenU + 1 }), h, "*")
  else if h == "oclose" then
    match p[1]?, num 2, (p[3]?).bind parseHex with
    | some w, some c, some reason =>
      if !(w == "c" || w == "o" || w == "k") then none else
      (match closeArgs c reason with
       | none => some (e, "oclose=panic", "*")
       | some (c, reason) =>
         if e.connKnown.isSome then some (e, "oclose", "*")
         else some ({ e with connKnown := some .locallyClosed, aClosed := some c, aReason := reason }, "oclose", "*"))
    | _, _, _ => none
  else if h == "pclosedr" then
    if e.peerGone then none else
    match e.aClosed with
    | some c => some (e, s!"pclosedr=app:{c}:{toHex e.aReason}", s!"pclosedr=app:{c}:*")
    | none =>
      match e.connKnown.orElse fun _ => e.connComing with
      | some (.applicationClosed _) => some (e, "pclosedr=locally-closed", "*")
      | some .timedOut => some (e, "pclosedr=timed-out", "*")
      | _ => if e.idle then some (e, "pclosedr=timed-out", "*") else some (e, "pclosedr=timeout", "*")
  else if h == "dgmax" then
    match e.dgmax with
    | some n => some (e, if e.dgp then s!"dgmax={n}" else "dgmax=none", "*")
    | none => none
  else if h == "dgh" then some (e, "dgh", "*")     -- the handlers hold nothing but a handle of the connection
  else if h == "dgs" then
    match num 1, num 2, num 3 with
    | some sid, some n, some seed =>
      if sid % 4 != 0 || sid ≥ 2^62 then none else
      -- `dgs:<sid>:<n>:<seed>:<cuts>`: the payload is a multi-chunk `Buf`; the model flattens it (C18_payload_chunking_independent)
      let cutsOk := match p[4]? with
        | none => true
        | some cs =>
          let ks := (cs.splitOn ",").map String.toNat?
          ks.all Option.isSome &&
            (let v := ks.filterMap id
             (v.zip (0 :: v)).all (fun (a, b) => decide (a > b)) && v.all (fun a => decide (a < n)))
      if !cutsOk then none else
      let wire := datagramWire (Varint.encode (sid / 4)) (payload n seed)
      -- the specification's datagram, written from RFC 9297 §2.1
      let specWire := Varint.encode (sid / 4) ++ payload n seed
      -- Quinn's limit: the environment parameter of the case; without it only sizes every path MTU admits / refuses
      let verdict : Option Bool := match e.dgmax with
        | some m => some (decide (wire.length > m))
        | none => if wire.length ≤ 1100 then some false else if wire.length > 1500 then some true else none
      (match verdict with
       | none => none
       | some tooLarge =>
        (match e.connKnown with
         | some x =>
           let d := convertSendDatagram (.connectionLost x)
           let t := match d with
             | .connection y => "dgs=err:" ++ connErrStr y
             | .notAvailable => "dgs=not-available"
             | .tooLarge => "dgs=too-large"
           some (e, t, if specErr (.connection (convertConn x)) then t else "*")
         | none =>
           if !e.dga then some (e, "dgs=not-available", "dgs=not-available")       -- `Disabled`
           else if !e.dgp then some (e, "dgs=not-available", "dgs=not-available")  -- `UnsupportedByPeer`
           else if tooLarge then some (e, "dgs=too-large", if specWire.length > e.dgmax.getD 1500 then "dgs=too-large" else "dgs=ok")
           else some (afterAccepted { e with dgToPeer := e.dgToPeer ++ [wire], specDgToPeer := e.specDgToPeer ++ [specWire] } wire,
                      "dgs=ok", if specWire.length > e.dgmax.getD 1500 then "dgs=too-large" else "dgs=ok")))
    | _, _, _ => none
  else if h == "pdg" then
    if e.peerGone then none else
    -- the specification: the peer sees exactly `varint(sid/4) ‖ payload`, length and content
    let (sp, rs) := match e.specDgToPeer with
      | w :: r => (s!"pdg={showHash w}", r)
      | [] => ("*", [])
    match e.dgToPeer with
    | w :: r => some ({ e with dgToPeer := r, specDgToPeer := rs }, s!"pdg={showHash w}", sp)
    | [] => some ({ e with specDgToPeer := rs }, "pdg=timeout", sp)
  else if h == "pdgs" then
    if e.peerGone then none else
    match num 1, num 2 with
    | some n, some seed =>
      (match p[3]? with
       | none => some ({ e with dgToA := e.dgToA ++ [payload n seed] }, "pdgs", "*")
       | some sidS =>
         match sidS.toNat? with
         | some sid =>
           if sid % 4 != 0 || sid / 4 ≥ 2^62 then none
           else some ({ e with dgToA := e.dgToA ++ [Varint.encode (sid / 4) ++ payload n seed] }, "pdgs", "*")
         | none => none)
    | _, _ => none
  else if h == "dgrd" then
    -- the datagram the peer sent, decoded by h3-datagram: stream id and payload exact
    match e.dgToA with
    | w :: r =>
      let m := match H3.Datagram.decode w with
        | .ok sid pl => s!"dgrd={sid}:{showHash pl}"
        | .datagramError => "dgrd=datagram-error"
      let sp := match Varint.rfcDecode w with
        | some (q, rest) => if 4 * q > 2^62 - 1 then "dgrd=datagram-error" else s!"dgrd={4 * q}:{showHash rest}"
        | none => "dgrd=datagram-error"
      some ({ e with dgToA := r }, m, sp)
    | [] =>
      (match e.connKnown with
       | some x => some (e, s!"dgrd={connErrTok x}", specConnTok "dgrd" x)
       | none =>
         match awaitConn e with
         | (some x, e') => some (e', s!"dgrd={connErrTok x}", specConnTok "dgrd" x)
         | (none, e') => some (e', "dgrd=timeout", "*"))
  else if h == "dgr1" || h == "dgr" then
    match e.dgToA with
    -- what the peer sent is handed out unchanged: length and content (the specification's token is the same one)
    | w :: r => some ({ e with dgToA := r }, s!"{h}={showHash w}", s!"{h}={showHash w}")
    | [] =>
      (match e.connKnown with
       | some x => some (e, s!"{h}={connErrTok x}", specConnTok h x)
       | none =>
         if h == "dgr1" then some (e, "dgr1=pending", "*")
         else match awaitConn e with
           | (some x, e') => some (e', s!"dgr={connErrTok x}", specConnTok "dgr" x)
           | (none, e') => some (e', "dgr=timeout", "*"))
  else if h == "pkill" then
    if e.hs != "kill" || e.killed then none
    else some ({ e with killed := true, peerGone := true, peerReading := false }, "pkill", "*")
  else if h == "settle" then
    let e := match e.connComing with
      | some x => { e with connKnown := some x, connComing := none }
      | none => e
    some ({ e with peerStopKnown := e.peerStop.isSome }, "settle", "*")
  else none

def runOps : Env → List String → Option (List String × List String)
  | _, [] => some ([], [])
  | e, op :: ops =>
    match step e op with
    | none => none
    | some (e', m, s) =>
      match runOps e' ops with
      | none => none
      | some (ms, ss) => some (m :: ms, s :: ss)

/-- A specification token `a|b|…` offers several answers. The line printed is the one with every first
    answer, plus, for each such token and each further answer `b`, the alternative "same up to here,
    then `b`, then anything". -/
def firstAlt (t : String) : String := (t.splitOn "|").headD t
def specAlts : List String → List String → List String
  | _, [] => []
  | pre, t :: r =>
    ((t.splitOn "|").drop 1).map (fun b => " ".intercalate (pre ++ [b, "**"])) ++ specAlts (pre ++ [firstAlt t]) r
def specLine (ss : List String) : String :=
  " || ".intercalate (" ".intercalate (ss.map firstAlt) :: specAlts [] ss)

def handle : List String → String
  | "quinn" :: cfg :: ops =>
    match parseCfg cfg with
    | none => "bad-op"
    | some c =>
      if !cfgOk c then "bad-op" else
      let id := streamId c
      let has := c.hs != "rej"                      -- `hs=rej`: no stream under test, no peer connection
      let rejected := c.hs == "z0r" || c.hs == "z0t" || c.hs == "z0v"
      let mine := if has && c.opn then c.skip + 1 else 0     -- streams of the kind under test opened in the set-up
      let theirs := if has && !c.opn then c.skip + 1 else 0
      let e : Env := {
        id := id
        hasSend := has && (c.bi || c.opn)
        hasRecv := has && (c.bi || !c.opn)
        sw := if c.sw = 0 then defaultStreamWindow else c.sw
        cw := if c.cw = 0 then unlimited else c.cw
        idle := c.idle > 0
        recv := Recv.new id
        client := c.client
        hs := c.hs
        unsplit := has && !c.split
        -- a rejected 0-RTT attempt is forgotten: Quinn numbers the streams from 0 again
        usedB := if rejected then 0 else if c.bi then mine else 0
        usedU := if rejected then 0 else if c.bi then 0 else mine
        concB := c.mb.getD 100
        concU := c.mu.getD 100
        limB := c.mb.getD 100
        limU := c.mu.getD 100
        annB := c.mb.getD 100
        annU := c.mu.getD 100
        pOpenB := if c.bi then theirs else 0
        pOpenU := if c.bi then 0 else theirs
        takenB := if c.bi then theirs else 0
        takenU := if c.bi then 0 else theirs
        dga := c.dga
        dgp := c.dgp
        dgmax := c.dgmax
        zeroRtt := c.hs == "z0" || rejected
        zeroRej := rejected
        zacc := if c.hs == "z0" then some true else if rejected then some false else none
        peerGone := c.hs == "rej" || c.hs == "z0t" || c.hs == "z0v"
        connComing := if c.hs == "rej" then some .connectionClosed else none
        connKnown := if c.hs == "z0t" then some .transportError else if c.hs == "z0v" then some .versionMismatch else none }
      match runOps e ops with
      | none => "bad-op"
      | some (ms, ss) => " ".intercalate ms ++ " ## " ++ specLine ss
  | _ => "bad-op"

end H3.Drv.C17
