import H3.Drv.Util
import H3.Model.Varint
import H3.Model.QuinnAdapter
/-! Driver engine `quinn` (C17).

    A case line is a scenario `quinn <cfg> <op>…` run by the harness over a real Quinn loopback
    connection. The adapter's answers come from `H3.QuinnAdapter` (write loop, ownership machine,
    error tables). What *Quinn and the raw peer* do in between — how many bytes a flow-control window
    lets through, which Quinn error value a peer action produces, which code the peer sees — is not
    part of the model: it is the small environment `Env` below, an assumption about Quinn that the
    correspondence run observes on every case (and nothing more than observes). The case generator
    keeps to scenarios in which that environment is deterministic. -/
namespace H3.Drv.C17
open H3.Drv H3.QuinnAdapter

def hashP : Nat := 4294967291
def hashM : Nat := 16777619
def hashBytes (bs : Bytes) : Nat := bs.foldl (fun h b => (h * hashM + b + 1) % hashP) 0
def hex8 (n : Nat) : String :=
  String.ofList ((List.range 8).reverse.map fun i => hexChar (n / 16 ^ i % 16))
def showHash (bs : Bytes) : String := s!"{bs.length}:{hex8 (hashBytes bs)}"

def pbyte (seed i : Nat) : Nat := (seed + i * 131 + (i / 251) * 17) % 256
def payload (n seed : Nat) : Bytes := (List.range n).map (pbyte seed)

/-- header bytes and payload of the `WriteBuf` the harness builds for `<F>:<n>:<seed>`. -/
def frameParts (f : String) (n seed : Nat) : Option (Bytes × Bytes) :=
  if f == "D" then some (0 :: Varint.encode n, payload n seed)
  else if f == "H" then some (1 :: Varint.encode n, payload n seed)
  else if f == "G" then
    if n < 2^62 then some (7 :: (Varint.encode (Varint.size n) ++ Varint.encode n), []) else none
  else if f == "U" then some (Varint.encode 0x54 ++ (0 :: Varint.encode n), payload n seed)
  else none

def undefName : ConnectionError → String
  | .locallyClosed => "locally-closed"
  | .connectionClosed => "conn-closed"
  | .reset => "reset"
  | .versionMismatch => "version"
  | .cidsExhausted => "cids"
  | .transportError => "transport"
  | _ => "other"

def connErrStr : ConnErr → String
  | .applicationClose c => s!"c.appclose:{c}"
  | .timeout => "c.timeout"
  | .internalError => "c.internal"
  | .undefined e => "c.undefined:" ++ undefName e

def streamErrStr : StreamErr → String
  | .connection e => connErrStr e
  | .terminated c => s!"s.terminated:{c}"
  | .unknown .closedStream => "s.unknown:closed-stream"
  | .unknown .zeroRttRejected => "s.unknown:zero-rtt"

def readyStr : Ready → String
  | .pending => "pending"
  | .ok => "ok"
  | .err e => "err:" ++ streamErrStr e

/-- Is this error one of the property's four conditions (so the specification has an opinion)? -/
def specErr : StreamErr → Bool
  | .connection (.applicationClose _) => true
  | .connection .timeout => true
  | .terminated _ => true
  | _ => false

structure Cfg where
  sw : Nat := 0
  cw : Nat := 0
  tw : Nat := 0
  client : Bool := true
  bi : Bool := true
  opn : Bool := true
  skip : Nat := 0
  idle : Nat := 0

def parseCfg (s : String) : Option Cfg :=
  (s.splitOn ",").foldlM (init := ({} : Cfg)) fun c kv =>
    match kv.splitOn "=" with
    | [k, v] =>
      if k == "sw" then v.toNat?.map fun n => { c with sw := n }
      else if k == "cw" then v.toNat?.map fun n => { c with cw := n }
      else if k == "tw" then v.toNat?.map fun n => { c with tw := n }
      else if k == "skip" then v.toNat?.bind fun n => if n ≤ 64 then some { c with skip := n } else none
      else if k == "idle" then v.toNat?.map fun n => { c with idle := n }
      else if k == "role" then
        if v == "c" then some { c with client := true } else if v == "s" then some { c with client := false } else none
      else if k == "kind" then
        if v == "bi" then some { c with bi := true } else if v == "uni" then some { c with bi := false } else none
      else if k == "dir" then
        if v == "open" then some { c with opn := true } else if v == "acc" then some { c with opn := false } else none
      else none
    | _ => none

/-- RFC 9000 §2.1: the two low bits say who opened the stream and whether it is unidirectional;
    the `skip` streams of the same kind opened before it take the lower indices. -/
def streamId (c : Cfg) : Nat :=
  let initiatorIsClient := if c.opn then c.client else !c.client
  4 * c.skip + (if c.bi then 0 else 2) + (if initiatorIsClient then 0 else 1)

/-- Quinn's default `stream_receive_window`. -/
def defaultStreamWindow : Nat := 1250000
def unlimited : Nat := 2^62

/-- The environment: the adapter models plus what Quinn and the peer are assumed to do. -/
structure Env where
  id : Nat
  hasSend : Bool
  hasRecv : Bool
  sw : Nat
  cw : Nat
  idle : Bool
  send : Send := ⟨none⟩
  recv : Recv
  -- adapter → peer direction
  accepted : Bytes := []            -- bytes Quinn has accepted from the adapter, in order
  peerReading : Bool := false
  finished : Bool := false
  resetLocal : Option Nat := none
  peerStop : Option Nat := none
  peerStopKnown : Bool := false
  -- connection
  connKnown : Option ConnectionError := none
  connComing : Option ConnectionError := none
  aClosed : Option Nat := none
  -- peer → adapter direction
  peerWritten : Bytes := []
  aRead : Bytes := []               -- everything the adapter side has read
  peerFin : Bool := false
  peerReset : Option Nat := none
  allRead : Bool := false           -- Quinn's `all_data_read` on the adapter's receive stream
  -- specification side: what was handed over and completely written
  specBusy : Bool := false
  specPending : Bytes := []
  specWire : Bytes := []
  specClean : Bool := true

/-- `ok` answers that let through `b` bytes of what `d` offers (header chunk, then payload chunk). -/
def oksFor (d : WriteBuf) (b : Nat) : List Accept :=
  let c1 := d.chunk.length
  (if min b c1 > 0 then [Accept.ok (min b c1)] else []) ++ (if b > c1 then [Accept.ok (b - c1)] else [])

def budget (e : Env) : Nat :=
  if e.peerReading then unlimited else min e.sw e.cw - e.accepted.length

/-- What Quinn answers to the `poll_write`s of one immediate poll. -/
def pollScript (e : Env) (d : WriteBuf) : List Accept :=
  match e.connKnown with
  | some x => [.err (.connectionLost x)]
  | none =>
    if e.peerStopKnown then [.err (.stopped (e.peerStop.getD 0))]
    else if e.cw - e.accepted.length = 0 ∧ !e.peerReading then [.pending]
    else if e.finished ∨ e.resetLocal.isSome then [.err .closedStream]
    else oksFor d (budget e) ++ [.pending]

/-- …and to those of a `poll_ready` awaited to completion; the second component is the condition
    that surfaced, if one did. -/
def awaitTail (e : Env) : List Accept × Env :=
  match e.peerStop with
  | some c => ([.err (.stopped c)], { e with peerStopKnown := true })
  | none =>
    match e.connComing with
    | some x => ([.err (.connectionLost x)], { e with connKnown := some x, connComing := none })
    | none =>
      if e.idle then ([.err (.connectionLost .timedOut)], { e with connKnown := some .timedOut })
      else ([], e)

def awaitScript (e : Env) (d : WriteBuf) : List Accept × Env :=
  match e.connKnown with
  | some x => ([.err (.connectionLost x)], e)
  | none =>
    if e.peerStopKnown then ([.err (.stopped (e.peerStop.getD 0))], e)
    else if e.finished ∨ e.resetLocal.isSome then ([.err .closedStream], e)
    else
      let b := budget e
      if b ≥ d.remaining then (oksFor d b, e)
      else
        let (t, e') := awaitTail e
        (oksFor d b ++ t, e')

/-- Run a poll of the write half and fold the outcome into the environment. -/
def applyPoll (e : Env) (o : PollOut) : Env :=
  let e := { e with send := o.state, accepted := e.accepted ++ o.acc }
  match o.res with
  | .ok => { e with specBusy := false, specWire := e.specWire ++ e.specPending, specPending := [] }
  | _ => e

def specReady (tag : String) (r : Ready) : String :=
  match r with
  | .ok => tag ++ "=ok"
  | .err x => if specErr x then tag ++ "=err:" ++ streamErrStr x else "*"
  | .pending => "*"

def doPoll (e : Env) (tag : String) (await : Bool) : Env × String × String :=
  match e.send.writing with
  | none =>
    let o := pollReady e.send []
    (applyPoll e o, s!"{tag}={readyStr o.res}", specReady tag o.res)
  | some d =>
    if await then
      let (sc, e') := awaitScript e d
      let o := drive e.send sc
      (applyPoll e' o, s!"{tag}={readyStr o.res}", specReady tag o.res)
    else
      let o := pollReady e.send (pollScript e d)
      (applyPoll e o, s!"{tag}={readyStr o.res}", specReady tag o.res)

def doSend (e : Env) (tag : String) (hdr pl : Bytes) : Env × Bool × String × String :=
  let (s', r) := sendData e.send (WriteBuf.new hdr pl)
  let sp := if e.specBusy then tag ++ "=refused" else tag ++ "=ok"
  match r with
  | .refused => ({ e with send := s' }, false, tag ++ "=refused", sp)
  | .ok => ({ e with send := s', specBusy := true, specPending := hdr ++ pl }, true, tag ++ "=ok", sp)

/-- What the adapter's read future does when polled now (`await = false`) or when awaited. -/
def readEv (e : Env) (await : Bool) : ReadEv × Env :=
  if e.allRead then (.fin, e) else
  match e.connKnown with
  | some x => (.err (.connectionLost x), e)
  | none =>
    if !await then (.pending, e)
    else if e.peerWritten.length > e.aRead.length then (.data, { e with aRead := e.peerWritten })
    else match e.peerReset with
    | some c => (.err (.reset c), { e with allRead := true })
    | none =>
      if e.peerFin then (.fin, { e with allRead := true })
      else match e.connComing with
      | some x => (.err (.connectionLost x), { e with connKnown := some x, connComing := none })
      | none =>
        if e.idle then (.err (.connectionLost .timedOut), { e with connKnown := some .timedOut })
        else (.pending, e)

def recvOutStr : RecvOut → String
  | .pending => "pending"
  | .data => "data"
  | .fin => "end"
  | .err x => "err:" ++ streamErrStr x
  | .id n => toString n
  | .unit => "unit"
  | .panic => "panic"

def specRecv (tag : String) (o : RecvOut) : String :=
  match o with
  | .err x => if specErr x then tag ++ "=err:" ++ streamErrStr x else "*"
  | _ => "*"

/-- one `poll_data` through the model; an applied stop makes Quinn report the end from then on. -/
def doRead (e : Env) (await : Bool) : Env × RecvOut :=
  let (ev, e) := readEv e await
  let (r', o) := e.recv.step (.pollData ev)
  let e := { e with recv := r' }
  ({ e with allRead := e.allRead || !r'.stops.isEmpty }, o)

/-- `rdall`: poll until the end or an error (fuel: one data event, then a terminal one, suffices). -/
def readAll : Nat → Env → Env × String × String
  | 0, e => (e, "rdall=timeout", "*")
  | n + 1, e =>
    let (e, o) := doRead e true
    match o with
    | .data => readAll n e
    | .fin => (e, s!"rdall={showHash e.aRead}:end", "*")
    | .pending => (e, "rdall=timeout", "*")
    | o => (e, "rdall=" ++ recvOutStr o, specRecv "rdall" o)

def step (e : Env) (op : String) : Option (Env × String × String) :=
  let p := op.splitOn ":"
  let num (i : Nat) : Option Nat := (p[i]?).bind (·.toNat?)
  match p.head? with
  | none => none
  | some h =>
  if h == "sd" || h == "w" then
    if !e.hasSend then none else
    match p[1]?, num 2, num 3 with
    | some f, some n, some seed =>
      match frameParts f n seed with
      | none => none
      | some (hdr, pl) =>
        let (e, ok, m, sp) := doSend e h hdr pl
        if h == "sd" || !ok then some (e, m, sp)
        else some (doPoll e "w" true)
    | _, _, _ => none
  else if h == "pr1" then if e.hasSend then some (doPoll e "pr1" false) else none
  else if h == "pr" then if e.hasSend then some (doPoll e "pr" true) else none
  else if h == "fin" then
    if !e.hasSend then none else
    if e.finished ∨ e.resetLocal.isSome then some (e, "fin=err:s.unknown:closed-stream", "*")
    else
      let e := { e with specClean := e.specClean && e.send.writing.isNone }
      some ({ e with finished := e.peerStop.isNone }, "fin=ok", "*")
  else if h == "rst" then
    if !e.hasSend then none else
    match num 1 with
    | none => none
    | some c =>
      some ({ e with resetLocal := e.resetLocal.orElse fun _ => some (resetArg c), specClean := false }, "rst", "*")
  else if h == "sid" then
    if e.hasSend then some (e, s!"sid={e.id}", s!"sid={e.id}") else none
  else if h == "rid" then
    if !e.hasRecv || !e.recv.alive then none else
    let (r', o) := e.recv.step .recvId
    some ({ e with recv := r' }, "rid=" ++ recvOutStr o, s!"rid={e.id}")
  else if h == "pd1" then
    if !e.hasRecv || !e.recv.alive then none else
    let (e, o) := doRead e false
    some (e, "pd1=" ++ recvOutStr o, specRecv "pd1" o)
  else if h == "pdc" then
    if !e.hasRecv || !e.recv.alive then none else
    let (e, o) := doRead e false
    some (e, (if o == .pending then "pdc=cancelled" else "pdc=" ++ recvOutStr o), specRecv "pdc" o)
  else if h == "pd" then
    if !e.hasRecv || !e.recv.alive then none else
    let (e, o) := doRead e true
    some (e, (if o == .pending then "pd=timeout" else "pd=" ++ recvOutStr o), specRecv "pd" o)
  else if h == "rdall" then
    if !e.hasRecv || !e.recv.alive then none else some (readAll 4 e)
  else if h == "stop" then
    if !e.hasRecv || !e.recv.alive then none else
    match num 1 with
    | none => none
    | some c =>
      let (r', o) := e.recv.step (.stopSending c)
      let e := { e with recv := r' }
      some ({ e with allRead := e.allRead || !r'.stops.isEmpty }, (if o == .panic then "stop=panic" else "stop"), "*")
  else if h == "dropr" then
    if !e.hasRecv then none else
    let (r', _) := e.recv.step .drop
    some ({ e with recv := r' }, "dropr", "*")
  else if h == "aclose" then
    match num 1 with
    | none => none
    | some c =>
      match closeArg c with
      | none => some (e, "aclose=panic", "*")
      | some c =>
        if e.connKnown.isSome then some (e, "aclose", "*")
        else some ({ e with connKnown := some .locallyClosed, aClosed := some c }, "aclose", "*")
  else if h == "pbg" then some ({ e with peerReading := true }, "pbg", "*")
  else if h == "pjoin" then
    if !e.peerReading && e.peerStop.isNone then some (e, "peer=none", "*")
    else if e.peerStop.isSome then some (e, "peer=stopped", "*")
    else match e.resetLocal with
    | some c => some (e, s!"peer=reset:{c}", "*")
    | none =>
      if e.finished then
        some (e, s!"peer={showHash e.accepted}:fin",
          if e.specClean && !e.specBusy then s!"peer={showHash e.specWire}:fin" else "*")
      else some (e, "peer=timeout", "*")
  else if h == "pstop" then
    match num 1 with
    | none => none
    | some c => some ({ e with peerStop := e.peerStop.orElse fun _ => some c, peerReading := false }, "pstop", "*")
  else if h == "pw" then
    match num 1, num 2 with
    | some n, some seed => some ({ e with peerWritten := e.peerWritten ++ payload n seed }, "pw", "*")
    | _, _ => none
  else if h == "pfin" then some ({ e with peerFin := true }, "pfin", "*")
  else if h == "prst" || h == "prstnow" then
    match num 1 with
    | none => none
    | some c => some ({ e with peerReset := e.peerReset.orElse fun _ => some c }, h, "*")
  else if h == "pstopped" then
    match e.recv.stops.head? with
    | some c => some (e, s!"pstopped={c}", "*")
    | none =>
      if !e.recv.alive then some (e, (if e.allRead then "pstopped=none" else "pstopped=0"), "*")
      else some (e, "pstopped=timeout", "*")
  else if h == "pclose" then
    match num 1 with
    | none => none
    | some c =>
      if e.connKnown.isSome then some (e, "pclose", "*")
      else some ({ e with connComing := some (.applicationClosed c), peerReading := false }, "pclose", "*")
  else if h == "pclosed" then
    match e.aClosed with
    | some c => some (e, s!"pclosed=app:{c}", "*")
    | none =>
      match e.connKnown.orElse fun _ => e.connComing with
      | some (.applicationClosed _) => some (e, "pclosed=locally-closed", "*")
      | some .timedOut => some (e, "pclosed=timed-out", "*")
      | _ => if e.idle then some (e, "pclosed=timed-out", "*") else some (e, "pclosed=timeout", "*")
  else if h == "settle" then
    let e := match e.connComing with
      | some x => { e with connKnown := some x, connComing := none }
      | none => e
    some ({ e with peerStopKnown := e.peerStop.isSome }, "settle", "*")
  else none

def runOps : Env → List String → Option (List String × List String)
  | _, [] => some ([], [])
  | e, op :: ops =>
    match step e op with
    | none => none
    | some (e', m, s) =>
      match runOps e' ops with
      | none => none
      | some (ms, ss) => some (m :: ms, s :: ss)

def handle : List String → String
  | "quinn" :: cfg :: ops =>
    match parseCfg cfg with
    | none => "bad-op"
    | some c =>
      let id := streamId c
      let e : Env := {
        id := id
        hasSend := c.bi || c.opn
        hasRecv := c.bi || !c.opn
        sw := if c.sw = 0 then defaultStreamWindow else c.sw
        cw := if c.cw = 0 then unlimited else c.cw
        idle := c.idle > 0
        recv := Recv.new id }
      match runOps e ops with
      | none => "bad-op"
      | some (ms, ss) => " ".intercalate ms ++ " ## " ++ " ".intercalate ss
  | _ => "bad-op"

end H3.Drv.C17
