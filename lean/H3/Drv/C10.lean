import H3.Drv.Util
import H3.Drv.C11
import H3.Model.Frame
import H3.Model.Qpack
import H3.Spec.Qpack
/-! Driver engine `lim` (C10; also the receive-site error mapping of C11): the field-section
    size limit at the six call sites, through the shared scenario interpreter.

    The handler interprets the scenario shapes `tools/props/c10.py` generates (anything else
    prints `unsupported`, which shows up as a correspondence break):

      lim <server|client> <cfg: mfs=N, bc=N, seed=N | -> op…
        conn.AL          server: the accept loop runs (first op of every server line)
        drv.W            client: the driver is polled from here on (`wait_idle`).  Without it the
                         bytes of the peer's control stream stay in the transport: the peer's
                         SETTINGS are *applied* (stored in the shared cell) only once the driver runs
        o<id>            peer opens its control stream (2 towards a server, 3 towards a client)
                         or, towards a server, request stream 0
        s<ctl>:<hex>     one chunk `00 04 <len> <settings payload>` on the control stream
        s0:<hex> / f0    bytes / FIN on request stream 0 (whole frames)
        gb<n>            the peer grants n bidirectional streams (cfg `bc=<n>`: initial credit;
                         `snd.R` without credit is pending inside `poll_open_bidi` until a grant)
        q0.res           server: resolve_request          snd.R:GET:<https://a/ hex>:<hdrs>  client
        q0.sr:<status>:<hdrs>  send_response              q0.rr   recv_response
        q0.st:<hdrs>     send_trailers                    q0.rt   recv_trailers
        q0.sp            split: `q0` keeps the receive half (`q0.rr`, `q0.rt`), the send half is
                         task `q0s` (`q0s.sr:…`, `q0s.st:…`)
        snd.R:… again    client: further requests on the SAME `SendRequest` handle (streams 4, 8, …;
                         a request refused for its size has opened its stream and written nothing)

    and prints what `Prop.project` keeps of the real run: the results of the `q0`/`snd` calls
    (`ok` without the message), the bytes written on stream 0 with its stop/reset codes, and
    the codes of `close`.  The same interpreter runs twice: with the decisions of the model
    (`H3.Qpack.{recvSite,sendSite,serverResolve}`) and with those of the specification (RFC 9114
    §4.2.2 size of the independently decoded section against the limit). -/
namespace H3.Drv.C10
open H3.Drv H3.Qpack

/-- what a receive site does, rendered -/
inductive RecvD where
  | fields
  | tooBig (actual : String) (max : Nat) (stop : Option Nat)
  | connError (code : Nat)
  /-- specification only: either of the two refusals is acceptable -/
  | unsure

/-- what a send site does -/
inductive SendD where
  | written (block : List Nat)
  | refused (actual : String) (max : Nat)
  | panic

structure Decisions where
  recv : RecvSite → Nat → List Nat → RecvD × Bool          -- Bool: D-15 tag
  send : Option Nat → List Field → SendD
  /-- `send_request`, which may have waited for stream credit: the peer's SETTINGS cell when the
      call was made and when the stream was opened (the request goes out right after that) -/
  sendReq : Option Nat → Option Nat → List Field → SendD
  /-- the limit the receive half of a request stream enforces after `split`, from the
      endpoint's configured maximum -/
  recvHalf : Nat → Nat

/-! ### the model's decisions -/

def modelRecv (site : RecvSite) (mfs : Nat) (block : List Nat) : RecvD × Bool :=
  let lax := laxSection block mfs
  match recvSite site mfs block with
  | .fields _ => (.fields, lax)
  | .tooBig a m s => (.tooBig (toString a) m s, lax)
  | .connError c => (.connError c, lax)

def SendD.ofOut : SendOut → SendD
  | .written b => .written b
  | .refused a m => .refused (toString a) m
  | .panic => .panic

def modelSend (applied : Option Nat) (fs : List Field) : SendD := .ofOut (sendSite applied fs)

def modelSendReq (atCall atOpen : Option Nat) (fs : List Field) : SendD :=
  .ofOut (sendRequestSite atCall atOpen fs)

def model : Decisions := ⟨modelRecv, modelSend, modelSendReq, fun mfs => (splitLimits mfs).2⟩

/-! ### the specification's decisions -/

def specRecv (site : RecvSite) (mfs : Nat) (block : List Nat) : RecvD × Bool :=
  let stop := match site with
    | .clientResponse => some 268      -- H3_REQUEST_CANCELLED (what the code does; the property
    | .clientTrailers => some 268      -- asks for a header-too-big outcome without connection error)
    | _ => none
  match Spec.Qpack.specDecode block with
  | .ok fs =>
    if H3.Drv.C11.bigSection block then (.unsure, false)
    else if Spec.Qpack.size fs ≤ mfs then (.fields, false) else (.tooBig "*" mfs stop, false)
  | .error _ =>
    if H3.Drv.C11.exceeds block mfs then (.unsure, false) else (.connError 512, false)

/-- sending: the RFC 9114 §4.2.2 size against the peer's limit (protocol default 2^62−1 while
    no SETTINGS have arrived); what is written has to be a block that the independent decoder
    reads back as the field list (the model's block, validated here). -/
def specSend (applied : Option Nat) (fs : List Field) : SendD :=
  let limit := applied.getD (2 ^ 62 - 1)
  let want := H3.Drv.C11.pairs fs
  if Spec.Qpack.size want > limit then .refused (toString (Spec.Qpack.size want)) limit
  else
    match encodeStateless? fs with
    | none => .panic
    | some (block, _) =>
      match Spec.Qpack.specDecode block with
      | .ok gs => if gs == want then .written block else .written [0xbad]
      | .error _ => .written [0xbad]

/-- "h3 never sends a request … larger than the limit the peer has advertised, or than the
    protocol default while the peer's SETTINGS have not yet arrived": what counts is the limit
    in force when the request is sent, i.e. when its stream has been opened — not what the cell
    held when the application made the call. -/
def specSendReq (_atCall atSend : Option Nat) (fs : List Field) : SendD := specSend atSend fs

/-- "accepted exactly when its size … does not exceed the receiver's configured maximum":
    splitting a request stream does not change the endpoint's configured maximum. -/
def spec : Decisions := ⟨specRecv, specSend, specSendReq, fun mfs => mfs⟩

/-! ### the interpreter -/

structure St where
  server : Bool
  mfs : Nat
  /-- bidirectional streams this endpoint may still open (`none` = unlimited) -/
  credit : Option Nat := none
  driving : Bool := false
  /-- peer's SETTINGS applied: its MAX_FIELD_SECTION_SIZE or the default when absent -/
  peer : Option Nat := none
  ctlOpen : Bool := false
  /-- a SETTINGS frame has been delivered on the control stream -/
  ctlSeen : Bool := false
  /-- … and its value waits in the transport for the driver to be polled -/
  ctlBuf : Option Nat := none
  /-- `snd.R` pending in `poll_open_bidi`: the field list and the peer's cell at the time of the call -/
  pendingReq : Option (List Field × Option Nat) := none
  /-- stream 0 exists / bytes received and not yet consumed / FIN seen -/
  s0 : Bool := false
  rx : List Nat := []
  fin : Bool := false
  tx : List Nat := []
  stop : Option Nat := none
  closed : List Nat := []
  /-- the `q0` task exists and is past the message head -/
  q0 : Bool := false
  /-- `q0.sp` done: `q0` is the receive half, `q0s` the send half -/
  split : Bool := false
  resolved : Bool := false
  trace : List String := []
  tag : Bool := false
  unsure : Bool := false
  bad : Bool := false
  /-- client: number of `send_request` calls so far (each opens the next bidirectional stream, also
      when the request is then refused) and what was written on the streams after stream 0 -/
  nreq : Nat := 0
  more : List (Nat × List Nat) := []

def St.log (s : St) (e : String) : St := { s with trace := s.trace ++ [e] }

def headersFrame (block : List Nat) : List Nat :=
  H3.Gen.Consts.FRAME_HEADERS :: (Varint.encode block.length ++ block)

/-- next complete HEADERS frame of stream 0 -/
def nextHeaders (s : St) : Option (List Nat × St) :=
  match H3.Frame.decode s.rx with
  | .frame (.headers payload) n => some (payload, { s with rx := s.rx.drop n })
  | _ => none

def parseHdrs (h : String) : Option (List Field) :=
  if h == "-" then some []
  else (h.splitOn ";").mapM fun kv =>
    match kv.splitOn "=" with
    | [k, v] => (parseHex v).map fun v => ⟨k.toList.map Char.toNat, v⟩
    | _ => none

def ascii (s : String) : List Nat := s.toList.map Char.toNat

def requestFields (hdrs : List Field) : List Field :=
  [⟨ascii ":method", ascii "GET"⟩, ⟨ascii ":scheme", ascii "https"⟩, ⟨ascii ":authority", ascii "a"⟩,
   ⟨ascii ":path", ascii "/"⟩] ++ hdrs

def connErr (s : St) (call : String) (code : Nat) : St :=
  { (s.log s!"{call}=err:conn:local:QPACK_DECOMPRESSION_FAILED") with closed := s.closed ++ [code], q0 := false }

/-- the limit the stream object behind task `q0` applies to what it receives -/
def St.recvLimit (d : Decisions) (s : St) : Nat := if s.split then d.recvHalf s.mfs else s.mfs

/-- a receive site's decision applied to the state -/
def applyRecv (d : Decisions) (site : RecvSite) (call okStr : String) (payload : List Nat) (s : St) : St :=
  let (r, tag) := d.recv site (s.recvLimit d) payload
  let s := { s with tag := s.tag || tag }
  match r with
  | .fields => s.log s!"{call}={okStr}"
  | .tooBig a m stop =>
    let s := s.log s!"{call}=err:toobig:{a}:{m}"
    { s with stop := if s.stop.isSome then s.stop else stop }
  | .connError c => connErr s call c
  | .unsure => { s with unsure := true }

def applySent (r : SendD) (call okStr : String) (s : St) : St × Bool :=
  match r with
  | .written b => ({ (s.log s!"{call}={okStr}") with tx := s.tx ++ headersFrame b }, true)
  | .refused a m => (s.log s!"{call}=err:toobig:{a}:{m}", false)
  | .panic => ({ s with bad := true }, false)

def applySend (d : Decisions) (call okStr : String) (fs : List Field) (s : St) : St × Bool :=
  applySent (d.send s.peer fs) call okStr s

/-- `send_request` once its stream can be opened: stream 0 exists from here on (also when the
    request is then refused), the limit is the decision's choice between the cell at the time of
    the call and the cell now -/
def openRequest (d : Decisions) (fs : List Field) (atCall : Option Nat) (s : St) : St :=
  let (s, ok) := applySent (d.sendReq atCall s.peer fs) "snd.R" "req:0" { s with s0 := true }
  { s with q0 := ok }

/-- a grant of stream credit lets a pending `send_request` go on -/
def resume (d : Decisions) (s : St) : St :=
  match s.pendingReq, s.credit with
  | some (fs, atCall), some (c + 1) => { (openRequest d fs atCall { s with pendingReq := none, credit := some c }) with nreq := 1 }
  | _, _ => s

/-- the driver, when it is polled, reads what the control stream holds -/
def settle (s : St) : St :=
  match s.driving, s.ctlBuf with
  | true, some v => { s with peer := some v, ctlBuf := none }
  | _, _ => s

def splitOp (op : String) : String × String :=
  match op.splitOn ":" with
  | [] => ("", "")
  | a :: r => (a, ":".intercalate r)

def step1 (d : Decisions) (s : St) (op : String) : St :=
  let unsupported : St := { s with bad := true }
  let ctl := if s.server then "2" else "3"
  if op == "conn.AL" then (if s.server then { s with driving := true } else unsupported)
  else if op == "drv.W" then (if s.server then unsupported else { s with driving := true })
  else if s.server && !s.driving then unsupported
  else if op == "o" ++ ctl then (if s.ctlOpen then unsupported else { s with ctlOpen := true })
  else if op == "o0" then (if s.server && !s.s0 then { s with s0 := true } else unsupported)
  else if op == "f0" then (if s.s0 then { s with fin := true } else unsupported)
  else if op == "q0.sp" then (if s.q0 && !s.split then { (s.log "q0.sp=ok") with split := true } else unsupported)
  else
    let (head, arg) := splitOp op
    if head == "s" ++ ctl then
      match parseHex arg with
      | some (0 :: rest) =>
        if !s.ctlOpen || s.ctlSeen then unsupported else
        match H3.Frame.decode rest with
        | .frame (.settings es) n =>
          if n ≠ rest.length then unsupported else
          let v := match es.find? (fun e => e.1 == H3.Gen.Consts.SETTING_MAX_HEADER_LIST_SIZE) with
            | some e => e.2
            | none => 2 ^ 62 - 1
          { s with ctlSeen := true, ctlBuf := some v }
        | _ => unsupported
      | _ => unsupported
    else if head.startsWith "gb" && arg == "" then
      match (head.drop 2).toNat? with
      | some n => resume d { s with credit := s.credit.map (· + n) }
      | none => unsupported
    else if head == "s0" then
      match parseHex arg with
      | some bs => if s.s0 && !bs.isEmpty then { s with rx := s.rx ++ bs } else unsupported
      | none => unsupported
    else if head == "q0.res" then
      if !s.server || s.q0 || !s.s0 then unsupported else
      match nextHeaders s with
      | none => unsupported
      | some (payload, s) =>
        let (r, tag) := d.recv .serverRequest s.mfs payload
        let s := { s with tag := s.tag || tag }
        match r with
        | .fields => { (s.log "q0.res=ok") with q0 := true, resolved := true }
        | .connError c => connErr s "q0.res" c
        | .unsure => { s with unsure := true }
        | .tooBig a m _ =>
          -- resolve: the 431 is attempted; a refused send is what the call returns
          match d.send s.peer response431 with
          | .written b => { (s.log s!"q0.res=err:toobig:{a}:{m}") with tx := s.tx ++ headersFrame b }
          | .refused a' m' => s.log s!"q0.res=err:toobig:{a'}:{m'}"
          | .panic => unsupported
    else if head == "q0.sr" || head == "q0s.sr" then
      -- sending goes through the whole stream before `split`, through the send half after it
      if !s.server || !s.q0 || s.split != (head == "q0s.sr") then unsupported else
      let (status, hdrs) := splitOp arg
      match parseHdrs hdrs with
      | none => unsupported
      | some hs => (applySend d head "ok" (⟨ascii ":status", ascii status⟩ :: hs) s).1
    else if head == "q0.st" || head == "q0s.st" then
      if !s.q0 || s.split != (head == "q0s.st") then unsupported else
      match parseHdrs arg with
      | none => unsupported
      | some hs => (applySend d head "ok" hs s).1
    else if head == "q0.rt" then
      if !s.q0 || !s.resolved || !s.fin || !s.driving then unsupported else
      match nextHeaders s with
      | none => unsupported
      | some (payload, s) =>
        if !s.rx.isEmpty then unsupported else
        applyRecv d (if s.server then .serverTrailers else .clientTrailers) "q0.rt" "trailers" payload s
    else if head == "snd.R" then
      if s.server || s.pendingReq.isSome then unsupported else
      match arg.splitOn ":" with
      | ["GET", "68747470733a2f2f612f", hdrs] =>
        match parseHdrs hdrs with
        | none => unsupported
        | some hs =>
          if !s.s0 then
            match s.credit with
            | some 0 => { s with pendingReq := some (requestFields hs, s.peer) }
            | c => { (openRequest d (requestFields hs) s.peer { s with credit := c.map (· - 1) }) with nreq := 1 }
          else if s.credit.isSome then unsupported else
            -- a further request on the same handle: its own stream, its own field section —
            -- nothing of an earlier request (accepted or refused) is part of it
            let sid := 4 * s.nreq
            match d.send s.peer (requestFields hs) with
            | .written b =>
              { (s.log s!"snd.R=req:{sid}") with more := s.more ++ [(sid, headersFrame b)], nreq := s.nreq + 1 }
            | .refused a m =>
              { (s.log s!"snd.R=err:toobig:{a}:{m}") with more := s.more ++ [(sid, [])], nreq := s.nreq + 1 }
            | .panic => unsupported
      | _ => unsupported
    else if head == "q0.rr" then
      if s.server || !s.q0 || s.resolved || !s.driving then unsupported else
      match nextHeaders s with
      | none => unsupported
      | some (payload, s) =>
        applyRecv d .clientResponse "q0.rr" "ok" payload { s with resolved := true }
    else unsupported

def step (d : Decisions) (s : St) (op : String) : St := settle (step1 d s op)

def render (s : St) : String :=
  let t := if s.trace.isEmpty then "-" else " ".intercalate s.trace
  let st := if s.s0 then
      s!"0:tx={toHex s.tx}" ++ (match s.stop with | some c => s!",stop={c}" | none => "") ++ " "
    else ""
  let cl := ",".intercalate (s.closed.map toString)
  let more := String.join (s.more.map (fun p => s!"{p.1}:tx={toHex p.2} "))
  s!"{t} | {st}{more}closed=[{cl}]"

def run (d : Decisions) (server : Bool) (mfs : Nat) (credit : Option Nat) (ops : List String) : String :=
  let s := ops.foldl (step d) { server := server, mfs := mfs, credit := credit }
  if s.bad then "unsupported"
  else if s.unsure then "?"
  else render s ++ (if s.tag then " #D-15" else "")

/-- cfg: `-`, `mfs=<n>`, `bc=<n>` (initial bidirectional stream credit; unlimited when absent),
    `seed=<n>` (task-order seed: no influence on the model) -/
def parseCfg (c : String) : Option (Nat × Option Nat) :=
  (c.splitOn ",").foldl (fun acc t =>
    match acc with
    | none => none
    | some (mfs, bc) =>
      if t == "-" || t == "" then some (mfs, bc)
      else match t.splitOn "=" with
        | ["mfs", n] => n.toNat?.map fun m => (m, bc)
        | ["bc", n] => n.toNat?.map fun b => (mfs, some b)
        | ["seed", n] => n.toNat?.map fun _ => (mfs, bc)
        | _ => none) (some (2 ^ 62 - 1, none))

def handle : List String → String
  | "lim" :: role :: cfg :: ops =>
    match parseCfg cfg with
    | none => "bad-op"
    | some (mfs, bc) =>
      if role != "server" && role != "client" then "bad-op" else
      run model (role == "server") mfs bc ops ++ " ## " ++ run spec (role == "server") mfs bc ops
  | _ => "bad-op"

end H3.Drv.C10
