import H3.Drv.Util
import H3.Model.DynSys
import H3.Spec.Dyn
/-! Driver engine `dyn` (C20): a case line is a whole history
    `dyn <capacity> <blocked-limit> <op>…`; output `<model trace> ## <oracle's expectation>`.
    Per op three tokens: status (with `!cap`/`!cnt`/`!evi` monitor marks), detail, state marks
    (`~20c`: the section to be decoded was encoded under another capacity than the decoder's; `~20d`:
    the encoder has evicted an entry the decoder has not received; the harness evaluates the same
    predicates on the real state, the projection renders them the same way; `~blk<n>`: `n` streams could become
    blocked (unacknowledged section with Required Insert Count above the encoder's known received count) and `n`
    exceeds the blocked-stream limit — observation O-20e, RFC 9204 2.1.2, not part of C20's text: the oracle has no
    opinion on state marks).

    `denc:<k>@<j>.<m>,…` is `denc:<k>` with the bytes in a `Buf` of several chunks: one cut per `<j>.<m>`, `j` =
    0-based index of an instruction of THIS delivery, `m = 0` the boundary in front of it, `m ≥ 1` inside it (the
    harness picks byte offset `1 + (m-1) mod (len-1)`; an instruction of one byte cannot be cut).  Model:
    `H3.Dyn.stepCut` — a whole delivery of the instructions in front of the first one with a cut inside it; when
    that is not all of them the status is `X:stall#D-20f`, detail `left=i<handed over, not processed>`, and the
    oracle (which wants `X:ok`) counts only the processed ones as received: the rest is handed over again.

    **Site tags of the recorded defects go on the status token of the op whose RESULT the defect
    makes wrong, and nowhere else** (a known finding waives a specification mismatch only at an op
    that carries its tag — `tools/props/c20.py` `finding_applies`):
    * `#D-20c` on `deliverBlock sid` when the oldest undecoded section of `sid` was encoded with a
      `max_size` other than the decoder's present one (the Required Insert Count is reconstructed
      with the wrong modulus);
    * `#D-20d` on `deliverBlock sid` when the encoder has evicted an entry the decoder has not
      received AND the section's Required Insert Count lies beyond the window the reconstruction
      covers (`required > inserted + max_size / 32`, `C20_prefix_roundtrip`) — without the
      eviction of unacknowledged insertions no section can be that far ahead;
    * consequences: once a tagged `deliverBlock` has left the stream's queue of the model and of
      the oracle out of step (one of them took the section, the other did not), every later
      `deliverBlock` of THAT stream carries the same tag;
    * `#D-20f` on a cut `deliverEnc` that leaves an instruction it was handed completely unprocessed. -/
namespace H3.Drv.C20
open H3.Drv H3.Dyn
open H3.Spec.Dyn (STable)

/-! ### parsing -/

def parseField (s : String) : Option Field :=
  match s.splitOn "=" with
  | [n, v] => do
    let n ← parseHex n
    let v ← parseHex v
    pure ⟨n, v⟩
  | _ => none

def parseFields (s : String) : Option (List Field) :=
  if s == "" || s == "-" then some [] else (s.splitOn ",").mapM parseField

def parseCut (s : String) : Option (Nat × Nat) :=
  match s.splitOn "." with
  | [j, m] => do
    let j ← j.toNat?
    let m ← m.toNat?
    pure (j, m)
  | _ => none

/-- `denc:<k>@<cuts>` -/
def parseDencCut (s : String) : Option (Event × Option (List (Nat × Nat))) :=
  match s.splitOn ":" with
  | ["denc", kc] =>
    match kc.splitOn "@" with
    | [k, cs] => do
      let k ← k.toNat?
      let cuts ← ((cs.splitOn ",").filter (· != "")).mapM parseCut
      pure (.deliverEnc k, some cuts)
    | _ => none
  | _ => none

def parseOp (s : String) : Option Event :=
  match s.splitOn ":" with
  | ["enc", sid, fs] => do
    let sid ← sid.toNat?
    let fs ← parseFields fs
    pure (.encode sid fs)
  | ["denc", k] => k.toNat?.map .deliverEnc
  | ["dblk", sid] => sid.toNat?.map .deliverBlock
  | ["dack", k] => k.toNat?.map .deliverAck
  | ["cap", c] => c.toNat?.map .setCapacity
  | ["cancel", sid] => sid.toNat?.map .cancel
  | _ => none

/-! ### printing -/

def joinS (l : List String) (sep : String) : String :=
  if l.isEmpty then "-" else sep.intercalate l

def showField (f : Field) : String := s!"{toHex f.name}={toHex f.value}"
def showFields (fs : List Field) : String := joinS (fs.map showField) ","

def showInstr : EncInstr → String
  | .sizeUpdate n => s!"S({n})"
  | .insertStatic i v => s!"IS({i},{toHex v})"
  | .insertDyn r v => s!"ID({r},{toHex v})"
  | .insertLit n v => s!"IL({toHex n},{toHex v})"
  | .dup r => s!"DU({r})"

def showRep : Rep → String
  | .indexedStatic i => s!"s{i}"
  | .indexedDyn r => s!"d{r}"
  | .indexedPost i => s!"p{i}"
  | .litStatic i v => s!"ls{i}:{toHex v}"
  | .litDyn r v => s!"ld{r}:{toHex v}"
  | .litPost i v => s!"lp{i}:{toHex v}"
  | .lit n v => s!"ll{toHex n}:{toHex v}"

def bytesLe : List Nat → List Nat → Bool
  | [], _ => true
  | _ :: _, [] => false
  | a :: r, b :: s => if a < b then true else if a > b then false else bytesLe r s

def sortNat (m : List (Nat × α)) : List (Nat × α) := m.mergeSort (fun a b => a.1 ≤ b.1)

def showPairs (m : RefMap) : String := joinS ((sortNat m).map fun (a, c) => s!"{a}:{c}") ","

def fieldLe (a b : Field) : Bool :=
  if a.name = b.name then bytesLe a.value b.value else bytesLe a.name b.name

def showTable (t : Table) : String :=
  let fm := (t.fieldMap.mergeSort fun a b => fieldLe a.1 b.1).map fun (f, i) => s!"{showField f}:{i}"
  let nm := (t.nameMap.mergeSort fun a b => bytesLe a.1 b.1).map fun (n, i) => s!"{toHex n}:{i}"
  let tb := (sortNat t.trackBlocks).map fun (sid, q) =>
    s!"{sid}:{joinS (q.map fun m => s!"[{showPairs m}]") ""}"
  s!"f={showFields t.fields};cs={t.currSize};ms={t.maxSize};vas={t.vas.inserted}/{t.vas.dropped}/{t.vas.delta};" ++
  s!"tm={showPairs t.trackMap};tb={joinS tb ","};lkr={t.lkr};bm={t.blockedMax};bc={t.blockedCount};" ++
  s!"bs={showPairs t.blockedStreams};fm={joinS fm ","};nm={joinS nm ","}"

def errName : Err → String
  | .badRelativeIndex => "BadRelativeIndex"
  | .badPostbaseIndex => "BadPostbaseIndex"
  | .badIndex => "BadIndex"
  | .maxTableSizeReached => "MaxTableSizeReached"
  | .maximumTableSizeTooLarge => "MaximumTableSizeTooLarge"
  | .maxBlockedStreamsTooLarge => "MaxBlockedStreamsTooLarge"
  | .unknownStreamId => "UnknownStreamId"
  | .invalidTrackingCount => "InvalidTrackingCount"
  | .invalidStaticIndex => "InvalidStaticIndex"
  | .missingRefs _ => "MissingRefs"
  | .badBaseIndex => "BadBaseIndex"
  | .prefixOverflow => "InvalidInteger(Overflow)"

/-- how the calling layer wraps the table's error (`DecoderError::DynamicTable`, `EncoderError::Insertion`) -/
def wrapErr (layer : String) (e : Err) : String :=
  match e with
  | .invalidStaticIndex | .badBaseIndex | .prefixOverflow | .missingRefs _ => errName e
  | _ => s!"{layer}({errName e})"

/-! ### monitors (the property's state invariants, evaluated on the model state; the Rust
    harness evaluates the same on the real state) -/

def tableAccountingOk (t : Table) : Bool :=
  t.currSize == H3.Spec.Dyn.size t.fields && t.currSize ≤ t.maxSize && t.vas.dropped ≤ t.vas.inserted &&
  t.vas.inserted - t.vas.dropped == t.fields.length && t.vas.delta == t.fields.length

def sumRefs (t : Table) : RefMap :=
  (t.trackBlocks.flatMap fun (_, q) => q.flatten).foldl (fun acc (a, c) => aset acc a (cnt acc a + c)) []

def sameMap (a b : RefMap) : Bool :=
  a.all (fun (k, v) => cnt b k == v) && b.all (fun (k, v) => cnt a k == v)

def monitor (s : Sys) : String :=
  (if tableAccountingOk s.enc && tableAccountingOk s.dec then "" else "!cap") ++
  (if sameMap (sumRefs s.enc) s.enc.trackMap then "" else "!cnt") ++
  (if s.streams.any fun (_, st) => ((st.done ++ st.todo).drop st.npop).any fun b => b.refs.any (· ≤ s.enc.vas.dropped)
   then "!evi" else "")

/-- state marks `~20d`, `~blk<n>` -/
def tags (s : Sys) : String :=
  (if s.enc.vas.dropped > s.dec.vas.inserted then "~20d" else "") ++
  (if atRisk s > s.enc.blockedMax then s!"~blk{atRisk s}" else "")

/-- state mark `~20c` for `deliverBlock sid` in state `s` -/
def mark20c (s : Sys) (sid : Nat) : String :=
  if (s.stream sid).cancelled then "" else
  if (s.stream sid).todo.head?.any (fun b => b.encMax ≠ s.dec.maxSize) then "~20c" else ""

/-- site tags for `deliverBlock sid` in state `s` (see the head of the file) -/
def siteTags (s : Sys) (sid : Nat) : String :=
  if (s.stream sid).cancelled then "" else
  match (s.stream sid).todo.head? with
  | none => ""
  | some b =>
    (if b.encMax ≠ s.dec.maxSize then "#D-20c" else "") ++
    (if s.enc.vas.dropped > s.dec.vas.inserted && b.required > s.dec.vas.inserted + s.dec.maxSize / 32 then "#D-20d" else "")

def dash (s : String) : String := if s == "" then "-" else s

/-! ### oracle state: the RFC-level tables replayed from the instructions the model emitted -/

structure SBlock where
  orig : List Field
  ric : Nat

structure Oracle where
  specE : Option STable         -- after every instruction emitted so far
  specD : Option STable         -- after the instructions delivered so far
  emitted : List EncInstr := []
  delivered : Nat := 0
  todo : List (Nat × List SBlock) := []
  cancelled : List Nat := []
  /-- streams on which a tagged `deliverBlock` left the model's and the oracle's queue out of step, with the tags -/
  desync : List (Nat × String) := []

def Oracle.replayD (o : Oracle) (cap : Nat) : Option STable :=
  ({ cap := cap } : STable).run (o.emitted.take o.delivered)

/-- checks on an encoded section: instructions applicable in order; representations denote the
    original fields in the encoder's table; returned Required Insert Count is the RFC's -/
def checkEncoded (o : Oracle) (fields : List Field) (e : Encoded) : Option STable × String :=
  match o.specE.bind (·.run e.instrs) with
  | none => (none, "!spec(instruction-not-applicable)")
  | some st =>
    let ric := H3.Spec.Dyn.requiredInsertCount e.base e.block.reps
    if H3.Spec.Dyn.denote st e.base e.block.reps ≠ some fields then (some st, "!spec(denotation)")
    else if ric ≠ e.required then (some st, "!spec(required-insert-count)")
    else (some st, "*")

/-! ### the run -/

structure Acc where
  model : List String := []
  spec : List String := []

def runOps (cap : Nat) : Sys → Oracle → List (Event × Option (List (Nat × Nat))) → Acc → Acc
  | s, _, [], acc =>
    { model := acc.model ++ [s!"end {showTable s.enc} {showTable s.dec}"], spec := acc.spec ++ ["end * *"] }
  | s, o, (ev0, cuts) :: rest, acc =>
    -- a cut delivery is a whole delivery of the instructions in front of the first one with a cut inside (`stepCut`)
    let handed : Nat := match ev0 with | .deliverEnc k => (s.handed k).length | _ => 0
    let ev : Event := match ev0, cuts with
      | .deliverEnc k, some cs => .deliverEnc (cutLen (s.handed k) cs)
      | e, _ => e
    -- the oracle's expectation for this op (status token), before looking at the model's answer
    let expectB : Nat → String × String := fun sid =>
      if o.cancelled.contains sid then ("B:skip", "-") else
      match (aget o.todo sid).getD [] with
      | [] => ("B:skip", "-")
      | b :: _ =>
        match o.specD with
        | none => ("!spec(decoder-table)", "*")
        | some st => if b.ric ≤ st.all.length then ("B:ok", showFields b.orig) else ("B:blocked", "*")
    let stop := fun (what : String) (sp : String) =>
      { model := acc.model ++ [what, "halt"], spec := acc.spec ++ [sp, "**"] : Acc }
    match ev, step s ev with
    | .encode _ _, .err e => stop s!"E:err {wrapErr "Insertion" e}" "E:ok"
    | .encode _ _, .panic _ => stop "E:panic" "E:ok"
    | .deliverEnc _, .err e => stop s!"X:err {wrapErr "DynamicTable" e}" "X:ok"
    | .deliverEnc _, .panic _ => stop "X:panic" "X:ok"
    | .deliverBlock sid, .err e =>
      let tg := siteTags s sid ++ ((aget o.desync sid).getD "")
      stop s!"B:err{tg} {wrapErr "DynamicTable" e}" (expectB sid).1
    | .deliverBlock sid, .panic _ =>
      let tg := siteTags s sid ++ ((aget o.desync sid).getD "")
      stop s!"B:panic{tg}" (expectB sid).1
    | .deliverAck _, .err e => stop s!"A:err {wrapErr "Insertion" e}" "A:ok"
    | .deliverAck _, .panic _ => stop "A:panic" "A:ok"
    | .setCapacity _, .err e =>
      -- a refused capacity change leaves everything as it was; the history goes on
      runOps cap s o rest
        { model := acc.model ++ [s!"C:err{monitor s}", wrapErr "Insertion" e, dash (tags s)],
          spec := acc.spec ++ ["C:err", "*", "*"] }
    | .setCapacity _, .panic _ => stop "C:panic" "C:ok"
    | .cancel _, .err _ => stop "K:err" "K:ok"
    | .cancel _, .panic _ => stop "K:panic" "K:ok"
    | _, .ok (s1, out) =>
      let m := monitor s1
      let tg := tags s1
      match ev, out with
      | .encode sid fields, .encoded e =>
        let (st, verdict) := checkEncoded o fields e
        let q := (aget o.todo sid).getD []
        let o1 := { o with specE := st, emitted := o.emitted ++ e.instrs,
                           todo := aset o.todo sid (q ++ [⟨fields, H3.Spec.Dyn.requiredInsertCount e.base e.block.reps⟩]) }
        let d := s!"r={e.required};i={joinS (e.instrs.map showInstr) "/"};" ++
                 s!"p={e.block.pfx.eic}.{b01 e.block.pfx.sign}.{e.block.pfx.delta};b={joinS (e.block.reps.map showRep) "/"}"
        runOps cap s1 o1 rest { model := acc.model ++ [s!"E:ok{m}", d, dash tg], spec := acc.spec ++ ["E:ok", verdict, "*"] }
      | .deliverEnc _, .encRecv n total inc =>
        let o1 := { o with delivered := o.delivered + n }
        let o2 := { o1 with specD := o1.replayD cap }
        let incS := match inc with | some k => toString k | none => "-"
        let (status, left) := if n < handed then (s!"X:stall{m}#D-20f", s!"i{handed - n}") else (s!"X:ok{m}", "0")
        runOps cap s1 o2 rest
          { model := acc.model ++ [status, s!"n={n};t={total};inc={incS};left={left}", dash tg],
            spec := acc.spec ++ ["X:ok", "*", "*"] }
      | .deliverBlock sid, out =>
        let (es, ed) := expectB sid
        let site := siteTags s sid
        let cons := (aget o.desync sid).getD ""
        let (mk, md) := match out with
          | .blockOk fs => ("B:ok", showFields fs)
          | .blocked r => ("B:blocked", s!"r={r}")
          | _ => ("B:skip", "-")
        -- the oracle advances its own queue when it expects a successful decode
        let o1 := if es == "B:ok" then { o with todo := aset o.todo sid ((aget o.todo sid).getD []).tail } else o
        -- one of the two took the section and the other did not, at an op the recorded defects make wrong:
        -- from now on the two queues of this stream are out of step
        let o2 := if site != "" && cons == "" && ((mk == "B:ok") != (es == "B:ok")) then
            { o1 with desync := aset o1.desync sid site } else o1
        runOps cap s1 o2 rest
          { model := acc.model ++ [s!"{mk}{m}{site}{cons}", md, dash (mark20c s sid ++ tg)], spec := acc.spec ++ [es, ed, "*"] }
      | .deliverAck _, .ackRecv n =>
        runOps cap s1 o rest
          { model := acc.model ++ [s!"A:ok{m}", s!"n={n};left=0", dash tg], spec := acc.spec ++ ["A:ok", "*", "*"] }
      | .setCapacity _, .capSet ins =>
        let o1 := { o with specE := o.specE.bind (·.run ins), emitted := o.emitted ++ ins }
        runOps cap s1 o1 rest
          { model := acc.model ++ [s!"C:ok{m}", joinS (ins.map showInstr) "/", dash tg],
            spec := acc.spec ++ ["C:ok", "*", "*"] }
      | .cancel sid, _ =>
        runOps cap s1 { o with cancelled := sid :: o.cancelled } rest
          { model := acc.model ++ [s!"K:ok{m}", "-", dash tg], spec := acc.spec ++ ["K:ok", "-", "*"] }
      | _, _ => stop "internal" "?"

def handle : List String → String
  | "dyn" :: cap :: bl :: ops =>
    match cap.toNat?, bl.toNat?, ops.mapM (fun o => (parseDencCut o).orElse fun _ => (parseOp o).map (·, none)) with
    | some cap, some bl, some evs =>
      match Sys.init cap bl with
      | .ok s =>
        let st : STable := { cap := cap }
        let acc := runOps cap s { specE := some st, specD := some st } evs {}
        " ".intercalate acc.model ++ " ## " ++ " ".intercalate acc.spec
      | _ => "refused ## refused"
    | _, _, _ => "bad-op"
  | _ => "bad-op"

end H3.Drv.C20
