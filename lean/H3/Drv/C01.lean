import H3.Drv.Util
import H3.Model.E2E
/-! Driver engine `e2e` (C01).

    SPEC half: the specification of end-to-end fidelity, computed from the scenario line alone:
    what the client (resp. server) application submitted on request stream `q<sid>` is what the
    peer application must be handed — same method, target, protocol, header values in the same
    per-name order, body = concatenation of the pieces sent, trailers — and then exactly one clean
    end (a target without scheme and authority is seen completed by `https` and the `Host` value,
    `specTarget`; every `send_response` before the last one is an interim response and must be
    answered by a `recv_response` call of its own, in order), AND NOTHING ELSE: no call of either endpoint is left pending, neither endpoint has closed
    the connection, reset a request stream or asked the peer to stop sending on one, and no call
    has answered anything the line does not account for (`extra=-`: a `recv_data` answer other than
    data outside the reader loop, an error of a sending call, an error of a driver).  Transport
    behaviour (relay ops, credit grants, task order, grease) does not appear in the result.

    MODEL half: the composed model of `H3.E2E`: the scenario's message is turned into a `Message`
    (method, URI parts, header list, body pieces as the `sd` ops give them, trailers), `wire m` is
    computed with the send models, cut into chunks, and `deliver` — the `FrameStream` model under
    the request-receive model under QPACK decoding and `Header::try_from` — is run over it.  By
    `C01_recv_of_wire` the chunking chosen here is irrelevant; by
    `C01_interleaving_irrelevant_partial` so are the relay ops, credit grants and task order of the
    line.  The `http` parameter is instantiated by the identity instance `echo` (every value parses
    to itself, a built URI has its parts): that the real crate behaves like this on the scenario's
    values is exactly the round-trip assumption of the theorems, so a difference shows up as a
    correspondence break.  The summary tokens of the model half are computed from what `deliver`
    reports — a call that stays `Pending`, the error cell (`closed`), `env.rst` / `env.stop` of the
    receiving endpoint —, not printed as constants.  With `g1` the first request stream of the
    connection carries the grease frame after its message (`streamBytes m (some _)`). -/
namespace H3.Drv.C01
open H3.Drv

/-- The target as the receiving application sees it (`http::Uri`): an absolute-form target whose path is
    empty (`https://a.b`, `https://a.b?q`) has path `/` (RFC 9110 4.2.3: an empty path is equivalent to `/`;
    RFC 9114 4.3.1: `:path` must not be empty for http(s) URIs). Both halves print this form. -/
def canonTarget (u : List Nat) : List Nat :=
  let rec find : List Nat → Nat → Option Nat
    | [], _ => none
    | b :: r, i => if (b :: r).take 3 == [58, 47, 47] then some i else find r (i + 1)
  match find u 0 with
  | some i =>
    let rest := u.drop (i + 3)
    let auth := rest.takeWhile (fun b => b != 47 && b != 63)
    let pq := rest.drop auth.length
    if pq.isEmpty || pq.head? == some 63 then u.take (i + 3) ++ auth ++ [47] ++ pq else u
  | none => u

def canonTargetHex (h : String) : String :=
  match H3.Drv.parseHex h with
  | some u => H3.Drv.toHex (canonTarget u)
  | none => h

structure Msg where
  head : String := ""          -- request: `METHOD:<uri hex>:<proto>`; response: `<status>`
  /-- requests: the head the SPEC half demands (`METHOD:<specTarget>:<proto>`) -/
  specHead : String := ""
  headers : List (String × String) := []
  body : String := ""          -- hex, concatenated
  trailers : Option (List (String × String)) := none
  sentHead : Bool := false
  /-- the `sd` arguments one by one (hex, `-` = an empty buffer) -/
  pieces : List String := []
  /-- responses only: the heads (status, headers) of the `send_response` calls made before the last one
      (interim responses, 1xx), in call order -/
  interims : List (String × List (String × String)) := []

def parseHdrs (s : String) : List (String × String) :=
  if s == "-" || s == "" then [] else
  (s.splitOn ";").filterMap (fun kv =>
    match kv.splitOn "=" with
    | [k, v] => some (k, v)
    | _ => none)

/-- stable insertion by name: header-map iteration is printed sorted by name with the per-name
    order kept -/
def insertSorted (p : String × String) : List (String × String) → List (String × String)
  | [] => [p]
  | q :: r => if p.1 < q.1 then p :: q :: r else q :: insertSorted p r

/-- stable sort by name (`insertSorted` one by one, done by merging: sections may have tens of
    thousands of fields) -/
def sortHdrs (hs : List (String × String)) : List (String × String) :=
  hs.mergeSort (fun a b => !(b.1 < a.1))

/-- a `*` inside a field name is printed `\x2a` (the projection of the implementation's answer does the
    same): in a specification token `*` would be a wildcard, and the specification demands the name itself -/
def escName (n : String) : String := n.replace "*" "\\x2a"

def renderHdrs (hs : List (String × String)) : String :=
  if hs.isEmpty then "-" else ";".intercalate ((sortHdrs hs).map (fun p => escName p.1 ++ "=" ++ p.2))

def hexCat (a b : String) : String :=
  if b == "-" then a else a ++ b

def renderBody (m : Msg) : String :=
  let b := if m.body == "" then "-" else m.body
  match m.trailers with
  | some t => s!"body:{b}:trailers:{renderHdrs t}"
  | none => s!"body:{b}:none"

/-- requests by stream id (client tasks `c.q<sid>`), responses by stream id (`s.q<sid>`) -/
structure St where
  reqs : List (Nat × Msg) := []
  resps : List (Nat × Msg) := []
  nextSid : Nat := 0

def upd (l : List (Nat × Msg)) (sid : Nat) (f : Msg → Msg) : List (Nat × Msg) :=
  if l.any (·.1 == sid) then l.map (fun p => if p.1 == sid then (p.1, f p.2) else p)
  else l ++ [(sid, f {})]

/-- only messages that exist are updated -/
def updExisting (l : List (Nat × Msg)) (sid : Nat) (f : Msg → Msg) : List (Nat × Msg) :=
  l.map (fun p => if p.1 == sid then (p.1, f p.2) else p)

/-- `q<sid>` or `q<sid>s` (the send half after a split) -/
def taskSid (t : String) : Option Nat :=
  let cs := t.toList.drop 1
  let ds := if cs.getLast? == some 's' then cs.dropLast else cs
  (String.ofList ds).toNat?

/-- `<side>.<task>.<cmd>`: only the first two dots separate (a field name may contain `.`) -/
def splitOp (op : String) : List String :=
  match op.splitOn "." with
  | a :: b :: c :: rest => [a, b, ".".intercalate (c :: rest)]
  | l => l

/-- SPEC: the target the receiving application must see.  An absolute-form target as submitted (empty path =
    `/`), an authority-form target as submitted; a target without scheme and authority (origin form, `/x?y=1`)
    names its authority in the `Host` field (RFC 9110 7.2) and is sent with `:scheme: https` (what h3's sender
    puts there when the URI has none), so the receiver sees `https://<Host value><path>` — the theorem's
    `expectedHead` (`effAuthority`). -/
def specTarget (h : String) (hdrs : List (String × String)) : String :=
  match H3.Drv.parseHex h with
  | some u =>
    if u.head? == some 47 then
      match hdrs.find? (fun p => p.1 == "host") with
      | some (_, hv) => if hv == "-" then h else H3.Drv.toHex [104, 116, 116, 112, 115, 58, 47, 47] ++ hv ++ h
      | none => h
    else H3.Drv.toHex (canonTarget u)
  | none => h

/-- a further `send_response` on a stream: the head sent before becomes an interim response -/
def keepInterim (m : Msg) : List (String × List (String × String)) :=
  if m.sentHead then m.interims ++ [(m.head, m.headers)] else m.interims

def stepOp (st : St) (op : String) : St :=
  match splitOp op with
  | ["c", "snd", cmd] =>
    match cmd.splitOn ":" with
    | ["R", method, uri, hdrs] =>
      let (m, proto) := match method.splitOn "+" with
        | [m, p] => (m, p)
        | _ => (method, "-")
      let sid := st.nextSid
      { st with reqs := upd st.reqs sid (fun _ => { head := s!"{m}:{canonTargetHex uri}:{proto}", specHead := s!"{m}:{specTarget uri (parseHdrs hdrs)}:{proto}", headers := parseHdrs hdrs, sentHead := true }),
                nextSid := sid + 4 }
    | _ => st
  | [side, task, cmd] =>
    match taskSid task with
    | none => st
    | some sid =>
      let parts := cmd.splitOn ":"
      let f : Msg → Msg := match parts with
        | ["sd", h] => fun m => { m with body := hexCat m.body h, pieces := m.pieces ++ [h] }
        | ["st", t] => fun m => { m with trailers := some (parseHdrs t) }
        | ["sr", status] => fun m => { m with head := status, sentHead := true, interims := keepInterim m }
        | ["sr", status, h] => fun m =>
          { m with head := status, headers := parseHdrs h, sentHead := true, interims := keepInterim m }
        | _ => id
      if side == "c" then { st with reqs := updExisting st.reqs sid f }
      else if side == "s" then
        (if st.reqs.any (·.1 == sid) then { st with resps := upd st.resps sid f } else st)
      else st
  | _ => st

/-- responses are printed by stream id (the servers' answers may come in any order) -/
def bySid (l : List (Nat × Msg)) : List (Nat × Msg) := l.mergeSort (fun a b => a.1 ≤ b.1)

/-- "followed by exactly one clean end-of-message indication" and nothing else: every call has
    completed, nobody closed the connection, reset a request stream or stopped one, and no call
    answered anything but what the lines above say -/
def nothingElse : String :=
  "c.pending=- c.closed=- c.rst=- c.stop=- s.pending=- s.closed=- s.rst=- s.stop=- extra=-"

def expected (ops : List String) : String :=
  let st := ops.foldl stepOp {}
  let reqLines := st.reqs.map (fun (sid, m) =>
    s!"s.q{sid}.res=ok:{m.specHead}:{renderHdrs m.headers} s.q{sid}.rm={renderBody m}")
  -- every `send_response` of the server is one answer of `recv_response`, in call order (interim responses
  -- first); the body and the trailers follow the last one
  let respLines := (bySid st.resps).filter (·.2.sentHead) |>.map (fun (sid, m) =>
    " ".intercalate (m.interims.map (fun i => s!"c.q{sid}.rr=ok:{i.1}:{renderHdrs i.2}") ++
      [s!"c.q{sid}.rr=ok:{m.head}:{renderHdrs m.headers} c.q{sid}.rm={renderBody m}"]))
  " ".intercalate (reqLines ++ respLines ++ [nothingElse])

/-! ### the model half -/

open H3.E2E H3.Headers

/-- the identity instance of the `http` parameter -/
def echo : Http where
  parseScheme v := some v
  parseAuthority v := if v.isEmpty then none else some v
  parsePath v := some v
  uriBuild s a p := if a.isEmpty then none else some { scheme := s, authority := some a, path := p }

def strBytes (s : String) : List Nat := s.toList.map Char.toNat
def bytesStr (b : List Nat) : String := String.ofList (b.map Char.ofNat)

/-- position of the first occurrence of `pat` -/
def findSub (pat : List Nat) : List Nat → Nat → Option Nat
  | [], _ => none
  | b :: r, i => if (b :: r).take pat.length == pat then some i else findSub pat r (i + 1)

/-- `http::Uri::from_str` → `uri::Parts`: `scheme://authority/path?query` (absolute form); a target
    that starts with `/` or is `*` is a path (origin / asterisk form); anything else is an authority
    alone (authority form, the target of a plain CONNECT: `host:port`) -/
def uriParts (u : List Nat) : UriParts :=
  match findSub [58, 47, 47] u 0 with
  | some i =>
    let rest := u.drop (i + 3)
    let auth := rest.takeWhile (fun b => b != 47 && b != 63)
    let pq := rest.drop auth.length
    { scheme := some (u.take i), authority := if auth.isEmpty then none else some auth,
      pathAndQuery := if pq.isEmpty then some [47] else some pq }
  | none =>
    if u.isEmpty then { scheme := none, authority := none, pathAndQuery := none }
    else if u.head? == some 47 || u == [42] then { scheme := none, authority := none, pathAndQuery := some u }
    else { scheme := none, authority := some u, pathAndQuery := none }

def fieldLines (hs : List (String × String)) : List FieldLine :=
  hs.map (fun p => (strBytes p.1, (parseHex p.2).getD []))

/-- `Message` of a request entry of the scenario (`head` = `METHOD:<uri hex>:<proto>`) -/
def requestOf (m : Msg) : Option Message :=
  match m.head.splitOn ":" with
  | [method, uri, proto] =>
    (parseHex uri).map fun u =>
      { head := .request (strBytes method) (uriParts u) (if proto == "-" then none else some (strBytes proto))
        headers := fieldLines m.headers
        pieces := m.pieces.map (fun p => (parseHex p).getD [])
        trailers := m.trailers.map fieldLines }
  | _ => none

def responseOf (m : Msg) : Option Message :=
  m.head.toNat?.map fun st =>
    { head := .response st, headers := fieldLines m.headers
      pieces := m.pieces.map (fun p => (parseHex p).getD []), trailers := m.trailers.map fieldLines }

/-- the transport of the model half: at most ~32 chunks, boundaries depending on the length -/
def chunkSize (n : Nat) : Nat := 1 + n / 32 + n % 7

def mapPairs (m : HeaderMap) : List (String × String) :=
  (hmIter m).map (fun f => (bytesStr f.1, toHex f.2))

def renderUri (u : Uri) : String :=
  let s := match u.scheme with
    | some s => s ++ [58, 47, 47]
    | none => []
  toHex (canonTarget (s ++ u.authority.getD [] ++ u.path.getD []))

/-- what one direction of one exchange contributes to the result line -/
structure Part where
  /-- `<pre>.q<sid>.<res|rr>=… <pre>.q<sid>.rm=…` -/
  toks : String
  /-- calls of the receiving endpoint that never completed -/
  pending : List String := []
  /-- the receiving endpoint closed the connection with these codes -/
  closed : List String := []
  /-- RESET_STREAM / STOP_SENDING the receiving endpoint sent on this request stream -/
  rst : List String := []
  stop : List String := []

def renderDelivered (pre task : String) (headCmd : String) (d : Delivered) : String :=
  let head := match d.head with
    | some (.request p) =>
      let proto := match p.protocol with
        | some x => bytesStr x
        | none => "-"
      s!"ok:{bytesStr p.method}:{renderUri p.uri}:{proto}:{renderHdrs (mapPairs p.headers)}"
    | some (.response st hm) => s!"ok:{st}:{renderHdrs (mapPairs hm)}"
    | none => "model-no-head"
  let b := if d.body.isEmpty then "-" else toHex d.body
  let tail := if d.cleanEnd && d.ends == 1 then
      (match d.trailers with
       | some (some t) => s!"trailers:{renderHdrs (mapPairs t)}"
       | some none => "none"
       | none => "model-no-trailers")
    else "model-no-clean-end"
  s!"{pre}.{task}.{headCmd}={head} {pre}.{task}.rm=body:{b}:{tail}"

/-- the receiver's `max_field_section_size`: the scenarios configure none, so the default -/
def limit : Nat := H3.Qpack.peerLimit none

/-- calls the documented pattern left pending, and what the calls did outside the stream object:
    everything `Delivered.env` holds is printed -/
def partOf (pre headCmd : String) (sid : Nat) (t : H3.ReqRecv.Trace) (d : Delivered) : Part :=
  let optCode (o : Option Nat) : List String := match o with
    | some c => [s!"{sid}:{c}"]
    | none => []
  { toks := renderDelivered pre s!"q{sid}" headCmd d
    pending :=
      if t.head == .pending then [s!"{pre}.q{sid}.{headCmd}"]
      else if t.body.getLast? == some .pending || t.trailers == some .pending then [s!"{pre}.q{sid}.rm"]
      else []
    closed := match d.env.cell with
      | some c => [s!"{c}"]
      | none => []
    rst := optCode d.env.rst
    stop := optCode d.env.stop }

/-- `grease`: this stream's handle owes the connection's grease frame (the draw does not matter:
    the frame is skipped) -/
def modelPart (role : H3.ReqRecv.Role) (pre headCmd : String) (sid : Nat) (grease : Bool) (msg : Option Message) : Part :=
  match msg with
  | none => { toks := s!"{pre}.q{sid}.{headCmd}=model-bad-message" }
  | some m =>
    let w := streamBytes m (if grease then some 0 else none)
    let t := recvPattern role (hdrOf echo role limit) (chunked (chunkSize w.length) w)
    partOf pre headCmd sid t (deliverOf echo role limit t)

/-! interim responses: the response stream carries one HEADERS frame per `send_response` call made before
    the last one, then the final message; the client calls `recv_response` once per head -/

def interimOf (i : String × List (String × String)) : Option Message :=
  i.1.toNat?.map fun st => { head := .response st, headers := fieldLines i.2, pieces := [], trailers := none }

open H3.ReqRecv (FSt Res fsSrc pollHead) in
/-- `recv_response().await` `k` times, each answering a head -/
def recvInterims (H : H3.ReqRecv.Hdr) : Nat → H3.ReqRecv.St FSt → List Res × H3.ReqRecv.St FSt
  | 0, st => ([], st)
  | k+1, st =>
    let p := awaitCall (pollHead .client fsSrc H) st
    match p.1 with
    | .head b =>
      let q := recvInterims H k p.2
      (.head b :: q.1, q.2)
    | r => ([r], p.2)

open H3.ReqRecv (FSt Res fsSrc pollHead) in
/-- `H3.E2E.recvPattern` from a stream state on which calls have been made already -/
def patternFrom (H : H3.ReqRecv.Hdr) (st : H3.ReqRecv.St FSt) : H3.ReqRecv.Trace :=
  let p := awaitCall (pollHead .client fsSrc H) st
  match p.1 with
  | .head b =>
    let q := recvTail H p.2
    { head := .head b, body := q.1, trailers := q.2.1, env := q.2.2 }
  | r => { head := r, env := p.2.env }

def renderInterim (sid : Nat) (r : H3.ReqRecv.Res) : String :=
  match r with
  | .head b =>
    match decodeHead echo .client limit b with
    | some (.response st hm) => s!"c.q{sid}.rr=ok:{st}:{renderHdrs (mapPairs hm)}"
    | _ => s!"c.q{sid}.rr=model-no-head"
  | _ => s!"c.q{sid}.rr=model-no-head"

/-- a response with interim responses in front of it -/
def modelResp (sid : Nat) (grease : Bool) (ims : List (String × List (String × String))) (msg : Option Message) : Part :=
  if ims.isEmpty then modelPart .client "c" "rr" sid grease msg else
  match msg, ims.mapM interimOf with
  | some m, some is =>
    let w := (is.map wire).flatten ++ streamBytes m (if grease then some 0 else none)
    let H := hdrOf echo .client limit
    let p := recvInterims H is.length { src := ({}, chunked (chunkSize w.length) w) }
    if p.1.length == is.length && p.1.all (fun r => match r with | .head _ => true | _ => false) then
      let t := patternFrom H p.2
      let part := partOf "c" "rr" sid t (deliverOf echo .client limit t)
      { part with toks := " ".intercalate (p.1.map (renderInterim sid) ++ [part.toks]) }
    else { toks := " ".intercalate (p.1.map (renderInterim sid)), pending := [s!"c.q{sid}.rr"] }
  | _, _ => { toks := s!"c.q{sid}.rr=model-bad-message" }

def listOr (l : List String) : String := if l.isEmpty then "-" else ",".intercalate l

/-- the summary tokens: nothing else happened at either endpoint -/
def summary (reqs resps : List Part) : String :=
  let cat (f : Part → List String) (ps : List Part) : String := listOr (ps.flatMap f)
  s!"c.pending={cat (·.pending) resps} c.closed={listOr ((resps.flatMap (·.closed)).eraseDups)} " ++
  s!"c.rst={cat (·.rst) resps} c.stop={cat (·.stop) resps} " ++
  s!"s.pending={cat (·.pending) reqs} s.closed={listOr ((reqs.flatMap (·.closed)).eraseDups)} " ++
  s!"s.rst={cat (·.rst) reqs} s.stop={cat (·.stop) reqs} extra=-"

def hasGrease (cfg : String) : Bool := (cfg.splitOn ",").contains "g1"

def model (ccfg scfg : String) (ops : List String) : String :=
  let st := ops.foldl stepOp {}
  -- the handle of the first request of a connection owes the grease frame (client: the first
  -- `send_request`; server: the first request accepted)
  let first := (st.reqs.map (·.1)).head?
  let reqs := st.reqs.map (fun (sid, m) =>
    modelPart .server "s" "res" sid (hasGrease ccfg && first == some sid) (requestOf m))
  let resps := (bySid st.resps).filter (·.2.sentHead) |>.map
    (fun (sid, m) => modelResp sid (hasGrease scfg && first == some sid) m.interims (responseOf m))
  " ".intercalate ((reqs ++ resps).map (·.toks) ++ [summary reqs resps])

def handle : List String → String
  | "e2e" :: ccfg :: scfg :: ops => model ccfg scfg ops ++ " ## " ++ expected ops
  | _ => "bad-op"

end H3.Drv.C01
