import H3.Drv.Util
import H3.Model.E2E
/-! Driver engine `e2e` (C01).

    SPEC half: the specification of end-to-end fidelity, computed from the scenario line alone:
    what the client (resp. server) application submitted on request stream `q<sid>` is what the
    peer application must be handed — same method, target, protocol, header values in the same
    per-name order, body = concatenation of the pieces sent, trailers — and then exactly one clean
    end.  Transport behaviour (relay ops, credit grants, task order) does not appear in the result.

    MODEL half: the composed model of `H3.E2E`: the scenario's message is turned into a `Message`
    (method, URI parts, header list, body pieces as the `sd` ops give them, trailers), `wire m` is
    computed with the send models, cut into chunks, and `deliver` — the `FrameStream` model under
    the request-receive model under QPACK decoding and `Header::try_from` — is run over it.  By
    `C01_recv_of_wire` the chunking chosen here is irrelevant; by
    `C01_interleaving_irrelevant_partial` so are the relay ops, credit grants and task order of the
    line.  The `http` parameter is instantiated by the identity instance `echo` (every value parses
    to itself, a built URI has its parts): that the real crate behaves like this on the scenario's
    values is exactly the round-trip assumption of the theorems, so a difference shows up as a
    correspondence break. -/
namespace H3.Drv.C01
open H3.Drv

/-- The target as the receiving application sees it (`http::Uri`): an absolute-form target whose path is
    empty (`https://a.b`, `https://a.b?q`) has path `/` (RFC 9110 4.2.3: an empty path is equivalent to `/`;
    RFC 9114 4.3.1: `:path` must not be empty for http(s) URIs). Both halves print this form. -/
def canonTarget (u : List Nat) : List Nat :=
  let rec find : List Nat → Nat → Option Nat
    | [], _ => none
    | b :: r, i => if (b :: r).take 3 == [58, 47, 47] then some i else find r (i + 1)
  match find u 0 with
  | some i =>
    let rest := u.drop (i + 3)
    let auth := rest.takeWhile (fun b => b != 47 && b != 63)
    let pq := rest.drop auth.length
    if pq.isEmpty || pq.head? == some 63 then u.take (i + 3) ++ auth ++ [47] ++ pq else u
  | none => u

def canonTargetHex (h : String) : String :=
  match H3.Drv.parseHex h with
  | some u => H3.Drv.toHex (canonTarget u)
  | none => h

structure Msg where
  head : String := ""          -- request: `METHOD:<uri hex>:<proto>`; response: `<status>`
  headers : List (String × String) := []
  body : String := ""          -- hex, concatenated
  trailers : Option (List (String × String)) := none
  sentHead : Bool := false
  /-- the `sd` arguments one by one (hex, `-` = an empty buffer) -/
  pieces : List String := []

def parseHdrs (s : String) : List (String × String) :=
  if s == "-" || s == "" then [] else
  (s.splitOn ";").filterMap (fun kv =>
    match kv.splitOn "=" with
    | [k, v] => some (k, v)
    | _ => none)

/-- stable insertion by name: header-map iteration is printed sorted by name with the per-name
    order kept -/
def insertSorted (p : String × String) : List (String × String) → List (String × String)
  | [] => [p]
  | q :: r => if p.1 < q.1 then p :: q :: r else q :: insertSorted p r

/-- stable sort by name (`insertSorted` one by one, done by merging: sections may have tens of
    thousands of fields) -/
def sortHdrs (hs : List (String × String)) : List (String × String) :=
  hs.mergeSort (fun a b => !(b.1 < a.1))

def renderHdrs (hs : List (String × String)) : String :=
  if hs.isEmpty then "-" else ";".intercalate ((sortHdrs hs).map (fun p => p.1 ++ "=" ++ p.2))

def hexCat (a b : String) : String :=
  if b == "-" then a else a ++ b

def renderBody (m : Msg) : String :=
  let b := if m.body == "" then "-" else m.body
  match m.trailers with
  | some t => s!"body:{b}:trailers:{renderHdrs t}"
  | none => s!"body:{b}:none"

/-- requests by stream id (client tasks `c.q<sid>`), responses by stream id (`s.q<sid>`) -/
structure St where
  reqs : List (Nat × Msg) := []
  resps : List (Nat × Msg) := []
  nextSid : Nat := 0

def upd (l : List (Nat × Msg)) (sid : Nat) (f : Msg → Msg) : List (Nat × Msg) :=
  if l.any (·.1 == sid) then l.map (fun p => if p.1 == sid then (p.1, f p.2) else p)
  else l ++ [(sid, f {})]

/-- only messages that exist are updated -/
def updExisting (l : List (Nat × Msg)) (sid : Nat) (f : Msg → Msg) : List (Nat × Msg) :=
  l.map (fun p => if p.1 == sid then (p.1, f p.2) else p)

/-- `q<sid>` or `q<sid>s` (the send half after a split) -/
def taskSid (t : String) : Option Nat :=
  let cs := t.toList.drop 1
  let ds := if cs.getLast? == some 's' then cs.dropLast else cs
  (String.ofList ds).toNat?

def stepOp (st : St) (op : String) : St :=
  match op.splitOn "." with
  | ["c", "snd", cmd] =>
    match cmd.splitOn ":" with
    | ["R", method, uri, hdrs] =>
      let (m, proto) := match method.splitOn "+" with
        | [m, p] => (m, p)
        | _ => (method, "-")
      let sid := st.nextSid
      { st with reqs := upd st.reqs sid (fun _ => { head := s!"{m}:{canonTargetHex uri}:{proto}", headers := parseHdrs hdrs, sentHead := true }),
                nextSid := sid + 4 }
    | _ => st
  | [side, task, cmd] =>
    match taskSid task with
    | none => st
    | some sid =>
      let parts := cmd.splitOn ":"
      let f : Msg → Msg := match parts with
        | ["sd", h] => fun m => { m with body := hexCat m.body h, pieces := m.pieces ++ [h] }
        | ["st", t] => fun m => { m with trailers := some (parseHdrs t) }
        | ["sr", status] => fun m => { m with head := status, sentHead := true }
        | ["sr", status, h] => fun m => { m with head := status, headers := parseHdrs h, sentHead := true }
        | _ => id
      if side == "c" then { st with reqs := updExisting st.reqs sid f }
      else if side == "s" then
        (if st.reqs.any (·.1 == sid) then { st with resps := upd st.resps sid f } else st)
      else st
  | _ => st

def expected (ops : List String) : String :=
  let st := ops.foldl stepOp {}
  let reqLines := st.reqs.map (fun (sid, m) =>
    s!"s.q{sid}.res=ok:{m.head}:{renderHdrs m.headers} s.q{sid}.rm={renderBody m}")
  let respLines := st.resps.filter (·.2.sentHead) |>.map (fun (sid, m) =>
    s!"c.q{sid}.rr=ok:{m.head}:{renderHdrs m.headers} c.q{sid}.rm={renderBody m}")
  " ".intercalate (reqLines ++ respLines)

/-! ### the model half -/

open H3.E2E H3.Headers

/-- the identity instance of the `http` parameter -/
def echo : Http where
  parseScheme v := some v
  parseAuthority v := if v.isEmpty then none else some v
  parsePath v := some v
  uriBuild s a p := if a.isEmpty then none else some { scheme := s, authority := some a, path := p }

def strBytes (s : String) : List Nat := s.toList.map Char.toNat
def bytesStr (b : List Nat) : String := String.ofList (b.map Char.ofNat)

/-- position of the first occurrence of `pat` -/
def findSub (pat : List Nat) : List Nat → Nat → Option Nat
  | [], _ => none
  | b :: r, i => if (b :: r).take pat.length == pat then some i else findSub pat r (i + 1)

/-- `scheme://authority/path?query` → `uri::Parts` (the targets of the generator are in absolute
    form; anything else is taken as a path) -/
def uriParts (u : List Nat) : UriParts :=
  match findSub [58, 47, 47] u 0 with
  | some i =>
    let rest := u.drop (i + 3)
    let auth := rest.takeWhile (fun b => b != 47 && b != 63)
    let pq := rest.drop auth.length
    { scheme := some (u.take i), authority := if auth.isEmpty then none else some auth,
      pathAndQuery := if pq.isEmpty then some [47] else some pq }
  | none => { scheme := none, authority := none, pathAndQuery := if u.isEmpty then none else some u }

def fieldLines (hs : List (String × String)) : List FieldLine :=
  hs.map (fun p => (strBytes p.1, (parseHex p.2).getD []))

/-- `Message` of a request entry of the scenario (`head` = `METHOD:<uri hex>:<proto>`) -/
def requestOf (m : Msg) : Option Message :=
  match m.head.splitOn ":" with
  | [method, uri, proto] =>
    (parseHex uri).map fun u =>
      { head := .request (strBytes method) (uriParts u) (if proto == "-" then none else some (strBytes proto))
        headers := fieldLines m.headers
        pieces := m.pieces.map (fun p => (parseHex p).getD [])
        trailers := m.trailers.map fieldLines }
  | _ => none

def responseOf (m : Msg) : Option Message :=
  m.head.toNat?.map fun st =>
    { head := .response st, headers := fieldLines m.headers
      pieces := m.pieces.map (fun p => (parseHex p).getD []), trailers := m.trailers.map fieldLines }

/-- the transport of the model half: at most ~32 chunks, boundaries depending on the length -/
def chunkSize (n : Nat) : Nat := 1 + n / 32 + n % 7

def mapPairs (m : HeaderMap) : List (String × String) :=
  (hmIter m).map (fun f => (bytesStr f.1, toHex f.2))

def renderUri (u : Uri) : String :=
  let s := match u.scheme with
    | some s => s ++ [58, 47, 47]
    | none => []
  toHex (canonTarget (s ++ u.authority.getD [] ++ u.path.getD []))

def renderDelivered (pre task : String) (headCmd : String) (d : Delivered) : String :=
  let head := match d.head with
    | some (.request p) =>
      let proto := match p.protocol with
        | some x => bytesStr x
        | none => "-"
      s!"ok:{bytesStr p.method}:{renderUri p.uri}:{proto}:{renderHdrs (mapPairs p.headers)}"
    | some (.response st hm) => s!"ok:{st}:{renderHdrs (mapPairs hm)}"
    | none => "model-no-head"
  let b := if d.body.isEmpty then "-" else toHex d.body
  let tail := if d.cleanEnd && d.ends == 1 then
      (match d.trailers with
       | some (some t) => s!"trailers:{renderHdrs (mapPairs t)}"
       | some none => "none"
       | none => "model-no-trailers")
    else "model-no-clean-end"
  s!"{pre}.{task}.{headCmd}={head} {pre}.{task}.rm=body:{b}:{tail}"

/-- the receiver's `max_field_section_size`: the scenarios configure none, so the default -/
def limit : Nat := H3.Qpack.peerLimit none

def modelLine (role : H3.ReqRecv.Role) (pre headCmd : String) (sid : Nat) (msg : Option Message) : String :=
  match msg with
  | none => s!"{pre}.q{sid}.{headCmd}=model-bad-message"
  | some m =>
    let w := wire m
    renderDelivered pre s!"q{sid}" headCmd (deliver echo role limit (chunked (chunkSize w.length) w))

def model (ops : List String) : String :=
  let st := ops.foldl stepOp {}
  let reqLines := st.reqs.map (fun (sid, m) => modelLine .server "s" "res" sid (requestOf m))
  let respLines := st.resps.filter (·.2.sentHead) |>.map
    (fun (sid, m) => modelLine .client "c" "rr" sid (responseOf m))
  " ".intercalate (reqLines ++ respLines)

def handle : List String → String
  | "e2e" :: _ :: _ :: ops => model ops ++ " ## " ++ expected ops
  | _ => "bad-op"

end H3.Drv.C01
