import H3.Drv.Util
/-! Driver engine `e2e` (C01): the specification of end-to-end fidelity, computed from the
    scenario line alone: what the client (resp. server) application submitted on request stream
    `q<sid>` is what the peer application must be handed — same method, target, protocol, header
    values in the same per-name order, body = concatenation of the pieces sent, trailers — and
    then exactly one clean end.  Transport behaviour (relay ops, credit grants, task order) does
    not appear in the result. -/
namespace H3.Drv.C01
open H3.Drv

structure Msg where
  head : String := ""          -- request: `METHOD:<uri hex>:<proto>`; response: `<status>`
  headers : List (String × String) := []
  body : String := ""          -- hex, concatenated
  trailers : Option (List (String × String)) := none
  sentHead : Bool := false

def parseHdrs (s : String) : List (String × String) :=
  if s == "-" || s == "" then [] else
  (s.splitOn ";").filterMap (fun kv =>
    match kv.splitOn "=" with
    | [k, v] => some (k, v)
    | _ => none)

/-- stable insertion by name: header-map iteration is printed sorted by name with the per-name
    order kept -/
def insertSorted (p : String × String) : List (String × String) → List (String × String)
  | [] => [p]
  | q :: r => if p.1 < q.1 then p :: q :: r else q :: insertSorted p r

def sortHdrs (hs : List (String × String)) : List (String × String) :=
  hs.foldl (fun acc p => insertSorted p acc) []

def renderHdrs (hs : List (String × String)) : String :=
  if hs.isEmpty then "-" else ";".intercalate ((sortHdrs hs).map (fun p => p.1 ++ "=" ++ p.2))

def hexCat (a b : String) : String :=
  if b == "-" then a else a ++ b

def renderBody (m : Msg) : String :=
  let b := if m.body == "" then "-" else m.body
  match m.trailers with
  | some t => s!"body:{b}:trailers:{renderHdrs t}"
  | none => s!"body:{b}:none"

/-- requests by stream id (client tasks `c.q<sid>`), responses by stream id (`s.q<sid>`) -/
structure St where
  reqs : List (Nat × Msg) := []
  resps : List (Nat × Msg) := []
  nextSid : Nat := 0

def upd (l : List (Nat × Msg)) (sid : Nat) (f : Msg → Msg) : List (Nat × Msg) :=
  if l.any (·.1 == sid) then l.map (fun p => if p.1 == sid then (p.1, f p.2) else p)
  else l ++ [(sid, f {})]

/-- only messages that exist are updated -/
def updExisting (l : List (Nat × Msg)) (sid : Nat) (f : Msg → Msg) : List (Nat × Msg) :=
  l.map (fun p => if p.1 == sid then (p.1, f p.2) else p)

/-- `q<sid>` or `q<sid>s` (the send half after a split) -/
def taskSid (t : String) : Option Nat :=
  let cs := t.toList.drop 1
  let ds := if cs.getLast? == some 's' then cs.dropLast else cs
  (String.ofList ds).toNat?

def stepOp (st : St) (op : String) : St :=
  match op.splitOn "." with
  | ["c", "snd", cmd] =>
    match cmd.splitOn ":" with
    | ["R", method, uri, hdrs] =>
      let (m, proto) := match method.splitOn "+" with
        | [m, p] => (m, p)
        | _ => (method, "-")
      let sid := st.nextSid
      { st with reqs := upd st.reqs sid (fun _ => { head := s!"{m}:{uri}:{proto}", headers := parseHdrs hdrs, sentHead := true }),
                nextSid := sid + 4 }
    | _ => st
  | [side, task, cmd] =>
    match taskSid task with
    | none => st
    | some sid =>
      let parts := cmd.splitOn ":"
      let f : Msg → Msg := match parts with
        | ["sd", h] => fun m => { m with body := hexCat m.body h }
        | ["st", t] => fun m => { m with trailers := some (parseHdrs t) }
        | ["sr", status] => fun m => { m with head := status, sentHead := true }
        | ["sr", status, h] => fun m => { m with head := status, headers := parseHdrs h, sentHead := true }
        | _ => id
      if side == "c" then { st with reqs := updExisting st.reqs sid f }
      else if side == "s" then
        (if st.reqs.any (·.1 == sid) then { st with resps := upd st.resps sid f } else st)
      else st
  | _ => st

def expected (ops : List String) : String :=
  let st := ops.foldl stepOp {}
  let reqLines := st.reqs.map (fun (sid, m) =>
    s!"s.q{sid}.res=ok:{m.head}:{renderHdrs m.headers} s.q{sid}.rm={renderBody m}")
  let respLines := st.resps.filter (·.2.sentHead) |>.map (fun (sid, m) =>
    s!"c.q{sid}.rr=ok:{m.head}:{renderHdrs m.headers} c.q{sid}.rm={renderBody m}")
  " ".intercalate (reqLines ++ respLines)

def handle : List String → String
  | "e2e" :: _ :: _ :: ops =>
    let e := expected ops
    e ++ " ## " ++ e
  | _ => "bad-op"

end H3.Drv.C01
