import Std.Data.HashMap
import H3.Drv.Util
import H3.Model.Headers
import H3.Spec.Headers
import H3.Spec.Qpack
/-! Driver engine `hdr` (C12).  Case lines as described in `harness/src/e_c12.rs`.

    The abstract `http` parameter of the model (`Http`) is instantiated per case line by lookup
    in the verdict token `v[...]` of the line (what the real `http` crate answered when asked
    directly).  Before the model runs, the table is checked against `HttpLaws`; a table that
    contradicts a law prints `law-violated` (a correspondence break: an assumption of the
    theorems does not hold for the real crate). -/
namespace H3.Drv.C12
open H3.Drv H3.Headers
open H3.Spec.Headers (WellFormedRequest WellFormedResponse WellFormedTrailers regular valuesOf)

/-! ### parsing -/

def parseOpt (s : String) : Option (Option Bytes) :=
  if s == "~" then some none else (parseHex s).map some

def parseItem (s : String) : Option (List FieldLine) :=
  let (body, rep) := match s.splitOn "*" with
    | [b, k] => (b, k.toNat?)
    | [b] => (b, some 1)
    | _ => (s, none)
  match rep, body.splitOn "=" with
  | some k, [n, v] =>
    match parseHex n, parseHex v with
    | some n, some v => some (List.replicate k (n, v))
    | _, _ => none
  | _, _ => none

def parseFields (s : String) : Option (List FieldLine) :=
  if s == "[]" then some [] else
  ((s.splitOn ",").mapM parseItem).map List.flatten

structure VTable where
  s : List (Bytes × Option Bytes) := []
  a : List (Bytes × Option Bytes) := []
  p : List (Bytes × Option Bytes) := []
  u : List ((Option Bytes × Bytes × Option Bytes) × Option Uri) := []

def parseRes (s : String) : Option (Option Bytes) :=
  if s == "!" then some none else (parseHex s).map some

def parseUriRes (s : String) : Option (Option Uri) :=
  if s == "!" then some none else
  match s.splitOn "/" with
  | [a, b, c] =>
    match parseOpt a, parseOpt b, parseOpt c with
    | some a, some b, some c => some (some { scheme := a, authority := b, path := c })
    | _, _, _ => none
  | _ => none

def addEntry (t : VTable) (e : String) : Option VTable :=
  match e.splitOn "=" with
  | [k, r] =>
    match k.splitOn ":" with
    | ["s", v] => do let v ← parseHex v; let r ← parseRes r; pure { t with s := t.s ++ [(v, r)] }
    | ["a", v] => do let v ← parseHex v; let r ← parseRes r; pure { t with a := t.a ++ [(v, r)] }
    | ["p", v] => do let v ← parseHex v; let r ← parseRes r; pure { t with p := t.p ++ [(v, r)] }
    | ["u", v] =>
      match v.splitOn "/" with
      | [x, y, z] => do
        let x ← parseOpt x; let y ← parseHex y; let z ← parseOpt z; let r ← parseUriRes r
        pure { t with u := t.u ++ [((x, y, z), r)] }
      | _ => none
    | _ => none
  | _ => none

def parseVTable (s : String) : Option VTable :=
  if s.startsWith "v[" && s.endsWith "]" then
    let body := ((s.drop 2).dropEnd 1).toString
    if body.isEmpty then some {} else
    (body.splitOn ";").foldlM addEntry {}
  else none

def lookup {κ ρ : Type} [BEq κ] (l : List (κ × ρ)) (k : κ) : Option ρ := (l.find? (·.1 == k)).map (·.2)

/-- A verdict the table does not have.  Never consulted on a line that is answered: `covers`
    below refuses such a line (`bad-op missing-verdict`) before model or specification run, so
    that no answer depends on this filler (which would break `HttpLaws.authority_as_str` and
    `uri_authority_parses` if it were an answer). -/
def missing : Bytes := [109, 105, 115, 115, 105, 110, 103, 45, 118, 101, 114, 100, 105, 99, 116]

def httpOf (t : VTable) : Http where
  parseScheme v := (lookup t.s v).getD (some missing)
  parseAuthority v := (lookup t.a v).getD (some missing)
  parsePath v := (lookup t.p v).getD (some missing)
  uriBuild s a p := (lookup t.u (s, a, p)).getD (some { scheme := some missing, authority := none, path := none })

/-- Every question model and specification put to `httpOf t` on this field list has its answer in
    the table: every `:scheme` / `:authority` / `:path` value (the specification asks about all of
    them, `Field.parse` about those up to the first refusal), and the one `Uri::builder` call
    `into_request_parts` makes (scheme and path as parsed, the authority the four-way match chose). -/
def covers (t : VTable) (req : Bool) (fs : List FieldLine) : Bool :=
  fs.all (fun (n, v) =>
    (n != nScheme || (lookup t.s v).isSome) && (n != nAuthority || (lookup t.a v).isSome) &&
    (n != nPath || (lookup t.p v).isSome)) &&
  (!req || (match tryFrom (httpOf t) fs with
    | .ok h =>
      (match chooseAuthority h.pseudo.authority (hmGet h.fields nHost) with
       | .ok a => (lookup t.u (h.pseudo.scheme, a, h.pseudo.path)).isSome
       | _ => true)
    | _ => true))

/-- the table against `HttpLaws` and `H3.Props.C12.HttpSyntaxLaws` (`PathAndQuery::from_str("")` fails:
    the one clause of `SyntaxOk` h3 still delegates); only entries that are present can be judged. -/
def lawsOk (t : VTable) : Bool :=
  t.p.all (fun (v, r) => v != [] || r == none) &&
  t.a.all (fun (v, r) => (v != [] || r == none) && (r == none || r == some v)) &&
  t.u.all (fun ((_, a, _), r) =>
    (a != [] || r == none) && (r == none || lookup t.a a == some (some a)))

/-- the table against the round-trip facts property C01 adds to `HttpLaws`
    (`H3.E2E.HttpRoundTrip`; only what the table can judge): a value the `Scheme` /
    `PathAndQuery` parser accepts prints as a value that the parser accepts and prints unchanged
    (judged when the printed value is in the table — in particular when it prints as itself); a
    what the `PathAndQuery` parser prints holds no `#` (`path_print_no_fragment`, D-12g: the `:path` h3
    writes from an `http::Uri` passes the receiver's own check); a
    built `Uri` has exactly the parts it was built from; a scheme, an authority and a
    path-and-query that each parse to themselves always build; so does such an authority alone
    (the authority-form target of a plain CONNECT). -/
def roundTripOk (t : VTable) : Bool :=
  let idem (l : List (Bytes × Option Bytes)) : Bool :=
    l.all (fun (v, r) => match r with
      | none => true
      | some x => x == v || (match lookup l x with
        | some y => y == some x
        | none => true))
  idem t.s && idem t.p &&
  t.p.all (fun (_, r) => match r with
    | none => true
    | some x => pathSyntax x) &&
  t.u.all (fun ((s, a, p), r) => match r with
    | none => true
    | some u => u.scheme == s && u.authority == some a && u.path == p) &&
  t.u.all (fun ((s, a, p), r) => match s, p with
    | some s', some p' =>
      !(lookup t.s s' == some (some s') && lookup t.a a == some (some a) &&
        lookup t.p p' == some (some p')) || r.isSome
    | none, none => !(lookup t.a a == some (some a)) || r.isSome
    | _, _ => true)

/-! ### printing -/

def optHex : Option Bytes → String
  | none => "~"
  | some b => toHex b

def showFields (l : List FieldLine) : String :=
  "[" ++ String.intercalate "," (l.map fun (n, v) => toHex n ++ "=" ++ toHex v) ++ "]"

def showSent (l : List FieldLine) : String :=
  if l.isEmpty then "sent []" else
  "sent " ++ String.intercalate "," (l.map fun (n, v) => toHex n ++ "=" ++ toHex v)

def codeName (c : Nat) : String :=
  if c = 0x100 then "H3_NO_ERROR" else if c = 0x101 then "H3_GENERAL_PROTOCOL_ERROR"
  else if c = 0x102 then "H3_INTERNAL_ERROR" else if c = 0x105 then "H3_FRAME_UNEXPECTED"
  else if c = 0x106 then "H3_FRAME_ERROR" else if c = 0x10c then "H3_REQUEST_CANCELLED"
  else if c = 0x10e then "H3_MESSAGE_ERROR" else if c = 0x200 then "QPACK_DECOMPRESSION_FAILED"
  else "0x" ++ String.ofList (Nat.toDigits 16 c)

def showRefusal (r : Refusal) : String :=
  let sc := match r.scope with
    | .stream => "scope=stream code=" ++ codeName r.code
    | .connection => "scope=connection"
  let st := match r.stopSending with
    | some c => codeName c
    | none => "-"
  "refused " ++ sc ++ " stop_sending=" ++ st

/-- the refusal as the connection-level call-site ops print it -/
def showRefusalFull (r : Refusal) : String :=
  let rs := match r.reset with
    | some c => codeName c
    | none => "-"
  showRefusal r ++ " reset=" ++ rs ++ " closed=-"

/-! ### specification side -/

/-- the names of a field list in order of first appearance -/
def namesOf : List FieldLine → List Bytes → List Bytes
  | [], acc => acc.reverse
  | (n, _) :: r, acc => if acc.contains n then namesOf r acc else namesOf r (n :: acc)

/-- the regular fields, grouped by name in order of first appearance (the iteration order
    `http::HeaderMap` documents), arrival order inside a group:
    `(namesOf rs []).flatMap fun n => rs.filter (·.1 = n)`, computed by numbering the names in
    order of first appearance and sorting stably by that number (sections may have tens of
    thousands of fields). -/
def groupedRegular (fs : List FieldLine) : List FieldLine :=
  let rs := regular fs
  let numbered := rs.foldl (fun (acc : Std.HashMap Bytes Nat × List (Nat × FieldLine)) f =>
      match acc.1[f.1]? with
      | some i => (acc.1, (i, f) :: acc.2)
      | none => (acc.1.insert f.1 acc.1.size, (acc.1.size, f) :: acc.2)) ({}, [])
  (numbered.2.reverse.mergeSort (fun a b => a.1 ≤ b.1)).map (·.2)

/-- the common value when all values agree, `*` otherwise -/
def agreed (vs : List Bytes) (none_ : String) : String :=
  match vs with
  | [] => none_
  | v :: r => if r.all (· == v) then toHex v else "*"

def specReq (H : Http) (fs : List FieldLine) : String :=
  if H3.Spec.Headers.WellFormedRequestStrict H fs then
    let auth := agreed (valuesOf nAuthority fs ++ valuesOf nHost fs) "*"
    s!"ok method {agreed (valuesOf nMethod fs) "*"} scheme * authority {auth} path * proto {agreed (valuesOf nProtocol fs) "~"} headers {showFields (groupedRegular fs)} || reject *"
  else "reject *"

def specResp (H : Http) (fs : List FieldLine) : String :=
  if WellFormedResponse H fs then
    let st := match agreed (valuesOf nStatus fs) "*" with
      | "*" => "*"
      | _ => toString (statusVal ((valuesOf nStatus fs).headD []))
    s!"ok status {st} headers {showFields (groupedRegular fs)} || reject *"
  else "reject *"

/-- "refused on that stream with H3_MESSAGE_ERROR": a stream-level error with that code for the
    caller, that code in the STOP_SENDING towards the peer, the connection left open. -/
def refusedOnStream : String :=
  "refused scope=stream code=H3_MESSAGE_ERROR stop_sending=H3_MESSAGE_ERROR * closed=-"

def specSrv (H : Http) (fs : List FieldLine) : String :=
  match (specReq H fs).splitOn " || " with
  | [okPart, _] => okPart ++ " || " ++ refusedOnStream
  | _ => refusedOnStream

def specCli (H : Http) (fs : List FieldLine) : String :=
  match (specResp H fs).splitOn " || " with
  | [okPart, _] => okPart ++ " || " ++ refusedOnStream
  | _ => refusedOnStream

def specTrl (fs : List FieldLine) : String :=
  let refuse := "refused scope=stream code=H3_MESSAGE_ERROR **"
  if WellFormedTrailers fs then s!"ok headers {showFields (groupedRegular fs)} || {refuse}" else refuse

/-! ### sent side -/

/-- can the `http` values of the case line exist at all?  (method token, one of the URI shapes
    `Uri::from_parts` accepts, a known `Protocol`, valid lower-case names and values) -/
def buildable (m : Bytes) (u : UriParts) (pr : Option Bytes) (fs : List FieldLine) : Bool :=
  validMethod m &&
  (match u.scheme, u.authority, u.pathAndQuery with
   | some _, some _, some _ => true
   | some _, _, _ => false
   | none, some _, some _ => false
   | none, none, some d => !d.isEmpty
   | none, _, none => true) &&
  (match pr with
   | none => true
   | some p => (parseProtocol p).isSome) &&
  fs.all fun (n, v) => fromLowercase n && !n.contains 34 && validValue v

def mapOf (fs : List FieldLine) : HeaderMap := fs.foldl (fun m (n, v) => hmAppend m n v) []

/-! ### what was written on a request stream, read by the reference decoder -/

/-- RFC 9000 §16 variable-length integer -/
def varint : Bytes → Option (Nat × Bytes)
  | [] => none
  | b :: r =>
    let n := 2 ^ (b / 64)          -- 1, 2, 4 or 8 bytes
    if r.length + 1 < n then none else
    some ((r.take (n - 1)).foldl (fun acc x => acc * 256 + x) (b % 64), r.drop (n - 1))

/-- `hdr dec <hex>`: the bytes h3 wrote are ONE complete HEADERS frame (RFC 9114 §7.2.2: type 0x01,
    length, an encoded field section) and nothing else; its field section read by the reference
    decoder of RFC 9204 (`H3.Spec.Qpack.specDecode`, written from the RFC, dynamic table empty).
    Prints the field lines as the `s…` ops print them. -/
def decodeWritten (bs : Bytes) : String :=
  match varint bs with
  | none => "wire-bad:no-frame-type"
  | some (ty, r) =>
    if ty != 1 then s!"wire-bad:frame-type-{ty}" else
    match varint r with
    | none => "wire-bad:no-frame-length"
    | some (len, payload) =>
      if payload.length != len then s!"wire-bad:length-{len}-payload-{payload.length}" else
      match H3.Spec.Qpack.specDecode payload with
      | .error _ => "wire-bad:field-section-undecodable"
      | .ok fields => showSent fields

/-! ### dispatch -/

def handle0 : List String → String
  | ["hdr", "dec", h] =>
    match parseHex h with
    | some bs => decodeWritten bs
    | none => "bad-op"
  | ["hdr", "sresp", st, f] =>
    match st.toNat?, parseFields f with
    | some st, some fs =>
      if !(100 ≤ st && st ≤ 999 && buildable mCONNECT ⟨none, none, none⟩ none fs) then "unbuildable ## ?" else
      showSent (Header.response st (mapOf fs)).wireFields ++ " ## " ++
        showSent (H3.Spec.Headers.sentResponsePseudo st ++ groupedRegular fs)
    | _, _ => "bad-op"
  | ["hdr", op, f, vt] =>
    match parseFields f, parseVTable vt with
    | some fs, some t =>
      if !lawsOk t || !roundTripOk t then "law-violated ## ?" else
      if !covers t (op == "req" || op == "srv") fs then "bad-op missing-verdict" else
      let H := httpOf t
      if op == "req" then
        let m := match recvRequest H fs with
          | .ok r => s!"ok method {toHex r.method} scheme {optHex r.uri.scheme} authority {optHex r.uri.authority} path {optHex r.uri.path} proto {optHex r.protocol} headers {showFields (hmIter r.headers)}"
          | .err e => "reject " ++ e.name
          | .panic => "panic"
        m ++ " ## " ++ specReq H fs
      else if op == "resp" then
        let m := match recvResponse H fs with
          | .ok (s, hm) => s!"ok status {s} headers {showFields (hmIter hm)}"
          | .err e => "reject " ++ e.name
          | .panic => "panic"
        m ++ " ## " ++ specResp H fs
      else if op == "srv" then
        let m := match recvRequest H fs with
          | .ok r => s!"ok method {toHex r.method} scheme {optHex r.uri.scheme} authority {optHex r.uri.authority} path {optHex r.uri.path} proto {optHex r.protocol} headers {showFields (hmIter r.headers)}"
          | .err e => showRefusalFull (siteResolve e)
          | .panic => "panic"
        m ++ " ## " ++ specSrv H fs
      else if op == "cli" then
        let m := match recvResponse H fs with
          | .ok (s, hm) => s!"ok status {s} headers {showFields (hmIter hm)}"
          | .err e => showRefusalFull (siteRecvResponse (recvResponseSecond H fs) e)
          | .panic => "panic"
        m ++ " ## " ++ specCli H fs
      else if op == "trl" || op == "trlc" || op == "trls" then
        let m := match recvTrailers H fs with
          | .ok hm => s!"ok headers {showFields (hmIter hm)}"
          | .err e => showRefusal (siteRecvTrailers e)
          | .panic => "panic"
        m ++ " ## " ++ specTrl fs
      else "bad-op"
    | _, _ => "bad-op"
  | ["hdr", "sreq", m, s, a, p, pr, f] =>
    match parseHex m, parseOpt s, parseOpt a, parseOpt p, parseOpt pr, parseFields f with
    | some m, some s, some a, some p, some pr, some fs =>
      let u : UriParts := { scheme := s, authority := a, pathAndQuery := p }
      if !buildable m u pr fs then "unbuildable ## ?" else
      let map := mapOf fs
      let mo := match Header.request m u map pr with
        | .ok h => showSent h.wireFields
        | .err e => "reject " ++ e.name
        | .panic => "panic"
      let base := H3.Spec.Headers.sentRequestPseudo m u pr
      -- the text is silent on a `Protocol` extension attached to a method other than CONNECT
      let alt := if m != mCONNECT && pr.isSome then
          [showSent (base ++ [(nProtocol, pr.getD [])] ++ groupedRegular fs)] else []
      mo ++ " ## " ++ String.intercalate " || " ([showSent (base ++ groupedRegular fs)] ++ alt ++ ["reject *"])
    | _, _, _, _, _, _ => "bad-op"
  | ["hdr", "strl", f] =>
    match parseFields f with
    | some fs =>
      if !buildable mCONNECT ⟨none, none, none⟩ none fs then "unbuildable ## ?" else
      showSent (Header.trailer (mapOf fs)).wireFields ++ " ## " ++ showSent (groupedRegular fs)
    | none => "bad-op"
  | _ => "bad-op"

/-- The `w…` ops are the `s…` ops made through the public API (`SendRequest::send_request`,
    `RequestStream::{send_response, send_trailers}` of server and client) with the bytes written on the
    request stream read back by `decodeWritten` (the check's projection runs `hdr dec` on them): model
    and specification are those of the function-level op.  A refusal of `Header::request` is not shown
    to the caller of `send_request` by kind. -/
def handle : List String → String
  | ["hdr", "wresp", st, f] => handle0 ["hdr", "sresp", st, f]
  | ["hdr", "wtrlc", f] => handle0 ["hdr", "strl", f]
  | ["hdr", "wtrls", f] => handle0 ["hdr", "strl", f]
  | ["hdr", "wreq", m, s, a, p, pr, f] =>
    let r := handle0 ["hdr", "sreq", m, s, a, p, pr, f]
    match r.splitOn " ## " with
    | [mo, sp] => (if mo.startsWith "reject " then "reject" else mo) ++ " ## " ++ sp.replace "reject *" "reject"
    | _ => r
  | ws => handle0 ws

end H3.Drv.C12
