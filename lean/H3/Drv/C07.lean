import H3.Drv.Util
import H3.Model.Varint
import H3.Spec.Framing
/-! Driver engine `iso` (C07): the non-interference oracle computed from the scenario line.

    A scenario runs k concurrent requests; the line marks each stream healthy or faulted by what
    the peer does to it (RESET, STOP_SENDING, a validly encoded but malformed head, an oversized
    section, FIN before HEADERS).  Oracle: a healthy stream delivers exactly its own bytes in
    order, completes normally and h3 writes exactly the reply the application submitted on it;
    a faulted stream reports only stream-level errors of the kind that fits the fault; the
    connection is never closed and the driver reports no error.  The order in which the ops of
    different streams appear in the line does not enter the result. -/
namespace H3.Drv.C07
open H3.Drv H3.Spec.Framing

/-- GET https://a.b/x, as h3's own client encodes it (size 42) -/
def goodReq : String := "010d0000d1d750831af1ff518263cf"
/-- 200, as h3's own server encodes it -/
def goodResp : String := "01030000d9"

inductive Fault where
  | none | reset (c : Nat) | stop (c : Nat) | malformed | oversized | finFirst
deriving Repr, DecidableEq

structure Strm where
  sid : Nat
  rx : List Nat := []         -- bytes the peer delivered
  fin : Bool := false
  fault : Fault := .none
  sent : List Nat := []       -- body bytes the application submitted (sd)
  status : Option String := none
  finished : Bool := false
  calls : List String := []   -- the API calls made on the stream's task, in order

def hexOf (s : String) : List Nat := (parseHex s).getD []

def updS (l : List Strm) (sid : Nat) (f : Strm → Strm) : List Strm :=
  if l.any (·.sid == sid) then l.map (fun s => if s.sid == sid then f s else s)
  else l ++ [f { sid := sid }]

def numPrefix (s : String) : Option (Nat × String) :=
  let ds := s.toList.takeWhile Char.isDigit
  if ds.isEmpty then none else
  (String.ofList ds).toNat?.map (fun n => (n, String.ofList (s.toList.drop ds.length)))

/-- role: true = server (requests arrive), false = client (responses arrive) -/
def stepOp (server : Bool) (l : List Strm) (op : String) : List Strm :=
  match op.toList with
  | 's' :: rest =>
    match numPrefix (String.ofList rest) with
    | some (sid, r) => if sid % 4 != 0 then l else updS l sid (fun s => { s with rx := s.rx ++ hexOf ((r.drop 1).toString) })
    | none => l
  | 'f' :: rest =>
    match (String.ofList rest).toNat? with
    | some sid => if sid % 4 != 0 then l else updS l sid (fun s => { s with fin := true, fault := if s.rx.isEmpty && server then .finFirst else s.fault })
    | none => l
  | 'r' :: rest =>
    match numPrefix (String.ofList rest) with
    | some (sid, r) => updS l sid (fun s => { s with fault := .reset (((r.drop 1).toString).toNat?.getD 0) })
    | none => l
  | 'x' :: rest =>
    match numPrefix (String.ofList rest) with
    | some (sid, r) => updS l sid (fun s => { s with fault := .stop (((r.drop 1).toString).toNat?.getD 0) })
    | none => l
  | 'q' :: rest =>
    match numPrefix (String.ofList rest) with
    | some (sid, r) =>
      let cmd := (r.drop 1).toString
      let parts := cmd.splitOn ":"
      updS l sid (fun s =>
        let s := { s with calls := s.calls ++ [parts.headD ""] }
        match parts with
        | ["sd", h] => { s with sent := s.sent ++ hexOf h }
        | "sr" :: st :: _ => { s with status := some st }
        | ["fi"] => { s with finished := true }
        | _ => s)
    | none => l
  | _ => l

def isPrefixStr (p : List Nat) (l : List Nat) : Bool := l.take p.length == p

/-- a valid QPACK encoding of a malformed message (upper-case field name) -/
def badHead : String := "0108000023582d410176"
/-- first bytes of the generator's oversized head: HEADERS frame of 86 (request) / 132 (response) bytes -/
def overPrefix (server : Bool) : String := if server then "014056" else "014084"

/-- classify what arrived on a stream that the peer did not reset/stop -/
def classify (server : Bool) (_mfs : Option Nat) (s : Strm) : Fault :=
  match s.fault with
  | .none =>
    if isPrefixStr (hexOf badHead) s.rx then .malformed
    else if isPrefixStr (hexOf (overPrefix server)) s.rx then .oversized
    else .none
  | f => f

def bodyOf (server : Bool) (s : Strm) : String :=
  let good := hexOf (if server then goodReq else goodResp)
  let rest := s.rx.drop good.length
  let toks := observe (rest.length + 1) rest .fin
  let bytes := toks.foldl (fun acc t => match t with | .data b => acc ++ b | _ => acc) []
  toHex bytes

def dataFrames (sent : List Nat) : List Nat := sent  -- placeholder (frames are rebuilt per call below)

/-- bytes h3 must have written on a healthy stream: the head, one DATA frame per `sd` call, FIN -/
def expectedTx (server : Bool) (ops : List String) (sid : Nat) : String :=
  let pre := s!"q{sid}."
  let frames := ops.foldl (fun acc op =>
    if op.startsWith pre then
      match ((op.drop pre.length).toString).splitOn ":" with
      | ["sd", h] => let b := hexOf h; acc ++ [0] ++ Varint.encode b.length ++ b
      | _ => acc
    else acc) []
  toHex ((if server then hexOf goodResp else hexOf goodReq) ++ frames)

def renderFaultSpec (server : Bool) (f : Fault) : String :=
  match f with
  | .reset c => s!"[rterm:{c}]"
  | .stop c => s!"[rterm:{c}]"
  | .malformed => "[stream:H3_MESSAGE_ERROR]"
  | .oversized => "[toobig]"
  | .finFirst => if server then "[stream:H3_REQUEST_INCOMPLETE]" else "*"
  | .none => "[]"

def handle : List String → String
  | "iso" :: role :: cfg :: ops =>
    let server := role == "server"
    let mfs := (cfg.splitOn ",").findSome? (fun t => if t.startsWith "mfs=" then ((t.drop 4).toString).toNat? else none)
    let strms := ops.foldl (stepOp server) []
    let strms := strms.filter (fun s => s.sid % 4 == 0)
    let strms := strms.foldl (fun acc s =>
      (acc.takeWhile (·.sid < s.sid)) ++ [s] ++ (acc.dropWhile (·.sid < s.sid))) []
    let parts := strms.map (fun s =>
      match classify server mfs s with
      | .none =>
        let head := if server then "res=ok" else "rr=ok"
        let calls := s.calls.filter (fun c => c != "res" && c != "rr" && c != "rm")
        let callRes := calls.map (fun c => c ++ "=ok")
        let all := [head, s!"rm=body:{bodyOf server s}:none"] ++ callRes
        s!"q{s.sid}:" ++ ",".intercalate all ++ s!";tx={expectedTx server ops s.sid}" ++ (if s.finished then ",fin" else "")
      | f => s!"q{s.sid}:fault:{renderFaultSpec server f}:conn=0")
    let out := " ".intercalate (parts ++ ["closed=[]", "driver=ok"])
    out ++ " ## " ++ out
  | _ => "bad-op"

end H3.Drv.C07
