import H3.Drv.Util
import H3.Model.Varint
import H3.Spec.Framing
import H3.Model.Iso
import H3.Model.Qpack
/-! Driver engine `iso` (C07).  Spec half: the non-interference oracle computed from the scenario
    line.  Model half: the `H3.Iso` product machine run on the scenario (section "the model" below);
    the two halves share only the parsing helpers and the line-based choice of the output format.

    A scenario runs k concurrent requests; the line marks each stream healthy or faulted by what
    the peer does to it (RESET, STOP_SENDING, a validly encoded but malformed head, an oversized
    section, FIN before HEADERS).  Oracle: a healthy stream delivers exactly its own bytes in
    order, completes normally and h3 writes exactly the reply the application submitted on it;
    a faulted stream reports only stream-level errors of the kind that fits the fault; the
    connection is never closed and the driver reports no error.  The order in which the ops of
    different streams appear in the line does not enter the result. -/
namespace H3.Drv.C07
open H3.Drv H3.Spec.Framing

/-- GET https://a.b/x, as h3's own client encodes it (size 42) -/
def goodReq : String := "010d0000d1d750831af1ff518263cf"
/-- 200, as h3's own server encodes it -/
def goodResp : String := "01030000d9"

inductive Fault where
  | none | reset (c : Nat) | stop (c : Nat) | malformed | oversized | finFirst
deriving Repr, DecidableEq

structure Strm where
  sid : Nat
  rx : List Nat := []         -- bytes the peer delivered
  fin : Bool := false
  fault : Fault := .none
  sent : List Nat := []       -- body bytes the application submitted (sd)
  status : Option String := none
  finished : Bool := false
  calls : List String := []   -- the API calls made on the stream's task, in order

def hexOf (s : String) : List Nat := (parseHex s).getD []

def updS (l : List Strm) (sid : Nat) (f : Strm → Strm) : List Strm :=
  if l.any (·.sid == sid) then l.map (fun s => if s.sid == sid then f s else s)
  else l ++ [f { sid := sid }]

def numPrefix (s : String) : Option (Nat × String) :=
  let ds := s.toList.takeWhile Char.isDigit
  if ds.isEmpty then none else
  (String.ofList ds).toNat?.map (fun n => (n, String.ofList (s.toList.drop ds.length)))

/-- role: true = server (requests arrive), false = client (responses arrive) -/
def stepOp (server : Bool) (l : List Strm) (op : String) : List Strm :=
  match op.toList with
  | 's' :: rest =>
    match numPrefix (String.ofList rest) with
    | some (sid, r) => if sid % 4 != 0 then l else updS l sid (fun s => { s with rx := s.rx ++ hexOf ((r.drop 1).toString) })
    | none => l
  | 'f' :: rest =>
    match (String.ofList rest).toNat? with
    | some sid => if sid % 4 != 0 then l else updS l sid (fun s => { s with fin := true, fault := if s.rx.isEmpty then .finFirst else s.fault })
    | none => l
  | 'r' :: rest =>
    match numPrefix (String.ofList rest) with
    | some (sid, r) => updS l sid (fun s => { s with fault := .reset (((r.drop 1).toString).toNat?.getD 0) })
    | none => l
  | 'x' :: rest =>
    match numPrefix (String.ofList rest) with
    | some (sid, r) => updS l sid (fun s => { s with fault := .stop (((r.drop 1).toString).toNat?.getD 0) })
    | none => l
  | 'q' :: rest =>
    match numPrefix (String.ofList rest) with
    | some (sid, r) =>
      let cmd := (r.drop 1).toString
      let parts := cmd.splitOn ":"
      updS l sid (fun s =>
        let s := { s with calls := s.calls ++ [parts.headD ""] }
        match parts with
        | ["sd", h] => { s with sent := s.sent ++ hexOf h }
        | "sr" :: st :: _ => { s with status := some st }
        | ["fi"] => { s with finished := true }
        | _ => s)
    | none => l
  | _ => l

def isPrefixStr (p : List Nat) (l : List Nat) : Bool := l.take p.length == p

/-- a valid QPACK encoding of a malformed message (upper-case field name) -/
def badHead : String := "0108000023582d410176"
/-- first bytes of the generator's oversized head: HEADERS frame of 86 (request) / 132 (response) bytes -/
def overPrefix (server : Bool) : String := if server then "014056" else "014084"

/-- classify what arrived on a stream that the peer did not reset/stop -/
def classify (server : Bool) (_mfs : Option Nat) (s : Strm) : Fault :=
  match s.fault with
  | .none =>
    if isPrefixStr (hexOf badHead) s.rx then .malformed
    else if isPrefixStr (hexOf (overPrefix server)) s.rx then .oversized
    else .none
  | f => f

def bodyOf (server : Bool) (s : Strm) : String :=
  let good := hexOf (if server then goodReq else goodResp)
  let rest := s.rx.drop good.length
  let toks := observe (rest.length + 1) rest .fin
  let bytes := toks.foldl (fun acc t => match t with | .data b => acc ++ b | _ => acc) []
  toHex bytes

def dataFrames (sent : List Nat) : List Nat := sent  -- placeholder (frames are rebuilt per call below)

/-- bytes h3 must have written on a healthy stream: the head, one DATA frame per `sd` call, FIN -/
def expectedTx (server : Bool) (ops : List String) (sid : Nat) : String :=
  let pre := s!"q{sid}."
  let frames := ops.foldl (fun acc op =>
    if op.startsWith pre then
      match ((op.drop pre.length).toString).splitOn ":" with
      | ["sd", h] => let b := hexOf h; acc ++ [0] ++ Varint.encode b.length ++ b
      | _ => acc
    else acc) []
  toHex ((if server then hexOf goodResp else hexOf goodReq) ++ frames)

def renderFaultSpec (server : Bool) (f : Fault) : String :=
  match f with
  | .reset c => s!"[rterm:{c}]"
  | .stop c => s!"[rterm:{c}]"
  | .malformed => "[stream:H3_MESSAGE_ERROR]"
  | .oversized => "[toobig]"
  -- a stream abandoned before its headers: the server aborts the request with H3_REQUEST_INCOMPLETE (RFC 9114 §4.1);
  -- a response stream that ends without a response is "an invalid sequence of HTTP messages" (§4.1.2): H3_MESSAGE_ERROR
  -- (reading R-07; H3_REQUEST_INCOMPLETE is by its definition, §8.1, the code for the CLIENT's stream)
  | .finFirst => if server then "[stream:H3_REQUEST_INCOMPLETE]" else "[stream:H3_MESSAGE_ERROR]"
  | .none => "[]"

/-- the specification's answer, computed from the line alone -/
def specOf (server : Bool) (cfg : String) (ops : List String) : String :=
    let mfs := (cfg.splitOn ",").findSome? (fun t => if t.startsWith "mfs=" then ((t.drop 4).toString).toNat? else none)
    let strms := ops.foldl (stepOp server) []
    let strms := strms.filter (fun s => s.sid % 4 == 0)
    let strms := strms.foldl (fun acc s =>
      (acc.takeWhile (·.sid < s.sid)) ++ [s] ++ (acc.dropWhile (·.sid < s.sid))) []
    let parts := strms.map (fun s =>
      match classify server mfs s with
      | .none =>
        let head := if server then "res=ok" else "rr=ok"
        let calls := s.calls.filter (fun c => c != "res" && c != "rr" && c != "rm")
        let callRes := calls.map (fun c => c ++ "=ok")
        let all := [head, s!"rm=body:{bodyOf server s}:none"] ++ callRes
        s!"q{s.sid}:" ++ ",".intercalate all ++ s!";tx={expectedTx server ops s.sid}" ++ (if s.finished then ",fin" else "")
      | f => s!"q{s.sid}:fault:{renderFaultSpec server f}:conn=0 *")
    " ".intercalate (parts ++ ["closed=[]", "driver=ok"])

/-! ### the model: the scenario run through `H3.Iso`

The scenario interpreter's tasks are mirrored the way `ReqRecv.Sim` does it: every request has a
task that executes its commands in order; a command whose call is `Pending` stays in flight and is
polled again when the next peer event for that stream arrives; commands posted meanwhile wait in
the task's mailbox.  Each poll is one `H3.Iso.step`; after every op the driver is polled
(`H3.Iso.drive`).  The header oracle is the QPACK model (`H3.Qpack.recvSite`: limit, decoding
errors) plus the one validity rule the generator's malformed head breaks (upper-case letter in a
field name, RFC 9114 §4.2); the 431 is what `H3.Qpack.sendSite` writes under the default limit. -/

open H3.Iso in
def hdrOracle (site : H3.Qpack.RecvSite) (mfs : Nat) (b : List Nat) : HClass :=
  match H3.Qpack.recvSite site mfs b with
  | .fields fs => if fs.any (fun f => f.name.any (fun c => decide (65 ≤ c ∧ c ≤ 90))) then .malformed else .ok
  | .tooBig _ _ _ => .tooBig
  | .connError _ => .qpack

open H3.Iso in
def cfgOf (server : Bool) (mfs : Nat) : Cfg :=
  { role := if server then .server else .client
    hdr := { head := hdrOracle (if server then .serverRequest else .clientResponse) mfs
             trailer := hdrOracle (if server then .serverTrailers else .clientTrailers) mfs }
    resp431 := match H3.Qpack.sendSite none H3.Qpack.response431 with
      | .written b => some b
      | _ => none }

def codeName (c : Nat) : String :=
  if c == H3.Gen.Consts.CODE_H3_MESSAGE_ERROR then "H3_MESSAGE_ERROR"
  else if c == H3.Gen.Consts.CODE_H3_REQUEST_INCOMPLETE then "H3_REQUEST_INCOMPLETE"
  else toString c

def renderRes : H3.ReqRecv.Res → String
  | .head _ => "ok"
  | .data b => "data:" ++ toHex b
  | .end_ => "end"
  | .trailers _ => "trailers"
  | .noTrailers => "none"
  | .errConn c => s!"err:conn:{c}"
  | .errStream c => s!"err:stream:{codeName c}"
  | .errReset c => s!"err:rterm:{c}"
  | .pending => "PENDING"
  | .panic => "PANIC"
  | .invalid => "INVALID"

def renderAns : H3.Iso.Ans → String
  | .res r => renderRes r
  | .tooBig => "err:toobig"

structure Task where
  sid : Nat
  /-- command in flight: its name and its call -/
  inflight : Option (String × H3.Iso.Call) := none
  mailbox : List (String × H3.Iso.Call) := []
  /-- `rm`: body bytes handed out so far -/
  acc : List Nat := []
  /-- completed commands `(name, result)`, oldest first -/
  results : List (String × String) := []
  /-- bytes arrived (the stream is listed even when no command completed) -/
  seen : Bool := false

def isPendingRes : H3.ReqRecv.Res → Bool
  | .pending => true
  | _ => false

def isPendingAns : H3.Iso.Ans → Bool
  | .res r => isPendingRes r
  | .tooBig => false

def dataOf (rs : List H3.ReqRecv.Res) : List Nat :=
  rs.foldl (fun a r => match r with | .data d => a ++ d | _ => a) []

/-- one poll of the command in flight: `none` = still pending (progress kept in `acc`) -/
def pollCmd (t : Task) (o : H3.Iso.Obs) : Task × Option String :=
  match o with
  | .quiet => (t, some "?")
  | .ok => (t, some "ok")
  | .noHandle => (t, some "no-task")
  | .ans a => if isPendingAns a then (t, none) else (t, some (renderAns a))
  | .body rs tr =>
    let acc := t.acc ++ dataOf rs
    let t := { t with acc := acc }
    match tr with
    | some a =>
      if isPendingAns a then (t, none)
      else ({ t with acc := [] }, some s!"body:{toHex acc}:{renderAns a}")
    | none =>
      match rs.getLast? with
      | some .pending => (t, none)
      | some r => ({ t with acc := [] }, some s!"body:{toHex acc}:{renderRes r}")
      | none => (t, none)

/-- `body` polls get the fuel that bounds the run of the stream's receive half -/
def withFuel (c : H3.Iso.Conn) (sid : Nat) : H3.Iso.Call → H3.Iso.Call
  | .body _ => .body (H3.ReqRecv.fsFuel (c.get sid).rx.src)
  | x => x

/-- run the task until a command is pending or nothing is left to do -/
def pump (cfg : H3.Iso.Cfg) : Nat → H3.Iso.Conn → Task → H3.Iso.Conn × Task
  | 0, c, t => (c, t)
  | n+1, c, t =>
    match t.inflight with
    | some (name, call) =>
      let (c', o) := H3.Iso.step cfg c (t.sid, .call (withFuel c t.sid call))
      let (t', r) := pollCmd t o
      match r with
      | none => (c', t')
      | some res => pump cfg n c' { t' with inflight := none, results := t'.results ++ [(name, res)] }
    | none =>
      match t.mailbox with
      | [] => (c, t)
      | x :: rest => pump cfg n c { t with inflight := some x, mailbox := rest }

structure MState where
  conn : H3.Iso.Conn := {}
  tasks : List Task := []
  /-- client: number of requests created so far -/
  created : Nat := 0

def getTask (m : MState) (sid : Nat) : Task := (m.tasks.find? (·.sid == sid)).getD { sid := sid }
def putTask (m : MState) (t : Task) : MState :=
  if m.tasks.any (·.sid == t.sid) then { m with tasks := m.tasks.map (fun x => if x.sid == t.sid then t else x) }
  else { m with tasks := m.tasks ++ [t] }

def pumpTask (cfg : H3.Iso.Cfg) (m : MState) (t : Task) : MState :=
  let (c, t') := pump cfg (2 * t.mailbox.length + 3) m.conn t
  putTask { m with conn := c } t'

def peerOp (cfg : H3.Iso.Cfg) (m : MState) (sid : Nat) (p : H3.Iso.Peer) (seen : Bool) : MState :=
  if sid % 4 != 0 then m else
  let c := (H3.Iso.step cfg m.conn (sid, .peer p)).1
  let t := getTask m sid
  pumpTask cfg { m with conn := c } { t with seen := t.seen || seen }

def callOp (cfg : H3.Iso.Cfg) (m : MState) (sid : Nat) (name : String) (call : H3.Iso.Call) : MState :=
  let t := getTask m sid
  pumpTask cfg m { t with mailbox := t.mailbox ++ [(name, call)] }

def blockOf (frameHex : String) : List Nat := (hexOf frameHex).drop 2

def modelOp (server : Bool) (cfg : H3.Iso.Cfg) (m : MState) (op : String) : MState :=
  let m' :=
    if op.startsWith "snd.R" then
      let sid := 4 * m.created
      callOp cfg { m with created := m.created + 1 } sid "R" (.sendHead (blockOf goodReq))
    else match op.toList with
    | 's' :: rest =>
      match numPrefix (String.ofList rest) with
      | some (sid, r) =>
        let b := hexOf ((r.drop 1).toString)
        if b.isEmpty then m else peerOp cfg m sid (.chunk b) true
      | none => m
    | 'f' :: rest =>
      match (String.ofList rest).toNat? with
      | some sid => peerOp cfg m sid .fin false
      | none => m
    | 'r' :: rest =>
      match numPrefix (String.ofList rest) with
      | some (sid, r) => peerOp cfg m sid (.reset (((r.drop 1).toString).toNat?.getD 0)) false
      | none => m
    | 'x' :: rest =>
      match numPrefix (String.ofList rest) with
      | some (sid, r) => peerOp cfg m sid (.stop (((r.drop 1).toString).toNat?.getD 0)) false
      | none => m
    | 'q' :: rest =>
      match numPrefix (String.ofList rest) with
      | some (sid, r) =>
        let cmd := (r.drop 1).toString
        match cmd.splitOn ":" with
        | ["res"] => callOp cfg m sid "res" .head
        | ["rr"] => callOp cfg m sid "rr" .head
        | ["rm"] => callOp cfg m sid "rm" (.body 0)
        | ["sd", h] => callOp cfg m sid "sd" (.sendData (hexOf h))
        | "sr" :: _ => callOp cfg m sid "sr" (.sendHead (blockOf goodResp))
        | ["fi"] => callOp cfg m sid "fi" .finish
        | _ => m
      | none => m
    | _ => m
  let _ := server
  { m' with conn := H3.Iso.drive m'.conn }

def insertSorted (l : List String) (s : String) : List String :=
  if l.contains s then l else (l.takeWhile (· < s)) ++ [s] ++ (l.dropWhile (· < s))

/-- the error kinds of a result string, as `tools/props/c07.py` extracts them -/
def errKinds (r : String) : List String × Bool :=
  let conn := (r.splitOn "err:conn").length > 1
  let pick (tag : String) : List String :=
    match r.splitOn ("err:" ++ tag) with
    | _ :: after :: _ =>
      if tag == "toobig" then ["toobig"]
      else [tag ++ String.ofList (after.toList.takeWhile (fun ch => ch.isAlphanum || ch == '_'))]
    | _ => []
  (if conn then [] else (pick "rterm:" ++ pick "stream:" ++ pick "toobig").take 1, conn)

def renderTask (server : Bool) (faulted : Bool) (c : H3.Iso.Conn) (t : Task) : String :=
  if faulted then
    let (errs, conn) := t.results.foldl (fun (acc : List String × Bool) (x : String × String) =>
      let (es, cn) := errKinds x.2
      (es.foldl insertSorted acc.1, acc.2 || cn)) ([], false)
    let r := c.get t.sid
    s!"q{t.sid}:fault:[{",".intercalate errs}]:conn={if conn then 1 else 0} q{t.sid}:wire:tx={toHex r.snd.tx}" ++
      (if r.snd.fin then ",fin" else "") ++
      (match r.rx.env.rst with | some k => s!",rst={k}" | none => "") ++
      (match r.rx.env.stop with | some k => s!",stop={k}" | none => "")
  else
    let show1 (x : String × String) : String := x.1 ++ "=" ++ x.2
    let heads := (t.results.filter (fun x => x.1 == "res" || x.1 == "rr")).map show1
    let rms := (t.results.filter (fun x => x.1 == "rm")).map show1
    let others := (t.results.filter (fun x => x.1 != "res" && x.1 != "rr" && x.1 != "rm" && x.1 != "R")).map show1
    let r := c.get t.sid
    let extra := (match r.rx.env.rst with | some k => s!"rst={k}" | none => "") ++
                 (match r.rx.env.stop with | some k => s!"stop={k}" | none => "")
    let _ := server
    s!"q{t.sid}:" ++ ",".intercalate (heads ++ rms ++ others) ++ s!";tx={toHex r.snd.tx}" ++
      (if r.snd.fin then ",fin" else "") ++ (if extra == "" then "" else "," ++ extra)

/-- the model's answer: the scenario run through the product machine -/
def modelOf (server : Bool) (cfgs : String) (ops : List String) : String :=
  let mfs := ((cfgs.splitOn ",").findSome? (fun t => if t.startsWith "mfs=" then ((t.drop 4).toString).toNat? else none)).getD
    H3.Gen.Field.DEFAULT_MAX_FIELD_SECTION_SIZE
  let cfg := cfgOf server mfs
  let m := ops.foldl (modelOp server cfg) {}
  -- which streams does the LINE fault? (decides the output format only, as in `c07.py`)
  let mfsO := (cfgs.splitOn ",").findSome? (fun t => if t.startsWith "mfs=" then ((t.drop 4).toString).toNat? else none)
  let strms := (ops.foldl (stepOp server) []).filter (fun s => s.sid % 4 == 0)
  let isFaulted (sid : Nat) : Bool :=
    match strms.find? (·.sid == sid) with
    | some s => classify server mfsO s != .none
    | none => false
  let tasks := m.tasks.filter (fun t => t.sid % 4 == 0 && (t.seen || t.results.any (fun x => x.1 != "R")))
  let tasks := tasks.foldl (fun acc t => (acc.takeWhile (·.sid < t.sid)) ++ [t] ++ (acc.dropWhile (·.sid < t.sid))) []
  let parts := tasks.map (fun t => renderTask server (isFaulted t.sid) m.conn t)
  let closed := ",".intercalate (m.conn.closed.map toString)
  " ".intercalate (parts ++ [s!"closed=[{closed}]", if m.conn.closed.isEmpty then "driver=ok" else "driver=err"])

def handle : List String → String
  | "iso" :: role :: cfg :: ops =>
    let server := role == "server"
    modelOf server cfg ops ++ " ## " ++ specOf server cfg ops
  | _ => "bad-op"

end H3.Drv.C07
