import H3.Drv.Util
import H3.Model.Varint
import H3.Spec.Framing
import H3.Spec.Qpack
import H3.Model.Iso
import H3.Model.Qpack
import H3.Model.Headers
import H3.Spec.Headers
/-! Driver engine `iso` (C07).  Spec half: the non-interference oracle computed from the scenario
    line.  Model half: the `H3.Iso` product machine run on the scenario (section "the model" below);
    the two halves share only the parsing helpers and the rendering of a decoded field list in the
    harness's output format.

    A scenario runs k concurrent requests.  The oracle reads, per request, what the peer does to it:
    the bytes delivered (split into frames by the RFC 9114 §7 specification `H3.Spec.Framing.observe`,
    field sections decoded by the RFC 9204 specification `H3.Spec.Qpack.specDecode`), FIN / RESET /
    STOP_SENDING, and the calls the application makes.  A request is *faulted* when the peer resets it
    (any code, any byte offset of an otherwise valid message), asks to stop sending and a write comes
    after that, delivers a validly encoded but malformed head or trailer section (one that C12's
    well-formedness oracle `H3.Spec.Headers.WellFormed{Request,Response,Trailers}` refuses: upper-case /
    empty / non-token field name, control byte in a value, undefined pseudo-header field or one of the
    other kind of message, `:method` / `:status` missing or with an illegal value, no authority or a
    `Host` that contradicts it, any pseudo-header field in trailers; RFC 9114 §4.2, §4.3), a head or
    trailer section over the limit, or ends the stream before any
    HEADERS (bare FIN, or FIN behind frames of unknown type).  A RESET may stand anywhere up to and at
    the end of the complete message (no FIN: the reader meets it when it asks for more); a FIN behind a
    RESET is ignored (QUIC: the stream is in "Reset Recvd"); a RESET behind the FIN may be ignored (all
    data was received: "Data Recvd", the SimQuic behaviour) or reported: both answers are accepted.  Oracle: a healthy request delivers
    exactly its own head, its own body bytes in order, its own trailers, every call completes
    normally and h3 writes exactly what the application submitted on it; a faulted request reports
    only stream-level errors of the kind that fits the fault (`q<sid>:E[kinds]:conn=0`, nothing is
    demanded of its other answers); the connection is never closed and the driver reports no
    error.  The order in which the ops of different streams appear in the line does not enter the
    result.  A line that is not a scenario of this kind (a stream used before it exists, calls outside
    the documented pattern, bytes that are not a prefix of a valid message, two faults on one
    request) gets `?`: no opinion. -/
namespace H3.Drv.C07
open H3.Drv H3.Spec.Framing

def hexOf (s : String) : List Nat := (parseHex s).getD []
def strOf (b : List Nat) : String := String.ofList (b.map Char.ofNat)
def bytesOf (s : String) : List Nat := s.toList.map Char.toNat
def hasSub (s pat : String) : Bool := (s.splitOn pat).length > 1

def numPrefix (s : String) : Option (Nat × String) :=
  let ds := s.toList.takeWhile Char.isDigit
  if ds.isEmpty then none else
  (String.ofList ds).toNat?.map (fun n => (n, String.ofList (s.toList.drop ds.length)))

/-- `https://a.b/x`: the target of every request the client application submits -/
def uriHex : String := "68747470733a2f2f612e622f78"

/-! ### rendering a decoded field list the way the harness prints it (shared by both halves) -/

abbrev Fld := List Nat × List Nat

def ltBytes : List Nat → List Nat → Bool
  | [], [] => false
  | [], _ :: _ => true
  | _ :: _, [] => false
  | a :: r, b :: s => if a < b then true else if b < a then false else ltBytes r s

/-- stable insertion by name -/
def insertFld (x : Fld) : List Fld → List Fld
  | [] => [x]
  | y :: r => if ltBytes x.1 y.1 then x :: y :: r else y :: insertFld x r

/-- `render_headers`: regular fields sorted by name, the order of one name's values kept; `-` for none -/
def renderHdrs (fs : List Fld) : String :=
  let reg := fs.filter (fun f => f.1.head? != some 58)
  let sorted := reg.foldl (fun acc f => insertFld f acc) []
  if sorted.isEmpty then "-" else ";".intercalate (sorted.map fun f => strOf f.1 ++ "=" ++ toHex f.2)

/-- the value of a pseudo-header field: a later one overwrites an earlier one (`Header::try_from`) -/
def fieldOf (fs : List Fld) (name : String) : String :=
  match fs.reverse.find? (fun f => f.1 == bytesOf name) with
  | some f => strOf f.2
  | none => ""

/-- `ok:<method>:<uri hex>:<protocol>:<headers>` (server) / `ok:<status>:<headers>` (client) -/
def renderHead (server : Bool) (fs : List Fld) : String :=
  if server then
    let uri := fieldOf fs ":scheme" ++ "://" ++ fieldOf fs ":authority" ++ fieldOf fs ":path"
    s!"ok:{fieldOf fs ":method"}:{toHex (bytesOf uri)}:-:{renderHdrs fs}"
  else s!"ok:{fieldOf fs ":status"}:{renderHdrs fs}"

def renderTrailers (fs : List Fld) : String := "trailers:" ++ renderHdrs fs

/-- the error kind of an answer, as `tools/props/c07.py` extracts it; `conn` = a connection-level error -/
def errKind (r : String) : Option String × Bool :=
  if hasSub r "err:conn" then (none, true) else
  let pick (tag : String) : Option String :=
    match r.splitOn ("err:" ++ tag) with
    | _ :: after :: _ =>
      if tag == "toobig" then some "toobig"
      else some (tag ++ String.ofList (after.toList.takeWhile (fun ch => ch.isAlphanum || ch == '_')))
    | _ => none
  ((pick "rterm:").orElse (fun _ => (pick "stream:").orElse (fun _ => pick "toobig")), false)

def insertSorted (l : List String) (s : String) : List String :=
  if l.contains s then l else (l.takeWhile (· < s)) ++ [s] ++ (l.dropWhile (· < s))

def eToken (sid : Nat) (kinds : List String) (conn : Bool) : String :=
  s!"q{sid}:E[{",".intercalate kinds}]:conn={if conn then 1 else 0}"

/-- the request streams of the line: server `o<sid>` with a client-initiated bidirectional id, client one per `snd.R` -/
def sidsOfLine (server : Bool) (ops : List String) : List Nat :=
  if server then
    let l := ops.filterMap (fun op =>
      match op.toList with
      | 'o' :: rest => (String.ofList rest).toNat?.bind (fun n => if n % 4 == 0 then some n else none)
      | _ => none)
    l.foldl (fun acc n => if acc.contains n then acc else (acc.takeWhile (· < n)) ++ [n] ++ (acc.dropWhile (· < n))) []
  else (List.range (ops.filter (·.startsWith "snd.R")).length).map (· * 4)

def cfgNat (cfg key : String) : Option Nat :=
  (cfg.splitOn ",").findSome? (fun t => if t.startsWith (key ++ "=") then ((t.drop (key.length + 1)).toString).toNat? else none)

/-! ### the specification -/

structure SOp where
  idx : Nat
  name : String
  args : List String

structure Strm where
  sid : Nat
  /-- client: method of the request the application submitted -/
  method : String := ""
  rx : List Nat := []
  fin : Bool := false
  reset : Option Nat := none
  /-- a RESET that stands behind the FIN in the line -/
  resetAfterFin : Option Nat := none
  /-- code of the peer's STOP_SENDING and where in the line it stands -/
  stop : Option (Nat × Nat) := none
  calls : List SOp := []
  /-- outside the scenarios of the property (see the file header) -/
  bad : Bool := false

structure SpecSt where
  strms : List Strm := []
  created : Nat := 0
  bad : Bool := false

def SpecSt.upd (st : SpecSt) (sid : Nat) (f : Strm → Strm) : SpecSt :=
  if st.strms.any (·.sid == sid) then { st with strms := st.strms.map (fun s => if s.sid == sid then f s else s) }
  else { st with bad := true }   -- the stream does not exist (yet)

def preOps : List String := ["conn.AL", "drv.W", "o2", "o3", "s2:000400", "s3:000400"]

def specOp (server : Bool) (st : SpecSt) (x : Nat × String) : SpecSt :=
  let (i, op) := x
  if preOps.contains op then st
  else if op.startsWith "snd.R:" then
    match op.splitOn ":" with
    | [_, m, u, "-"] =>
      if server || u != uriHex then { st with bad := true }
      else { st with strms := st.strms ++ [{ sid := 4 * st.created, method := m }], created := st.created + 1 }
    | _ => { st with bad := true }
  else match op.toList with
  | 'o' :: rest =>
    match (String.ofList rest).toNat? with
    | some sid =>
      if !server || sid % 4 != 0 || st.strms.any (·.sid == sid) then { st with bad := true }
      else { st with strms := st.strms ++ [{ sid := sid }] }
    | none => { st with bad := true }
  | 's' :: rest =>
    match numPrefix (String.ofList rest) with
    | some (sid, r) =>
      match parseHex ((r.drop 1).toString) with
      | some b => st.upd sid (fun s => { s with rx := s.rx ++ b, bad := s.bad || s.fin || s.reset.isSome || b.isEmpty })
      | none => { st with bad := true }
    | none => { st with bad := true }
  | 'f' :: rest =>
    match (String.ofList rest).toNat? with
    | some sid =>
      -- a FIN behind a RESET changes nothing (RFC 9000 §3.2: "Reset Recvd", further STREAM frames are discarded)
      st.upd sid (fun s => if s.reset.isSome then { s with bad := s.bad || s.fin } else { s with fin := true, bad := s.bad || s.fin })
    | none => { st with bad := true }
  | 'r' :: rest =>
    match numPrefix (String.ofList rest) with
    | some (sid, r) =>
      match ((r.drop 1).toString).toNat? with
      | some c =>
        st.upd sid (fun s =>
          if s.fin then { s with resetAfterFin := some c, bad := s.bad || s.reset.isSome || s.resetAfterFin.isSome }
          else { s with reset := some c, bad := s.bad || s.reset.isSome })
      | none => { st with bad := true }
    | none => { st with bad := true }
  | 'x' :: rest =>
    match numPrefix (String.ofList rest) with
    | some (sid, r) =>
      match ((r.drop 1).toString).toNat? with
      | some c => st.upd sid (fun s => { s with stop := some (c, i), bad := s.bad || s.stop.isSome })
      | none => { st with bad := true }
    | none => { st with bad := true }
  | 'g' :: 'w' :: rest =>
    match numPrefix (String.ofList rest) with
    | some (sid, _) => st.upd sid id
    | none => { st with bad := true }
  | 'q' :: rest =>
    match numPrefix (String.ofList rest) with
    | some (sid, r) =>
      match ((r.drop 1).toString).splitOn ":" with
      | name :: args => st.upd sid (fun s => { s with calls := s.calls ++ [{ idx := i, name := name, args := args }] })
      | [] => { st with bad := true }
    | none => { st with bad := true }
  | _ => { st with bad := true }

/-- what a field section is, by RFC 9204 (decoding), RFC 9114 §4.2 (upper-case names) and §4.2.2 (the limit) -/
inductive BlockClass where
  | ok (fs : List Fld)
  | malformed
  | oversized
  | undecodable

/-- where a field section stands in the message -/
inductive Pos where
  | request | response | trailers
deriving DecidableEq

def lowerName (n : List Nat) : Bool := !n.isEmpty && n.all (fun c => decide ((97 ≤ c ∧ c ≤ 122) ∨ (48 ≤ c ∧ c ≤ 57) ∨ c = 45))
def hasUpper (n : List Nat) : Bool := n.any (fun c => decide (65 ≤ c ∧ c ≤ 90))
def visible (v : List Nat) : Bool := v.all (fun c => decide (32 ≤ c ∧ c ≤ 126))

/-- the sections the oracle has an opinion on: the control data RFC 9114 §4.3 demands for the position, first
    and once (request: `:method` one of the registered methods used here, `:scheme` https, a non-empty
    `:authority`, a `:path` beginning with `/`; response: a `:status` used here; trailers: none), then regular
    fields whose names are tokens of letters, digits and `-` and whose values are visible ASCII.  Other
    sections may be malformed for reasons that are C12's subject: no opinion. -/
def inVocabulary (pos : Pos) (fs : List Fld) : Bool :=
  let pseudo := fs.takeWhile (fun f => f.1.head? == some 58)
  let regular := fs.dropWhile (fun f => f.1.head? == some 58)
  let regOk := regular.all (fun f => lowerName (f.1.map (fun c => if 65 ≤ c ∧ c ≤ 90 then c + 32 else c)) && visible f.2)
  let ctlOk : Bool :=
    match pos, pseudo.map (fun f => (strOf f.1, strOf f.2)) with
    | .request, [(":method", m), (":scheme", "https"), (":authority", a), (":path", p)] =>
      ["GET", "POST", "PUT", "DELETE", "HEAD", "OPTIONS"].contains m && a != "" && visible (bytesOf a) &&
        p.startsWith "/" && visible (bytesOf p)
    | .response, [(":status", st)] => ["200", "304", "404", "503"].contains st
    | .trailers, [] => true
    | _, _ => false
  regOk && ctlOk

/-- host characters the oracle knows to be a legal authority: letters, digits, `.`, `-` -/
def hostChars (v : List Nat) : Bool :=
  !v.isEmpty && v.all (fun c => decide ((97 ≤ c ∧ c ≤ 122) ∨ (65 ≤ c ∧ c ≤ 90) ∨ (48 ≤ c ∧ c ≤ 57) ∨ c = 45 ∨ c = 46))
def pathChars (v : List Nat) : Bool :=
  v.head? == some 47 && v.all (fun c => decide ((97 ≤ c ∧ c ≤ 122) ∨ (65 ≤ c ∧ c ≤ 90) ∨ (48 ≤ c ∧ c ≤ 57) ∨ c = 45 ∨ c = 46 ∨ c = 47))

/-- The values of `:scheme`, `:authority`, `:path` and `Host` are the subject of the `http` crate's parsers, abstract
    in C12 (`H3.Headers.Http`).  The oracle of C07 judges a section only when every such value is one on which all
    readings agree: scheme `https`, an authority / `Host` of letters, digits, `.` and `-`, a path of the same
    characters and `/` beginning with `/`.  For those the instance below says "accepted"; other values: no opinion. -/
def urlValuesKnown (fs : List Fld) : Bool :=
  fs.all (fun f =>
    if f.1 == H3.Headers.nScheme then f.2 == H3.Headers.sHttps
    else if f.1 == H3.Headers.nAuthority || f.1 == H3.Headers.nHost then hostChars f.2
    else if f.1 == H3.Headers.nPath then pathChars f.2
    else true)

def specHttp : H3.Headers.Http where
  parseScheme v := if v == H3.Headers.sHttps then some v else none
  parseAuthority v := if hostChars v then some v else none
  parsePath v := if pathChars v then some v else none
  uriBuild s a p := if a.isEmpty then none else some { scheme := s, authority := some a, path := p }

/-- RFC 9114 §4.2 calls a message with connection-specific fields malformed; C12's oracle does not demand it and h3
    does not look: no opinion -/
def connSpecific : List String := ["connection", "keep-alive", "proxy-connection", "transfer-encoding", "upgrade", "te"]

/-- C12's oracle (`H3.Spec.Headers`, written from RFC 9114 §4.2 / §4.3 and the property text of C12), by position -/
def wellFormed (pos : Pos) (fs : List Fld) : Bool :=
  match pos with
  | .request => decide (H3.Spec.Headers.WellFormedRequest specHttp fs)
  | .response => decide (H3.Spec.Headers.WellFormedResponse specHttp fs)
  | .trailers => decide (H3.Spec.Headers.WellFormedTrailers fs)

/-- over the limit (§4.2.2) / malformed = refused by C12's well-formedness oracle (only for sections whose URL
    values the oracle knows) / `ok` = well formed and inside the vocabulary whose answers the oracle can
    write down; everything else (undecodable, well formed but e.g. pseudo-header fields repeated or behind
    regular ones — R-12: not demanded) gets no opinion -/
def classifyBlock (pos : Pos) (mfs : Option Nat) (b : List Nat) : BlockClass :=
  match H3.Spec.Qpack.specDecode b with
  | .error _ => .undecodable
  | .ok fs =>
    if (match mfs with | some m => decide (H3.Spec.Qpack.size fs > m) | none => false) then .oversized
    else if !urlValuesKnown fs then .undecodable
    else if !wellFormed pos fs then .malformed
    else if !inVocabulary pos fs || fs.any (fun f => hasUpper f.1) || fs.any (fun f => connSpecific.contains (strOf f.1)) then .undecodable
    else .ok fs

/-- a message as RFC 9114 §4.1 frames it: U* H (U|D)* (H U*)?, read off the tokens of the framing specification -/
structure Msg where
  head : Option (List Nat) := none
  body : List Nat := []
  trailers : Option (List Nat) := none
  /-- the tokens fit the grammar and end with the expected ending -/
  clean : Bool := false

/-- phase 0 before the head, 1 in the body, 2 behind the trailers; `last` = the token of the expected ending -/
def parseMsg (last : Tok) : Nat → Msg → List Tok → Msg
  | _, m, [] => m
  | _, m, [t] => if t == last then { m with clean := true } else m
  | 0, m, .frame (.headers b) :: r => parseMsg last 1 { m with head := some b } r
  | 1, m, .frame (.data _) :: r => parseMsg last 1 m r
  | 1, m, .data bs :: r => parseMsg last 1 { m with body := m.body ++ bs } r
  | 1, m, .frame (.headers t) :: r => parseMsg last 2 { m with trailers := some t } r
  | _, m, _ => m

def msgOf (rx : List Nat) (fin : Bool) : Msg :=
  parseMsg (if fin then .none_ else .pending) 0 {} (observe (rx.length + 1) rx (if fin then .fin else .open_))

def staticByte (name value : List Nat) : Option Nat :=
  match H3.Spec.Qpack.staticTable.findIdx? (fun e => e.1 == name && e.2 == value) with
  | some i => if i < 63 then some (0xC0 + i) else none
  | none => none

/-- a HEADERS frame whose section is one statically indexed field line -/
def oneFieldFrame (name value : List Nat) : Option (List Nat) :=
  (staticByte name value).map (fun b => [0x01, 0x03, 0x00, 0x00, b])

/-- h3's request head for `<method> https://a.b/x`: method and scheme statically indexed, authority
    and path literal with a static name reference, Huffman coded (constant: fixed target) -/
def requestFrame (method : String) : Option (List Nat) :=
  (staticByte (bytesOf ":method") (bytesOf method)).map (fun b =>
    [0x01, 0x0d, 0x00, 0x00, b] ++ hexOf "d750831af1ff518263cf")

def isWriteName (n : String) : Bool := n == "sr" || n == "sd" || n == "st"
def isSendName (n : String) : Bool := isWriteName n || n == "fi"

/-- send calls in the order `sr? sd* st? fi?` -/
def sendOrderOk : Nat → List String → Bool
  | _, [] => true
  | ph, n :: r =>
    if n == "sr" then ph == 0 && sendOrderOk 1 r
    else if n == "sd" then ph ≤ 1 && sendOrderOk 1 r
    else if n == "st" then ph ≤ 1 && sendOrderOk 2 r
    else if n == "fi" then ph ≤ 2 && sendOrderOk 3 r
    else false

/-- the bytes h3 must write for the send calls of a healthy request -/
def expectedTx (server : Bool) (s : Strm) : Option (List Nat) :=
  let start : Option (List Nat) := if server then some [] else requestFrame s.method
  s.calls.foldl (fun acc c =>
    acc.bind (fun tx =>
      if c.name == "sr" then
        match c.args with
        | [status, "-"] => (oneFieldFrame (bytesOf ":status") (bytesOf status)).map (tx ++ ·)
        | _ => none
      else if c.name == "sd" then
        match c.args with
        | [h] => (parseHex h).map (fun b => tx ++ [0] ++ Varint.encode b.length ++ b)
        | _ => none
      else if c.name == "st" then
        match c.args with
        | [kv] =>
          match kv.splitOn "=" with
          | [k, v] => (parseHex v).bind (fun vb => (oneFieldFrame (bytesOf k) vb).map (tx ++ ·))
          | _ => none
        | _ => none
      else if c.name == "fi" then (if c.args.isEmpty then some tx else none)
      else some tx)) start

/-- one request: the alternatives `(E token, second token)`; `none` = no opinion on the line -/
def specStream (server : Bool) (mfs wc : Option Nat) (s : Strm) : Option (List (String × String)) :=
  if s.bad then none else
  let headName := if server then "res" else "rr"
  let headPos : Pos := if server then .request else .response
  let recv := (s.calls.filter (fun c => !isSendName c.name)).map (·.name)
  let sends := s.calls.filter (fun c => isSendName c.name)
  let patternOk := recv == [headName, "rm"] || recv == [headName, "rb", "rt"]
  let headIdx := ((s.calls.find? (fun c => c.name == headName)).map (·.idx)).getD 0
  -- server: the request task takes send commands only once `res` has been posted
  let sendsOk := sendOrderOk 0 (sends.map (·.name)) && (!server || sends.all (fun c => c.idx > headIdx)) &&
    (server || !sends.any (fun c => c.name == "sr"))
  if !patternOk || !sendsOk then none else
  let fault (kinds : List String) : Option (List (String × String)) := some [(eToken s.sid kinds false, "*")]
  -- a RESET behind the FIN (RFC 9000 §3.2): ignored when all data had been received ("Data Recvd"; SimQuic), or
  -- reported ("Size Known" → "Reset Recvd"): next to the answer without it, the stream-level error with its code
  let orLateReset (r : Option (List (String × String))) : Option (List (String × String)) :=
    match s.resetAfterFin with
    | none => r
    | some c => r.map (· ++ [(eToken s.sid [s!"rterm:{c}"] false, "*")])
  match s.reset with
  | some c =>
    -- RESET with any code at any byte offset of an otherwise valid message
    let m := msgOf s.rx false
    let headOk := match m.head with
      | some b => (match classifyBlock headPos mfs b with | .ok _ => true | _ => false)
      | none => true
    if s.fin || !m.clean || !headOk || s.stop.isSome then none else fault [s!"rterm:{c}"]
  | none =>
    let m := msgOf s.rx true
    if !s.fin || !m.clean then none else
    match m.head with
    | none =>
      -- abandoned before its headers (RFC 9114 §4.1; client: §4.1.2, reading R-07)
      if s.stop.isSome || s.resetAfterFin.isSome then none
      else fault [if server then "stream:H3_REQUEST_INCOMPLETE" else "stream:H3_MESSAGE_ERROR"]
    | some hb =>
      match classifyBlock headPos mfs hb with
      | .undecodable => none
      | .oversized =>
        match s.stop with
        | none => if s.resetAfterFin.isSome then none else fault ["toobig"]
        | some (c, _) =>
          -- server: the 431 answer is a write of THIS request; when it meets the peer's STOP_SENDING the request
          -- reports that (RemoteTerminate with the peer's code) instead of the size; either way a stream-level
          -- error on this request only: no close, the driver goes on, the other requests complete
          if server && s.resetAfterFin.isNone then
            some [(eToken s.sid ["toobig"] false, "*"), (eToken s.sid [s!"rterm:{c}"] false, "*")]
          else none
      | .malformed => if s.stop.isSome || s.resetAfterFin.isSome then none else fault ["stream:H3_MESSAGE_ERROR"]
      | .ok hfs =>
        -- the trailers: `some (some t)` good, `some none` absent, `none` faulted (kinds) or undecodable (no kinds)
        let trailersClass : Option (Option (List Fld)) × List String :=
          match m.trailers with
          | none => (some none, [])
          | some tb =>
            match classifyBlock .trailers mfs tb with
            | .ok tfs => (some (some tfs), [])
            | .oversized => (none, ["toobig"])
            | .malformed => (none, ["stream:H3_MESSAGE_ERROR"])
            | .undecodable => (none, [])
        match trailersClass with
        | (none, []) => none
        | (none, kinds) => if s.stop.isSome || s.resetAfterFin.isSome then none else fault kinds
        | (some tfs, _) =>
          -- the receive side is healthy; STOP_SENDING is a fault once a write meets it
          let healthy : Option (List (String × String)) :=
            (expectedTx server s).map (fun tx =>
              let trs := match tfs with | some t => renderTrailers t | none => "none"
              let res := s.calls.map (fun c =>
                if c.name == headName then s!"{c.name}={renderHead server hfs}"
                else if c.name == "rm" then s!"rm=body:{toHex m.body}:{trs}"
                else if c.name == "rb" then s!"rb=body:{toHex m.body}"
                else if c.name == "rt" then s!"rt={trs}"
                else s!"{c.name}=ok")
              [(eToken s.sid [] false,
                s!"q{s.sid}:{",".intercalate res};tx={toHex tx}" ++ (if s.calls.any (·.name == "fi") then ",fin" else ""))])
          match s.stop with
          | none => orLateReset healthy
          | some (c, ix) =>
            if s.resetAfterFin.isSome then none else
            let after := s.calls.any (fun k => isWriteName k.name && k.idx > ix)
            let before := s.calls.any (fun k => isWriteName k.name && k.idx < ix)
            -- a write posted earlier may still be waiting when the STOP_SENDING arrives: for credit (back-pressure), or
            -- in the task's queue behind a receive call that is pending (the task makes its calls one after the other)
            let queued := s.calls.any (fun k => isWriteName k.name && k.idx < ix &&
              s.calls.any (fun r => !isSendName r.name && r.idx < k.idx))
            if after then fault [s!"rterm:{c}"]
            else if before && (wc.isSome || queued) then
              some [(eToken s.sid [] false, "*"), (eToken s.sid [s!"rterm:{c}"] false, "*")]
            else healthy

/-- the specification's answer, computed from the line alone -/
def specOf (server : Bool) (cfg : String) (ops : List String) : String :=
  let st := (List.zip (List.range ops.length) ops).foldl (specOp server) {}
  if st.bad then "?" else
  let mfs := cfgNat cfg "mfs"
  let wc := cfgNat cfg "wc"
  let strms := st.strms.foldl (fun acc s => (acc.takeWhile (·.sid < s.sid)) ++ [s] ++ (acc.dropWhile (·.sid < s.sid))) []
  match strms.mapM (specStream server mfs wc) with
  | none => "?"
  | some parts =>
    -- every combination of the alternatives
    let alts : List (List String) := parts.foldl (fun acc p =>
      acc.flatMap (fun pre => p.map (fun e => pre ++ [e.1, e.2]))) [[]]
    " || ".intercalate (alts.map (fun toks => " ".intercalate (toks ++ ["closed=[]", "driver=ok"])))

/-! ### the model: the scenario run through `H3.Iso`

The scenario interpreter's tasks are mirrored the way `ReqRecv.Sim` does it: every request has a
task that executes its commands in order; a command whose call is `Pending` stays in flight and is
polled again when the next peer event for that stream arrives (bytes, FIN, RESET, STOP_SENDING, a
credit grant); commands posted meanwhile wait in the task's mailbox.  Each poll is one
`H3.Iso.step`; after every op the driver is polled (`H3.Iso.drive`).  The header oracle is the QPACK
model (`H3.Qpack.recvSite`: limit, decoding errors) followed by the header-validation model of C12
(`H3.Headers.recvRequest` / `recvResponse` / `recvTrailers`: `Field::parse`, `Header::try_from`,
`into_request_parts` / `into_response_parts` / `into_trailers`; refused ⇒ malformed); what the application
submits is encoded by the encoder model (`H3.Qpack.sendSite`).  `rxhalt=1` (R-07): once a receive
command has answered an error the task's later receive commands are not made. -/

/-- The abstract `http` part of `H3.Headers` (C12 gets the real crate's verdicts on its case lines; the scenarios of
    this engine carry none), instantiated for the values the scenarios use: a scheme is `https` or `http`; an
    authority is a non-empty string of letters, digits, `.`, `-` with an optional `:<digits>`; a path begins
    with `/` and consists of letters, digits, `/ . - _ ~ ? = &`; `Uri::from_parts`: a scheme needs a path, a path
    beside an authority needs a scheme.  Other values are refused here (outside the scenarios). -/
def modelHttp : H3.Headers.Http where
  parseScheme v := if v == H3.Headers.sHttps || v == [104, 116, 116, 112] then some v else none
  parseAuthority v :=
    let host := v.takeWhile (· != 58)
    let port := (v.dropWhile (· != 58)).drop 1
    if !host.isEmpty && host.all (fun c => decide ((97 ≤ c ∧ c ≤ 122) ∨ (65 ≤ c ∧ c ≤ 90) ∨ (48 ≤ c ∧ c ≤ 57) ∨ c = 45 ∨ c = 46)) &&
        port.all (fun c => decide (48 ≤ c ∧ c ≤ 57)) then some v else none
  parsePath v :=
    if v.head? == some 47 && v.all (fun c => decide ((97 ≤ c ∧ c ≤ 122) ∨ (65 ≤ c ∧ c ≤ 90) ∨ (48 ≤ c ∧ c ≤ 57) ∨
        c = 45 ∨ c = 46 ∨ c = 47 ∨ c = 95 ∨ c = 126 ∨ c = 63 ∨ c = 61 ∨ c = 38)) then some v else none
  uriBuild s a p :=
    if a.isEmpty then none
    else if s.isSome != p.isSome then none
    else some { scheme := s, authority := some a, path := p }

/-- does the code's header validation (`H3.Headers`: `Header::try_from` + `into_request_parts` /
    `into_response_parts` / `into_trailers`, the model of C12) accept the decoded section at this site -/
def siteAccepts (site : H3.Qpack.RecvSite) (fs : List (List Nat × List Nat)) : Bool :=
  match site with
  | .serverRequest => (match H3.Headers.recvRequest modelHttp fs with | .ok _ => true | _ => false)
  | .clientResponse => (match H3.Headers.recvResponse modelHttp fs with | .ok _ => true | _ => false)
  | .serverTrailers | .clientTrailers => (match H3.Headers.recvTrailers modelHttp fs with | .ok _ => true | _ => false)

open H3.Iso in
def hdrOracle (site : H3.Qpack.RecvSite) (mfs : Nat) (b : List Nat) : HClass :=
  match H3.Qpack.recvSite site mfs b with
  | .fields fs => if siteAccepts site (fs.map (fun f => (f.name, f.value))) then .ok else .malformed
  | .tooBig _ _ _ => .tooBig
  | .connError _ => .qpack

/-- the fields the model's decoder reads out of a block the oracle accepted -/
def modelFields (site : H3.Qpack.RecvSite) (mfs : Nat) (b : List Nat) : List Fld :=
  match H3.Qpack.recvSite site mfs b with
  | .fields fs => fs.map (fun f => (f.name, f.value))
  | _ => []

open H3.Iso in
def cfgOf (server : Bool) (mfs : Nat) (wc : Option Nat) : Cfg :=
  { role := if server then .server else .client
    hdr := { head := hdrOracle (if server then .serverRequest else .clientResponse) mfs
             trailer := hdrOracle (if server then .serverTrailers else .clientTrailers) mfs }
    resp431 := match H3.Qpack.sendSite none H3.Qpack.response431 with
      | .written b => some b
      | _ => none
    wc := wc }

def codeName (c : Nat) : String :=
  if c == H3.Gen.Consts.CODE_H3_MESSAGE_ERROR then "H3_MESSAGE_ERROR"
  else if c == H3.Gen.Consts.CODE_H3_REQUEST_INCOMPLETE then "H3_REQUEST_INCOMPLETE"
  else toString c

/-- how decoded sections are printed: the head, the trailers -/
structure Rend where
  head : List Nat → String
  trailers : List Nat → String

def renderRes (rd : Rend) : H3.ReqRecv.Res → String
  | .head b => rd.head b
  | .data b => "data:" ++ toHex b
  | .end_ => "end"
  | .trailers b => rd.trailers b
  | .noTrailers => "none"
  | .errConn c => s!"err:conn:{c}"
  | .errStream c => s!"err:stream:{codeName c}"
  | .errReset c => s!"err:rterm:{c}"
  | .pending => "PENDING"
  | .panic => "PANIC"
  | .invalid => "INVALID"

def renderAns (rd : Rend) : H3.Iso.Ans → String
  | .res r => renderRes rd r
  | .tooBig => "err:toobig"

inductive CmdKind where
  /-- one call, polled until it answers -/
  | one (c : H3.Iso.Call)
  /-- `recv_data` until it answers `None` or an error -/
  | rb

structure Cmd where
  name : String
  kind : CmdKind
  /-- a call of the receive pattern (R-07) -/
  recv : Bool := false

structure Task where
  sid : Nat
  inflight : Option Cmd := none
  mailbox : List Cmd := []
  /-- `rm` / `rb`: body bytes handed out so far -/
  acc : List Nat := []
  /-- completed commands `(name, result)`, oldest first -/
  results : List (String × String) := []
  /-- a receive command has answered an error -/
  rxDead : Bool := false

def isPendingRes : H3.ReqRecv.Res → Bool
  | .pending => true
  | _ => false

def isPendingAns : H3.Iso.Ans → Bool
  | .res r => isPendingRes r
  | .tooBig => false

def dataOf (rs : List H3.ReqRecv.Res) : List Nat :=
  rs.foldl (fun a r => match r with | .data d => a ++ d | _ => a) []

/-- what one poll of a single-call command means for the task: `none` = still pending (progress kept in `acc`) -/
def pollCmd (rd : Rend) (t : Task) (o : H3.Iso.Obs) : Task × Option String :=
  match o with
  | .quiet => (t, some "?")
  | .ok => (t, some "ok")
  | .noHandle => (t, some "no-task")
  | .ans a => if isPendingAns a then (t, none) else (t, some (renderAns rd a))
  | .body rs tr =>
    let acc := t.acc ++ dataOf rs
    let t := { t with acc := acc }
    match tr with
    | some a =>
      if isPendingAns a then (t, none)
      else ({ t with acc := [] }, some s!"body:{toHex acc}:{renderAns rd a}")
    | none =>
      match rs.getLast? with
      | some .pending => (t, none)
      | some r => ({ t with acc := [] }, some s!"body:{toHex acc}:{renderRes rd r}")
      | none => (t, none)

/-- `body` polls get the fuel that bounds the run of the stream's receive half -/
def withFuel (c : H3.Iso.Conn) (sid : Nat) : H3.Iso.Call → H3.Iso.Call
  | .body _ => .body (H3.ReqRecv.fsFuel (c.get sid).rx.src)
  | x => x

/-- `rb`: `recv_data` polls until one answers something else than data -/
def pollRb (rd : Rend) (cfg : H3.Iso.Cfg) : Nat → H3.Iso.Conn → Task → H3.Iso.Conn × Task × Option String
  | 0, c, t => (c, t, some "INVALID")
  | n+1, c, t =>
    let (c', o) := H3.Iso.step cfg c (t.sid, .call .data)
    match o with
    | .ans (.res (.data d)) => pollRb rd cfg n c' { t with acc := t.acc ++ d }
    | .ans (.res .pending) => (c', t, none)
    | .ans (.res .end_) => (c', { t with acc := [] }, some s!"body:{toHex t.acc}")
    | .ans a => (c', { t with acc := [] }, some s!"body:{toHex t.acc}:{renderAns rd a}")
    | .noHandle => (c', t, some "no-task")
    | _ => (c', t, some "?")

/-- one poll of the command in flight -/
def pollInflight (rd : Rend) (cfg : H3.Iso.Cfg) (c : H3.Iso.Conn) (t : Task) (cmd : Cmd) :
    H3.Iso.Conn × Task × Option String :=
  match cmd.kind with
  | .one call =>
    let (c', o) := H3.Iso.step cfg c (t.sid, .call (withFuel c t.sid call))
    let (t', r) := pollCmd rd t o
    (c', t', r)
  | .rb => pollRb rd cfg (H3.ReqRecv.fsFuel (c.get t.sid).rx.src + 1) c t

/-- run the task until a command is pending or nothing is left to do -/
def pump (rd : Rend) (rxhalt : Bool) (cfg : H3.Iso.Cfg) : Nat → H3.Iso.Conn → Task → H3.Iso.Conn × Task
  | 0, c, t => (c, t)
  | n+1, c, t =>
    match t.inflight with
    | some cmd =>
      let (c', t', r) := pollInflight rd cfg c t cmd
      match r with
      | none => (c', t')
      | some res =>
        let t' := { t' with inflight := none, results := t'.results ++ [(cmd.name, res)],
                            rxDead := t'.rxDead || (cmd.recv && hasSub res "err:") }
        -- a failed `resolve_request` ends the request task: what waits in its mailbox is never executed
        let t' := if (c'.get t.sid).gone then { t' with mailbox := [] } else t'
        pump rd rxhalt cfg n c' t'
    | none =>
      match t.mailbox with
      | [] => (c, t)
      | x :: rest =>
        if rxhalt && x.recv && t.rxDead then
          pump rd rxhalt cfg n c { t with mailbox := rest, results := t.results ++ [(x.name, "skipped")] }
        else pump rd rxhalt cfg n c { t with inflight := some x, mailbox := rest }

structure MState where
  conn : H3.Iso.Conn := {}
  tasks : List Task := []
  /-- client: number of requests created so far -/
  created : Nat := 0

def getTask (m : MState) (sid : Nat) : Task := (m.tasks.find? (·.sid == sid)).getD { sid := sid }
def putTask (m : MState) (t : Task) : MState :=
  if m.tasks.any (·.sid == t.sid) then { m with tasks := m.tasks.map (fun x => if x.sid == t.sid then t else x) }
  else { m with tasks := m.tasks ++ [t] }

structure Env where
  server : Bool
  cfg : H3.Iso.Cfg
  rd : Rend
  rxhalt : Bool

def pumpTask (e : Env) (m : MState) (t : Task) : MState :=
  let (c, t') := pump e.rd e.rxhalt e.cfg (2 * t.mailbox.length + 3) m.conn t
  putTask { m with conn := c } t'

def peerOp (e : Env) (m : MState) (sid : Nat) (p : H3.Iso.Peer) : MState :=
  if sid % 4 != 0 then m else
  let c := (H3.Iso.step e.cfg m.conn (sid, .peer p)).1
  pumpTask e { m with conn := c } (getTask m sid)

def callOp (e : Env) (m : MState) (sid : Nat) (cmd : Cmd) : MState :=
  let t := getTask m sid
  pumpTask e m { t with mailbox := t.mailbox ++ [cmd] }

def parseHdrs (h : String) : List H3.Qpack.Field :=
  if h == "-" then []
  else (h.splitOn ";").filterMap fun kv =>
    match kv.splitOn "=" with
    | [k, v] => (parseHex v).map fun v => ⟨bytesOf k, v⟩
    | _ => none

/-- the QPACK block h3's encoder writes for these fields (`[]` if it refuses: never for the scenarios) -/
def blockOf (fs : List H3.Qpack.Field) : List Nat :=
  match H3.Qpack.sendSite none fs with
  | .written b => b
  | _ => []

/-- `<scheme>://<authority><path>` -/
def uriFields (u : String) : List H3.Qpack.Field :=
  match (strOf (hexOf u)).splitOn "://" with
  | [scheme, rest] =>
    let auth := String.ofList (rest.toList.takeWhile (· != '/'))
    let path := String.ofList (rest.toList.dropWhile (· != '/'))
    [⟨bytesOf ":scheme", bytesOf scheme⟩, ⟨bytesOf ":authority", bytesOf auth⟩,
     ⟨bytesOf ":path", bytesOf (if path == "" then "/" else path)⟩]
  | _ => []

def modelOp (e : Env) (m : MState) (op : String) : MState :=
  let m' :=
    if op.startsWith "snd.R:" then
      match op.splitOn ":" with
      | [_, method, u, hdrs] =>
        let sid := 4 * m.created
        let fs : List H3.Qpack.Field := { name := bytesOf ":method", value := bytesOf method } :: (uriFields u ++ parseHdrs hdrs)
        callOp e { m with created := m.created + 1 } sid { name := "R", kind := .one (.sendHead (blockOf fs)) }
      | _ => m
    else match op.toList with
    | 's' :: rest =>
      match numPrefix (String.ofList rest) with
      | some (sid, r) =>
        let b := hexOf ((r.drop 1).toString)
        if b.isEmpty then m else peerOp e m sid (.chunk b)
      | none => m
    | 'f' :: rest =>
      match (String.ofList rest).toNat? with
      | some sid => peerOp e m sid .fin
      | none => m
    | 'r' :: rest =>
      match numPrefix (String.ofList rest) with
      | some (sid, r) => peerOp e m sid (.reset (((r.drop 1).toString).toNat?.getD 0))
      | none => m
    | 'x' :: rest =>
      match numPrefix (String.ofList rest) with
      | some (sid, r) => peerOp e m sid (.stop (((r.drop 1).toString).toNat?.getD 0))
      | none => m
    | 'g' :: 'w' :: rest =>
      match numPrefix (String.ofList rest) with
      | some (sid, r) => peerOp e m sid (.grant (((r.drop 1).toString).toNat?.getD 0))
      | none => m
    | 'q' :: rest =>
      match numPrefix (String.ofList rest) with
      | some (sid, r) =>
        let cmd := (r.drop 1).toString
        match cmd.splitOn ":" with
        | ["res"] => callOp e m sid { name := "res", kind := .one .head }
        | ["rr"] => callOp e m sid { name := "rr", kind := .one .head, recv := true }
        | ["rm"] => callOp e m sid { name := "rm", kind := .one (.body 0), recv := true }
        | ["rb"] => callOp e m sid { name := "rb", kind := .rb, recv := true }
        | ["rt"] => callOp e m sid { name := "rt", kind := .one .trailers, recv := true }
        | ["sd", h] => callOp e m sid { name := "sd", kind := .one (.sendData (hexOf h)) }
        | ["sr", status, hdrs] =>
          let fs : List H3.Qpack.Field := { name := bytesOf ":status", value := bytesOf status } :: parseHdrs hdrs
          callOp e m sid { name := "sr", kind := .one (.sendHead (blockOf fs)) }
        | ["st", hdrs] => callOp e m sid { name := "st", kind := .one (.sendTrailers (blockOf (parseHdrs hdrs))) }
        | ["fi"] => callOp e m sid { name := "fi", kind := .one .finish }
        | _ => m
      | none => m
    | _ => m
  { m' with conn := H3.Iso.drive m'.conn }

def renderTask (c : H3.Iso.Conn) (t : Task) : String :=
  let results := t.results.filter (fun x => x.1 != "R")
  let (errs, conn) := results.foldl (fun (acc : List String × Bool) (x : String × String) =>
    let (k, cn) := errKind x.2
    ((match k with | some k => insertSorted acc.1 k | none => acc.1), acc.2 || cn)) ([], false)
  let r := c.get t.sid
  eToken t.sid errs conn ++ " " ++
    s!"q{t.sid}:" ++ ",".intercalate (results.map (fun x => x.1 ++ "=" ++ x.2)) ++ s!";tx={toHex r.snd.tx}" ++
      (if r.snd.fin then ",fin" else "") ++
      (match r.rx.env.rst with | some k => s!",rst={k}" | none => "") ++
      (match r.rx.env.stop with | some k => s!",stop={k}" | none => "")

/-- the model's answer: the scenario run through the product machine -/
def modelOf (server : Bool) (cfgs : String) (ops : List String) : String :=
  let mfs := (cfgNat cfgs "mfs").getD H3.Gen.Field.DEFAULT_MAX_FIELD_SECTION_SIZE
  let headSite : H3.Qpack.RecvSite := if server then .serverRequest else .clientResponse
  let trSite : H3.Qpack.RecvSite := if server then .serverTrailers else .clientTrailers
  let e : Env :=
    { server := server
      cfg := cfgOf server mfs (cfgNat cfgs "wc")
      rd := { head := fun b => renderHead server (modelFields headSite mfs b)
              trailers := fun b => renderTrailers (modelFields trSite mfs b) }
      rxhalt := cfgNat cfgs "rxhalt" == some 1 }
  let m := ops.foldl (modelOp e) {}
  let parts := (sidsOfLine server ops).map (fun sid => renderTask m.conn (getTask m sid))
  let closed := ",".intercalate (m.conn.closed.map toString)
  " ".intercalate (parts ++ [s!"closed=[{closed}]", if m.conn.closed.isEmpty then "driver=ok" else "driver=err"])

def handle : List String → String
  | "iso" :: role :: cfg :: ops =>
    let server := role == "server"
    modelOf server cfg ops ++ " ## " ++ specOf server cfg ops
  | _ => "bad-op"

end H3.Drv.C07
