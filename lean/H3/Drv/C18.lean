import H3.Drv.Util
import H3.Model.Datagram
/-! Driver engine `dgram` (C18). -/
namespace H3.Drv.C18
open H3.Drv H3.Datagram

inductive Step where
  | chunk (k : Nat) | read (k : Nat) | adv (k : Nat)

def parseStep (t : String) : Option Step :=
  match t.toList with
  | 'r' :: r => (String.ofList r).toNat?.map .read
  | 'a' :: r => (String.ofList r).toNat?.map .adv
  | _ => t.toNat?.map .chunk

def parsePattern (s : String) : Option (List Step) :=
  if s == "all" then some [] else (s.splitOn ",").mapM parseStep

/-- run the consumption pattern, then drain chunk-by-chunk (fuel = bytes left + 1). -/
def drain : Nat → Enc → Varint.Bytes
  | 0, _ => []
  | f+1, e => if e.chunk.isEmpty then [] else e.chunk ++ drain f (e.advance e.chunk.length)

/-- copy `left` bytes through as many chunks as needed (fuel-bounded) -/
def readN : Nat → Enc → Nat → Varint.Bytes × Enc
  | 0, e, _ => ([], e)
  | f+1, e, left =>
    if left = 0 then ([], e) else
    let t := min left e.chunk.length
    if t = 0 then ([], e) else
    let (r, e') := readN f (e.advance t) (left - t)
    (e.chunk.take t ++ r, e')

def runPattern : Enc → List Step → Varint.Bytes × Enc
  | e, [] => ([], e)
  | e, .chunk k :: ks =>
    let t := min k e.chunk.length
    let (r, e') := runPattern (e.advance t) ks
    (e.chunk.take t ++ r, e')
  | e, .read k :: ks =>
    let (y, e1) := readN (e.remaining + 1) e (min k e.remaining)
    let (r, e') := runPattern e1 ks
    (y ++ r, e')
  | e, .adv k :: ks => runPattern (e.advance (min k e.remaining)) ks

/-- the oracle for a pattern: positions over the wire bytes; `none` when the pattern takes
    chunk-limited reads after skipping (then only the model has an opinion) -/
def specPattern (w : Varint.Bytes) : List Step → Option Varint.Bytes
  | [] => some w
  | .read k :: ks => (specPattern (w.drop k) ks).map (w.take k ++ ·)
  | .adv k :: ks => specPattern (w.drop k) ks
  | .chunk _ :: ks => if ks.all (fun s => match s with | .chunk _ => true | _ => false) then some w else none


/-! ### `dgram encm`: the payload is a list of chunks -/

def drainMd : Nat → EncM → Varint.Bytes
  | 0, _ => []
  | f+1, e => if e.chunk.isEmpty then [] else e.chunk ++ drainMd f (e.advance e.chunk.length)

def readNM : Nat → EncM → Nat → Varint.Bytes × EncM
  | 0, e, _ => ([], e)
  | f+1, e, left =>
    if left = 0 then ([], e) else
    let t := min left e.chunk.length
    if t = 0 then ([], e) else
    let (r, e') := readNM f (e.advance t) (left - t)
    (e.chunk.take t ++ r, e')

def runPatternM : EncM → List Step → Varint.Bytes × EncM
  | e, [] => ([], e)
  | e, .chunk k :: ks =>
    let t := min k e.chunk.length
    let (r, e') := runPatternM (e.advance t) ks
    (e.chunk.take t ++ r, e')
  | e, .read k :: ks =>
    let (y, e1) := readNM (e.remaining + 1) e (min k e.remaining)
    let (r, e') := runPatternM e1 ks
    (y ++ r, e')
  | e, .adv k :: ks => runPatternM (e.advance (min k e.remaining)) ks

/-- chunks separated by `|`, none empty -/
def parseChunks (s : String) : Option (List Varint.Bytes) :=
  match (s.splitOn "|").mapM parseHex with
  | some cs => if cs.isEmpty || cs.any (·.isEmpty) then none else some cs
  | none => none

/-! ### `dgram scen <role> <cfg> <op>…`: `DatagramSender` / `DatagramReader` of a plain client / server connection
    over the simulated transport (harness `scen.rs`; ops `drv.` / `conn.` `dgs:<sid>:<hex,…>`, `dgr[:<n>]`, `W` / `A` /
    `AL`, peer ops `d:<hex>`, `dq:<mode>`, `C<code>`, `T`).

    ONE interpreter (the harness's task discipline: a call that waits blocks its task, later commands queue; a driver
    that is being polled reports the connection's error before the next command) is run twice, with two `Sem`s:
    `modelSem` = the code (`Datagram.encode` through the `Buf` view, `Datagram.decode`, `handleSendError`),
    `specSem` = RFC 9297 §2.1 (`varint(sid/4) ‖ payload`, `rfcDecode`) and the sentences on errors: TooLarge /
    NotAvailable are answered to the caller and are not connection errors; a transport connection error is the
    connection's outcome and every handle - the datagram sender too - names it like the driver does (C05). -/

inductive Mode where
  | ok | na | tl | max (n : Nat) | conn (e : CE)

structure Sem where
  wire : Nat → Varint.Bytes → Varint.Bytes
  /-- `none` = H3_DATAGRAM_ERROR -/
  dec : Varint.Bytes → Option (Nat × Varint.Bytes)
  /-- the sender's answer to a transport connection error `e` when `cell` is the connection's error before the call -/
  sendConn : CE → Option Origin → String

def ceStr : CE → String
  | .app c => s!"app:{c}"
  | .timeout => "timeout"
  | .internal => "internal"
  | .undefined => "undefined"

def codeName (c : Nat) : String := if c = 0x33 then "H3_DATAGRAM_ERROR" else s!"0x{c}"

def connErrStr : ConnErr → String
  | .remote e => "remote:" ++ ceStr e
  | .timeout => "timeout"
  | .local_ c => "local:" ++ codeName c

def sendErrStr : SendErr → String
  | .notAvailable => "not-available"
  | .tooLarge => "too-large"
  | .conn e => "err:conn:" ++ connErrStr e

def modelSem : Sem where
  wire := fun sid p => (H3.Datagram.encode sid p).view
  dec := fun b => match H3.Datagram.decode b with | .ok s p => some (s, p) | .datagramError => none
  -- `handle_send_datagram_error`: the transport's error goes through `handle_quic_stream_error`, the answer is the cell's winner
  sendConn := fun e cell => sendErrStr (handleSendError cell (.conn e)).1

def specSem : Sem where
  wire := fun sid p => Varint.encode (sid / 4) ++ p
  dec := fun b => match Varint.rfcDecode b with
    | none => none
    | some (q, rest) => if 4 * q > 2^62 - 1 then none else some (4 * q, rest)
  -- the connection's outcome, named like the driver and every other handle name it: the error the connection had failed
  -- with before (C05: the first error wins; reading R-05c: the datagram sender is a handle), else this one
  sendConn := fun e cell => "err:conn:" ++ (match cell with
    | some first => connErrStr (convertOrigin first)
    | none => match e with
      | .timeout => "timeout"
      | e => "remote:" ++ ceStr e)

inductive Blocked where
  | none
  | dgr (left : Nat) (got : List String)
  | accept

structure Sc where
  task : String
  server : Bool
  mode : Mode := .ok
  tErr : Option CE := none
  origin : Option Origin := none
  closed : List Nat := []
  rx : List Varint.Bytes := []
  tx : List Varint.Bytes := []
  trace : List String := []
  blocked : Blocked := .none
  queue : List String := []
  driving : Bool := false
  panicked : Bool := false

def Sc.log (s : Sc) (op res : String) : Sc := { s with trace := s.trace ++ [s!"{s.task}.{op}={res}"] }

def drvOp (s : Sc) : String := if s.server then "A" else "W"

/-- the driver is polled: it takes the stored error (or the transport's), closes if h3 has to, and reports it -/
def observe (s : Sc) : Option (Sc × String) :=
  match s.origin.orElse (fun _ => s.tErr.map .quic) with
  | none => none
  | some o =>
    let already := s.origin.isSome && s.closed.length > 0
    let closed := match closeCode o with
      | some c => if already || s.closed.contains c then s.closed else s.closed ++ [c]
      | none => s.closed
    some ({ s with origin := some o, closed := closed }, connErrStr (convertOrigin o))

/-- a driver that is being polled (`W` / `AL`) reports the error as soon as there is one -/
def pollDriver (s : Sc) : Sc :=
  if !s.driving then s else
  match observe s with
  | none => s
  | some (s, e) => { (s.log (drvOp s) s!"err:{e}") with driving := false }

def sendOne (sem : Sem) (s : Sc) (sid : Nat) (p : Varint.Bytes) : Sc × String :=
  match s.tErr.orElse (fun _ => match s.mode with | .conn e => some e | _ => none) with
  | some e =>
    let first := s.origin.getD (.quic e)
    ({ s with origin := some first }, sem.sendConn e s.origin)
  | none =>
    match s.mode with
    | .na => (s, "not-available")
    | .tl => (s, "too-large")
    | _ =>
      let w := sem.wire sid p
      let big : Bool := match s.mode with | .max n => decide (w.length > n) | _ => false
      if big then (s, "too-large") else ({ s with tx := s.tx ++ [w] }, "ok")

def sendAll (sem : Sem) (s : Sc) (sid : Nat) : List Varint.Bytes → List String → Sc × List String
  | [], acc => (s, acc)
  | p :: ps, acc => let (s, r) := sendOne sem s sid p; sendAll sem s sid ps (acc ++ [r])

/-- continue a `dgr` that has `left` reads to make -/
def readMore (sem : Sem) : Nat → Sc → Nat → List String → Sc
  | 0, s, _, _ => s
  | f + 1, s, left, got =>
    let fin (s : Sc) (got : List String) : Sc := { (s.log "dgr" (",".intercalate got)) with blocked := .none }
    if left = 0 then fin s got else
    match s.tErr with
    | some e =>
      let first := s.origin.getD (.quic e)
      fin { s with origin := some first } (got ++ ["err:conn:" ++ connErrStr (convertOrigin first)])
    | none =>
      match s.rx with
      | [] => { s with blocked := .dgr left got }
      | d :: rest =>
        let s := { s with rx := rest }
        match sem.dec d with
        | some (sid, p) => readMore sem f s (left - 1) (got ++ [s!"dg:{sid}:{toHex p}"])
        | none =>
          let first := s.origin.getD (.internal 0x33)
          fin { s with origin := some first } (got ++ ["err:conn:" ++ connErrStr (convertOrigin first)])

def parseHexList (s : String) : Option (List Varint.Bytes) := (s.splitOn ",").mapM parseHex

/-- one command of the connection task (the task is not blocked) -/
def runCmd (sem : Sem) (s : Sc) (cmd : String) : Sc :=
  match cmd.splitOn ":" with
  | ["dgs", sid, hs] =>
    match sid.toNat?, parseHexList hs with
    | some sid, some ps =>
      if sid ≥ 2^62 then s.log "dgs" "bad-cmd"
      else if sid % 4 ≠ 0 then { s with panicked := true }
      else let (s, rs) := sendAll sem s sid ps []; s.log "dgs" (",".intercalate rs)
    | _, _ => s.log "dgs" "bad-cmd"
  | ["dgr"] => readMore sem 1000 s 1 []
  | ["dgr", n] => readMore sem 1000 s (max 1 (n.toNat?.getD 1)) []
  | [op] =>
    if op == drvOp s && op == "W" then { s with driving := true }
    else if op == "AL" && s.server then { s with driving := true }
    else if op == "A" && s.server then
      match observe s with
      | some (s, e) => s.log "A" s!"err:{e}"
      | none => { s with blocked := .accept }
    else s.log op "bad-cmd"
  | _ => s.log ((cmd.splitOn ":").headD cmd) "bad-cmd"

/-- run the task as far as it gets: resume what it waits for, then the queued commands in order; the driver
    (if it is being polled) speaks between two commands -/
def settle (sem : Sem) : Nat → Sc → Sc
  | 0, s => s
  | f + 1, s =>
    if s.panicked then s else
    match s.blocked with
    | .dgr left got =>
      let s' := readMore sem 1000 { s with blocked := .none } left got
      (match s'.blocked with
       | .none => settle sem f s'
       | _ => s')
    | .accept =>
      (match s.tErr with
       | none => s
       | some _ =>
         match observe s with
         | some (s, e) => settle sem f { (s.log "A" s!"err:{e}") with blocked := .none }
         | none => s)
    | .none =>
      let s := pollDriver s
      match s.queue with
      | [] => s
      | c :: q => settle sem f (runCmd sem { s with queue := q } c)

def parseMode (m : String) : Option Mode :=
  if m == "ok" then some .ok else if m == "na" then some .na else if m == "tl" then some .tl
  else if m == "T" then some (.conn .timeout) else if m == "I" then some (.conn .internal)
  else if m == "U" then some (.conn .undefined)
  else if m.startsWith "max=" then (m.drop 4).toString.toNat?.map .max
  else if m.startsWith "C" then (m.drop 1).toString.toNat?.map fun c => .conn (.app c)
  else none

def scenOp (sem : Sem) (s : Sc) (op : String) : Option Sc :=
  let pre := s.task ++ "."
  if op.startsWith pre then
    let cmd := (op.drop pre.length).toString
    some (settle sem 4000 { s with queue := s.queue ++ [cmd] })
  else if op.startsWith "dq:" then (parseMode (op.drop 3).toString).map fun m => { s with mode := m }
  else if op.startsWith "d:" then
    (parseHex (op.drop 2).toString).map fun b => settle sem 4000 { s with rx := s.rx ++ [b] }
  else if op == "T" then some (settle sem 4000 { s with tErr := s.tErr.orElse fun _ => some .timeout })
  else if op.startsWith "C" then
    ((op.drop 1).toString.toNat?).map fun c => settle sem 4000 { s with tErr := s.tErr.orElse fun _ => some (.app c) }
  else none

def scenRun (sem : Sem) (s : Sc) : List String → Option Sc
  | [] => some s
  | op :: ops => match scenOp sem s op with | some s => scenRun sem s ops | none => none

def scenShow (s : Sc) : String :=
  if s.panicked then "panic" else
  let pend := match s.blocked with
    | .dgr _ _ => [s!"{s.task}.dgr"]
    | .accept => [s!"{s.task}.A"]
    | .none => if s.driving then [s!"{s.task}.{drvOp s}"] else []
  " ".intercalate ([s!"{s.task}.build=ok"] ++ s.trace ++
    ["closed=[" ++ ",".intercalate (s.closed.map toString) ++ "]",
     "dgrams=[" ++ ",".intercalate (s.tx.map toHex) ++ "]",
     "pending=[" ++ ",".intercalate pend ++ "]"])

def handleScen (role : String) (ops : List String) : String :=
  if role != "client" && role != "server" then "bad-op" else
  let s0 : Sc := { task := if role == "server" then "conn" else "drv", server := role == "server" }
  match scenRun modelSem s0 ops, scenRun specSem s0 ops with
  | some m, some sp => scenShow m ++ " ## " ++ (if sp.panicked then "?" else scenShow sp)
  | _, _ => "bad-op"

def handle : List String → String
  | "dgram" :: "scen" :: role :: _cfg :: ops => handleScen role ops
  | ["dgram", "encm", sid, ch, pat] =>
    match sid.toNat?, parseChunks ch, parsePattern pat with
    | some s, some cs, some ks =>
      let m :=
        if s ≥ 2^62 then "refused" else
        match H3.Datagram.new s cs.flatten with
        | none => "panic"
        | some _ =>
          let e := encodeM s cs
          let (y, e') := runPatternM e ks
          let rest := drainMd (e'.remaining + 1) e'
          s!"ok {toHex (y ++ rest)} rem0={e.remaining}"
      -- the oracle never looks at the chunking: positions over `varint(sid/4) ‖ flattened payload`
      let sp :=
        if s ≥ 2^62 then "refused" else if s % 4 ≠ 0 then "?" else
          let w := Varint.encode (s / 4) ++ cs.flatten
          match specPattern w ks with
          | some y => s!"ok {toHex y} rem0={w.length}"
          | none => s!"ok * rem0={w.length}"
      m ++ " ## " ++ sp
    | _, _, _ => "bad-op"
  | ["dgram", "enc", sid, ph, pat] =>
    match sid.toNat?, parseHex ph, parsePattern pat with
    | some s, some p, some ks =>
      let m :=
        if s ≥ 2^62 then "refused" else
        match H3.Datagram.new s p with
        | none => "panic"
        | some (s, p) =>
          let e := encode s p
          let (y, e') := runPattern e ks
          let rest := drain (e'.remaining + 1) e'
          s!"ok {toHex (y ++ rest)} rem0={e.remaining}"
      let sp :=
        if s ≥ 2^62 then "refused" else if s % 4 ≠ 0 then "?" else
          let w := Varint.encode (s / 4) ++ p
          match specPattern w ks with
          | some y => s!"ok {toHex y} rem0={w.length}"
          | none => s!"ok * rem0={w.length}"
      m ++ " ## " ++ sp
    | _, _, _ => "bad-op"
  | ["dgram", "dec", h] =>
    match parseHex h with
    | none => "bad-op"
    | some bs =>
      let m := match decode bs with
        | .ok s p => s!"ok {s} {toHex p}"
        | .datagramError => "err H3_DATAGRAM_ERROR"
      let sp := match Varint.rfcDecode bs with
        | none => "err H3_DATAGRAM_ERROR"
        | some (q, rest) => if 4 * q > 2^62 - 1 then "err H3_DATAGRAM_ERROR" else s!"ok {4 * q} {toHex rest}"
      m ++ " ## " ++ sp
  | _ => "bad-op"

end H3.Drv.C18
