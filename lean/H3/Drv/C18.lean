import H3.Drv.Util
import H3.Model.Datagram
/-! Driver engine `dgram` (C18). -/
namespace H3.Drv.C18
open H3.Drv H3.Datagram

inductive Step where
  | chunk (k : Nat) | read (k : Nat) | adv (k : Nat)

def parseStep (t : String) : Option Step :=
  match t.toList with
  | 'r' :: r => (String.ofList r).toNat?.map .read
  | 'a' :: r => (String.ofList r).toNat?.map .adv
  | _ => t.toNat?.map .chunk

def parsePattern (s : String) : Option (List Step) :=
  if s == "all" then some [] else (s.splitOn ",").mapM parseStep

/-- run the consumption pattern, then drain chunk-by-chunk (fuel = bytes left + 1). -/
def drain : Nat → Enc → Varint.Bytes
  | 0, _ => []
  | f+1, e => if e.chunk.isEmpty then [] else e.chunk ++ drain f (e.advance e.chunk.length)

/-- copy `left` bytes through as many chunks as needed (fuel-bounded) -/
def readN : Nat → Enc → Nat → Varint.Bytes × Enc
  | 0, e, _ => ([], e)
  | f+1, e, left =>
    if left = 0 then ([], e) else
    let t := min left e.chunk.length
    if t = 0 then ([], e) else
    let (r, e') := readN f (e.advance t) (left - t)
    (e.chunk.take t ++ r, e')

def runPattern : Enc → List Step → Varint.Bytes × Enc
  | e, [] => ([], e)
  | e, .chunk k :: ks =>
    let t := min k e.chunk.length
    let (r, e') := runPattern (e.advance t) ks
    (e.chunk.take t ++ r, e')
  | e, .read k :: ks =>
    let (y, e1) := readN (e.remaining + 1) e (min k e.remaining)
    let (r, e') := runPattern e1 ks
    (y ++ r, e')
  | e, .adv k :: ks => runPattern (e.advance (min k e.remaining)) ks

/-- the oracle for a pattern: positions over the wire bytes; `none` when the pattern takes
    chunk-limited reads after skipping (then only the model has an opinion) -/
def specPattern (w : Varint.Bytes) : List Step → Option Varint.Bytes
  | [] => some w
  | .read k :: ks => (specPattern (w.drop k) ks).map (w.take k ++ ·)
  | .adv k :: ks => specPattern (w.drop k) ks
  | .chunk _ :: ks => if ks.all (fun s => match s with | .chunk _ => true | _ => false) then some w else none

def handle : List String → String
  | ["dgram", "enc", sid, ph, pat] =>
    match sid.toNat?, parseHex ph, parsePattern pat with
    | some s, some p, some ks =>
      let m :=
        if s ≥ 2^62 then "refused" else
        match H3.Datagram.new s p with
        | none => "panic"
        | some (s, p) =>
          let e := encode s p
          let (y, e') := runPattern e ks
          let rest := drain (e'.remaining + 1) e'
          s!"ok {toHex (y ++ rest)} rem0={e.remaining}"
      let sp :=
        if s ≥ 2^62 then "refused" else if s % 4 ≠ 0 then "?" else
          let w := Varint.encode (s / 4) ++ p
          match specPattern w ks with
          | some y => s!"ok {toHex y} rem0={w.length}"
          | none => s!"ok * rem0={w.length}"
      m ++ " ## " ++ sp
    | _, _, _ => "bad-op"
  | ["dgram", "dec", h] =>
    match parseHex h with
    | none => "bad-op"
    | some bs =>
      let m := match decode bs with
        | .ok s p => s!"ok {s} {toHex p}"
        | .datagramError => "err H3_DATAGRAM_ERROR"
      let sp := match Varint.rfcDecode bs with
        | none => "err H3_DATAGRAM_ERROR"
        | some (q, rest) => if 4 * q > 2^62 - 1 then "err H3_DATAGRAM_ERROR" else s!"ok {4 * q} {toHex rest}"
      m ++ " ## " ++ sp
  | _ => "bad-op"

end H3.Drv.C18
