import H3.Drv.Util
import H3.Model.Datagram
/-! Driver engine `dgram` (C18). -/
namespace H3.Drv.C18
open H3.Drv H3.Datagram

def parsePattern (s : String) : Option (List Nat) :=
  if s == "all" then some [] else (s.splitOn ",").mapM (·.toNat?)

/-- run the consumption pattern, then drain chunk-by-chunk (fuel = bytes left + 1). -/
def drain : Nat → Enc → Varint.Bytes
  | 0, _ => []
  | f+1, e => if e.chunk.isEmpty then [] else e.chunk ++ drain f (e.advance e.chunk.length)

def runPattern : Enc → List Nat → Varint.Bytes × Enc
  | e, [] => ([], e)
  | e, k :: ks =>
    let t := min k e.chunk.length
    let (r, e') := runPattern (e.advance t) ks
    (e.chunk.take t ++ r, e')

def handle : List String → String
  | ["dgram", "enc", sid, ph, pat] =>
    match sid.toNat?, parseHex ph, parsePattern pat with
    | some s, some p, some ks =>
      let m :=
        if s ≥ 2^62 then "refused" else
        match H3.Datagram.new s p with
        | none => "panic"
        | some (s, p) =>
          let e := encode s p
          let (y, e') := runPattern e ks
          let rest := drain (e'.remaining + 1) e'
          s!"ok {toHex (y ++ rest)} rem0={e.remaining}"
      let sp :=
        if s ≥ 2^62 then "refused" else if s % 4 ≠ 0 then "?" else
          let w := Varint.encode (s / 4) ++ p
          s!"ok {toHex w} rem0={w.length}"
      m ++ " ## " ++ sp
    | _, _, _ => "bad-op"
  | ["dgram", "dec", h] =>
    match parseHex h with
    | none => "bad-op"
    | some bs =>
      let m := match decode bs with
        | .ok s p => s!"ok {s} {toHex p}"
        | .datagramError => "err H3_DATAGRAM_ERROR"
      let sp := match Varint.rfcDecode bs with
        | none => "err H3_DATAGRAM_ERROR"
        | some (q, rest) => if 4 * q > 2^62 - 1 then "err H3_DATAGRAM_ERROR" else s!"ok {4 * q} {toHex rest}"
      m ++ " ## " ++ sp
  | _ => "bad-op"

end H3.Drv.C18
