import H3.Lemmas.DynPartial
/-! # C20 — the stateful QPACK encoder and decoder stay in agreement

Model: `H3.Model.Dyn` (tables, encoder, decoder), `H3.Model.DynSys` (the connected system: `step`
over `encode | deliverEnc | deliverBlock | deliverAck | setCapacity | cancel`, `run` over a history).
Oracle: `H3.Spec.Dyn` (abstract table = all insertions + eviction count + capacity).
All theorems quantify over every capacity, blocked-stream limit and history (induction over the
event list); `run s0 evs = some s` says the history `evs` was not ended by an error. -/
namespace H3.Props.C20
open H3.Dyn
open H3.Spec.Dyn (STable size)

/-- size and counter accounting of one `DynamicTable` -/
def Accounting (t : Table) : Prop :=
  t.currSize = size t.fields ∧ t.currSize ≤ t.maxSize ∧ t.maxSize ≤ 2 ^ 30 - 1 ∧
  t.vas.dropped ≤ t.vas.inserted ∧ t.vas.inserted - t.vas.dropped = t.fields.length ∧
  t.vas.delta = t.fields.length

private theorem accounting_of_abs {t : Table} {st : STable} (h : Abs t st) (hc : st.cap ≤ 1073741823) :
    Accounting t := by
  have := h.length
  refine ⟨h.curr, h.cap, by rw [h.max]; omega, by rw [h.drp, h.ins]; exact h.le, by rw [h.drp, h.ins]; omega, h.delta⟩

private theorem cap_le_of_init {cap bl : Nat} {s0 : Sys} (h0 : Sys.init cap bl = .ok s0) : cap ≤ 1073741823 := by
  unfold Sys.init at h0
  cases hc : Table.configured cap bl with
  | err e => rw [hc] at h0; simp at h0
  | panic p => rw [hc] at h0; simp at h0
  | ok t => have := (configured_spec hc).2; simpa [SETTINGS_MAX_TABLE_CAPACITY_MAX] using this

/-- **Capacity invariant.** After every history, in both tables: `curr_size` is the sum of the
    entry sizes and at most `max_size` (itself at most 2^30−1, so no `usize` addition wraps);
    `inserted − dropped` = number of entries = `delta`, and `dropped ≤ inserted` (no underflow).
    Moreover no operation of the encoder side or of the instruction streams (`encode`,
    `on_encoder_recv`, `on_decoder_recv`, `set_dynamic_table_size`, cancellation) can reach one of
    the panic sites (checked subtraction, `unwrap`, `assert!`, `% 0`) from a reachable state. -/
theorem C20_capacity_invariant (cap bl : Nat) (evs : List Event) (s0 s : Sys)
    (h0 : Sys.init cap bl = .ok s0) (hr : run s0 evs = some s) :
    Accounting s.enc ∧ Accounting s.dec ∧
    ∀ ev, (∀ sid, ev ≠ .deliverBlock sid) → ∀ p, step s ev ≠ .panic p := by
  obtain ⟨stE, stD, h⟩ := run_inv h0 hr
  have hc := cap_le_of_init h0
  have hcE := STable.run_cap_le h.enc.run (by simpa [initST] using hc)
  have hcD := STable.run_cap_le h.decRun (by simpa [initST] using hc)
  exact ⟨accounting_of_abs h.enc.abs hcE, accounting_of_abs h.decAbs hcD, fun ev hne p => step_no_panic h ev hne p⟩

/-- the blocks of a stream whose reference map the encoder still tracks (not yet released by a
    Section Acknowledgement or Stream Cancellation it has processed) -/
def unreleased (s : Sys) (sid : Nat) : List BlockRec :=
  ((s.stream sid).done ++ (s.stream sid).todo).drop (s.stream sid).npop

private theorem qsum_ge_of_mem {q : List RefMap} {m : RefMap} (h : m ∈ q) (a : Nat) : cnt m a ≤ qsum q a := by
  induction q with
  | nil => simp at h
  | cons x r ih =>
    rcases List.mem_cons.mp h with e | e
    · subst e; simp
    · have := ih e; simp; omega

/-- **No eviction of referenced entries.** In every reachable state
    (1) the reference count of every absolute index equals the sum of the references recorded for
        the outstanding (tracked) blocks;
    (2) the tracked blocks of a stream are exactly the blocks emitted on it that have not been
        released by an acknowledgement/cancellation the encoder has processed, in order;
    (3) every entry with a positive reference count is still in the table (not evicted), and so is
        every entry referenced by a representation of an unreleased block;
    (4) a step never evicts an entry whose reference count is positive before the step. -/
theorem C20_no_evict_referenced (cap bl : Nat) (evs : List Event) (s0 s : Sys)
    (h0 : Sys.init cap bl = .ok s0) (hr : run s0 evs = some s) :
    (∀ a, cnt s.enc.trackMap a = total s.enc.trackBlocks a) ∧
    (∀ sid, (aget s.enc.trackBlocks sid).getD [] = (unreleased s sid).map (·.refMap)) ∧
    (∀ a, 0 < cnt s.enc.trackMap a → s.enc.vas.dropped < a ∧ a ≤ s.enc.vas.inserted) ∧
    (∀ sid, ∀ b ∈ unreleased s sid, ∀ a ∈ b.refs, 0 < cnt s.enc.trackMap a ∧ s.enc.vas.dropped < a) ∧
    (∀ ev s' out, step s ev = .ok (s', out) → ∀ a, 0 < cnt s.enc.trackMap a → s'.enc.vas.dropped < a) := by
  obtain ⟨stE, stD, h⟩ := run_inv h0 hr
  have h1 : ∀ a, cnt s.enc.trackMap a = total s.enc.trackBlocks a := by
    intro a; have := h.enc.track.sum a; simpa using this
  have h2 : ∀ sid, (aget s.enc.trackBlocks sid).getD [] = (unreleased s sid).map (·.refMap) := by
    intro sid; rw [h.queues sid, getD_qOf]; rfl
  have h3 := h.enc.track.live
  refine ⟨h1, h2, h3, ?_, ?_⟩
  · intro sid b hb a ha
    -- `a` is referenced by a representation, hence counted in the block's map, hence in `track_map`
    have hbk : BlockOK stE.all b := h.blocks sid b (List.mem_of_mem_drop hb)
    obtain ⟨r, hr1, hr2⟩ := List.mem_filterMap.mp ha
    have hc := (hbk.refs r hr1 a hr2).1
    have hq := h2 sid
    have hmem : b.refMap ∈ (aget s.enc.trackBlocks sid).getD [] := by
      rw [hq]; exact List.mem_map.mpr ⟨b, hb, rfl⟩
    cases hg : aget s.enc.trackBlocks sid with
    | none => rw [hg] at hmem; simp at hmem
    | some q =>
      rw [hg] at hmem; simp at hmem
      have := qsum_ge_of_mem hmem a
      have := qsum_le_total a hg
      have hpos : 0 < cnt s.enc.trackMap a := by rw [h1]; omega
      exact ⟨hpos, (h3 a hpos).1⟩
  · intro ev s' out hs a ha
    have hl := h3 a ha
    cases ev with
    | encode sid fields =>
      obtain ⟨enc, stE', _, hi, hf, he, _⟩ := step_encode_inv h hs
      have hpos : 0 < cnt s'.enc.trackMap a := by rw [he]; have := hf.mono a; omega
      exact (hi.enc.track.live a hpos).1
    | deliverEnc k =>
      obtain ⟨s2, out2, stD', h2', _, he, _⟩ := step_deliverEnc_ok h k
      rw [h2'] at hs; simp at hs; obtain ⟨e1, _⟩ := hs; subst e1; rw [he]; exact hl.1
    | deliverBlock sid => rw [(step_deliverBlock_inv h hs).2.1]; exact hl.1
    | deliverAck k =>
      rcases step_deliverAck_inv h k with ⟨e, he⟩ | ⟨s2, out2, h2', _, hc, _⟩
      · rw [he] at hs; simp at hs
      · rw [h2'] at hs; simp at hs; obtain ⟨e1, _⟩ := hs; subst e1
        rw [hc.2.2.2.1]; exact hl.1
    | setCapacity c =>
      rcases step_setCapacity_inv h c with ⟨e, he⟩ | ⟨s2, out2, stE', h2', hi, _⟩
      · rw [he] at hs; simp at hs
      · rw [h2'] at hs; simp at hs; obtain ⟨e1, _⟩ := hs; subst e1
        -- `set_max_size` leaves `track_map` alone, and the invariant holds afterwards
        have htm : s2.enc.trackMap = s.enc.trackMap := by
          simp only [step, setDynamicTableSize] at h2'
          have ho := setMaxSize_spec h.enc.abs c
          generalize s.enc.setMaxSize c = r at ho h2'
          cases ho with
          | tooLarge _ => simp at h2'
          | pinned _ _ _ => simp at h2'
          | done t' _ _ haux _ _ _ =>
            simp at h2'; obtain ⟨e2, _⟩ := h2'; subst e2
            simpa [Table.aux] using congrArg (·.1) haux
        exact (hi.enc.track.live a (by rw [htm]; exact ha)).1
    | cancel sid =>
      obtain ⟨s2, out2, h2', _, he, _⟩ := step_cancel_inv h sid
      rw [h2'] at hs; simp at hs; obtain ⟨e1, _⟩ := hs; subst e1; rw [he]; exact hl.1

/-- contents and counters of a table (what `tables_agree` compares) -/
def core (t : Table) : List Field × Nat × Nat × Vas := (t.fields, t.currSize, t.maxSize, t.vas)

/-- **Tables agree.** Both tables are images of the oracle's abstract table under the same
    instruction log: the encoder's after *all* instructions emitted so far, the decoder's after the
    first `encDel` of them (those it has processed). Consequently (second part) whenever the decoder
    has processed exactly the instructions the encoder had emitted at some earlier point of the
    history, its table equals the encoder's table of that moment: entries, sizes and counters. -/
theorem C20_tables_agree (cap bl : Nat) (evs : List Event) (s0 s : Sys)
    (h0 : Sys.init cap bl = .ok s0) (hr : run s0 evs = some s) :
    (∃ stE stD, (initST cap).run s.encQ = some stE ∧ Abs s.enc stE ∧
       (initST cap).run (s.encQ.take s.encDel) = some stD ∧ Abs s.dec stD) ∧
    (∀ evs1 evs2 s1, evs = evs1 ++ evs2 → run s0 evs1 = some s1 → s.encDel = s1.encQ.length →
       core s.dec = core s1.enc) := by
  obtain ⟨stE, stD, h⟩ := run_inv h0 hr
  refine ⟨⟨stE, stD, h.enc.run, h.enc.abs, h.decRun, h.decAbs⟩, ?_⟩
  intro evs1 evs2 s1 hsplit hr1 hlen
  obtain ⟨stE1, stD1, h1⟩ := run_inv h0 hr1
  -- the log of the earlier state is the delivered prefix of the present log
  have hpre : s1.encQ = s.encQ.take s.encDel := by
    rw [hsplit, run_append, hr1] at hr
    obtain ⟨l, hl⟩ := run_encQ_mono (s := s1) (by simpa using hr)
    rw [hl, hlen]; simp
  have hrun1 := h1.enc.run
  rw [hpre, h.decRun] at hrun1
  simp at hrun1; subst hrun1
  obtain ⟨e1, e2, e3, e4⟩ := h.decAbs.core_eq h1.enc.abs
  simp [core, e1, e2, e3, e4]

/-! ## Blocked or exact

Full statement (for every history): *for every stream, the oldest section not yet decoded
decodes to exactly the field list that was encoded when the decoder has processed at least
`required` insertions (its Required Insert Count), and `decode_header` answers
`MissingRefs(required)` — blocked — otherwise; never an error, a panic or other fields.*

This is proved for the histories that contain no `setCapacity` and no `cancel` event
(`plainHistory`, a decidable predicate on the event list) and is FALSE without that restriction:
`C20_D20c_witness` (capacity change: a section is decoded to the wrong fields) and
`C20_D20d_witness` (cancellation: an error instead of "blocked") are the counterexamples, both
replayed against the real code by the check (known findings D-20c, D-20d). -/

/-- **Blocked or exact (partial: no capacity change, no cancellation in the history).**
    For the oldest undecoded section `b` of any stream:
    * `b.required` is the RFC's Required Insert Count of its representations, and they denote the
      original fields in the oracle's table of the encoder (§4.5);
    * decoder has `≥ b.required` insertions ⇒ `decode_header` returns exactly `b.orig`
      (with `dyn_ref = (required > 0)`), and the `deliverBlock` step reports those fields;
    * otherwise ⇒ `MissingRefs(b.required)`, the step reports `blocked` and changes nothing.
    A stream without undecoded section is skipped. -/
theorem C20_blocked_or_exact_partial (cap bl : Nat) (evs : List Event) (s0 s : Sys)
    (h0 : Sys.init cap bl = .ok s0) (hr : run s0 evs = some s) (hplain : plainHistory evs = true) (sid : Nat) :
    ((s.stream sid).todo = [] → step s (.deliverBlock sid) = .ok (s, .skip)) ∧
    ∀ b rest, (s.stream sid).todo = b :: rest →
      b.required = H3.Spec.Dyn.requiredInsertCount b.base b.blk.reps ∧
      (∃ stE, (initST cap).run s.encQ = some stE ∧ H3.Spec.Dyn.denote stE b.base b.blk.reps = some b.orig) ∧
      (b.required ≤ s.dec.vas.inserted →
        decodeHeader s.dec b.blk = .ok (b.orig, decide (b.required > 0)) ∧
        ∃ s', step s (.deliverBlock sid) = .ok (s', .blockOk b.orig)) ∧
      (s.dec.vas.inserted < b.required →
        decodeHeader s.dec b.blk = .err (.missingRefs b.required) ∧
        step s (.deliverBlock sid) = .ok (s, .blocked b.required)) := by
  obtain ⟨stE, stD, h, p⟩ := run_pinv h0 hplain hr
  have hnc := p.notCancelled sid
  constructor
  · intro ht; simp [step, hnc, ht]
  · intro b rest ht
    have hb : b ∈ (s.stream sid).todo := by rw [ht]; simp
    have hbk : BlockOK stE.all b := h.blocks sid b (List.mem_append_right _ hb)
    obtain ⟨hd1, hd2⟩ := decode_head h p ht
    have hins : s.dec.vas.inserted = stD.all.length := h.decAbs.ins
    refine ⟨hbk.required_eq_spec, ⟨stE, h.enc.run, ?_⟩, ?_, ?_⟩
    · exact denote_of_all hbk.den (fun r hr a ha =>
        (h.unreleased_live (p.todo_unreleased hb) (hbk.refs r hr a ha).1).1)
    · intro hle
      have := hd1 (by omega)
      refine ⟨this, ?_⟩
      simp only [step, hnc, ht, this]
      exact ⟨_, rfl⟩
    · intro hlt
      have := hd2 (by omega)
      exact ⟨this, by simp only [step, hnc, ht, this]⟩

/-- what `encode` puts on a stream is the caller's field list (so `b.orig` above *is* the original) -/
theorem C20_encode_records_original (cap bl : Nat) (evs : List Event) (s0 s s' : Sys) (sid : Nat)
    (fields : List Field) (out : Out) (h0 : Sys.init cap bl = .ok s0) (hr : run s0 evs = some s)
    (hs : step s (.encode sid fields) = .ok (s', out)) :
    ∃ b, (s'.stream sid).todo = (s.stream sid).todo ++ [b] ∧ b.orig = fields ∧
      (s'.stream sid).done = (s.stream sid).done ∧ ∀ x, x ≠ sid → s'.stream x = s.stream x := by
  obtain ⟨stE, stD, h⟩ := run_inv h0 hr
  obtain ⟨enc, stE', _, _, _, _, _, _, _, _, _, hst⟩ := step_encode_inv h hs
  have hstream := stream_of_aset hst
  refine ⟨.ofEncoded fields enc s.enc.maxSize, by rw [hstream sid, if_pos rfl], rfl, by rw [hstream sid, if_pos rfl], ?_⟩
  intro x hx; rw [hstream x, if_neg (Ne.symm hx)]

/-- **Prefix round trip.** `HeaderPrefix::get (HeaderPrefix::new r base total max) total' max = (r, base)`
    for every decoder insert count `total'` in the window of RFC 9204 §4.5.1.1
    (`total' − max/32 < r ≤ total' + max/32`); `r = 0` is transmitted as all zeroes. -/
theorem C20_prefix_roundtrip (r base total mx total' : Nat) :
    (0 < r → r ≤ total → 1 ≤ mx / 32 → r ≤ total' + mx / 32 → total' < r + mx / 32 →
      ∃ p, prefixNew r base total mx = .ok p ∧ prefixGet p total' mx = .ok (r, base)) ∧
    (prefixNew 0 base total mx = .ok ⟨0, false, 0⟩ ∧ prefixGet ⟨0, false, 0⟩ total' mx = .ok (0, 0)) :=
  ⟨fun h1 h2 h3 h4 h5 => prefix_roundtrip r base total mx total' h1 h2 h3 h4 h5, prefix_zero base total mx total'⟩

/-- the decoder's reconstruction of the Required Insert Count is the RFC's pseudo-code wherever
    that does not say "Error" -/
theorem C20_prefix_matches_rfc (eic total' mx r : Nat) (hM : 1 ≤ mx / 32)
    (h : H3.Spec.Dyn.decodeRIC eic (mx / 32) total' = some r) (hr : 0 < r) :
    prefixRequired eic total' mx = .ok r :=
  prefixRequired_matches_rfc eic total' mx r hM h hr

/-! ## Concrete histories (non-vacuity, and the two counterexamples) -/

def fa1 : Field := ⟨[97], [49]⟩
def fa2 : Field := ⟨[97], [50]⟩
def fb2 : Field := ⟨[98], [50]⟩
def fget : Field := ⟨[58, 109, 101, 116, 104, 111, 100], [71, 69, 84]⟩   -- :method GET (static)

def runFrom (cap bl : Nat) (evs : List Event) : Option Sys :=
  match Sys.init cap bl with
  | .ok s => run s evs
  | _ => none

/-- capacity for two entries; a duplicate, a name reference, an eviction, late instructions -/
def demo : List Event :=
  [.encode 0 [fa1, fb2, fget], .deliverBlock 0, .deliverEnc 1, .deliverBlock 0, .deliverEnc 5, .deliverBlock 0,
   .deliverAck 5, .encode 4 [fa1, fa2], .encode 4 [fb2], .deliverEnc 9, .deliverBlock 4, .deliverBlock 4, .deliverAck 9,
   .encode 8 [fa2, fa2]]

example : plainHistory demo = true := by decide
-- the history runs to the end: two entries of 34 bytes in a table of 70, two evicted, a duplicate emitted last,
-- the decoder two instructions behind
example : (runFrom 70 100 demo).map (fun s => (s.enc.currSize, s.enc.maxSize, s.enc.vas.inserted, s.enc.vas.dropped)) =
    some (68, 70, 4, 2) := by decide +kernel
example : (runFrom 70 100 demo).map (fun s => (s.dec.vas.inserted, s.encQ.length, (s.stream 8).todo.map (·.required))) =
    some (2, 4, [4]) := by decide +kernel
-- blocked first, exact later (the second `deliverBlock 0` of `demo` sees 1 of 2 required insertions)
example : (runFrom 70 100 (demo.take 2)).map (fun s => step s (.deliverBlock 0) |>.toOption.map (·.2)) =
    some (some (.blocked 2)) := by decide +kernel
example : (runFrom 70 100 (demo.take 5)).map (fun s => step s (.deliverBlock 0) |>.toOption.map (·.2)) =
    some (some (.blockOk [fa1, fb2, fget])) := by decide +kernel

-- the entries referenced by the unacknowledged last section (absolute indices 3 and 4) are pinned:
example : (runFrom 70 100 demo).map (fun s => (s.enc.trackMap, (unreleased s 8).map (·.refs))) =
    some ([(3, 3), (4, 1)], [[3, 4]]) := by decide +kernel
-- tables agree: after `demo.take 10` the decoder has processed the 2 instructions emitted by `demo.take 1`
example : (runFrom 70 100 (demo.take 10)).map (fun s => (s.encDel, core s.dec)) =
    (runFrom 70 100 (demo.take 1)).map (fun s => (s.encQ.length, core s.enc)) := by decide +kernel
example : prefixNew 5 2 5 70 = .ok ⟨2, true, 2⟩ ∧ prefixGet ⟨2, true, 2⟩ 4 70 = .ok (5, 2) := by decide

/-- **D-20c** (open): the Required Insert Count is encoded with the *current* capacity. A section
    encoded after `set_dynamic_table_size(40)` and read by a decoder that has not yet seen that
    instruction (capacity 200) decodes to the WRONG field (`a: 1` instead of `b: 2`), `dyn_ref` false. -/
theorem C20_D20c_witness :
    (runFrom 200 1 [.encode 0 [fa1], .deliverEnc 99, .deliverBlock 0, .deliverAck 99, .setCapacity 40,
        .encode 4 [fb2]]).map (fun s => ((s.stream 4).todo.map (·.orig), step s (.deliverBlock 4) |>.toOption.map (·.2))) =
      some ([[fb2]], some (.blockOk [fa1])) := by decide +kernel

/-- **D-20d** (open): after a Stream Cancellation the encoder evicts an entry the decoder never
    received; the next section, arriving before the encoder stream, is an error, not "blocked". -/
theorem C20_D20d_witness :
    (runFrom 35 100 [.encode 0 [fa1], .cancel 0, .deliverAck 9, .encode 4 [fa2]]).map
      (fun s => ((s.stream 4).todo.map (·.required), s.dec.vas.inserted, step s (.deliverBlock 4))) =
      some ([2], 0, .err .badPostbaseIndex) := by decide +kernel

/-! ## Totality

The theorems above speak about histories that were not ended by an error (`run s0 evs = some s`).
`encode` and `deliverEnc` never end one (`encode_spec`, `step_deliverEnc_ok`: every history), and by
`C20_blocked_or_exact_partial` neither does `deliverBlock` in a plain history. The remaining event
of a plain history is `deliverAck`: `Encoder::on_decoder_recv` answers `UnknownStreamId` to a
Section Acknowledgement for a stream without a tracked block, `InvalidTrackingCount` when the
reference counts do not match, and subtracts the acknowledged blocked streams from `blocked_count`. -/

/-- **Acknowledgement delivery is total (no capacity change, no cancellation in the history).**
    In every state reached by a plain history the encoder accepts whatever the decoder has written
    on the decoder stream, in every batching `k`: `on_decoder_recv` returns neither an error
    (`UnknownStreamId`, `InvalidTrackingCount`) nor reaches a panic site, all `min k (pending)`
    instructions handed over are consumed, and the decoder stream itself is untouched.
    Why: every Section Acknowledgement in flight on a stream belongs to a block that is decoded and
    not yet released by the encoder (`npop + inflight ≤ |done|`), so `untrack_block` finds its queue
    entry, whose reference counts are part of `track_map`; an Insert Count Increment only needs
    `blocked_count = Σ blocked_streams`; no Stream Cancellation is in the queue. -/
theorem C20_ack_delivery_total (cap bl : Nat) (evs : List Event) (s0 s : Sys)
    (h0 : Sys.init cap bl = .ok s0) (hr : run s0 evs = some s) (hplain : plainHistory evs = true) (k : Nat) :
    ∃ s' out, step s (.deliverAck k) = .ok (s', out) ∧
      out = .ackRecv (min k (s.decQ.length - s.decDel)) ∧
      s'.decDel = s.decDel + min k (s.decQ.length - s.decDel) ∧ s'.decQ = s.decQ := by
  obtain ⟨stE, stD, h, p⟩ := run_pinv h0 hplain hr
  obtain ⟨s', hs, h1, h2⟩ := step_deliverAck_ok h p k
  exact ⟨s', _, hs, rfl, h1, h2⟩

-- after `demo.take 6` two Insert Count Increments and the Section Acknowledgement of stream 0 are in flight;
-- delivered in one batch, all three are accepted and the block of stream 0 is released
example : plainHistory (demo.take 6) = true := by decide
example : (runFrom 70 100 (demo.take 6)).map (fun s => (s.decQ.drop s.decDel, inflight s 0, (s.stream 0).npop)) =
    some ([.incr 1, .incr 1, .ack 0], 1, 0) := by decide +kernel
example : (runFrom 70 100 (demo.take 6)).map (fun s =>
      step s (.deliverAck 5) |>.toOption.map (fun (r : Sys × Out) => (r.2, (r.1.stream 0).npop, r.1.decDel))) =
    some (some (.ackRecv 3, 1, 3)) := by decide +kernel
-- a smaller batch stops in front of the acknowledgement
example : (runFrom 70 100 (demo.take 6)).map (fun s =>
      step s (.deliverAck 2) |>.toOption.map (fun (r : Sys × Out) => (r.2, (r.1.stream 0).npop, r.1.decDel))) =
    some (some (.ackRecv 2, 0, 2)) := by decide +kernel
-- the error branch exists in the model: an acknowledgement nothing was decoded for (not a reachable state)
example : (runFrom 70 100 []).map (fun s => step { s with decQ := [.ack 0] } (.deliverAck 1)) =
    some (.err .unknownStreamId) := by decide +kernel

/-- **Plain histories never end in an error.** From an initial state, every history without
    capacity change and cancellation runs to its end: no call of `encode`, `on_encoder_recv`,
    `decode_header` (blocked is an answer, not an error) or `on_decoder_recv` in it returns an error
    or reaches a panic site. So for plain histories the hypothesis `run s0 evs = some s` of the
    theorems above only names the final state; it excludes nothing. -/
theorem C20_plain_history_total (cap bl : Nat) (evs : List Event) (s0 : Sys)
    (h0 : Sys.init cap bl = .ok s0) (hplain : plainHistory evs = true) :
    (∃ s, run s0 evs = some s) ∧
    ∀ s, run s0 evs = some s → ∀ ev, ev.plain = true → ∃ s' out, step s ev = .ok (s', out) := by
  refine ⟨run_plain_total h0 hplain, ?_⟩
  intro s hr ev hev
  obtain ⟨stE, stD, h, p⟩ := run_pinv h0 hplain hr
  exact step_plain_ok h p hev

example : (runFrom 70 100 demo).isSome = true := by decide +kernel
-- not so with a cancellation in the history (`C20_D20d_witness`): the next section is an error
example : runFrom 35 100 [.encode 0 [fa1], .cancel 0, .deliverAck 9, .encode 4 [fa2], .deliverBlock 4] = none := by
  decide +kernel

/-! ## The encoder stream in chunks (D-20f) and the blocked-stream limit (O-20e)

`Decoder::on_encoder_recv` takes any `Buf`; `parse_instruction` looks at `read.chunk()` only. The case-line op
`denc:<k>@<j>.<m>,…` hands the same `k` instructions over in several chunks (`H3.Dyn.stepCut`, `cutLen`, `innerCut`). -/

theorem foldl_min_le (l : List Nat) (a : Nat) : l.foldl min a ≤ a := by
  induction l generalizing a with
  | nil => exact Nat.le_refl _
  | cons x r ih => exact Nat.le_trans (ih (min a x)) (Nat.min_le_left a x)

theorem cutLen_le (ins : List EncInstr) (cuts : List (Nat × Nat)) : cutLen ins cuts ≤ ins.length :=
  foldl_min_le _ _

theorem cutLen_boundaries (ins : List EncInstr) (cuts : List (Nat × Nat))
    (h : ∀ c ∈ cuts, innerCut ins c = false) : cutLen ins cuts = ins.length := by
  have hf : cuts.filter (innerCut ins) = [] := by
    rw [List.filter_eq_nil_iff]
    intro c hc
    simp [h c hc]
  unfold cutLen
  rw [hf]
  rfl

/-- **Cut deliveries (partial).** FULL statement, which is FALSE (`C20_D20f_witness`): for all cuts
    `stepCut s k cuts = step s (.deliverEnc k)` — into which chunks the bytes of the encoder stream are split does not
    matter. Proved: (1) whatever the cuts, a cut delivery IS a whole delivery of a prefix of the instructions handed over
    (nothing is mis-parsed, reordered or lost; the rest stays at the head of the encoder stream), so every theorem of this
    file about histories covers histories with cut deliveries — an instruction that crosses a chunk boundary is an
    instruction that arrives late; (2) when no cut lies inside an instruction (chunks end at instruction boundaries, or
    the instruction has a single byte) the cut delivery is the whole delivery.
    Missing: the decoder stops in front of an instruction that crosses a chunk boundary (D-20f). -/
theorem C20_cut_delivery_partial (s : Sys) (k : Nat) (cuts : List (Nat × Nat)) :
    (∃ n, n ≤ (s.handed k).length ∧ stepCut s k cuts = step s (.deliverEnc n)) ∧
    ((∀ c ∈ cuts, innerCut (s.handed k) c = false) → stepCut s k cuts = step s (.deliverEnc k)) := by
  refine ⟨⟨_, cutLen_le _ _, rfl⟩, fun h => ?_⟩
  unfold stepCut
  rw [cutLen_boundaries _ _ h]
  have ht : (s.encQ.drop s.encDel).take ((s.handed k).length) = (s.encQ.drop s.encDel).take k := by
    unfold Sys.handed
    rw [List.take_eq_take_iff, List.length_take]
    omega
  simp only [step, ht]

def fb0 : Field := ⟨[98], []⟩

-- non-vacuity: three instructions (two insertions, a one-byte Duplicate); cuts in front of the second and "inside" the
-- Duplicate are no inner cuts, the delivery is whole; a cut inside the second insertion stops in front of it
example : (runFrom 4096 100 [.encode 0 [fa1, fb2, fa1]]).map (fun s =>
      (s.handed 9, (s.handed 9).map (·.oneByte), cutLen (s.handed 9) [(1, 0), (2, 1), (7, 3)], cutLen (s.handed 9) [(2, 1), (1, 3)])) =
    some ([.insertLit [97] [49], .insertLit [98] [50], .dup 1], [false, false, true], 3, 1) := by decide +kernel

/-- **D-20f** (open): both insertions of the section are handed to the decoder in ONE `Buf`, the first of them
    crossing a chunk boundary: `on_encoder_recv` processes nothing (whole delivery: both, Insert Count Increment 2) and
    the section stays blocked although the decoder was given everything it depends on. -/
theorem C20_D20f_witness :
    (runFrom 200 1 [.encode 0 [fa1, fb2]]).map (fun s =>
      (stepCut s 99 [(0, 2)] |>.toOption.map (fun r => (r.2, step r.1 (.deliverBlock 0) |>.toOption.map (·.2))),
       step s (.deliverEnc 99) |>.toOption.map (fun r => (r.2, step r.1 (.deliverBlock 0) |>.toOption.map (·.2))))) =
    some (some (.encRecv 0 0 none, some (.blocked 2)),
          some (.encRecv 2 2 (some 2), some (.blockOk [fa1, fb2]))) := by decide +kernel

/-- **O-20e** (observation; RFC 9204 2.1.2, not demanded by the property's text): with a blocked-stream limit of 1,
    after two sections on two streams the encoder has TWO streams that could become blocked (Required Insert Counts 2
    and 1, known received count 0): the second section's reference came from `find()`, which does not consult
    `blocked_count` (2 here, above `blocked_max` = 1). The history is plain; every theorem above holds for it. -/
theorem C20_O20e_blocked_limit_witness :
    plainHistory [.encode 0 [fb0, fa2], .encode 4 [fb2]] = true ∧
    (runFrom 200 1 [.encode 0 [fb0, fa2], .encode 4 [fb2]]).map (fun s =>
      ([atRisk s, s.enc.blockedMax, s.enc.blockedCount, s.enc.lkr], (s.stream 0).todo.map (·.required), (s.stream 4).todo.map (·.required))) =
    some ([2, 1, 2, 0], [2], [1]) :=
  ⟨by decide, by decide +kernel⟩

end H3.Props.C20
