import H3.Lemmas.PrefixInt
import H3.Lemmas.HuffTables
import H3.Lemmas.HuffFits
import H3.Lemmas.HuffEncFits
import H3.Lemmas.HuffLax
import H3.Model.PrefixString
/-! # C15 — QPACK prefixed integers and Huffman string literals

Property theorems only.  Models: `H3.PrefixInt` (`qpack/prefix_int.rs`), `H3.Huffman`
(`qpack/prefix_string/{decode,encode,bitwin}.rs`, tables regenerated from the sources into
`H3.Gen.HuffDec`/`H3.Gen.HuffEnc`), `H3.PrefixString` (`qpack/prefix_string/mod.rs`).
Specification: `H3.Spec.Huffman` (RFC 7541 §5.2 + Appendix B as 257 code lengths), `rfcDecode`
(RFC 7541 §5.1).

D-15 (recorded, not repaired).  `check_eof` judges only the bits after the last level boundary of
the decode tree, so the decoder accepts endings RFC 7541 §5.2 forbids.  The model keeps that
behaviour and flags it (`Huffman.lax`, second component of `hdecodeX`, computed by `Huffman.laxAt` from the
window `check_eof` accepted with; the flagged set is enumerated EXACTLY by `C15_huffman_lax_set_exact`, so the
exclusion below is a fixed set of shapes and not "whatever the decoder accepts beyond the RFC"); the strictness
half of the property is therefore proved as `C15_huffman_accepts_exactly_partial`, the full statement

    theorem C15_huffman_accepts_exactly (b s : List Nat) (hb : ∀ x ∈ b, x < 256) :
        Huffman.hdecode b = .ok s ↔ Spec.Huffman.specDecode b = some s

is FALSE for the code that exists (`C15_huffman_D15_witnesses`).  What is missing from it is
exactly the hypothesis `Huffman.lax b = false` in the direction `⇒`. -/
namespace H3.Props.C15
open H3.PrefixInt

/-! ## prefixed integers -/


/-- Round trip for every prefix size 1..8, any flags that fit, any value the decoder's range holds
    (contains every value < 2^62), any following bytes; no panic; output is bytes. -/
theorem C15_prefix_int_roundtrip (n flags v : Nat) (hn1 : 1 ≤ n) (hn8 : n ≤ 8)
    (hf : flags < 2 ^ (8 - n)) (hv : v - (2 ^ n - 1) < 2 ^ 63) (rest : List Nat) :
    encode? n flags v = some (encode n flags v) ∧
    (∀ b ∈ encode n flags v, b < 256) ∧
    decode? n (encode n flags v ++ rest) = some (.ok flags v rest) ∧
    decode n (encode n flags v ++ rest) = .ok flags v rest := by
  have hd := decode?_encode n flags v hn1 hn8 hf hv rest
  refine ⟨?_, encode_bytes n flags v hn8 hf, hd, decode_of_decode? hd⟩
  rw [encode_eq n flags v hn8 hf, encode?_eq n flags v hn8 hf]

example : encode 5 3 1337 = [127, 154, 10] ∧
    decode 5 (encode 5 3 1337 ++ [7, 200]) = .ok 3 1337 [7, 200] := by
  simp [encode, encode?, encLoop, decode, decode?, decLoop, H3.Gen.PrefixInt.MAX_POWER]
example : decode 8 (encode 8 0 (2 ^ 63 + 254) ++ [7]) = .ok 0 (2 ^ 63 + 254) [7] :=
  (C15_prefix_int_roundtrip 8 0 (2 ^ 63 + 254) (by decide) (by decide) (by decide) (by decide)
    [7]).2.2.2

/-- Values beyond the decoder's range: the encoder's own output is REJECTED with overflow (never
    altered).  (Holds for every natural `v`, in particular for every `u64`.) -/
theorem C15_prefix_int_encoder_beyond_range (n flags v : Nat) (hn1 : 1 ≤ n) (hn8 : n ≤ 8)
    (hf : flags < 2 ^ (8 - n)) (hv : 2 ^ 63 ≤ v - (2 ^ n - 1)) (rest : List Nat) :
    decode? n (encode n flags v ++ rest) = some .overflow ∧
    decode n (encode n flags v ++ rest) = .overflow := by
  have hd := decode?_encode_beyond n flags v hn1 hn8 hf hv rest
  exact ⟨hd, decode_of_decode? hd⟩

example : encode 8 0 (2 ^ 63 + 255) = [255, 128, 128, 128, 128, 128, 128, 128, 128, 128, 1] ∧
    decode 8 (encode 8 0 (2 ^ 63 + 255) ++ [7]) = .overflow := by
  simp [encode, encode?, encLoop, decode, decode?, decLoop, H3.Gen.PrefixInt.MAX_POWER]

/-- No panic: for a prefix size in 1..8 `decode` is the function computed by `decode?`. -/
theorem C15_prefix_int_no_panic (n : Nat) (hn1 : 1 ≤ n) (hn8 : n ≤ 8) (bs : List Nat)
    (hwf : ∀ b ∈ bs, b < 256) :
    decode? n bs = some (decode n bs) := by
  cases bs with
  | nil => rw [decode_nil n hn8, decode?_nil n hn8]
  | cons first r =>
    have h := decode?_cons n first r hn1 hn8 (hwf first (List.mem_cons_self ..))
    rw [decode_of_decode? h, h]

example : decode? 3 [7, 128, 1] = some (.ok 0 135 []) := by decide

/-- An `ok` result is the mathematical RFC 7541 §5.1 value, below 2^64 (no wrap of the `u64`
    accumulator), at most `2^n - 1 + 2^63 - 1`, with the RFC's rest and the flag bits. -/
theorem C15_prefix_int_ok_sound (n : Nat) (hn1 : 1 ≤ n) (hn8 : n ≤ 8) (bs : List Nat)
    (hwf : ∀ b ∈ bs, b < 256) (f v : Nat) (rest : List Nat) (h : decode n bs = .ok f v rest) :
    rfcDecode n bs = some (v, rest) ∧ v < 2 ^ 64 ∧ v - (2 ^ n - 1) < 2 ^ 63 ∧
    ∃ first r, bs = first :: r ∧ f = first / 2 ^ n := by
  have h256 := two_pow_le_256 hn8
  have hpos := Nat.two_pow_pos n
  cases bs with
  | nil => rw [decode_nil n hn8] at h; cases h
  | cons first r =>
    have hb : first < 256 := hwf first (List.mem_cons_self ..)
    have hwf' : ∀ x ∈ r, x < 256 := fun x hx => hwf x (List.mem_cons_of_mem _ hx)
    by_cases hs : first % 2 ^ n < 2 ^ n - 1
    · rw [decode_cons_unsat n first r hn1 hn8 hb hs] at h
      injection h with h1 h2 h3
      subst h1 h2 h3
      have h63 : (0 : Nat) < 2 ^ 63 := Nat.two_pow_pos 63
      refine ⟨rfcDecode_cons_unsat n first r hs, ?_, by omega, first, r, rfl, rfl⟩
      have : (256 : Nat) < 2 ^ 64 := by decide
      omega
    · rw [decode_cons_sat n first r hn1 hn8 hb hs] at h
      obtain ⟨hf, c, hc, hv, hlt⟩ :=
        decLoop_ok_sound _ r 9 0 _ f v rest hwf' rfl (by decide) h
      simp only [Nat.mul_zero, Nat.pow_zero, Nat.mul_one] at hv
      rw [← pow_63] at hlt
      subst hv
      refine ⟨rfcDecode_cons_sat_some n first r hs c rest hc, ?_, by omega, first, r, rfl, hf⟩
      have : (2 : Nat) ^ 64 = 2 ^ 63 + 2 ^ 63 := by decide
      have : (256 : Nat) < 2 ^ 63 := by decide
      omega

example : decode 3 [0xAF, 0xFF, 0x00, 9] = .ok 21 134 [9] ∧
    rfcDecode 3 [0xAF, 0xFF, 0x00, 9] = some (134, [9]) := by decide

/-- `UnexpectedEnd` exactly when a byte is missing: the input is empty, or the prefix is saturated
    and the input ends before a terminating continuation byte and before nine continuation bytes
    with the top bit set were seen. -/
theorem C15_prefix_int_endOf_iff (n : Nat) (hn1 : 1 ≤ n) (hn8 : n ≤ 8) (bs : List Nat)
    (hwf : ∀ b ∈ bs, b < 256) :
    (decode n bs = .endOf ↔
      bs = [] ∨ ∃ first r, bs = first :: r ∧ first % 2 ^ n = 2 ^ n - 1 ∧ r.length < 9 ∧
        ∀ b ∈ r, 128 ≤ b) ∧
    (decode n bs = .endOf ↔ rfcDecode n bs = none ∧ contLen bs.tail < 9) := by
  have hpos := Nat.two_pow_pos n
  cases bs with
  | nil => simp [decode_nil n hn8, rfcDecode_nil, contLen]
  | cons first r =>
    have hb : first < 256 := hwf first (List.mem_cons_self ..)
    have hwf' : ∀ x ∈ r, x < 256 := fun x hx => hwf x (List.mem_cons_of_mem _ hx)
    have hmod : first % 2 ^ n < 2 ^ n := Nat.mod_lt _ hpos
    by_cases hs : first % 2 ^ n < 2 ^ n - 1
    · rw [decode_cons_unsat n first r hn1 hn8 hb hs, rfcDecode_cons_unsat n first r hs]
      refine ⟨⟨fun h => (by cases h), ?_⟩, ⟨fun h => (by cases h), fun h => (by cases h.1)⟩⟩
      rintro (h | ⟨a, l, h, h', _⟩)
      · cases h
      · injection h with h1 h2; subst h1; omega
    · rw [decode_cons_sat n first r hn1 hn8 hb hs, decLoop_endOf_iff _ r 0 _ hwf' (by decide)]
      refine ⟨⟨fun ⟨h1, h2⟩ => Or.inr ⟨first, r, rfl, by omega, by omega, h2⟩, ?_⟩, ?_⟩
      · rintro (h | ⟨a, l, h, _, h1, h2⟩)
        · cases h
        · injection h with h3 h4; subst h3 h4; exact ⟨by omega, h2⟩
      · rw [List.tail_cons]
        constructor
        · intro ⟨h1, h2⟩
          refine ⟨rfcDecode_cons_sat_none n first r hs ((rfcCont_none_iff r).mpr h2), ?_⟩
          rw [contLen_of_all_ge r h2]; omega
        · intro ⟨h1, h2⟩
          cases hc : rfcCont r with
          | some p => rw [rfcDecode_cons_sat_some n first r hs p.1 p.2 hc] at h1; cases h1
          | none =>
            have hall := (rfcCont_none_iff r).mp hc
            rw [contLen_of_all_ge r hall] at h2
            exact ⟨by omega, hall⟩

example : decode 3 [7, 128, 128, 128, 128, 128, 128, 128, 128] = .endOf ∧
    decode 3 [6] = .ok 0 6 [] := by decide

/-- `Overflow` exactly when the prefix is saturated and the first nine continuation bytes all have
    the top bit set. -/
theorem C15_prefix_int_overflow_iff (n : Nat) (hn1 : 1 ≤ n) (hn8 : n ≤ 8) (bs : List Nat)
    (hwf : ∀ b ∈ bs, b < 256) :
    (decode n bs = .overflow ↔
      ∃ first r, bs = first :: r ∧ first % 2 ^ n = 2 ^ n - 1 ∧ 9 ≤ r.length ∧
        ∀ b ∈ r.take 9, 128 ≤ b) := by
  have hpos := Nat.two_pow_pos n
  cases bs with
  | nil =>
    rw [decode_nil n hn8]
    exact ⟨fun h => (by cases h), fun ⟨_, _, h, _⟩ => (by cases h)⟩
  | cons first r =>
    have hb : first < 256 := hwf first (List.mem_cons_self ..)
    have hwf' : ∀ x ∈ r, x < 256 := fun x hx => hwf x (List.mem_cons_of_mem _ hx)
    have hmod : first % 2 ^ n < 2 ^ n := Nat.mod_lt _ hpos
    by_cases hs : first % 2 ^ n < 2 ^ n - 1
    · rw [decode_cons_unsat n first r hn1 hn8 hb hs]
      refine ⟨fun h => (by cases h), ?_⟩
      rintro ⟨a, l, h, h', _⟩
      injection h with h1 h2; subst h1; omega
    · rw [decode_cons_sat n first r hn1 hn8 hb hs,
        decLoop_overflow_iff _ r 9 0 _ hwf' rfl (by decide)]
      refine ⟨fun ⟨h1, h2⟩ => ⟨first, r, rfl, by omega, h1, h2⟩, ?_⟩
      rintro ⟨a, l, h, _, h1, h2⟩
      injection h with h3 h4; subst h3 h4; exact ⟨h1, h2⟩

example : decode 3 [7, 128, 128, 128, 128, 128, 128, 128, 128, 128, 1] = .overflow ∧
    decode 3 [7, 128, 128, 128, 128, 128, 128, 128, 128, 1] = .ok 0 72057594037927943 [] := by
  decide

/-- Completeness: an RFC value whose prefix is not saturated, or whose encoding has at most nine
    continuation bytes (this covers every value below `2^n - 1 + 2^63` in its shortest encoding),
    is decoded, with the RFC's rest. -/
theorem C15_prefix_int_complete (n : Nat) (hn1 : 1 ≤ n) (hn8 : n ≤ 8) (bs : List Nat)
    (hwf : ∀ b ∈ bs, b < 256) (v : Nat) (rest : List Nat)
    (h : rfcDecode n bs = some (v, rest)) (hlen : v < 2 ^ n - 1 ∨ contLen bs.tail ≤ 9) :
    ∃ first r, bs = first :: r ∧ decode n bs = .ok (first / 2 ^ n) v rest := by
  cases bs with
  | nil => rw [rfcDecode_nil] at h; cases h
  | cons first r =>
    have hb : first < 256 := hwf first (List.mem_cons_self ..)
    have hwf' : ∀ x ∈ r, x < 256 := fun x hx => hwf x (List.mem_cons_of_mem _ hx)
    refine ⟨first, r, rfl, ?_⟩
    by_cases hs : first % 2 ^ n < 2 ^ n - 1
    · rw [rfcDecode_cons_unsat n first r hs] at h
      injection h with h; injection h with h1 h2; subst h1 h2
      exact decode_cons_unsat n first r hn1 hn8 hb hs
    · cases hc : rfcCont r with
      | none => rw [rfcDecode_cons_sat_none n first r hs hc] at h; cases h
      | some p =>
        obtain ⟨c, rest'⟩ := p
        rw [rfcDecode_cons_sat_some n first r hs c rest' hc] at h
        injection h with h; injection h with h1 h2; subst h1 h2
        have hlen' : contLen r ≤ 9 := by
          rcases hlen with hlen | hlen
          · omega
          · exact hlen
        rw [decode_cons_sat n first r hn1 hn8 hb hs,
          decLoop_complete _ r 0 _ c _ hwf' hc (by omega)]
        simp only [Nat.mul_zero, Nat.pow_zero, Nat.mul_one]

example : rfcDecode 5 [31, 154, 10, 4] = some (1337, [4]) ∧ contLen [154, 10, 4] = 2 ∧
    decode 5 [31, 154, 10, 4] = .ok 0 1337 [4] := by decide

/-- Decoding never wraps: on EVERY byte string (bytes < 256), for every prefix size 1..8 -/
theorem C15_prefix_int_no_wrap (n : Nat) (hn1 : 1 ≤ n) (hn8 : n ≤ 8) (bs : List Nat)
    (hwf : ∀ b ∈ bs, b < 256) :
    decode? n bs = some (decode n bs) ∧                                   -- no panic
    -- an ok result is the mathematical RFC 7541 §5.1 value, below 2^64, with the RFC's rest and
    -- the flag bits
    (∀ f v rest, decode n bs = .ok f v rest →
        rfcDecode n bs = some (v, rest) ∧ v < 2 ^ 64 ∧ v - (2 ^ n - 1) < 2 ^ 63 ∧
        ∃ first r, bs = first :: r ∧ f = first / 2 ^ n) ∧
    -- a missing byte gives endOf, and only that
    (decode n bs = .endOf ↔
      (rfcDecode n bs = none ∧
        (bs = [] ∨ contLen bs.tail < 9 ∨ bs.head! % 2 ^ n < 2 ^ n - 1))) ∧
    -- overflow exactly when the prefix is saturated and the first nine continuation bytes all
    -- have the top bit set
    (decode n bs = .overflow ↔
        ∃ first r, bs = first :: r ∧ first % 2 ^ n = 2 ^ n - 1 ∧ 9 ≤ r.length ∧
          ∀ b ∈ r.take 9, 128 ≤ b) ∧
    -- completeness: an RFC value whose encoding has at most nine continuation bytes is decoded
    (∀ v rest, rfcDecode n bs = some (v, rest) → contLen bs.tail ≤ 9 →
        ∃ first r, bs = first :: r ∧ decode n bs = .ok (first / 2 ^ n) v rest) := by
  refine ⟨C15_prefix_int_no_panic n hn1 hn8 bs hwf,
    fun f v rest h => C15_prefix_int_ok_sound n hn1 hn8 bs hwf f v rest h, ?_,
    C15_prefix_int_overflow_iff n hn1 hn8 bs hwf,
    fun v rest h hl => C15_prefix_int_complete n hn1 hn8 bs hwf v rest h (Or.inr hl)⟩
  rw [(C15_prefix_int_endOf_iff n hn1 hn8 bs hwf).2]
  constructor
  · exact fun ⟨h1, h2⟩ => ⟨h1, Or.inr (Or.inl h2)⟩
  · rintro ⟨h1, h2 | h2 | h2⟩
    · subst h2; exact ⟨h1, by simp [contLen]⟩
    · exact ⟨h1, h2⟩
    · cases bs with
      | nil => exact ⟨h1, by simp [contLen]⟩
      | cons first r =>
        have h2' : first % 2 ^ n < 2 ^ n - 1 := h2
        rw [rfcDecode_cons_unsat n first r h2'] at h1; cases h1

example : decode 6 [63, 255, 255, 255, 255, 255, 255, 255, 255, 127, 42]
      = .ok 0 (2 ^ 6 - 1 + (2 ^ 63 - 1)) [42] ∧
    decode 6 [63, 255, 255, 255, 255, 255, 255, 255, 255, 255, 0] = .overflow ∧
    decode 6 [63, 255, 255] = .endOf := by decide


/-! ## Huffman -/

open H3.Bits H3.Spec.Huffman in
/-- The three tables agree.  (a) The root-to-symbol paths of the generated decode tree, in table
    order, are exactly the canonical code words of the RFC's 256 byte lengths in canonical order
    (so every byte has one path and EOS has none); (b) the generated encode table's row of every
    byte — as (bit count, value) and in the byte-parts form `put` uses — is that code word;
    (c) walking a byte's code word down the tree yields the byte; (d) the hand-typed lengths are
    257 numbers in 5..30 satisfying Kraft's equality (the code is complete), and EOS is thirty ones. -/
theorem C15_huffman_tables_agree :
    Huffman.pathsL H3.Gen.HuffDec.root = codes.take 256 ∧
    (∀ c < 256, Huffman.codeT c = codeOf c) ∧
    (∀ c < 256, Huffman.rowOK c = true) ∧
    (∀ s < 256, Huffman.walkL H3.Gen.HuffDec.root (codeOf s) = .sym s []) ∧
    codeLengths.length = 257 ∧ (∀ l ∈ codeLengths, 5 ≤ l ∧ l ≤ 30) ∧
    (codeLengths.map fun l => 2 ^ (30 - l)).sum = 2 ^ 30 ∧
    codeOf 256 = List.replicate 30 true ∧
    H3.Gen.HuffDec.levelCount = 89 :=
  ⟨Huffman.root_paths_eq, Huffman.codeT_eq_codeOf, Huffman.rows_ok, Huffman.root_walk_code,
    by decide +kernel, by decide +kernel, by decide +kernel, codeOf_eos, rfl⟩

-- RFC 7541 Appendix C.4.1 / C.4.2 / C.6.1: www.example.com, no-cache, custom-key, custom-value
example : Huffman.hencode? [119, 119, 119, 46, 101, 120, 97, 109, 112, 108, 101, 46, 99, 111, 109] =
    some [0xf1, 0xe3, 0xc2, 0xe5, 0xf2, 0x3a, 0x6b, 0xa0, 0xab, 0x90, 0xf4, 0xff] := by decide +kernel
example : Spec.Huffman.specEncode [119, 119, 119, 46, 101, 120, 97, 109, 112, 108, 101, 46, 99, 111, 109] =
    [0xf1, 0xe3, 0xc2, 0xe5, 0xf2, 0x3a, 0x6b, 0xa0, 0xab, 0x90, 0xf4, 0xff] := by decide +kernel
example : Spec.Huffman.specEncode [110, 111, 45, 99, 97, 99, 104, 101] = [0xa8, 0xeb, 0x10, 0x64, 0x9c, 0xbf] := by
  decide +kernel
example : Spec.Huffman.specEncode [99, 117, 115, 116, 111, 109, 45, 107, 101, 121] =
    [0x25, 0xa8, 0x49, 0xe9, 0x5b, 0xa9, 0x7d, 0x7f] := by decide +kernel
example : Spec.Huffman.specEncode [99, 117, 115, 116, 111, 109, 45, 118, 97, 108, 117, 101] =
    [0x25, 0xa8, 0x49, 0xe9, 0x5b, 0xb8, 0xe8, 0xb4, 0xbf] := by decide +kernel
example : Huffman.hdecode [0xa8, 0xeb, 0x10, 0x64, 0x9c, 0xbf] = .ok [110, 111, 45, 99, 97, 99, 104, 101] := by
  decide +kernel
example : Spec.Huffman.specDecode [0x25, 0xa8, 0x49, 0xe9, 0x5b, 0xa9, 0x7d, 0x7f] =
    some [99, 117, 115, 116, 111, 109, 45, 107, 101, 121] := by decide +kernel

/-- Round trip for every byte string whose Huffman coding fits the encoder's `u32` positions (`hfit`: coding
    length `L` with `7·L < 2^32`, i.e. shorter than 613 566 757 bytes, about 585 MiB — a decidable hypothesis):
    the encoder does not panic, its output is the RFC 7541 §5.2 encoding (the code words concatenated, filled up
    with ones to the byte boundary — `specEncode s = pack (enc s)`), consists of bytes, and the decoder returns
    `s` from it through the strict branch (no reliance on D-15); no machine operation of the real encoder
    overflows on the way (last clause: the checked encoder `hencodeC`, both shapes of `put`, every growth policy
    of `Vec`, is `hencode`).
    The statement WITHOUT `hfit` ("for every `s`", as this theorem used to read) is FALSE OF THE CODE: the model
    `hencode?` keeps the positions in `Nat`, the code in `u32`, and `(7 * end_range.byte) / 4` resp.
    `self.byte += self.bit / 8` overflow — `C15_huffman_encoder_positions_fit` (2), (3); site D-15e; witnesses on
    the real code `huff encn 0a 450000000` (`attempt to multiply with overflow` in `HuffmanEncoder::put`, build
    with overflow checks) and 1 150 000 000 × `0a` through `encode_stateless` in plain `--release` (index out of
    bounds after `byte` wrapped). -/
theorem C15_huffman_roundtrip (s : List Nat) (hs : ∀ x ∈ s, x < 256)
    (hfit : 7 * (Huffman.hencode s).length < 2 ^ 32) :
    Huffman.hencode? s = some (Huffman.hencode s) ∧
    Huffman.hencode s = Spec.Huffman.specEncode s ∧
    H3.Bits.bitsOf (Huffman.hencode s) = Spec.Huffman.enc s ++
      List.replicate ((8 - (Spec.Huffman.enc s).length % 8) % 8) true ∧
    (∀ b ∈ Huffman.hencode s, b < 256) ∧
    Huffman.hdecodeX (Huffman.hencode s) = .ok (s, false) ∧
    Huffman.hdecode (Huffman.hencode s) = .ok s ∧
    Huffman.lax (Huffman.hencode s) = false ∧
    ∀ g grow, Huffman.hencodeC g grow s = some (.ok (Huffman.hencode s)) := by
  have hx := Huffman.hdecodeX_hencode s hs
  refine ⟨?_, Huffman.hencode_spec s hs, ?_, ?_, hx, ?_, ?_, fun g grow => Huffman.hencodeC_eq g grow s hs hfit⟩
  · rw [Huffman.hencode?_eq s hs, Huffman.hencode_eq s hs]
  · rw [Huffman.hencode_spec s hs, Spec.Huffman.specEncode, H3.Bits.bitsOf_pack]
  · rw [Huffman.hencode_eq s hs]; exact H3.Bits.pack_lt _
  · simp [Huffman.hdecode, hx]
  · simp [Huffman.lax, hx]

example : Huffman.hencode [0, 255, 97] = [255, 199, 255, 255, 220, 63] ∧
    Huffman.hdecode [255, 199, 255, 255, 220, 63] = .ok [0, 255, 97] := by decide +kernel

/-- The Huffman ENCODER's positions fit `u32` — up to a bound, and not beyond it (site D-15e).
    `Huffman.hencodeC g grow` is the encoder with every machine operation of `encode.rs` / `bitwin.rs` written
    out (`BitWindow::forwards` on `u32`, `(7 * end_range.byte) / 4` on `u32`, `pos.bit + pos.count`,
    `pos.byte + 1`, the subtractions, shifts and indexings of `write_bits`), `none` = one of them overflows;
    `g` = the shape of `put` / `ensure_free_space` (`false`: as it was; `true`: repaired — reservation in
    `usize`, `Err` once `buffer_pos.byte > u32::MAX - 8`); `grow` = what `Vec` does when it has to grow (the
    reservation is computed only when `capacity() <= end_range.byte`), arbitrary.
    (1) For EVERY byte string whose coding has `L` bytes with `7·L < 2^32`, both shapes, every `grow`: nothing
        overflows and the answer is `Ok` of the model's bytes (`hencode`, positions in `Nat`: the function all
        other C15 / C11 / C10 theorems are about).
    (2) The bound is needed, old shape: EVERY byte string whose coding is longer than `2^32` bytes overflows,
        whatever `Vec` does (`self.byte += self.bit / 8` at the latest; in a build without overflow checks the
        wrapped `byte` then indexes out of range: the `--release` witness, 1 150 000 000 × `0a`).
    (3) Old shape, between the two: whenever the reservation is computed (`len ≤ b`, `capacity ≤ b`) for a byte
        position `b` with `7·b ≥ 2^32` the multiplication overflows (by the arithmetic) — a panic in a build
        with overflow checks (`huff encn 0a 450000000`), a harmlessly smaller reservation in one without.
    (4) Behind the three `debug_assert!`s of `write_bits` its subtractions, shift amounts and table indexes are
        in range.
    (5) The tree under check has the shape the translator says (`hugeCodingRefused`; any third shape of
        `put` / `ensure_free_space` / `write_bits` / `forwards` is refused by the translator).
    (6) Repaired shape: on EVERY byte string, whatever `Vec` does, nothing overflows — the answer is `Err`
        (`tooLong`) or `Ok` of the model's bytes (`huff encn 0a 1145324611`: a coding of 2^32 − 4 bytes is
        written, one symbol more is refused). -/
theorem C15_huffman_encoder_positions_fit :
    (∀ (g : Bool) (grow : Nat → Nat → Nat) (s : List Nat), (∀ x ∈ s, x < 256) →
      7 * (Huffman.hencode s).length < 2 ^ 32 →
      Huffman.hencodeC g grow s = some (.ok (Huffman.hencode s))) ∧
    (∀ (grow : Nat → Nat → Nat) (s : List Nat), (∀ x ∈ s, x < 256) → 2 ^ 32 < (Huffman.hencode s).length →
      Huffman.hencodeC false grow s = none) ∧
    (∀ (grow : Nat → Nat → Nat) (e : Huffman.EncoderC) (cnt : Nat),
      e.buffer.length ≤ (e.pos.endPos + cnt) / 8 → e.cap ≤ (e.pos.endPos + cnt) / 8 →
      2 ^ 32 ≤ 7 * ((e.pos.endPos + cnt) / 8) → Huffman.ensureFreeSpaceC false grow e cnt = none) ∧
    (∀ bit < 8, ∀ count < 9, 1 ≤ count →
      (bit + count ≤ 8 → bit ≤ 8 ∧ 8 - bit - count < 8 ∧ bit + count ≤ 8 ∧ 8 - bit ≤ 8 ∧ 8 - count - bit ≤ 8) ∧
      (8 < bit + count → 8 - bit ≤ count ∧ count - (8 - bit) < 8 ∧ count - (8 - bit) ≤ 8 ∧
        8 - (count - (8 - bit)) < 8 ∧ 8 - bit ≤ 8)) ∧
    (∀ grow s, Huffman.hencodeT grow s = Huffman.hencodeC H3.Gen.HuffEnc.hugeCodingRefused grow s) ∧
    (∀ (grow : Nat → Nat → Nat) (s : List Nat), (∀ x ∈ s, x < 256) →
      Huffman.hencodeC true grow s = some .tooLong ∨
      Huffman.hencodeC true grow s = some (.ok (Huffman.hencode s))) :=
  ⟨Huffman.hencodeC_eq, Huffman.hencodeC_overflow, Huffman.ensureFreeSpaceC_mul_overflow,
    Huffman.writeBits_ops_in_range, fun _ _ => rfl, Huffman.hencodeC_repaired⟩

-- the checked encoder on RFC 7541 C.4.1 (both shapes, the standard library's growth); the reservation at byte
-- position 613 566 757 = ⌈2^32 / 7⌉ (old shape: overflow; repaired: none); the repaired `put` near `u32::MAX`
example : Huffman.hencodeC false Huffman.stdGrow [119, 119, 119, 46, 101, 120, 97, 109, 112, 108, 101, 46, 99, 111, 109] =
    some (.ok [0xf1, 0xe3, 0xc2, 0xe5, 0xf2, 0x3a, 0x6b, 0xa0, 0xab, 0x90, 0xf4, 0xff]) ∧
    Huffman.hencodeC true Huffman.stdGrow [119, 119, 119, 46, 101, 120, 97, 109, 112, 108, 101, 46, 99, 111, 109] =
    some (.ok [0xf1, 0xe3, 0xc2, 0xe5, 0xf2, 0x3a, 0x6b, 0xa0, 0xab, 0x90, 0xf4, 0xff]) := by decide +kernel
example : Huffman.ensureFreeSpaceC false Huffman.stdGrow ⟨⟨613566756, 7, 1⟩, [], 0⟩ 5 = none ∧
    (Huffman.ensureFreeSpaceC false Huffman.stdGrow ⟨⟨613566755, 7, 1⟩, [], 0⟩ 5).isSome = true ∧
    Huffman.putC true Huffman.stdGrow ⟨⟨2 ^ 32 - 8, 0, 0⟩, [], 0⟩ 97 = some none := by
  refine ⟨Huffman.ensureFreeSpaceC_mul_overflow _ _ _ (by decide) (by decide) (by decide), ?_, by decide +kernel⟩
  obtain ⟨e', h, _⟩ := Huffman.ensureFreeSpaceC_eq false Huffman.stdGrow ⟨⟨613566755, 7, 1⟩, [], 0⟩ 5
    (by decide) (by decide) (by decide) (by decide) (fun _ => by decide)
  rw [h]; rfl

/-- Strictness, as far as it holds for the code that exists.  For every byte string `b`:
    whatever RFC 7541 §5.2 allows is accepted with the same bytes, through the strict branch;
    an acceptance through the strict branch (`lax = false`) is allowed by the RFC, with the same
    bytes; an acceptance through the lax branch (`lax = true`, site D-15) is always a string the
    RFC forbids; the model's loop bound is never reached.  `Huffman.lax b` is computable. -/
theorem C15_huffman_accepts_exactly_partial (b : List Nat) (hb : ∀ x ∈ b, x < 256) (s : List Nat) :
    (Spec.Huffman.specDecode b = some s → Huffman.hdecodeX b = .ok (s, false)) ∧
    (Huffman.hdecodeX b = .ok (s, false) → Spec.Huffman.specDecode b = some s) ∧
    (Huffman.hdecodeX b = .ok (s, true) → Spec.Huffman.specDecode b = none) ∧
    (Spec.Huffman.specDecode b = some s → Huffman.hdecode b = .ok s ∧ Huffman.lax b = false) ∧
    (Huffman.hdecode b = .ok s → Huffman.lax b = false → Spec.Huffman.specDecode b = some s) ∧
    Huffman.hdecodeX b ≠ .error .fuel := by
  have hfwd : Spec.Huffman.specDecode b = some s → Huffman.hdecodeX b = .ok (s, false) := by
    intro h
    obtain ⟨hs, pad, hbits, hp⟩ := (Spec.Huffman.specDecode_iff b s).mp h
    exact Huffman.hdecodeX_complete b hb s pad hs hbits hp
  have hbwd : ∀ s', Huffman.hdecodeX b = .ok (s', false) → Spec.Huffman.specDecode b = some s' := by
    intro s' h
    obtain ⟨hs, tail, hbits, hl⟩ := Huffman.hdecodeX_sound b hb s' false h
    refine (Spec.Huffman.specDecode_iff b s').mpr ⟨hs, tail, hbits, ?_⟩
    cases hv : Spec.Huffman.validPad tail
    · rw [hv] at hl; cases hl
    · rfl
  refine ⟨hfwd, hbwd s, ?_, ?_, ?_, Huffman.hdecodeX_ne_fuel b hb⟩
  · intro h
    cases hsp : Spec.Huffman.specDecode b with
    | none => rfl
    | some s' =>
      have hfwd' : Huffman.hdecodeX b = .ok (s', false) := by
        obtain ⟨hs, pad, hbits, hp⟩ := (Spec.Huffman.specDecode_iff b s').mp hsp
        exact Huffman.hdecodeX_complete b hb s' pad hs hbits hp
      rw [h] at hfwd'; cases hfwd'
  · intro h
    have := hfwd h
    simp [Huffman.hdecode, Huffman.lax, this]
  · intro h hl
    cases hx : Huffman.hdecodeX b with
    | error e => simp [Huffman.hdecode, hx] at h
    | ok v =>
      obtain ⟨r, l⟩ := v
      simp only [Huffman.hdecode, hx, Except.ok.injEq] at h
      simp only [Huffman.lax, hx] at hl
      subst h hl
      exact hbwd r hx

example : Spec.Huffman.specDecode [0x18, 0xff] = some [97, 97] ∧
    Huffman.hdecodeX [0x18, 0xff] = .ok ([97, 97], false) := by decide +kernel

open H3.Bits H3.Spec.Huffman H3.Huffman in
/-- The D-15 set, EXACTLY (so that the exclusion `lax = false` of `C15_huffman_accepts_exactly_partial` is a known,
    enumerated set and not "whatever the decoder accepts beyond the RFC": any further loosening of `check_eof`,
    once modelled, makes this theorem false instead of widening the waiver).
    For a byte string `b`, let `tail` be the bits behind the last complete symbol.  The level tree consumes a path
    `c` of it up to the level boundary at which the next level's `lookup` bits are not there (`walkL root (c ++ q) =
    .short q`: `c` = what the levels above have taken, `q` = what is left), and `check_eof` judges `q` alone.
    (1) ALL the decoder accepts, flag included: `enc s ++ tail` where `q` is empty (arm `Ordering::Greater`) or at
        most eight bits, all ones (arm `Ordering::Equal`: the rest of the last byte); flag = `tail` is no valid
        padding.
    (2) Accepted although RFC 7541 §5.2 forbids it (flag `true`, printed `#D-15`) IFF moreover `c ++ q` is longer
        than 7 bits, or `c` has a zero bit.  That is: (a) padding of 8 bits or more, all ones, most of which the
        levels have swallowed (`ff`: `11111111|`), up to and including the 30 ones of EOS and more (`ffffffff`:
        30 ones `|11`); (b) the beginning of a code word that is not all ones, cut at a level boundary, alone or
        followed by at most eight ones (`18ef`: `10111|1`; `fe`: `11111110|`) — "padding not a prefix of EOS".
        Nothing else: in particular never a `q` with a zero bit, never more than eight unjudged bits behind the
        level boundary, never a `.unhandled` table slot.
    (3) The same for `Huffman.lax`, the flag the driver prints.
    (4) The flag is computed from the branch, not from the RFC: `Huffman.laxAt` takes the window `check_eof` was
        called with (the level's window) and the start of the unfinished symbol, and says "bits consumed above the
        level + bits judged > 7, or a consumed bit is zero"; on every accepting step that is `!padOK` (the RFC's
        rule on the bits behind the last complete symbol). -/
theorem C15_huffman_lax_set_exact (b : List Nat) (hb : ∀ x ∈ b, x < 256) :
    (∀ s l, hdecodeX b = .ok (s, l) ↔
      (∀ x ∈ s, x < 256) ∧ ∃ tail q, bitsOf b = enc s ++ tail ∧ walkL H3.Gen.HuffDec.root tail = .short q ∧
        (q = [] ∨ (q.length ≤ 8 ∧ ∀ x ∈ q, x = true)) ∧ l = !validPad tail) ∧
    (∀ s, hdecodeX b = .ok (s, true) ↔
      (∀ x ∈ s, x < 256) ∧ ∃ c q, bitsOf b = enc s ++ (c ++ q) ∧
        walkL H3.Gen.HuffDec.root (c ++ q) = .short q ∧
        (q = [] ∨ (q.length ≤ 8 ∧ ∀ x ∈ q, x = true)) ∧
        (7 < c.length + q.length ∨ ∃ x ∈ c, x = false)) ∧
    (Huffman.lax b = true ↔ ∃ s,
      (∀ x ∈ s, x < 256) ∧ ∃ c q, bitsOf b = enc s ++ (c ++ q) ∧
        walkL H3.Gen.HuffDec.root (c ++ q) = .short q ∧
        (q = [] ∨ (q.length ≤ 8 ∧ ∀ x ∈ q, x = true)) ∧
        (7 < c.length + q.length ∨ ∃ x ∈ c, x = false)) ∧
    (∀ w w', w.endPos ≤ 8 * b.length → decodeNext H3.Gen.HuffDec.root w b = (w', .done) →
      laxAt b w.endPos w' = !padOK b w.endPos) := by
  refine ⟨fun s l => ?_, fun s => lax_iff b hb s, ?_, fun w w' hpos h => laxAt_eq b hb w w' hpos h⟩
  · rw [hdecodeX_iff b hb s l]
    simp only [eofOK_iff]
  · constructor
    · intro h
      unfold Huffman.lax at h
      cases hx : hdecodeX b with
      | error e => rw [hx] at h; cases h
      | ok v =>
        obtain ⟨s, l⟩ := v
        rw [hx] at h
        simp only at h
        subst h
        exact ⟨s, (lax_iff b hb s).mp hx⟩
    · rintro ⟨s, h⟩
      have := (lax_iff b hb s).mpr h
      simp [Huffman.lax, this]

-- the witnesses in the terms of the theorem: `ff` = the levels swallow all eight ones, nothing is left to judge
-- (`Greater`); `ffffffff` = they swallow the 30 ones of EOS, two ones are judged (`Equal`); `18ef` behind `aa`:
-- `10111` consumed, one `1` judged; `fe`: `11111110` consumed; seven ones (valid) go the same way as eight
example : H3.Huffman.walkL H3.Gen.HuffDec.root (List.replicate 8 true) = .short [] ∧
    H3.Huffman.walkL H3.Gen.HuffDec.root (List.replicate 32 true) = .short [true, true] ∧
    H3.Huffman.walkL H3.Gen.HuffDec.root [true, false, true, true, true, true] = .short [true] ∧
    H3.Huffman.walkL H3.Gen.HuffDec.root [true, true, true, true, true, true, true, false] = .short [] ∧
    H3.Huffman.walkL H3.Gen.HuffDec.root (List.replicate 7 true) = .short [] := by decide +kernel

/-- The full-strength strictness statement is false for the code that exists: the three D-15
    witnesses (and `fe`: padding with a zero bit) are accepted by the decoder, through the flagged
    branch, and forbidden by RFC 7541 §5.2 — eight bits of padding; the EOS symbol; padding
    `101111` that is not a prefix of EOS. -/
theorem C15_huffman_D15_witnesses :
    Huffman.hdecode [0xff] = .ok [] ∧ Huffman.lax [0xff] = true ∧
      Spec.Huffman.specDecode [0xff] = none ∧
    Huffman.hdecode [0xff, 0xff, 0xff, 0xff] = .ok [] ∧ Huffman.lax [0xff, 0xff, 0xff, 0xff] = true ∧
      Spec.Huffman.specDecode [0xff, 0xff, 0xff, 0xff] = none ∧
    Huffman.hdecode [0x18, 0xef] = .ok [97, 97] ∧ Huffman.lax [0x18, 0xef] = true ∧
      Spec.Huffman.specDecode [0x18, 0xef] = none ∧
    Huffman.hdecode [0xfe] = .ok [] ∧ Spec.Huffman.specDecode [0xfe] = none ∧
    ¬ (∀ b s : List Nat, (∀ x ∈ b, x < 256) →
        (Huffman.hdecode b = .ok s ↔ Spec.Huffman.specDecode b = some s)) := by
  have h1 : Huffman.hdecode [0xff] = .ok [] := by decide +kernel
  have h2 : Spec.Huffman.specDecode [0xff] = none := by decide +kernel
  refine ⟨h1, by decide +kernel, h2, by decide +kernel, by decide +kernel, by decide +kernel,
    by decide +kernel, by decide +kernel, by decide +kernel, by decide +kernel, by decide +kernel, ?_⟩
  intro h
  have := (h [0xff] [] (by decide)).mp h1
  rw [h2] at this; cases this

/-! ## string literals -/

private theorem lor_one (f : Nat) (hf : f < 128) : (f * 2) % 256 ||| 1 = 2 * f + 1 := by
  have h : (f * 2) % 256 = f <<< 1 := by rw [Nat.shiftLeft_eq]; omega
  rw [h, ← Nat.shiftLeft_add_eq_or_of_lt (by decide : 1 < 2 ^ 1), Nat.shiftLeft_eq]; omega

/-- The string-literal encoder, for every size that has room for the `H` flag (2..8; the code uses 4,
    6 and 8), any flags that fit and every byte string whose Huffman coding fits the encoder's `u32` positions
    (`hfit`: coding length `L` with `7·L < 2^32`, decidable): no panic, no overflow (`encodeC?`, the encoder
    over the checked Huffman encoder, both shapes, every growth policy, gives the same bytes); the wire form is
    the prefixed integer `(H = 1, length)` followed by the RFC 7541 §5.2 Huffman encoding.
    With the earlier hypothesis (`< 2^63`, "what fits a `Vec`") the statement is FALSE OF THE CODE: beyond
    `hfit` the Huffman encoder overflows (`C15_huffman_encoder_positions_fit` (2), (3), site D-15e, witness
    `huff encn 0a 450000000`) or, repaired, answers `Err(HuffmanEncoding)`. -/
theorem C15_string_literal_encode (n flags : Nat) (hn2 : 2 ≤ n) (hn8 : n ≤ 8)
    (hf : flags < 2 ^ (8 - n)) (s : List Nat) (hs : ∀ x ∈ s, x < 256)
    (hfit : 7 * (Huffman.hencode s).length < 2 ^ 32) :
    PrefixString.encode? n flags s = some (PrefixString.encode n flags s) ∧
    PrefixString.encode n flags s =
      PrefixInt.encode (n - 1) (2 * flags + 1) (Huffman.hencode s).length ++ Huffman.hencode s ∧
    ∀ g grow, PrefixString.encodeC? g grow n flags s = some (.ok (PrefixString.encode n flags s)) := by
  obtain ⟨he, _, _, _, _, _, _, hC⟩ := C15_huffman_roundtrip s hs hfit
  have hn0 : n ≠ 0 := by omega
  have hf128 : flags < 128 := by
    have : (2 : Nat) ^ (8 - n) ≤ 2 ^ 7 := Nat.pow_le_pow_right (by decide) (by omega)
    omega
  have hf' : 2 * flags + 1 < 2 ^ (8 - (n - 1)) := by
    have : 8 - (n - 1) = (8 - n) + 1 := by omega
    rw [this, Nat.pow_succ]; omega
  obtain ⟨hi1, _, _, _⟩ := C15_prefix_int_roundtrip (n - 1) (2 * flags + 1)
    (Huffman.hencode s).length (by omega) (by omega) hf' (by omega) []
  have henc : PrefixString.encode? n flags s =
      some (PrefixInt.encode (n - 1) (2 * flags + 1) (Huffman.hencode s).length ++ Huffman.hencode s) := by
    simp only [PrefixString.encode?, he, if_neg hn0, lor_one flags hf128, hi1]
  have henc' : PrefixString.encode n flags s =
      PrefixInt.encode (n - 1) (2 * flags + 1) (Huffman.hencode s).length ++ Huffman.hencode s := by
    simp [PrefixString.encode, henc]
  refine ⟨by rw [henc, henc'], henc', fun g grow => ?_⟩
  simp only [PrefixString.encodeC?, hC g grow, if_neg hn0, lor_one flags hf128, hi1, henc']

/-- String literals round-trip for every size that has room for the `H` flag (2..8), any flags that
    fit, any following bytes, and every byte string whose Huffman coding is shorter than 2^29 − 2 bytes
    (`hlen`: its bit length + 16 fits `u32` — the bound `prefix_string::decode` puts on a Huffman literal
    since the repair of D-06u, because the Huffman decoder's bit positions are `u32`;
    `C15_string_literal_beyond_bound` for the others): no panic; the wire form is that of
    `C15_string_literal_encode`; decoding returns the flags, the string and the rest — with or without
    the refusal in the tree under check (`decodeG? g` for both `g`; `decode?` is the one the translator
    selects). -/
theorem C15_string_literal_roundtrip (n flags : Nat) (hn2 : 2 ≤ n) (hn8 : n ≤ 8)
    (hf : flags < 2 ^ (8 - n)) (s : List Nat) (hs : ∀ x ∈ s, x < 256)
    (hlen : (Huffman.hencode s).length * 8 + 16 < 2 ^ 32) (rest : List Nat) :
    PrefixString.encode? n flags s = some (PrefixString.encode n flags s) ∧
    PrefixString.encode n flags s =
      PrefixInt.encode (n - 1) (2 * flags + 1) (Huffman.hencode s).length ++ Huffman.hencode s ∧
    PrefixString.decode? n (PrefixString.encode n flags s ++ rest) = some (.ok flags s rest) ∧
    PrefixString.decode n (PrefixString.encode n flags s ++ rest) = .ok flags s rest ∧
    ∀ g, PrefixString.decodeG? g n (PrefixString.encode n flags s ++ rest) = some (.ok flags s rest) := by
  obtain ⟨_, _, _, _, _, hd, _⟩ := C15_huffman_roundtrip s hs (by omega)
  obtain ⟨henc, henc', _⟩ := C15_string_literal_encode n flags hn2 hn8 hf s hs (by omega)
  have hn0 : n ≠ 0 := by omega
  have hf' : 2 * flags + 1 < 2 ^ (8 - (n - 1)) := by
    have : 8 - (n - 1) = (8 - n) + 1 := by omega
    rw [this, Nat.pow_succ]; omega
  obtain ⟨_, _, hi3, _⟩ := C15_prefix_int_roundtrip (n - 1) (2 * flags + 1)
    (Huffman.hencode s).length (by omega) (by omega) hf' (by omega) (Huffman.hencode s ++ rest)
  have hdecG : ∀ g, PrefixString.decodeG? g n (PrefixString.encode n flags s ++ rest) = some (.ok flags s rest) := by
    intro g
    rw [henc', List.append_assoc]
    simp only [PrefixString.decodeG?, if_neg hn0, hi3]
    have hsmall : ¬ (g && PrefixString.hugeHuffman (2 * flags + 1) (Huffman.hencode s).length) = true := by
      simp only [PrefixString.hugeHuffman, Bool.and_eq_true, decide_eq_true_eq, not_and, Nat.not_le]
      intro _ _; exact hlen
    rw [if_neg hsmall]
    simp only [PrefixString.decodePayload]
    rw [if_neg (by simp)]
    have h2 : (2 * flags + 1) % 2 ≠ 0 := by omega
    rw [if_neg h2]
    simp only [List.take_left', List.drop_left', hd]
    congr 2; omega
  have hdec : PrefixString.decode? n (PrefixString.encode n flags s ++ rest) = some (.ok flags s rest) := hdecG _
  exact ⟨henc, henc', hdec, by simp [PrefixString.decode, hdec], hdecG⟩

example : PrefixString.encode 6 1 [110, 97, 109, 101] = [0x63, 0xa8, 0x74, 0x97] ∧
    PrefixString.decode 6 (PrefixString.encode 6 1 [110, 97, 109, 101] ++ [9]) = .ok 1 [110, 97, 109, 101] [9] := by
  decide +kernel

/-- Beyond the decoder's bound and within the encoder's (a Huffman coding of 2^29 − 2 bytes or more, i.e. a string
    of more than 143 MB, and shorter than 613 566 757 bytes: `hfit`, the hypothesis of `C15_string_literal_encode`;
    longer ones the encoder does not write — D-15e): the
    encoder still writes the literal, and the decoder with the refusal (the repaired
    `prefix_string::decode`) answers `Error::BufSize` — a decoding error (QPACK_DECOMPRESSION_FAILED at the
    three receive sites, like every other string error: `C11_rejects`), never other bytes and never the
    overflow of the bit positions that the unrepaired code ran into (D-06u).  So "every byte string
    round-trips" holds up to that length and fails safe beyond it. -/
theorem C15_string_literal_beyond_bound (n flags : Nat) (hn2 : 2 ≤ n) (hn8 : n ≤ 8)
    (hf : flags < 2 ^ (8 - n)) (s : List Nat) (hs : ∀ x ∈ s, x < 256)
    (hbig : 2 ^ 32 ≤ (Huffman.hencode s).length * 8 + 16) (hfit : 7 * (Huffman.hencode s).length < 2 ^ 32)
    (rest : List Nat) :
    PrefixString.encode? n flags s = some (PrefixString.encode n flags s) ∧
    PrefixString.decodeG? true n (PrefixString.encode n flags s ++ rest) = some (.err .bufSize) ∧
    PrefixString.decodeGC? true n (PrefixString.encode n flags s ++ rest) = some (.err .bufSize) := by
  obtain ⟨henc, henc', _⟩ := C15_string_literal_encode n flags hn2 hn8 hf s hs hfit
  have hn0 : n ≠ 0 := by omega
  have hf' : 2 * flags + 1 < 2 ^ (8 - (n - 1)) := by
    have : 8 - (n - 1) = (8 - n) + 1 := by omega
    rw [this, Nat.pow_succ]; omega
  obtain ⟨_, _, hi3, _⟩ := C15_prefix_int_roundtrip (n - 1) (2 * flags + 1)
    (Huffman.hencode s).length (by omega) (by omega) hf' (by omega) (Huffman.hencode s ++ rest)
  have hd : PrefixString.decodeG? true n (PrefixString.encode n flags s ++ rest) = some (.err .bufSize) := by
    rw [henc', List.append_assoc]
    simp only [PrefixString.decodeG?, if_neg hn0, hi3]
    have hhuge : (true && PrefixString.hugeHuffman (2 * flags + 1) (Huffman.hencode s).length) = true := by
      simp only [PrefixString.hugeHuffman, Bool.true_and, Bool.and_eq_true, beq_iff_eq, decide_eq_true_eq]
      exact ⟨by omega, hbig⟩
    rw [if_pos hhuge]
  exact ⟨henc, hd, by rw [PrefixString.decodeGC?_true]; exact hd⟩

/-- The Huffman decoder's bit positions fit `u32` (the justification of the arithmetic sites of
    `prefix_string/{decode,bitwin}.rs` in the panic-site inventory; D-06u repaired).
    `Huffman.hdecodeC` / `PrefixString.decodeGC?` are the decoder / the string-literal decoder with every
    machine operation of the Rust code written out — every `+` and `*` on `u32` (`BitWindow::forwards`,
    `byte_offset * 8 + bit_offset + len`, `src.len() as u32 * 8`, `bit_pos.byte + 1`), every `-`, every
    shift of a `u8` / `u16`, both slice indexings of `read_bits` — and answering `none` as soon as one of
    them overflows, underflows, shifts by the width or indexes out of range.
    (1) For EVERY input of `L` bytes with `8·L + 8 < 2^32` (any `Nat`s, any content) the checked decoder
    never answers `none`: every position it computes is below 2^32, and its answer is the model's
    (`hdecodeX`, the function all other C15 / C11 theorems are about).
    (2) With the refusal in `prefix_string::decode` (`g = true`) the string-literal decoder never overflows
    on ANY input and any size argument: what reaches the Huffman decoder has `8·len + 16 < 2^32`.
    (3) The tree under check has the refusal exactly when the translator says so.
    (4) The bound is needed: EVERY input of 2^29 bytes or more overflows in the first `read_bits`
        (`src.len() as u32 * 8`; from 2^32 bytes on the cast itself) — D-06u's witness
        `huff decn 00 536870912`. -/
theorem C15_huffman_positions_fit :
    (∀ input : List Nat, 8 * input.length + 8 < 2 ^ 32 →
      Huffman.hdecodeC input = some (Huffman.hdecodeX input)) ∧
    (∀ n bs, PrefixString.decodeGC? true n bs = PrefixString.decodeG? true n bs) ∧
    (H3.Gen.HuffDec.hugeLiteralRefused = true →
      ∀ n bs, PrefixString.decode? n bs = PrefixString.decodeG? true n bs ∧
        PrefixString.decodeGC? true n bs = PrefixString.decode? n bs) ∧
    (∀ input : List Nat, 2 ^ 29 ≤ input.length → Huffman.hdecodeC input = none) := by
  refine ⟨Huffman.hdecodeC_eq, PrefixString.decodeGC?_true, ?_, Huffman.hdecodeC_overflow⟩
  intro hg n bs
  have h : PrefixString.decode? n bs = PrefixString.decodeG? true n bs := by
    unfold PrefixString.decode?; rw [hg]
  exact ⟨h, by rw [h]; exact PrefixString.decodeGC?_true n bs⟩

-- the checked decoder on RFC 7541 C.4.2 (`no-cache`), on an invalid ending, and on a literal that declares
-- 2^29 − 2 bytes (`ff ff fe ff ff 01` = H, length 127 + 536870783): refused before anything is computed; without
-- the refusal, one byte less, or without H it is a truncated literal
example : Huffman.hdecodeC [0xa8, 0xeb, 0x10, 0x64, 0x9c, 0xbf] =
    some (.ok ([110, 111, 45, 99, 97, 99, 104, 101], false)) := by decide +kernel
example : Huffman.hdecodeC [0x18, 0x00] = some (.error (.missingBits ⟨1, 7, 5⟩)) := by decide +kernel
example : PrefixString.decodeGC? true 8 [0xff, 0xff, 0xfe, 0xff, 0xff, 0x01, 0x00] = some (.err .bufSize) ∧
    PrefixString.decodeG? false 8 [0xff, 0xff, 0xfe, 0xff, 0xff, 0x01, 0x00] = some (.err .unexpectedEnd) ∧
    PrefixString.decodeG? true 8 [0xff, 0xfe, 0xfe, 0xff, 0xff, 0x01, 0x00] = some (.err .unexpectedEnd) ∧
    PrefixString.decodeG? true 8 [0x7f, 0xff, 0xfe, 0xff, 0xff, 0x01, 0x00] = some (.err .unexpectedEnd) := by
  decide +kernel

/-! ## non-contiguous input -/

/-- `prefix_int::decode` and `prefix_string::decode` are generic over `B: Buf`; over a `Buf` of several
    chunks the models (`decodeM?`) answer what they answer for the concatenation, so the answer — value,
    rest, error — does not depend on where the cuts are, and every theorem above about `decode?` holds
    for every chunking.  (Trivial for the models, which take the bytes; the content is in the engines
    `pint decm` / `pstr decm`, which run the real functions over a `Buf` whose `chunk()` is the first
    piece only, at every cut position: a payload read from `chunk()` instead of through
    `copy_to_bytes` is cut short at a chunk boundary — the seeded change the contiguous engine missed.) -/
theorem C15_decode_chunking_independent (n : Nat) (chunks chunks' : List (List Nat))
    (h : chunks.flatten = chunks'.flatten) :
    PrefixString.decodeM? n chunks = PrefixString.decodeM? n chunks' ∧
    PrefixInt.decodeM? n chunks = PrefixInt.decodeM? n chunks' ∧
    PrefixString.decodeM? n chunks = PrefixString.decode? n chunks.flatten ∧
    PrefixInt.decodeM? n chunks = PrefixInt.decode? n chunks.flatten ∧
    PrefixString.decodeM? n [chunks.flatten] = PrefixString.decodeM? n chunks := by
  refine ⟨?_, ?_, rfl, rfl, ?_⟩
  · unfold PrefixString.decodeM?; rw [h]
  · unfold PrefixInt.decodeM?; rw [h]
  · unfold PrefixString.decodeM?; simp

-- `63 a8 | 74 97 09`: the Huffman payload `a8 74 97` ("name") crosses the cut; raw `03 61 | 62 63`
example : PrefixString.decodeM? 6 [[0x63, 0xa8], [0x74, 0x97, 9]] = some (.ok 1 [110, 97, 109, 101] [9]) ∧
    PrefixString.decodeM? 6 [[0x63], [0xa8, 0x74], [0x97, 9]] = some (.ok 1 [110, 97, 109, 101] [9]) ∧
    PrefixString.decodeM? 8 [[0x03, 0x61], [0x62, 0x63]] = some (.ok 0 [0x61, 0x62, 0x63] []) ∧
    PrefixInt.decodeM? 5 [[31, 154], [10, 4]] = some (.ok 0 1337 [4]) := by decide +kernel

end H3.Props.C15
