import H3.Model.PrefixInt
import H3.Model.Huffman
import H3.Model.PrefixString
import H3.Spec.Huffman
/-! # C15 — QPACK prefixed integers and Huffman string literals (work in progress) -/
namespace H3.Props.C15

end H3.Props.C15
