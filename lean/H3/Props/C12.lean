import H3.Model.Headers
import H3.Spec.Headers
import H3.Lemmas.Headers
/-! # C12 — only well-formed messages reach the application; sent ones are well-formed

    All theorems are about the model `H3.Headers` (tied to `/repo` by the `hdr` engine and by the
    generated `H3.Gen.Headers`) against the oracle `H3.Spec.Headers`, for **every** field list
    `fs : List (List Nat × List Nat)` — no bound on length, names or values — and for every
    instance `H` of the abstract `http` URI machinery satisfying `HttpLaws`.

    The proofs evaluate six generated constants (`nameRejectsDquote`, `mapFallible`,
    `trailersRefusePseudo`, `hostEveryValue`, `otherKindRefused` must be `true`, `mapPresizeRefuses`
    must be `false`); on a tree where one of them has the other value this file does not build. -/
namespace H3.Props.C12
open H3.Headers H3.Spec.Headers H3.Gen

/-! ## the four concrete validators are the RFC's classes -/

/-- What `Field::parse` accepts as a regular field name is a non-empty lower-case token; its
    value check is exactly the RFC 9110 field-value byte set; `:method` values are exactly the
    tokens; `:status` values are exactly three digits 100…999 (and the numeric value handed to
    the application is that number). -/
theorem C12_validators_are_rfc :
    (∀ n, nameAccepted n = true → LowerToken n) ∧
    (∀ v, validValue v = true ↔ LegalValue v) ∧
    (∀ m, validMethod m = true ↔ MethodToken m) ∧
    (∀ s, validStatus s = true ↔ StatusCode s) ∧
    (∀ s, validStatus s = true → 100 ≤ statusVal s ∧ statusVal s ≤ 999 ∧ statusDigits (statusVal s) = s) :=
  ⟨nameAccepted_lowerToken rfl, validValue_iff, validMethod_iff, validStatus_iff,
   fun s h => ⟨(statusVal_range s h).1, (statusVal_range s h).2, statusDigits_statusVal s h⟩⟩

example : nameAccepted [97, 34, 98] = false := by decide            -- a"b
example : nameAccepted [67, 111] = false := by decide               -- Co
example : validValue [97, 13, 98] = false := by decide              -- a\rb
example : validValue [128, 255, 9, 32] = true := by decide

/-! ## received requests -/

/-- **Only well-formed requests reach the application.**  If `Header::try_from` followed by
    `into_request_parts` succeeds on the decoded field list `fs`, then `fs` is a well-formed
    request in the oracle's sense (every name non-empty; every regular name a lower-case token
    with a legal value; every pseudo name one of those defined *for requests* — `:method`,
    `:scheme`, `:authority`, `:path`, `:protocol`, no `:status` (`DefinedFor`, D-12f) — with a value
    its parser accepts; a `:method`; a non-empty authority from `:authority` or `Host`, identical when both
    are present: **every** `Host` value is the `:authority` value, and without `:authority` all
    `Host` values are one value — `AuthorityOk`, D-12e), and the parts handed over carry exactly
    the received values: the method is the
    (last) `:method` value, the protocol the (last) `:protocol` value if any, the URI is what
    `http` builds from the (last) `:scheme`, the authority and the (last) `:path`, where the
    authority is non-empty, is accepted by `Authority`'s parser, is the value of *every* `Host`
    field when there is one — and then equals the last `:authority` value if there is one too — and
    else the last `:authority` value; the header map holds exactly the regular fields, per-name
    order kept. -/
theorem C12_accepted_request_wellformed (H : Http) (L : HttpLaws H) (fs : List FieldLine) (r : RequestParts)
    (h : recvRequest H fs = .ok r) :
    WellFormedRequest H fs ∧
    lastVal nMethod fs = some r.method ∧
    r.protocol = lastVal nProtocol fs ∧
    (∃ auth, auth ≠ [] ∧ H.parseAuthority auth = some auth ∧
      ((valuesOf nHost fs).head? = some auth ∨ (valuesOf nHost fs = [] ∧ lastVal nAuthority fs = some auth)) ∧
      (∀ hv ∈ valuesOf nHost fs, hv = auth) ∧
      (∀ a, lastVal nAuthority fs = some a → a = auth) ∧
      H.uriBuild ((lastVal nScheme fs).bind H.parseScheme) auth ((lastVal nPath fs).bind H.parsePath) = some r.uri) ∧
    CarriesRegular (hmIter r.headers) fs := by
  unfold recvRequest at h
  cases e : tryFrom H fs with
  | err x => rw [e] at h; cases h
  | panic => rw [e] at h; cases h
  | ok hd =>
    rw [e] at h
    simp only [Res.bind] at h
    have hi := tryFrom_ok e
    obtain ⟨hnost, hall, auth, m, hc, hm, hu, rm, rp, rh⟩ := intoRequestParts_ok h
    have hdef : DefinedFor requestPseudoNames fs := definedFor_request (inv_fieldOk hi) (inv_no_status hi hnost)
    rw [inv_hosts hi, allFirst_iff] at hall
    rw [inv_authority L hi, inv_host hi] at hc
    rw [hi.method] at hm
    rw [hi.scheme, hi.path] at hu
    have hparse : H.parseAuthority auth = some auth := L.uri_authority_parses _ _ _ _ hu
    have hne : auth ≠ [] := by
      intro e0; subst e0; rw [L.uri_authority_nonempty] at hu; cases hu
    have hchoice := chooseAuthority_ok hc
    have hhead : ∀ x, (valuesOf nHost fs).head? = some x → x ∈ valuesOf nHost fs := fun x hx => List.mem_of_head? hx
    have hex : ∃ a ∈ valuesOf nAuthority fs ++ valuesOf nHost fs, a ≠ [] := by
      rcases hchoice with ⟨hh, _⟩ | ⟨_, ha⟩
      · exact ⟨auth, List.mem_append_right _ (hhead _ hh), hne⟩
      · exact ⟨auth, List.mem_append_left _ (mem_valuesOf.mpr (lastVal_mem ha)), hne⟩
    -- every `Host` value is the authority handed over
    have hhosts : ∀ hv ∈ valuesOf nHost fs, hv = auth := by
      intro hv hhv
      have h1 := hall hv hhv
      rcases hchoice with ⟨hh, _⟩ | ⟨hh, _⟩
      · rw [hh] at h1; cases h1; rfl
      · rw [hh] at h1; cases h1
    -- identical when both are present: the (last) `:authority` value is every `Host` value
    have hboth : valuesOf nAuthority fs ≠ [] →
        ∃ a ∈ valuesOf nAuthority fs, ∀ hv ∈ valuesOf nHost fs, a = hv := by
      intro hA
      have hl : lastVal nAuthority fs = some ((valuesOf nAuthority fs).getLast hA) := by
        simp [lastVal, List.getLast?_eq_some_getLast hA]
      refine ⟨_, List.getLast_mem hA, ?_⟩
      intro hv hhv
      rw [hhosts hv hhv]
      rcases hchoice with ⟨_, hall2⟩ | ⟨hh2, _⟩
      · exact hall2 _ hl
      · have := hall hv hhv
        rw [hh2] at this; cases this
    refine ⟨⟨inv_fieldOk hi, hdef, ⟨(nMethod, m), lastVal_mem hm, rfl⟩, hex, hboth, hall⟩, ?_, ?_, ?_, ?_⟩
    · rw [rm]; exact hm
    · rw [rp, hi.protocol]
    · refine ⟨auth, hne, hparse, ?_, hhosts, ?_, hu⟩
      · rcases hchoice with ⟨hh, _⟩ | ⟨hh, ha⟩
        · exact Or.inl hh
        · exact Or.inr ⟨List.head?_eq_none_iff.mp hh, ha⟩
      · intro a ha
        rcases hchoice with ⟨_, hall2⟩ | ⟨_, ha2⟩
        · exact hall2 a ha
        · rw [ha] at ha2; cases ha2; rfl
    · rw [rh]; exact inv_carries hi

/-- the D-12e witness: `:authority: a`, `host: a`, `host: b` is not a well-formed request (the
    second `Host` value is not the `:authority` value), nor are the two `Host` values alone
    (R-12b); hence both are refused (`C12_malformed_request_refused`; concretely below, on `toy`). -/
example (H : Http) : ¬ WellFormedRequest H [(nMethod, [71]), (nAuthority, [97]), (nHost, [97]), (nHost, [98])] := by
  intro h
  have := h.2.2.2.2.2 [98] (by decide)
  revert this; decide
example (H : Http) : ¬ WellFormedRequest H [(nMethod, [71]), (nHost, [97]), (nHost, [98])] := by
  intro h
  have := h.2.2.2.2.2 [98] (by decide)
  revert this; decide

/-- the D-12f witnesses: `:method: GET, :authority: a.com, :status: 200` is not a well-formed request
    (`:status` is not defined for requests) and `:status: 200, :method: GET, :path: /` is not a
    well-formed response (`:method`, `:path` are not defined for responses), whatever `http` parses;
    hence both are refused (`C12_malformed_request_refused`, `C12_malformed_response_refused`;
    concretely below, on `toy`). -/
example (H : Http) : ¬ WellFormedRequest H
    [(nMethod, [71, 69, 84]), (nAuthority, [97, 46, 99, 111, 109]), (nStatus, [50, 48, 48])] := by
  intro h
  have := h.2.1 (nStatus, [50, 48, 48]) (by decide) (by decide)
  revert this; decide
example (H : Http) : ¬ WellFormedResponse H [(nStatus, [50, 48, 48]), (nMethod, [71, 69, 84]), (nPath, [47])] := by
  intro h
  have := h.2.1 (nMethod, [71, 69, 84]) (by decide) (by decide)
  revert this; decide

/-! ## received responses -/

/-- **Only well-formed responses reach the application**: accepted ⇒ the oracle's
    `WellFormedResponse` (names, values, no pseudo-header field other than `:status` — the only one
    defined *for responses*, `DefinedFor`, D-12f: no `:method`, `:scheme`, `:authority`, `:path`,
    `:protocol` — with a parseable value, a
    `:status`), the status handed over is the number written in the (last) `:status` field, three
    digits 100…999, and the map holds exactly the regular fields, per-name order kept. -/
theorem C12_accepted_response_wellformed (H : Http) (fs : List FieldLine) (st : Nat) (m : HeaderMap)
    (h : recvResponse H fs = .ok (st, m)) :
    WellFormedResponse H fs ∧
    (∃ v, lastVal nStatus fs = some v ∧ StatusCode v ∧ st = statusVal v ∧ 100 ≤ st ∧ st ≤ 999) ∧
    CarriesRegular (hmIter m) fs := by
  unfold recvResponse at h
  cases e : tryFrom H fs with
  | err x => rw [e] at h; cases h
  | panic => rw [e] at h; cases h
  | ok hd =>
    rw [e] at h
    simp only [Res.bind] at h
    have hi := tryFrom_ok e
    obtain ⟨hnoreq, hs, hmap⟩ := intoResponseParts_ok h
    subst hmap
    have hdef : DefinedFor responsePseudoNames fs :=
      definedFor_response (inv_fieldOk hi) (inv_no_request_field hi hnoreq)
    rw [hi.status] at hs
    cases el : lastVal nStatus fs with
    | none => rw [el] at hs; cases hs
    | some v =>
      rw [el] at hs
      simp only [Option.map_some, Option.some.injEq] at hs
      have hmem := lastVal_mem el
      obtain ⟨fld, hp⟩ := hi.accepted _ hmem
      have hv := parseOk_status hp
      have hr := statusVal_range v hv
      refine ⟨⟨inv_fieldOk hi, hdef, ⟨(nStatus, v), hmem, rfl⟩⟩, ⟨v, rfl, (validStatus_iff v).mp hv, hs.symm, ?_, ?_⟩, inv_carries hi⟩
      · rw [← hs]; exact hr.1
      · rw [← hs]; exact hr.2

/-! ## received trailers -/

/-- **Only well-formed trailers reach the application**: accepted ⇒ no pseudo-header field at
    all (RFC 9114 §4.3), every name a non-empty lower-case token, every value legal; the map
    handed over holds exactly the received fields, per-name order kept. -/
theorem C12_accepted_trailers_wellformed (H : Http) (fs : List FieldLine) (m : HeaderMap)
    (h : recvTrailers H fs = .ok m) :
    WellFormedTrailers fs ∧ regular fs = fs ∧ CarriesRegular (hmIter m) fs := by
  unfold recvTrailers at h
  cases e : tryFrom H fs with
  | err x => rw [e] at h; cases h
  | panic => rw [e] at h; cases h
  | ok hd =>
    rw [e] at h
    simp only [Res.bind, Header.intoTrailers] at h
    have hi := tryFrom_ok e
    have ht : Headers.trailersRefusePseudo = true := rfl
    rw [ht] at h
    simp only [Bool.true_and, decide_eq_true_eq] at h
    split at h
    · cases h
    · rename_i hlen
      cases h
      have hz : (fs.filter (fun f => isPseudoName f.1)).length = 0 := by rw [← hi.len]; omega
      have hnone : ∀ f ∈ fs, isPseudoName f.1 = false := by
        intro f hf
        have := List.eq_nil_of_length_eq_zero hz
        rw [List.filter_eq_nil_iff] at this
        simpa using this f hf
      refine ⟨?_, ?_, inv_carries hi⟩
      · intro f hf
        have hok := inv_fieldOk hi f hf
        have hnp : ¬ IsPseudo f.1 := (not_isPseudo_iff _).mpr (hnone f hf)
        obtain ⟨h1, h2⟩ := hok
        rw [if_neg hnp] at h2
        exact ⟨h1, hnp, h2.1, h2.2⟩
      · unfold regular
        rw [List.filter_eq_self]
        intro f hf
        simpa using (not_isPseudo_iff _).mpr (hnone f hf)

/-! ## everything else is refused, on the stream, with H3_MESSAGE_ERROR -/

/-- The three functions never panic (in particular not on long lists: `HeaderMap` is created with
    the fallible constructor), so every list is either handed over or refused with a `HeaderError`. -/
theorem C12_no_panic (H : Http) (fs : List FieldLine) :
    recvRequest H fs ≠ .panic ∧ recvResponse H fs ≠ .panic ∧ recvTrailers H fs ≠ .panic := by
  have hp := tryFrom_ne_panic H fs
  refine ⟨?_, ?_, ?_⟩
  · unfold recvRequest
    cases e : tryFrom H fs with
    | panic => exact absurd e hp
    | err x => simp [Res.bind]
    | ok hd =>
      simp only [Res.bind, Header.intoRequestParts]
      split
      · simp
      split
      · simp
      cases hc : chooseAuthority hd.pseudo.authority (hmGet hd.fields nHost) with
      | panic =>
        exfalso
        revert hc
        cases hd.pseudo.authority <;> cases hmGet hd.fields nHost <;> simp [chooseAuthority]
        split <;> simp
      | err x => simp
      | ok a =>
        simp only
        split
        · simp
        · split <;> simp
  · unfold recvResponse
    cases e : tryFrom H fs with
    | panic => exact absurd e hp
    | err x => simp [Res.bind]
    | ok hd => simp only [Res.bind]; exact intoResponseParts_ne_panic hd
  · unfold recvTrailers
    cases e : tryFrom H fs with
    | panic => exact absurd e hp
    | err x => simp [Res.bind]
    | ok hd => simp only [Res.bind, Header.intoTrailers]; split <;> simp

/-- Every `HeaderError`, at each of the three call sites, becomes a *stream*-level error whose
    code is `H3_MESSAGE_ERROR` (never a connection error), and `H3_MESSAGE_ERROR` is also the code
    that goes to the peer: the server resets its response side and stops the request side with
    it, the client's `recv_response` — in either of its two arms, after `try_from` and after
    `into_response_parts` (`second`) — and `poll_recv_trailers` stop the receiving side with it.
    (The codes are read from the three call sites on every run: `H3.Gen.Headers`.) -/
theorem C12_refusal_is_message_error (e : HeaderError) (second : Bool) :
    (siteResolve e).scope = .stream ∧ (siteResolve e).code = Consts.CODE_H3_MESSAGE_ERROR ∧
    (siteResolve e).stopSending = some Consts.CODE_H3_MESSAGE_ERROR ∧
    (siteResolve e).reset = some Consts.CODE_H3_MESSAGE_ERROR ∧
    (siteRecvResponse second e).scope = .stream ∧ (siteRecvResponse second e).code = Consts.CODE_H3_MESSAGE_ERROR ∧
    (siteRecvResponse second e).stopSending = some Consts.CODE_H3_MESSAGE_ERROR ∧ (siteRecvResponse second e).reset = none ∧
    (siteRecvTrailers e).scope = .stream ∧ (siteRecvTrailers e).code = Consts.CODE_H3_MESSAGE_ERROR ∧
    (siteRecvTrailers e).stopSending = some Consts.CODE_H3_MESSAGE_ERROR := by
  cases e <;> cases second <;> decide

example : siteRecvResponse true .invalidHeaderName =
    { scope := .stream, code := 0x10e, stopSending := some 0x10e, reset := none } := by decide

/-- **Anything else is refused** (requests): a list that is not a well-formed request makes
    `resolve` return a stream-level `H3_MESSAGE_ERROR`; nothing is handed over, nothing panics. -/
theorem C12_malformed_request_refused (H : Http) (L : HttpLaws H) (fs : List FieldLine)
    (hbad : ¬ WellFormedRequest H fs) :
    ∃ e, recvRequest H fs = .err e ∧ (siteResolve e).scope = .stream ∧
      (siteResolve e).code = Consts.CODE_H3_MESSAGE_ERROR := by
  cases h : recvRequest H fs with
  | ok r => exact absurd (C12_accepted_request_wellformed H L fs r h).1 hbad
  | panic => exact absurd h (C12_no_panic H fs).1
  | err e => exact ⟨e, rfl, (C12_refusal_is_message_error e false).1, (C12_refusal_is_message_error e false).2.1⟩

/-- **Anything else is refused** (responses); the refusal goes through the arm of `recv_response`
    that `recvResponseSecond` names. -/
theorem C12_malformed_response_refused (H : Http) (fs : List FieldLine) (hbad : ¬ WellFormedResponse H fs) :
    ∃ e, recvResponse H fs = .err e ∧ (siteRecvResponse (recvResponseSecond H fs) e).scope = .stream ∧
      (siteRecvResponse (recvResponseSecond H fs) e).code = Consts.CODE_H3_MESSAGE_ERROR := by
  cases h : recvResponse H fs with
  | ok r => obtain ⟨st, m⟩ := r; exact absurd (C12_accepted_response_wellformed H fs st m h).1 hbad
  | panic => exact absurd h (C12_no_panic H fs).2.1
  | err e =>
    have := C12_refusal_is_message_error e (recvResponseSecond H fs)
    exact ⟨e, rfl, this.2.2.2.2.1, this.2.2.2.2.2.1⟩

/-- **Anything else is refused** (trailers). -/
theorem C12_malformed_trailers_refused (H : Http) (fs : List FieldLine) (hbad : ¬ WellFormedTrailers fs) :
    ∃ e, recvTrailers H fs = .err e ∧ (siteRecvTrailers e).scope = .stream ∧
      (siteRecvTrailers e).code = Consts.CODE_H3_MESSAGE_ERROR := by
  cases h : recvTrailers H fs with
  | ok m => exact absurd (C12_accepted_trailers_wellformed H fs m h).1 hbad
  | panic => exact absurd h (C12_no_panic H fs).2.2
  | err e =>
    have := C12_refusal_is_message_error e false
    exact ⟨e, rfl, this.2.2.2.2.2.2.2.2.1, this.2.2.2.2.2.2.2.2.2.1⟩

/-! ## the capacity of `http::HeaderMap` -/

/-- `Header::try_from` no longer refuses a section for the number of its fields (D-01, repaired:
    `try_from` is the loop; a map that cannot be pre-sized starts empty).  What remains is the
    limit of `http::HeaderMap` itself, 24576 distinct names (`hmMaxEntries`; `try_append` fails when
    it is called on a map that already holds that many, `hmTryAppend`): a header map handed over
    holds at most that many names, and a section whose regular fields carry more distinct names is
    refused — with a `HeaderError` (H3_MESSAGE_ERROR on the stream, `C12_refusal_is_message_error`),
    never a panic (D-12b). -/
theorem C12_map_capacity (H : Http) (fs : List FieldLine) :
    (∀ r, recvRequest H fs = .ok r → r.headers.length ≤ hmMaxEntries) ∧
    (∀ st m, recvResponse H fs = .ok (st, m) → m.length ≤ hmMaxEntries) ∧
    (∀ m, recvTrailers H fs = .ok m → m.length ≤ hmMaxEntries) ∧
    (∀ ns : List Bytes, ns.Nodup → hmMaxEntries < ns.length →
      (∀ n ∈ ns, ¬ IsPseudo n ∧ ∃ v, (n, v) ∈ fs) →
      (∃ e, recvRequest H fs = .err e) ∧ (∃ e, recvResponse H fs = .err e) ∧
      (∃ e, recvTrailers H fs = .err e)) := by
  refine ⟨?_, ?_, ?_, ?_⟩
  · intro r h
    unfold recvRequest at h
    cases e : tryFrom H fs with
    | err x => rw [e] at h; cases h
    | panic => rw [e] at h; cases h
    | ok hd =>
      rw [e] at h
      simp only [Res.bind] at h
      obtain ⟨_, _, _, _, _, _, _, _, _, rh⟩ := intoRequestParts_ok h
      rw [rh]; exact tryFrom_cap e
  · intro st m h
    unfold recvResponse at h
    cases e : tryFrom H fs with
    | err x => rw [e] at h; cases h
    | panic => rw [e] at h; cases h
    | ok hd =>
      rw [e] at h
      simp only [Res.bind] at h
      obtain ⟨_, _, hmap⟩ := intoResponseParts_ok h
      rw [hmap]; exact tryFrom_cap e
  · intro m h
    unfold recvTrailers at h
    cases e : tryFrom H fs with
    | err x => rw [e] at h; cases h
    | panic => rw [e] at h; cases h
    | ok hd =>
      rw [e] at h
      simp only [Res.bind, Header.intoTrailers] at h
      split at h
      · cases h
      · cases h; exact tryFrom_cap e
  · intro ns hnd hlen hocc
    obtain ⟨e, he⟩ := tryFrom_too_many_names (H := H) ns hnd hlen hocc
    exact ⟨⟨e, by simp [recvRequest, he, Res.bind]⟩, ⟨e, by simp [recvResponse, he, Res.bind]⟩,
      ⟨e, by simp [recvTrailers, he, Res.bind]⟩⟩

example : hmTryAppend (List.replicate 3 ([120], [[49]])) [121] [50] =
    some (List.replicate 3 ([120], [[49]]) ++ [([121], [[50]])]) := by decide

/-! ## sent messages -/

/-- what `HeaderName` guarantees of the names in a caller's `HeaderMap` -/
def MapNamesOk (m : HeaderMap) : Prop := ∀ g ∈ m, fromLowercase g.1 = true

theorem fromLowercase_not_pseudo (n : Bytes) (h : fromLowercase n = true) : ¬ IsPseudo n := by
  intro hp
  unfold IsPseudo at hp
  cases n with
  | nil => simp at hp
  | cons b r =>
    simp only [List.head?_cons, Option.some.injEq] at hp
    subst hp
    simp [fromLowercase, isH2NameByte, isLowerTok] at h

theorem hmIter_names (m : HeaderMap) : ∀ f ∈ hmIter m, ∃ g ∈ m, g.1 = f.1 := by
  induction m with
  | nil => intro f hf; simp [hmIter] at hf
  | cons g r ih =>
    obtain ⟨k, vs⟩ := g
    intro f hf
    simp only [hmIter, List.mem_append, List.mem_map] at hf
    rcases hf with ⟨v, _, rfl⟩ | hf
    · exact ⟨(k, vs), by simp, rfl⟩
    · obtain ⟨g, hg, e⟩ := ih f hf
      exact ⟨g, by simp [hg], e⟩

theorem mem_optField {n : Bytes} {o : Option Bytes} {f : FieldLine} (h : f ∈ optField n o) : f.1 = n := by
  cases o with
  | none => simp [optField] at h
  | some v => simp only [optField, List.mem_singleton] at h; subst h; rfl

theorem pseudoList_pseudo (p : Pseudo) : ∀ f ∈ pseudoList p, IsPseudo f.1 := by
  intro f hf
  simp only [pseudoList, List.mem_append] at hf
  rcases hf with ((((hf | hf) | hf) | hf) | hf) | hf <;> (rw [mem_optField hf]; decide)

theorem pseudoList_names_sublist (p : Pseudo) :
    ((pseudoList p).map (·.1)).Sublist [nMethod, nScheme, nAuthority, nPath, nStatus, nProtocol] := by
  obtain ⟨m, s, a, pa, st, pr, len⟩ := p
  cases m <;> cases s <;> cases a <;> cases pa <;> cases st <;> cases pr <;>
    simp [pseudoList, optField] <;> decide

/-- **Every message h3 sends**: for every `Header` value whatsoever, the iterator handed to the
    QPACK encoder yields first the pseudo-header fields that are present — in the fixed order
    `:method, :scheme, :authority, :path, :status, :protocol`, hence each at most once — and then
    every entry of the header map in the map's own order (groups in insertion order, per-name
    order kept).  With `HeaderName`'s invariant on the map's names this is the oracle's
    `PseudoFirst` and `PseudoOnce`. -/
theorem C12_sent_order (h : Header) :
    h.wireFields = pseudoList h.pseudo ++ hmIter h.fields ∧
    (∀ f ∈ pseudoList h.pseudo, IsPseudo f.1) ∧
    ((pseudoList h.pseudo).map (·.1)).Sublist [nMethod, nScheme, nAuthority, nPath, nStatus, nProtocol] ∧
    (MapNamesOk h.fields → PseudoFirst h.wireFields ∧ PseudoOnce h.wireFields) := by
  have hw := wireFields_eq h
  have hp := pseudoList_pseudo h.pseudo
  have hs := pseudoList_names_sublist h.pseudo
  refine ⟨hw, hp, hs, ?_⟩
  intro hm
  have hreg : ∀ f ∈ hmIter h.fields, ¬ IsPseudo f.1 := by
    intro f hf
    obtain ⟨g, hg, e⟩ := hmIter_names _ f hf
    rw [← e]; exact fromLowercase_not_pseudo _ (hm g hg)
  refine ⟨⟨_, _, hw, hp, hreg⟩, ?_⟩
  unfold PseudoOnce
  rw [hw, List.filter_append]
  have e1 : (pseudoList h.pseudo).filter (fun f => IsPseudo f.1) = pseudoList h.pseudo := by
    rw [List.filter_eq_self]; intro f hf; simpa using hp f hf
  have e2 : (hmIter h.fields).filter (fun f => IsPseudo f.1) = [] := by
    rw [List.filter_eq_nil_iff]; intro f hf; simpa using hreg f hf
  rw [e1, e2, List.append_nil]
  exact List.Sublist.nodup hs (by decide)

/-- **…with the values the caller supplied** (requests): when `Header::request` accepts, the
    pseudo-header fields are exactly the oracle's `sentRequestPseudo`: `:method` = the method;
    unless this is a CONNECT without `Protocol`, `:scheme` = the URI's scheme or `https` and
    `:path` = the URI's path-and-query or `/`; `:authority` = the URI's authority when it has
    one; `:protocol` = the `Protocol` extension when the method is CONNECT.  It refuses only for
    a missing authority (no URI authority and no `Host`) or a `Host` differing from it. -/
theorem C12_sent_request_values (method : Bytes) (uri : UriParts) (fields : HeaderMap) (ext : Option Bytes) :
    (∀ h, Header.request method uri fields ext = .ok h →
        h.wireFields = sentRequestPseudo method uri ext ++ hmIter fields) ∧
    (∀ e, Header.request method uri fields ext = .err e →
        (e = .missingAuthority ∧ uri.authority = none ∧ hmGet fields nHost = none) ∨
        (e = .contradictedAuthority ∧ ∃ a hv, uri.authority = some a ∧ hmGet fields nHost = some hv ∧ a ≠ hv)) ∧
    Header.request method uri fields ext ≠ .panic := by
  have key : pseudoList (Pseudo.request method uri ext) = sentRequestPseudo method uri ext := by
    obtain ⟨s, a, pq⟩ := uri
    have hdead : ∀ d : Bytes, (pqPath d).isEmpty = false := by
      intro d; unfold pqPath; simp only; split <;> simp_all [slash]
    unfold Pseudo.request sentRequestPseudo pseudoList
    simp only [show H3.Spec.Headers.mCONNECT = H3.Headers.mCONNECT from rfl,
      show H3.Spec.Headers.https = sHttps from rfl]
    by_cases hc : method = H3.Headers.mCONNECT
    · subst hc
      cases ext <;> cases a <;> cases pq <;> cases s <;>
        simp +decide [optField, hdead, pqAsStr, slash, H3.Headers.mCONNECT]
    · cases ext <;> cases a <;> cases pq <;> cases s <;>
        simp [optField, hdead, pqAsStr, slash, hc]
  refine ⟨?_, ?_, ?_⟩
  · intro h hh
    have : h = { pseudo := Pseudo.request method uri ext, fields := fields } := by
      unfold Header.request at hh
      split at hh
      · cases hh
      · split at hh
        · cases hh
        · cases hh; rfl
      · cases hh; rfl
    subst this
    rw [wireFields_eq, key]
  · intro e he
    unfold Header.request at he
    split at he
    · rename_i h1 h2; cases he; exact Or.inl ⟨rfl, h1, h2⟩
    · rename_i a hv h1 h2
      split at he
      · rename_i hne; cases he; exact Or.inr ⟨rfl, a, hv, h1, h2, hne⟩
      · cases he
    · cases he
  · unfold Header.request
    split
    · simp
    · split <;> simp
    · simp

/-- responses carry `:status` = the caller's status code (three digits) and nothing else before the
    map; trailers carry no pseudo-header field at all. -/
theorem C12_sent_response_trailer_values (status : Nat) (fields : HeaderMap) :
    (Header.response status fields).wireFields = sentResponsePseudo status ++ hmIter fields ∧
    (Header.trailer fields).wireFields = hmIter fields := by
  constructor
  · rw [wireFields_eq]; rfl
  · rw [wireFields_eq]; rfl

/-! ## non-vacuity: a small concrete `Http` and concrete messages -/

/-- a toy URI machinery satisfying the laws: schemes `http`/`https`, authorities made of letters,
    digits, `.`, `:`; paths starting with `/`; `Uri::from_parts`' shape rules. -/
def toy : Http where
  parseScheme v := if v = [104, 116, 116, 112] ∨ v = sHttps then some v else none
  parseAuthority v :=
    if !v.isEmpty && v.all (fun b => (97 ≤ b && b ≤ 122) || (48 ≤ b && b ≤ 58) || b == 46) then some v else none
  parsePath v := if v.head? = some 47 ∧ 35 ∉ v then some v else none
  uriBuild s a p :=
    if !a.isEmpty && a.all (fun b => (97 ≤ b && b ≤ 122) || (48 ≤ b && b ≤ 58) || b == 46) then
      (if s.isSome = p.isSome then some { scheme := s, authority := some a, path := p } else none)
    else none

theorem toy_laws : HttpLaws toy where
  authority_nonempty := by decide
  authority_as_str := by
    intro v a h; simp only [toy] at h; split at h <;> cases h; rfl
  uri_authority_nonempty := by intro s p; rfl
  uri_authority_parses := by
    intro s a p u h
    simp only [toy] at h ⊢
    split at h
    · rename_i hc; simp [hc]
    · cases h

def aCom : Bytes := [97, 46, 99, 111, 109]
def GET : Bytes := [71, 69, 84]

/-- `:method GET, :scheme https, :authority a.com, :path /, x: 1, y: 2, x: 3` is accepted and
    handed over with these very values, `x` grouped in arrival order. -/
example : recvRequest toy [(nMethod, GET), (nScheme, sHttps), (nAuthority, aCom), (nPath, slash), ([120], [49]), ([121], [50]), ([120], [51])]
    = .ok { method := GET, uri := { scheme := some sHttps, authority := some aCom, path := some slash },
            protocol := none, headers := [([120], [[49], [51]]), ([121], [[50]])] } := by decide
/-- upper-case name, `"` in a name, CR in a value, unknown pseudo name, empty name: refused -/
example : recvRequest toy [(nMethod, GET), (nAuthority, aCom), ([88], [49])] = .err .invalidHeaderName := by decide
example : recvRequest toy [(nMethod, GET), (nAuthority, aCom), ([97, 34], [49])] = .err .invalidHeaderName := by decide
example : recvRequest toy [(nMethod, GET), (nAuthority, aCom), ([120], [13])] = .err .invalidHeaderValue := by decide
example : recvRequest toy [(nMethod, GET), (nAuthority, aCom), ([58, 120], [49])] = .err .invalidHeaderName := by decide
example : recvRequest toy [(nMethod, GET), (nAuthority, aCom), ([], [49])] = .err .invalidHeaderName := by decide
/-- missing method / authority, empty Host, contradiction -/
example : recvRequest toy [(nAuthority, aCom)] = .err .missingMethod := by decide
example : recvRequest toy [(nMethod, GET)] = .err .missingAuthority := by decide
example : recvRequest toy [(nMethod, GET), (nHost, [])] = .err .invalidRequest := by decide
example : recvRequest toy [(nMethod, GET), (nAuthority, aCom), (nHost, [98])] = .err .contradictedAuthority := by decide
/-- D-12f: a pseudo-header field of the other kind of message — `:status` in a request; `:method`,
    `:scheme`, `:authority`, `:path`, `:protocol` in a response — is refused, alone or combined,
    before or after the fields of the right kind, also when its value repeats -/
example : recvRequest toy [(nMethod, GET), (nAuthority, aCom), (nStatus, [50, 48, 48])] = .err .invalidHeaderName := by decide
example : recvRequest toy [(nStatus, [50, 48, 48]), (nMethod, GET), (nScheme, sHttps), (nAuthority, aCom), (nPath, slash)] = .err .invalidHeaderName := by decide
example : recvRequest toy [(nStatus, [50, 48, 48])] = .err .invalidHeaderName := by decide
example : recvResponse toy [(nStatus, [50, 48, 48]), (nMethod, GET), (nPath, slash)] = .err .invalidHeaderName := by decide
example : recvResponse toy [(nMethod, GET), (nStatus, [50, 48, 48])] = .err .invalidHeaderName := by decide
example : recvResponse toy [(nStatus, [50, 48, 48]), (nScheme, sHttps)] = .err .invalidHeaderName := by decide
example : recvResponse toy [(nStatus, [50, 48, 48]), (nAuthority, aCom)] = .err .invalidHeaderName := by decide
example : recvResponse toy [(nStatus, [50, 48, 48]), (nPath, slash)] = .err .invalidHeaderName := by decide
example : recvResponse toy [(nStatus, [50, 48, 48]), (nProtocol, [119, 101, 98, 115, 111, 99, 107, 101, 116])] = .err .invalidHeaderName := by decide
example : recvResponse toy [(nMethod, GET), (nScheme, sHttps), (nAuthority, aCom), (nPath, slash)] = .err .invalidHeaderName := by decide
/-- … and goes through the second arm of `recv_response`; a section `try_from` refuses through the first -/
example : recvResponseSecond toy [(nStatus, [50, 48, 48]), (nMethod, GET)] = true := by decide
example : recvResponseSecond toy [(nStatus, [50, 48, 48]), ([88], [49])] = false := by decide
/-- a repeated `:status` in a response, repeated request fields in a request are still handed over (R-12 (i)) -/
example : recvResponse toy [(nStatus, [50, 48, 48]), (nStatus, [50, 48, 52])] = .ok (204, []) := by decide
/-- D-12e: a later `Host` value that differs — from `:authority`, or from the first `Host` value
    when the authority comes from `Host` — is a contradiction as well; identical ones are not -/
example : recvRequest toy [(nMethod, GET), (nAuthority, aCom), (nHost, aCom), (nHost, [98])] = .err .contradictedAuthority := by decide
example : recvRequest toy [(nMethod, GET), (nHost, aCom), (nAuthority, aCom), (nHost, [])] = .err .contradictedAuthority := by decide
example : recvRequest toy [(nMethod, GET), (nHost, aCom), (nHost, [98])] = .err .contradictedAuthority := by decide
example : recvRequest toy [(nMethod, GET), (nHost, aCom), (nAuthority, aCom), (nHost, aCom)]
    = .ok { method := GET, uri := { scheme := none, authority := some aCom, path := none },
            protocol := none, headers := [(nHost, [aCom, aCom])] } := by decide
/-- the number of fields is no limit (D-01, repaired): any number of values under one name is
    handed over, in order -/
example (k : Nat) : recvTrailers toy (List.replicate (k + 1) ([120], [49])) =
    .ok [([120], List.replicate (k + 1) [49])] := by
  have hp : Field.parse toy [120] [49] = .ok (.header [120] [49]) := by decide
  have key : ∀ (k : Nat) (vs : List Bytes), vs ≠ [] →
      tryFromLoop toy { fields := [([120], vs)] } (List.replicate k ([120], [49])) =
        .ok { fields := [([120], vs ++ List.replicate k [49])] } := by
    intro k
    induction k with
    | zero => intro vs _; simp [tryFromLoop]
    | succ k ih =>
      intro vs hvs
      simp only [List.replicate_succ, tryFromLoop, hp]
      have hfull : Header.full { fields := [([120], vs)] } (.header [120] [49]) = false := by
        simp [Header.full, hmMaxEntries]
      rw [hfull]
      simp only [Bool.false_eq_true, if_false, Header.add, hmAppend, if_true]
      rw [ih (vs ++ [[49]]) (by simp)]
      simp
  have hfull0 : Header.full {} (.header [120] [49]) = false := by decide
  simp only [recvTrailers, tryFrom_eq_loop, List.replicate_succ, tryFromLoop, hp, hfull0,
    Bool.false_eq_true, if_false, Header.add, hmAppend]
  rw [key k [[49]] (by simp)]
  simp [Res.bind, Header.intoTrailers]
/-- responses and trailers -/
example : recvResponse toy [(nStatus, [50, 48, 52]), ([120], [49])] = .ok (204, [([120], [[49]])]) := by decide
example : recvResponse toy [([120], [49])] = .err .missingStatus := by decide
example : recvResponse toy [(nStatus, [48, 57, 57])] = .err .invalidHeaderValue := by decide
example : recvTrailers toy [([120], [49])] = .ok [([120], [[49]])] := by decide
example : recvTrailers toy [(nStatus, [50, 48, 48]), ([120], [49])] = .err .invalidHeaderName := by decide
/-! ## reading R-12c: `:protocol` tokens written out; "parseable" without the crate -/

/-- The `Protocol` table read from `h3/src/ext.rs` on this run is the list of IANA upgrade tokens the
    specification writes out (`webtransport`, `connect-udp`, `connect-ip`, `websocket`): the oracle for
    `:protocol` does not take its word from the code. -/
theorem C12_protocols_are_iana_tokens : H3.Gen.Headers.protocols = protocolTokens := protocols_gen_eq_spec

example : [0x68, 0x32, 0x63] ∉ protocolTokens := by decide                                   -- h2c
example : [0x77, 0x65, 0x62, 0x73, 0x6f, 0x63, 0x6b, 0x65, 0x74] ∈ protocolTokens := by decide   -- websocket

/-- What h3 still delegates of the crate-independent necessary conditions of R-12c (`SyntaxOk`) after
    the D-12g fix: only "`:path` is not empty" (`PathAndQuery::from_str("")` fails).  The scheme grammar,
    the two authority conditions and "no `#` in the path" are h3's own check (`pseudo_value_syntax`,
    model `pseudoValueSyntax`) and need no law.  Checked against the real crate on every verdict table
    (`H3.Drv.C12.lawsOk`). -/
structure HttpSyntaxLaws (H : Http) : Prop where
  path_nonempty : H.parsePath [] = none

/-- **A request is handed over only if its `:scheme` is an RFC 3986 scheme, its `:authority` has at most
    one `@` and a numeric port, its `:path` has no `#` and is not empty under `http`/`https`** (reading
    R-12c; finding D-12g, repaired): `∀ H` with `HttpLaws` and `PathAndQuery::from_str("") = Err`, an
    accepted request satisfies `WellFormedRequestStrict`.  The first three classes hold for EVERY `H`,
    whatever its three parsers accept (`tryFrom_syntax`: `Field::parse` checks them itself before it
    delegates); only the empty path is still the crate's refusal.  Before the fix this was
    `C12_accepted_request_syntax_partial` (for those `H` whose parsers refuse what the conditions
    exclude — the real crate does not, see `C12_syntax_refusal_is_h3s_own`). -/
theorem C12_accepted_request_syntax (H : Http) (L : HttpLaws H) (S : HttpSyntaxLaws H)
    (fs : List FieldLine) (r : RequestParts) (h : recvRequest H fs = .ok r) :
    WellFormedRequestStrict H fs := by
  have hw := (C12_accepted_request_wellformed H L fs r h).1
  refine ⟨hw, ?_, ?_⟩
  · cases ht : tryFrom H fs with
    | ok hd => exact tryFrom_syntax ht
    | err e => simp [recvRequest, ht, Res.bind] at h
    | panic => simp [recvRequest, ht, Res.bind] at h
  · intro _ _ p hp e
    subst e
    have hf : (nPath, []) ∈ fs := mem_valuesOf.mp hp
    obtain ⟨_, hok⟩ := hw.1 _ hf
    rw [if_pos (by decide : IsPseudo nPath)] at hok
    rcases hok with ⟨e', _⟩ | ⟨e', _⟩ | ⟨e', _⟩ | ⟨_, hp'⟩ | ⟨e', _⟩ | ⟨e', _⟩
    · exact absurd e' (by decide)
    · exact absurd e' (by decide)
    · exact absurd e' (by decide)
    · rw [S.path_nonempty] at hp'; cases hp'
    · exact absurd e' (by decide)
    · exact absurd e' (by decide)

/-- An `Http` that answers as `http` 1.x does on the byte strings used below (checked against the real
    crate by the verdict tables of the correspondence run: `corpus/C12/d12g_syntax.txt`): `Scheme` checks
    only the byte set (letters, digits, `+`, `-`, `.` **and `~`**, `SCHEME_CHARS`; up to 64 bytes; the empty string passes),
    `Authority` a byte set and at most one `:` outside brackets (any number of `@`, anything after the
    `:`), `PathAndQuery` refuses the empty string, wants `/`, `?`, `#` or `*` first and DROPS everything
    from the first `#` on (an empty rest prints as `/`); `Uri::builder` wants scheme and path both or
    neither. -/
def laxSchemeByte (b : Nat) : Bool :=
  (65 ≤ b && b ≤ 90) || (97 ≤ b && b ≤ 122) || (48 ≤ b && b ≤ 57) || b == 0x2b || b == 0x2d || b == 0x2e || b == 0x7e
def laxAuthByte (b : Nat) : Bool :=
  (97 ≤ b && b ≤ 122) || (48 ≤ b && b ≤ 57) || b == 0x2e || b == 0x2d || b == 0x3a || b == 0x40
def laxAuthOk (v : Bytes) : Bool := !v.isEmpty && v.all laxAuthByte && decide ((v.filter (· == 0x3a)).length ≤ 1)

def lax : Http where
  parseScheme v := if decide (v.length ≤ 64) && v.all laxSchemeByte then some v else none
  parseAuthority v := if laxAuthOk v then some v else none
  parsePath v :=
    let p := v.takeWhile (· != 0x23)
    if v.isEmpty then none
    else if p.isEmpty then some [0x2f]
    else if p.head? == some 0x2f || p.head? == some 0x3f || p == [0x2a] then some p else none
  uriBuild s a p :=
    if laxAuthOk a && (s.isSome == p.isSome) then some { scheme := s, authority := some a, path := p } else none

theorem lax_laws : HttpLaws lax where
  authority_nonempty := by decide
  authority_as_str := by
    intro v a h; simp only [lax] at h; split at h <;> cases h; rfl
  uri_authority_nonempty := by intro s p; rfl
  uri_authority_parses := by
    intro s a p u h
    simp only [lax] at h ⊢
    split at h
    · rename_i hc; rw [if_pos ((Bool.and_eq_true _ _).mp hc).1]
    · cases h

def h1http : Bytes := [0x31, 0x68, 0x74, 0x74, 0x70]
def isOk {α : Type} : Res α → Bool
  | .ok _ => true
  | _ => false

theorem lax_syntax_laws : HttpSyntaxLaws lax where
  path_nonempty := by decide

/-- the six witness sections of D-12g: `:scheme: 1http`, an empty `:scheme`, `:scheme: h~p` (`~` is in
    `http`'s `SCHEME_CHARS`), `:authority: a@b@c`, `:authority: a.com:x`, `:path: /a#f` -/
def d12gWitnesses : List (List FieldLine) :=
  [[(nMethod, GET), (nScheme, h1http), (nAuthority, aCom), (nPath, slash)],
   [(nMethod, GET), (nScheme, []), (nAuthority, aCom), (nPath, slash)],
   [(nMethod, GET), (nScheme, [0x68, 0x7e, 0x70]), (nAuthority, aCom), (nPath, slash)],
   [(nMethod, GET), (nScheme, sHttps), (nAuthority, [97, 64, 98, 64, 99]), (nPath, slash)],
   [(nMethod, GET), (nScheme, sHttps), (nAuthority, aCom ++ [58, 120]), (nPath, slash)],
   [(nMethod, GET), (nScheme, sHttps), (nAuthority, aCom), (nPath, [47, 97, 35, 102])]]

/-- `Field.parse` as it was BEFORE the D-12g fix (the shape the translator answers
    `pseudoSyntaxChecked = false` for): a pseudo-header value goes to the `http` parser at once. -/
def parseDelegating (H : Http) (n v : Bytes) : Option Bytes :=
  if n = nScheme then H.parseScheme v else if n = nAuthority then H.parseAuthority v
  else if n = nPath then H.parsePath v else some v

/-- **D-12g: the refusal is h3's own, and was missing.**  On `lax`, an `Http` that answers as the real
    crate does (byte-set checks only, `~` a scheme byte, the fragment dropped): every value of the six
    witness sections is ACCEPTED by the crate's parser (so the code before the fix, which only
    delegated, handed the sections over: they are `WellFormedRequest`, the oracle without `SyntaxOk`),
    none satisfies `SyntaxOk`, the crate's `PathAndQuery` turns `/a#f` into `/a` — a value the peer never
    sent —, and the model of the repaired code refuses each with `InvalidHeaderValue`. -/
theorem C12_syntax_refusal_is_h3s_own :
    HttpLaws lax ∧ HttpSyntaxLaws lax ∧
    (∀ fs ∈ d12gWitnesses,
      (∀ f ∈ fs, (parseDelegating lax f.1 f.2).isSome) ∧ WellFormedRequest lax fs ∧ ¬ SyntaxOk fs ∧
      recvRequest lax fs = .err .invalidHeaderValue) ∧
    lax.parsePath [47, 97, 35, 102] = some [47, 97] := by
  refine ⟨lax_laws, lax_syntax_laws, ?_, ?_⟩
  · decide
  · decide

/-- non-vacuity: an `Http` that knows one scheme, one authority and one path satisfies both sets of
    laws, and the request it accepts is strictly well-formed (on `lax`: below, `laxReq`). -/
def tiny : Http where
  parseScheme v := if v = sHttps then some v else none
  parseAuthority v := if v = aCom then some v else none
  parsePath v := if v = slash then some v else none
  uriBuild s a p := if a = aCom then some { scheme := s, authority := some a, path := p } else none

theorem tiny_laws : HttpLaws tiny where
  authority_nonempty := by decide
  authority_as_str := by
    intro v a h; simp only [tiny] at h; split at h <;> cases h; rfl
  uri_authority_nonempty := by intro s p; rfl
  uri_authority_parses := by
    intro s a p u h
    simp only [tiny] at h ⊢
    split at h
    · rename_i hc; rw [if_pos hc]
    · cases h

theorem tiny_syntax_laws : HttpSyntaxLaws tiny where
  path_nonempty := by decide

example : isOk (recvRequest tiny [(nMethod, GET), (nScheme, sHttps), (nAuthority, aCom), (nPath, slash), ([120], [49])]) = true := by
  decide
example (r : RequestParts)
    (h : recvRequest tiny [(nMethod, GET), (nScheme, sHttps), (nAuthority, aCom), (nPath, slash), ([120], [49])] = .ok r) :
    SyntaxOk [(nMethod, GET), (nScheme, sHttps), (nAuthority, aCom), (nPath, slash), ([120], [49])] :=
  (C12_accepted_request_syntax tiny tiny_laws tiny_syntax_laws _ r h).2

/-! ### the main theorems on the instance that answers as `http` does (`lax`)

    The verdict tables of the correspondence run instantiate `H` by lookup; these examples instantiate
    it by a *function* with `http`'s behaviour on the bytes used, so that every law is used as a law. -/

def laxReq : List FieldLine :=
  [(nMethod, GET), (nScheme, sHttps), (nAuthority, aCom), (nPath, [47, 112, 63, 113]), ([120], [49]), (nHost, aCom), ([120], [50])]

example : isOk (recvRequest lax laxReq) = true := by decide
/-- `C12_accepted_request_wellformed` on `lax`: well-formed, and every `Host` value is the authority -/
example (r : RequestParts) (h : recvRequest lax laxReq = .ok r) :
    WellFormedRequest lax laxReq ∧ lastVal nMethod laxReq = some r.method :=
  let t := C12_accepted_request_wellformed lax lax_laws laxReq r h
  ⟨t.1, t.2.1⟩
/-- `C12_accepted_request_syntax` on `lax` — whose parsers do NOT refuse what `SyntaxOk` excludes -/
example (r : RequestParts) (h : recvRequest lax laxReq = .ok r) : WellFormedRequestStrict lax laxReq :=
  C12_accepted_request_syntax lax lax_laws lax_syntax_laws laxReq r h
/-- `C12_malformed_request_refused` on `lax`: `:authority: a.com` with `host: b.com`; a space in the
    authority (refused by the parser); an unknown pseudo-header field -/
example : ¬ WellFormedRequest lax [(nMethod, GET), (nAuthority, aCom), (nHost, [98])] := by decide
example : ∃ e, recvRequest lax [(nMethod, GET), (nAuthority, aCom), (nHost, [98])] = .err e :=
  let ⟨e, h, _⟩ := C12_malformed_request_refused lax lax_laws _ (by decide)
  ⟨e, h⟩
example : ∃ e, recvRequest lax [(nMethod, GET), (nAuthority, [97, 32, 98])] = .err e :=
  let ⟨e, h, _⟩ := C12_malformed_request_refused lax lax_laws _ (by decide)
  ⟨e, h⟩
example : ∃ e, recvRequest lax [(nMethod, GET), (nAuthority, aCom), ([58, 120], [49])] = .err e :=
  let ⟨e, h, _⟩ := C12_malformed_request_refused lax lax_laws _ (by decide)
  ⟨e, h⟩
/-- `C12_accepted_response_wellformed` / `C12_malformed_response_refused` on `lax` -/
example : recvResponse lax [(nStatus, [50, 48, 52]), ([120], [49])] = .ok (204, [([120], [[49]])]) := by decide
example : WellFormedResponse lax [(nStatus, [50, 48, 52]), ([120], [49])] :=
  (C12_accepted_response_wellformed lax _ 204 [([120], [[49]])] (by decide)).1
example : ∃ e, recvResponse lax [(nStatus, [50, 48, 52]), (nPath, slash)] = .err e :=
  let ⟨e, h, _⟩ := C12_malformed_response_refused lax _ (by decide)
  ⟨e, h⟩
/-- `C12_accepted_trailers_wellformed` / `C12_malformed_trailers_refused` on `lax` -/
example : WellFormedTrailers [([120], [49]), ([121], [])] :=
  (C12_accepted_trailers_wellformed lax _ [([120], [[49]]), ([121], [[]])] (by decide)).1
example : ∃ e, recvTrailers lax [([120], [49]), (nStatus, [50, 48, 48])] = .err e :=
  let ⟨e, h, _⟩ := C12_malformed_trailers_refused lax _ (by decide)
  ⟨e, h⟩
/-- `C12_no_panic` on `lax` -/
example : recvRequest lax laxReq ≠ .panic := (C12_no_panic lax laxReq).1

/-- sent: GET https://a.com/ with a two-valued header -/
def sampleHeader : Header :=
  { pseudo := { method := some GET, scheme := some sHttps, authority := some aCom, path := some slash, len := 4 },
    fields := [([120], [[49], [51]]), ([121], [[50]])] }
example : Header.request GET ⟨some sHttps, some aCom, some slash⟩ [([120], [[49], [51]]), ([121], [[50]])] none = .ok sampleHeader := by
  decide
example : sampleHeader.wireFields =
    [(nMethod, GET), (nScheme, sHttps), (nAuthority, aCom), (nPath, slash), ([120], [49]), ([120], [51]), ([121], [50])] := by decide
/-- plain CONNECT carries `:method` and `:authority` only; extended CONNECT all five -/
example : (Pseudo.request H3.Headers.mCONNECT ⟨none, some aCom, none⟩ none) =
    { method := some H3.Headers.mCONNECT, authority := some aCom, len := 4 } := by decide
example : pseudoList (Pseudo.request H3.Headers.mCONNECT ⟨some sHttps, some aCom, some slash⟩ (some [119, 115])) =
    [(nMethod, H3.Headers.mCONNECT), (nScheme, sHttps), (nAuthority, aCom), (nPath, slash), (nProtocol, [119, 115])] := by decide
example : (Header.response 404 []).wireFields = [(nStatus, [52, 48, 52])] := by decide

end H3.Props.C12
