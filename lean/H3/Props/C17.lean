import H3.Model.QuinnAdapter
import H3.Gen.QuinnTables
/-! # C17 — the Quinn adapter moves bytes, identifiers and errors faithfully

*Partial by construction*: only the adapter's own logic (`h3-quinn/src/lib.rs`, `WriteBuf` in
`h3/src/stream.rs`) is modelled. Quinn, UDP and tokio appear as parameters — the acceptance
script of `poll_write`, the events of the read future, the error value handed to a conversion
function — over which the theorems quantify universally; that real Quinn produces such scripts
and delivers the accepted bytes to the peer exactly once is observed by the correspondence run
(`harness/src/e_c17.rs`, real loopback connections), not proved. -/
namespace H3.Props.C17
open H3.QuinnAdapter

/-! ## `WriteBuf` as a `Buf` -/

theorem wb_remaining (d : WriteBuf) (_h : d.WF) : d.remaining = d.view.length := by
  simp [WriteBuf.remaining, WriteBuf.view]

theorem wb_chunk_prefix (d : WriteBuf) : ∃ t, d.view = d.chunk ++ t := by
  unfold WriteBuf.chunk WriteBuf.view
  split
  · exact ⟨d.payload, rfl⟩
  · rename_i h
    have : d.hdr.drop d.pos = [] := by
      apply List.drop_eq_nil_of_le; omega
    exact ⟨[], by simp [this]⟩

theorem wb_chunk_ne (d : WriteBuf) (h : d.view ≠ []) : d.chunk ≠ [] := by
  unfold WriteBuf.chunk
  split
  · intro hc
    have := congrArg List.length hc
    simp at this; omega
  · rename_i hh
    have : d.hdr.drop d.pos = [] := by
      apply List.drop_eq_nil_of_le; omega
    simpa [WriteBuf.view, this] using h

theorem wb_advance (d : WriteBuf) (h : d.WF) (k : Nat) (hk : k ≤ d.chunk.length) :
    (d.advance k).WF ∧ (d.advance k).view = d.view.drop k := by
  unfold WriteBuf.WF at h
  unfold WriteBuf.chunk at hk
  unfold WriteBuf.advance WriteBuf.view WriteBuf.WF
  by_cases hr : d.hdr.length - d.pos > 0
  · rw [if_pos hr] at hk
    simp only [hr, if_true]
    have hk' : k ≤ d.hdr.length - d.pos := by simpa using hk
    have hm : min k (d.hdr.length - d.pos) = k := by omega
    rw [hm]
    refine ⟨by omega, ?_⟩
    have z : k - k = 0 := by omega
    rw [z, List.drop_zero, List.drop_append, List.drop_drop]
    have z2 : k - (List.drop d.pos d.hdr).length = 0 := by simp; omega
    rw [z2, List.drop_zero]
  · rw [if_neg hr] at hk
    simp only [hr, if_false]
    refine ⟨h, ?_⟩
    have : d.hdr.drop d.pos = [] := by
      apply List.drop_eq_nil_of_le; omega
    simp [this]

theorem wb_take_chunk (d : WriteBuf) (k : Nat) (hk : k ≤ d.chunk.length) :
    d.chunk.take k = d.view.take k := by
  obtain ⟨t, ht⟩ := wb_chunk_prefix d
  rw [ht, List.take_append_of_le_length hk]

/-! ## the write loop -/

/-- The `poll_write` answers one run of the loop consumed: a run of `ok`s, then at most one final
    answer, which determines the result. -/
inductive LoopTrace : List Accept → Ready → Prop where
  | done : LoopTrace [] .ok
  | silent : LoopTrace [] .pending
  | pending : LoopTrace [.pending] .pending
  | err (e : WriteError) : LoopTrace [.err e] (.err (convertWrite e))
  | ok (k : Nat) {c : List Accept} {r : Ready} : LoopTrace c r → LoopTrace (.ok k :: c) r

/-- In a loop trace an error answer is the last one, and it is the result. -/
theorem LoopTrace.err_last {c : List Accept} {r : Ready} (h : LoopTrace c r) :
    ∀ pre e post, c = pre ++ .err e :: post → post = [] ∧ r = .err (convertWrite e) := by
  induction h with
  | done => intro pre e post h; simp at h
  | silent => intro pre e post h; simp at h
  | pending =>
    intro pre e post h
    cases pre with
    | nil => simp at h
    | cons a p => simp at h
  | err e0 =>
    intro pre e post h
    cases pre with
    | nil => simp at h; obtain ⟨h1, h2⟩ := h; subst h1; exact ⟨h2, rfl⟩
    | cons a p => simp at h
  | ok k _ ih =>
    intro pre e post h
    cases pre with
    | nil => simp at h
    | cons a p =>
      simp at h
      exact ih p e post h.2

/-- A trace that does not end in `Pending` has no `pending` answer in it… and a trace ending in
    `Pending` has no error in it. -/
theorem LoopTrace.pending_no_err {c : List Accept} (h : LoopTrace c .pending) :
    ∀ e, Accept.err e ∉ c := by
  intro e hm
  obtain ⟨pre, post, hc⟩ := List.append_of_mem hm
  have := (h.err_last pre e post hc).2
  cases this

theorem writeLoop_spec (script : List Accept) : ∀ (d : WriteBuf), d.WF →
    let o := writeLoop d script
    o.acc ++ o.buf.view = d.view ∧ o.buf.WF ∧ (o.res = .ok ↔ o.buf.view = []) ∧
    ∃ c, script = c ++ o.rest ∧ LoopTrace c o.res := by
  induction script with
  | nil =>
    intro d h
    have hr := wb_remaining d h
    unfold writeLoop
    by_cases h0 : d.remaining = 0
    · rw [if_pos h0]
      have : d.view = [] := List.eq_nil_of_length_eq_zero (by omega)
      exact ⟨by simp, h, by simp [this], [], rfl, .done⟩
    · rw [if_neg h0]
      have : d.view ≠ [] := by intro hv; rw [hv] at hr; simp at hr; omega
      exact ⟨by simp, h, by simp [this], [], rfl, .silent⟩
  | cons a r ih =>
    intro d h
    have hr := wb_remaining d h
    unfold writeLoop
    by_cases h0 : d.remaining = 0
    · rw [if_pos h0]
      have : d.view = [] := List.eq_nil_of_length_eq_zero (by omega)
      exact ⟨by simp, h, by simp [this], [], rfl, .done⟩
    · rw [if_neg h0]
      have hne : d.view ≠ [] := by intro hv; rw [hv] at hr; simp at hr; omega
      cases a with
      | pending => exact ⟨by simp, h, by simp [hne], [.pending], rfl, .pending⟩
      | err e => exact ⟨by simp, h, by simp [hne], [.err e], rfl, .err e⟩
      | ok k =>
        have hk : min k d.chunk.length ≤ d.chunk.length := Nat.min_le_right _ _
        obtain ⟨hwf', hv'⟩ := wb_advance d h _ hk
        obtain ⟨i1, i2, i3, c, i4, i5⟩ := ih (d.advance (min k d.chunk.length)) hwf'
        refine ⟨?_, i2, i3, .ok k :: c, ?_, .ok k i5⟩
        · simp only [List.append_assoc]
          rw [i1, hv', wb_take_chunk d _ hk, List.take_append_drop]
        · simp only [List.cons_append]; rw [← i4]

/-- What a whole `write()` consumed: loop traces ending in `Pending`, then one final loop trace. -/
inductive DriveTrace : List Accept → Ready → Prop where
  | last {c : List Accept} {r : Ready} : LoopTrace c r → DriveTrace c r
  | more {c c' : List Accept} {r : Ready} : LoopTrace c .pending → DriveTrace c' r → DriveTrace (c ++ c') r

theorem DriveTrace.err_last {c : List Accept} {r : Ready} (h : DriveTrace c r) :
    ∀ pre e post, c = pre ++ .err e :: post → post = [] ∧ r = .err (convertWrite e) := by
  induction h with
  | last h => exact h.err_last
  | more h1 _ ih =>
    rename_i c1 c2 r2
    intro pre e post hc
    -- the error answer lies in the second part: the first part has none
    have hno := h1.pending_no_err
    rcases List.append_eq_append_iff.mp hc with ⟨a', _, ha2⟩ | ⟨c', hc1, hc2⟩
    · -- pre = c1 ++ a', c2 = a' ++ err :: post
      exact ih a' e post ha2
    · -- c1 = pre ++ c', err :: post = c' ++ c2
      cases c' with
      | nil =>
        simp at hc2
        exact ih [] e post (by simpa using hc2.symm)
      | cons x xs =>
        simp at hc2
        exfalso
        apply hno e
        rw [hc1, ← hc2.1]
        simp

/-- `poll_ready` on a stream that holds `d`. -/
theorem pollReady_spec (d : WriteBuf) (h : d.WF) (script : List Accept) :
    let o := pollReady ⟨some d⟩ script
    o.acc ++ o.state.held = d.view ∧ (∀ d', o.state.writing = some d' → d'.WF) ∧
    (o.res = .ok ↔ o.state.writing = none) ∧ (o.res = .ok ↔ o.acc = d.view) ∧
    ∃ c, script = c ++ o.rest ∧ LoopTrace c o.res := by
  obtain ⟨i1, i2, i3, i4⟩ := writeLoop_spec script d h
  unfold pollReady
  simp only
  cases hres : (writeLoop d script).res with
  | ok =>
    have hv := i3.mp hres
    rw [hv] at i1
    simp only [Send.held]
    refine ⟨by simpa using i1, by simp, by simp, by simpa using i1, ?_⟩
    simpa [hres] using i4
  | pending =>
    have hv : (writeLoop d script).buf.view ≠ [] := fun hv => by
      have := i3.mpr hv; rw [hres] at this; cases this
    simp only [Send.held]
    refine ⟨i1, ?_, by simp, ?_, ?_⟩
    · intro d' hd'; cases hd'; exact i2
    · constructor
      · intro hh; cases hh
      · intro hh; rw [hh] at i1; exact absurd (by simpa using i1) hv
    · simpa [hres] using i4
  | err e =>
    have hv : (writeLoop d script).buf.view ≠ [] := fun hv => by
      have := i3.mpr hv; rw [hres] at this; cases this
    simp only [Send.held]
    refine ⟨i1, ?_, by simp, ?_, ?_⟩
    · intro d' hd'; cases hd'; exact i2
    · constructor
      · intro hh; cases hh
      · intro hh; rw [hh] at i1; exact absurd (by simpa using i1) hv
    · simpa [hres] using i4

/-- The specification of a complete `write()` of buffer contents `v`. -/
def DriveSpec (v : Bytes) (script : List Accept) (o : PollOut) : Prop :=
  o.acc ++ o.state.held = v ∧ (o.res = .ok ↔ o.state.writing = none) ∧ (o.res = .ok ↔ o.acc = v) ∧
  ∃ c, script = c ++ o.rest ∧ DriveTrace c o.res

theorem driveN_spec (n : Nat) : ∀ (script : List Accept) (d : WriteBuf), d.WF →
    DriveSpec d.view script (driveN n ⟨some d⟩ script) := by
  induction n with
  | zero =>
    intro script d h
    obtain ⟨p1, _, p3, p4, c, p5, p6⟩ := pollReady_spec d h script
    exact ⟨p1, p3, p4, c, p5, .last p6⟩
  | succ n ih =>
    intro script d h
    obtain ⟨p1, p2, p3, p4, c, p5, p6⟩ := pollReady_spec d h script
    rw [driveN]
    simp only
    cases hres : (pollReady ⟨some d⟩ script).res with
    | ok =>
      simp only
      exact ⟨p1, p3, p4, c, p5, .last p6⟩
    | err e =>
      simp only
      exact ⟨p1, p3, p4, c, p5, .last p6⟩
    | pending =>
      simp only
      by_cases hl : (pollReady ⟨some d⟩ script).rest.length < script.length
      · rw [if_pos hl]
        -- the adapter still holds a well-formed buffer d'
        have hw : (pollReady ⟨some d⟩ script).state.writing ≠ none := fun hh => by
          have := p3.mpr hh; rw [hres] at this; cases this
        cases hst : (pollReady ⟨some d⟩ script).state with
        | mk w =>
          cases w with
          | none => rw [hst] at hw; exact absurd rfl hw
          | some d' =>
            have hwf' : d'.WF := p2 d' (by rw [hst])
            obtain ⟨q1, q2, q3, c', q5, q6⟩ := ih (pollReady ⟨some d⟩ script).rest d' hwf'
            have hheld : (pollReady ⟨some d⟩ script).state.held = d'.view := by rw [hst]; rfl
            rw [hheld] at p1
            rw [hres] at p6
            refine ⟨?_, q2, ?_, c ++ c', ?_, .more p6 q6⟩
            · simp only [List.append_assoc]; rw [q1]; exact p1
            · simp only
              rw [q3]
              constructor
              · intro hh; rw [hh]; exact p1
              · intro hh; rw [← p1] at hh; simpa using hh
            · simp only [List.append_assoc]; rw [← q5]; exact p5
      · rw [if_neg hl]
        exact ⟨p1, p3, p4, c, p5, .last p6⟩

/-- **C17, write half.** For every buffer (header ++ payload, any cursor) and every acceptance
    script — any pattern of `Pending`, partial acceptances `ok k` and errors, over any number of
    `poll_ready` calls —
    1. the bytes Quinn accepted, followed by the bytes the adapter still holds, are exactly the
       buffer: what was accepted is a prefix, in order, nothing twice, nothing skipped;
    2. `Ready(Ok)` ⇔ `writing` cleared ⇔ the whole buffer was accepted;
    3. the `poll_write` calls made are a prefix of the script in which an error answer is the last
       call and is the result (nothing is written after an error);
    4. `send_data` while an earlier buffer is unfinished is refused with the internal error and
       changes nothing (so no interleaving), whereas on a free stream it stores the buffer. -/
theorem C17_write_loop (d : WriteBuf) (hwf : d.WF) (script : List Accept) :
    let o := drive ⟨some d⟩ script
    (o.acc ++ o.state.held = d.view) ∧
    (o.res = .ok ↔ o.state.writing = none) ∧ (o.res = .ok ↔ o.acc = d.view) ∧
    (∃ c, script = c ++ o.rest ∧
      ∀ pre e post, c = pre ++ .err e :: post → post = [] ∧ o.res = .err (convertWrite e)) ∧
    (∀ (s : Send) (d2 : WriteBuf), s.writing ≠ none → sendData s d2 = (s, .refused)) ∧
    (∀ d2 : WriteBuf, sendData ⟨none⟩ d2 = (⟨some d2⟩, .ok)) := by
  obtain ⟨h1, h2, h3, c, h4, h5⟩ := driveN_spec script.length script d hwf
  refine ⟨h1, h2, h3, ⟨c, h4, h5.err_last⟩, ?_, ?_⟩
  · intro s d2 hs
    cases s with
    | mk w =>
      cases w with
      | none => exact absurd rfl hs
      | some x => rfl
  · intro d2; rfl

/-- One `poll_ready` call (the loop the code contains), same statement. -/
theorem C17_poll_ready_once (d : WriteBuf) (hwf : d.WF) (script : List Accept) :
    let o := pollReady ⟨some d⟩ script
    (o.acc ++ o.state.held = d.view) ∧
    (o.res = .ok ↔ o.state.writing = none) ∧ (o.res = .ok ↔ o.acc = d.view) ∧
    (∃ c, script = c ++ o.rest ∧
      ∀ pre e post, c = pre ++ .err e :: post → post = [] ∧ o.res = .err (convertWrite e)) ∧
    (pollReady ⟨none⟩ script = ⟨⟨none⟩, .ok, [], script⟩) := by
  obtain ⟨h1, _, h3, h4, c, h5, h6⟩ := pollReady_spec d hwf script
  exact ⟨h1, h3, h4, ⟨c, h5, h6.err_last⟩, rfl⟩

/-- A fresh `WriteBuf` is well formed and presents header ++ payload. -/
theorem C17_writebuf_new (hdr payload : Bytes) :
    (WriteBuf.new hdr payload).WF ∧ (WriteBuf.new hdr payload).view = hdr ++ payload := by
  simp [WriteBuf.new, WriteBuf.WF, WriteBuf.view]

-- non-vacuity: DATA frame header `00 03` + payload `aa bb cc`; Quinn takes 1 byte, says Pending,
-- takes 3 (only 1 header byte is offered: the chunk ends with the header), 2, then the rest.
example : drive ⟨some (WriteBuf.new [0x00, 0x03] [0xaa, 0xbb, 0xcc])⟩ [.ok 1, .pending, .ok 3, .ok 2, .pending, .ok 9, .ok 5] =
    ⟨⟨none⟩, .ok, [0x00, 0x03, 0xaa, 0xbb, 0xcc], [.ok 5]⟩ := by decide
-- an error in the middle: two bytes accepted, the remaining three are still held, nothing after it
example : drive ⟨some (WriteBuf.new [0x00, 0x03] [0xaa, 0xbb, 0xcc])⟩ [.ok 1, .ok 1, .err (.stopped 9), .ok 3] =
    ⟨⟨some ⟨[0x00, 0x03], 2, [0xaa, 0xbb, 0xcc]⟩⟩, .err (.terminated 9), [0x00, 0x03], [.ok 3]⟩ := by decide
example : sendData ⟨some (WriteBuf.new [0x00, 0x01] [0x07])⟩ (WriteBuf.new [0x00, 0x00] []) =
    (⟨some (WriteBuf.new [0x00, 0x01] [0x07])⟩, .refused) := by decide

/-! ## stream identifiers and the receive-side ownership machine -/

/-- Invariant of the ownership machine: a stop is only remembered while the future owns the stream. -/
def RecvInv (id : Nat) (r : Recv) : Prop := r.id = id ∧ (r.here = true → r.pendingStop = none)

theorem comeBack_inv (id : Nat) (r : Recv) (h : r.id = id) : RecvInv id r.comeBack :=
  ⟨h, fun _ => rfl⟩

theorem step_inv (id : Nat) (r : Recv) (op : RecvOp) (h : RecvInv id r) : RecvInv id (r.step op).1 := by
  obtain ⟨h1, h2⟩ := h
  unfold Recv.step
  by_cases ha : r.alive
  · simp only [ha, Bool.not_true, Bool.false_eq_true, ↓reduceIte]
    cases op with
    | pollData ev =>
      cases ev with
      | pending => exact ⟨h1, by simp [pollData]⟩
      | data => exact comeBack_inv id r h1
      | fin => exact comeBack_inv id r h1
      | err e => exact comeBack_inv id r h1
    | stopSending c =>
      by_cases hc : c ≥ 2^62
      · simp only [stopSending, if_pos hc]; exact ⟨h1, h2⟩
      · by_cases hh : r.here = true
        · simp only [stopSending, if_neg hc, if_pos hh]; exact ⟨h1, h2⟩
        · simp only [stopSending, if_neg hc, if_neg hh]; exact ⟨h1, fun h => absurd h hh⟩
    | recvId => exact ⟨h1, h2⟩
    | drop => exact ⟨h1, h2⟩
  · simp only [ha]; exact ⟨h1, h2⟩

theorem run_inv (id : Nat) (ops : List RecvOp) : ∀ r, RecvInv id r → RecvInv id (r.run ops).1 := by
  induction ops with
  | nil => intro r h; exact h
  | cons op ops ih =>
    intro r h
    simp only [Recv.run]
    exact ih _ (step_inv id r op h)

/-- Number of stops requested so far vs issued on the Quinn stream. -/
def stopRequests : List RecvOp → Nat
  | [] => 0
  | .stopSending _ :: ops => stopRequests ops + 1
  | _ :: ops => stopRequests ops

def owed (r : Recv) : Nat := r.stops.length + (if r.pendingStop.isSome then 1 else 0)

theorem comeBack_owed (r : Recv) : owed r.comeBack = owed r := by
  unfold Recv.comeBack owed
  cases r.pendingStop <;> simp

theorem step_owed (r : Recv) (op : RecvOp) :
    owed (r.step op).1 ≤ owed r + (match op with | .stopSending _ => 1 | _ => 0) := by
  unfold Recv.step
  by_cases ha : r.alive
  · simp only [ha, Bool.not_true, Bool.false_eq_true, ↓reduceIte]
    cases op with
    | pollData ev =>
      cases ev with
      | pending => exact Nat.le_refl _
      | data => simp [pollData, comeBack_owed]
      | fin => simp [pollData, comeBack_owed]
      | err e => simp [pollData, comeBack_owed]
    | stopSending c =>
      by_cases hc : c ≥ 2^62
      · simp only [stopSending, if_pos hc]; omega
      · by_cases hh : r.here = true
        · simp only [stopSending, if_neg hc, if_pos hh, owed, List.length_append, List.length_cons,
            List.length_nil]
          omega
        · simp only [stopSending, if_neg hc, if_neg hh, owed]; cases r.pendingStop <;> simp
    | recvId => simp
    | drop => simp [owed]
  · simp [ha]

theorem run_owed (ops : List RecvOp) : ∀ r : Recv, owed (r.run ops).1 ≤ owed r + stopRequests ops := by
  induction ops with
  | nil => intro r; simp [Recv.run, stopRequests]
  | cons op ops ih =>
    intro r
    simp only [Recv.run]
    have h1 := ih (r.step op).1
    have h2 := step_owed r op
    cases op <;> simp only [stopRequests] at * <;> omega

/-- every `recv_id` answer in a run is the creation id. -/
theorem run_ids (id : Nat) (ops : List RecvOp) : ∀ r, RecvInv id r →
    ∀ o ∈ (r.run ops).2, ∀ n, o = .id n → n = id := by
  induction ops with
  | nil => intro r _ o ho; simp [Recv.run] at ho
  | cons op ops ih =>
    intro r h o ho n hn
    simp only [Recv.run, List.mem_cons] at ho
    rcases ho with ho | ho
    · subst hn
      -- the output of this step
      unfold Recv.step at ho
      by_cases ha : r.alive
      · simp only [ha, Bool.not_true, Bool.false_eq_true, ↓reduceIte] at ho
        cases op with
        | pollData ev =>
          cases ev with
          | pending => simp [pollData] at ho
          | data => simp [pollData] at ho
          | fin => simp [pollData] at ho
          | err e =>
            simp only [pollData, readErrOut] at ho
            cases hcv : convertRead e <;> rw [hcv] at ho <;> cases ho
        | stopSending c =>
          by_cases hc : c ≥ 2^62
          · simp [stopSending, hc] at ho
          · by_cases hh : r.here = true
            · simp [stopSending, hc, hh] at ho
            · simp [stopSending, hc, hh] at ho
        | recvId => simp [recvId] at ho; rw [ho]; exact h.1
        | drop => simp at ho
      · simp [ha] at ho
    · exact ih _ (step_inv id r op h) o ho n hn

/-- `recv_id` itself: total, never a panic, whatever the state. -/
theorem recvId_total (r : Recv) : recvId r = .id r.id := rfl

/-- **C17, identifiers.** Start from a freshly constructed receive stream with id `id` and apply
    *any* sequence of operations (`poll_data` with any behaviour of the read future — pending,
    data, end, any error —, `stop_sending` with any code, `recv_id`, drop). Then
    1. in the state reached, `recv_id` returns `id` and does not panic — in particular while a
       read future owns the stream (after a `poll_data` that returned `Pending`, whether or not
       the caller then cancelled the read) and after an error;
    2. every `recv_id` answer given along the way was `id` (and, `ops` being arbitrary, item 1 holds
       in every intermediate state: on a live stream the `recv_id` step answers `id` and changes
       nothing);
    3. the adapter never issues more `stop`s on the Quinn stream (issued + remembered) than
       `stop_sending` was called: a stop is never applied twice. -/
theorem C17_ids_constant (id : Nat) (ops : List RecvOp) :
    let r := ((Recv.new id).run ops).1
    recvId r = .id id ∧
    (∀ o ∈ ((Recv.new id).run ops).2, ∀ n, o = .id n → n = id) ∧
    (r.alive = true → r.step .recvId = (r, .id id)) ∧
    r.stops.length + (if r.pendingStop.isSome then 1 else 0) ≤ stopRequests ops := by
  have h0 : RecvInv id (Recv.new id) := ⟨rfl, fun _ => rfl⟩
  have hinv := run_inv id ops _ h0
  refine ⟨by rw [recvId_total, hinv.1], ?_, ?_, ?_⟩
  · intro o ho n hn
    exact run_ids id ops _ h0 o ho n hn
  · intro ha
    simp [Recv.step, ha, recvId, hinv.1]
  · have := run_owed ops (Recv.new id)
    simpa [owed, Recv.new] using this

/-- **C17, a stop during a pending read.** In a reachable state in which the read future owns the
    stream, `stop_sending c` (valid code) issues nothing yet and remembers `c`; further `Pending`
    polls and id queries keep it remembered; the first poll on which the future completes (data,
    end or error) issues exactly `stop(c)` on the Quinn stream and forgets it; no later poll issues
    it again. (If instead the adapter stream is dropped first, the stop is never issued:
    `stop_lost_on_drop` below.) -/
theorem C17_stop_during_pending_read (id : Nat) (ops : List RecvOp) (c : Nat) (hc : c < 2^62) :
    let r := ((Recv.new id).run ops).1
    r.alive = true → r.here = false →
    let r1 := (stopSending r c).1
    r1.stops = r.stops ∧ r1.pendingStop = some c ∧
    (pollData r1 .pending).1 = r1 ∧ (Recv.step r1 .recvId).1 = r1 ∧
    ∀ ev, ev ≠ .pending →
      let r2 := (pollData r1 ev).1
      r2.stops = r.stops ++ [c] ∧ r2.pendingStop = none ∧ r2.here = true ∧
      ∀ ev', (pollData r2 ev').1.stops = r.stops ++ [c] := by
  intro r ha hh
  have hcc : ¬ (c ≥ 2^62) := by omega
  simp only [stopSending, if_neg hcc, hh]
  refine ⟨rfl, rfl, ?_, ?_, ?_⟩
  · simp [pollData]
  · simp [Recv.step, ha]
  · intro ev hev
    cases ev with
    | pending => exact absurd rfl hev
    | data =>
      refine ⟨by simp [pollData, Recv.comeBack], rfl, rfl, ?_⟩
      intro ev'; cases ev' <;> simp [pollData, Recv.comeBack]
    | fin =>
      refine ⟨by simp [pollData, Recv.comeBack], rfl, rfl, ?_⟩
      intro ev'; cases ev' <;> simp [pollData, Recv.comeBack]
    | err e =>
      refine ⟨by simp [pollData, Recv.comeBack], rfl, rfl, ?_⟩
      intro ev'; cases ev' <;> simp [pollData, Recv.comeBack]

-- non-vacuity / witnesses
/-- D-17 on the unrepaired `recv_id`: after a `poll_data` that returned `Pending` it panics. -/
example : recvIdUnrepaired ((Recv.new 8).run [.pollData .pending]).1 = .panic := by decide
example : recvId ((Recv.new 8).run [.pollData .pending]).1 = .id 8 := by decide
example : ((Recv.new 8).run [.recvId, .pollData .pending, .recvId, .stopSending 7, .recvId,
      .pollData (.err (.reset 3)), .recvId, .pollData .fin]) =
    (⟨8, true, none, [7], true⟩,
     [.id 8, .pending, .id 8, .unit, .id 8, .err (.terminated 3), .id 8, .fin]) := by decide
/-- two stops during a pending read: the last one wins (on an idle stream Quinn honours the first). -/
example : ((Recv.new 0).run [.pollData .pending, .stopSending 1, .stopSending 2, .pollData .data]).1.stops = [2] := by decide
example : ((Recv.new 0).run [.stopSending 1, .stopSending 2]).1.stops = [1, 2] := by decide
/-- a stop remembered during a pending read is never issued when the stream is dropped before the
    read future completes (Quinn then sends its own implicit `STOP_SENDING(0)`: the code is lost). -/
theorem stop_lost_on_drop :
    ((Recv.new 4).run [.pollData .pending, .stopSending 9, .drop, .pollData .data]).1.stops = [] := by decide
example : (stopSending (Recv.new 0) (2^62)).2 = .panic := by decide

/-! ## error tables -/

/-- **C17, errors.** The four conditions of the property, each with its converse (nothing else
    lands in that class) and the code unchanged:
    * application close ⇔ `ApplicationClose{code}`, directly and through a read or a write error;
    * idle timeout ⇔ `Timeout`, likewise;
    * the peer's reset ⇔ `StreamTerminated{code}` on the read side;
    * the peer's stop ⇔ `StreamTerminated{code}` on the write side;
    and the only panicking arm is `IllegalOrderedRead`. -/
theorem C17_error_tables :
    (∀ e c, convertConn e = .applicationClose c ↔ e = .applicationClosed c) ∧
    (∀ e, convertConn e = .timeout ↔ e = .timedOut) ∧
    (∀ e c, convertRead e = some (.terminated c) ↔ e = .reset c) ∧
    (∀ e c, convertWrite e = .terminated c ↔ e = .stopped c) ∧
    (∀ e c, convertRead e = some (.connection (.applicationClose c)) ↔ e = .connectionLost (.applicationClosed c)) ∧
    (∀ e c, convertWrite e = .connection (.applicationClose c) ↔ e = .connectionLost (.applicationClosed c)) ∧
    (∀ e, convertRead e = some (.connection .timeout) ↔ e = .connectionLost .timedOut) ∧
    (∀ e, convertWrite e = .connection .timeout ↔ e = .connectionLost .timedOut) ∧
    (∀ e, convertRead e = none ↔ e = .illegalOrderedRead) ∧
    (∀ e, convertConn e ≠ .internalError) := by
  refine ⟨?_, ?_, ?_, ?_, ?_, ?_, ?_, ?_, ?_, ?_⟩
  · intro e c; cases e <;> simp [convertConn]
  · intro e; cases e <;> simp [convertConn]
  · intro e c; cases e <;> simp [convertRead]
  · intro e c; cases e <;> simp [convertWrite]
  · intro e c
    cases e with
    | connectionLost x => cases x <;> simp [convertRead, convertConn]
    | _ => simp [convertRead]
  · intro e c
    cases e with
    | connectionLost x => cases x <;> simp [convertWrite, convertConn]
    | _ => simp [convertWrite]
  · intro e
    cases e with
    | connectionLost x => cases x <;> simp [convertRead, convertConn]
    | _ => simp [convertRead]
  · intro e
    cases e with
    | connectionLost x => cases x <;> simp [convertWrite, convertConn]
    | _ => simp [convertWrite]
  · intro e; cases e <;> simp [convertRead]
  · intro e; cases e <;> simp [convertConn]

/-- The model's tables are the `match` arms of the three conversion functions in the current
    `h3-quinn/src/lib.rs` (re-extracted on every run into `H3.Gen.QuinnTables`): the same variants
    (each exactly once), the same target class, the same treatment of the carried code. -/
theorem C17_tables_match_source :
    ((∀ p ∈ H3.Gen.QuinnTables.connTable, p ∈ connTable) ∧ (∀ p ∈ connTable, p ∈ H3.Gen.QuinnTables.connTable)) ∧
    ((∀ p ∈ H3.Gen.QuinnTables.readTable, p ∈ readTable) ∧ (∀ p ∈ readTable, p ∈ H3.Gen.QuinnTables.readTable)) ∧
    ((∀ p ∈ H3.Gen.QuinnTables.writeTable, p ∈ writeTable) ∧ (∀ p ∈ writeTable, p ∈ H3.Gen.QuinnTables.writeTable)) ∧
    H3.Gen.QuinnTables.connTable.length = allConnectionErrors.length ∧
    H3.Gen.QuinnTables.readTable.length = allReadErrors.length ∧
    H3.Gen.QuinnTables.writeTable.length = allWriteErrors.length := by
  decide

example : convertConn (.applicationClosed 0x10c) = .applicationClose 0x10c := rfl
example : convertRead (.reset (2^62 - 1)) = some (.terminated (2^62 - 1)) := rfl
example : convertWrite (.connectionLost .locallyClosed) = .connection (.undefined .locallyClosed) := rfl

end H3.Props.C17
