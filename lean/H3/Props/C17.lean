import H3.Model.QuinnAdapter
import H3.Gen.QuinnTables
import H3.Props.C18
/-! # C17 — the Quinn adapter moves bytes, identifiers and errors faithfully

*Partial by construction*: only the adapter's own logic (`h3-quinn/src/lib.rs`, `WriteBuf` in
`h3/src/stream.rs`) is modelled. Quinn, UDP and tokio appear as parameters — the acceptance
script of `poll_write`, the events of the read future, the error value handed to a conversion
function — over which the theorems quantify universally; that real Quinn produces such scripts
and delivers the accepted bytes to the peer exactly once is observed by the correspondence run
(`harness/src/e_c17.rs`, real loopback connections), not proved. -/
namespace H3.Props.C17
open H3.QuinnAdapter

/-! ## `WriteBuf` as a `Buf` -/

theorem wb_remaining (d : WriteBuf) (_h : d.WF) : d.remaining = d.view.length := by
  simp [WriteBuf.remaining, WriteBuf.view]

theorem wb_chunk_prefix (d : WriteBuf) : ∃ t, d.view = d.chunk ++ t := by
  unfold WriteBuf.chunk WriteBuf.view
  split
  · exact ⟨d.payload, rfl⟩
  · rename_i h
    have : d.hdr.drop d.pos = [] := by
      apply List.drop_eq_nil_of_le; omega
    exact ⟨[], by simp [this]⟩

theorem wb_chunk_ne (d : WriteBuf) (h : d.view ≠ []) : d.chunk ≠ [] := by
  unfold WriteBuf.chunk
  split
  · intro hc
    have := congrArg List.length hc
    simp at this; omega
  · rename_i hh
    have : d.hdr.drop d.pos = [] := by
      apply List.drop_eq_nil_of_le; omega
    simpa [WriteBuf.view, this] using h

theorem wb_advance (d : WriteBuf) (h : d.WF) (k : Nat) (hk : k ≤ d.chunk.length) :
    (d.advance k).WF ∧ (d.advance k).view = d.view.drop k := by
  unfold WriteBuf.WF at h
  unfold WriteBuf.chunk at hk
  unfold WriteBuf.advance WriteBuf.view WriteBuf.WF
  by_cases hr : d.hdr.length - d.pos > 0
  · rw [if_pos hr] at hk
    simp only [hr, if_true]
    have hk' : k ≤ d.hdr.length - d.pos := by simpa using hk
    have hm : min k (d.hdr.length - d.pos) = k := by omega
    rw [hm]
    refine ⟨by omega, ?_⟩
    have z : k - k = 0 := by omega
    rw [z, List.drop_zero, List.drop_append, List.drop_drop]
    have z2 : k - (List.drop d.pos d.hdr).length = 0 := by simp; omega
    rw [z2, List.drop_zero]
  · rw [if_neg hr] at hk
    simp only [hr, if_false]
    refine ⟨h, ?_⟩
    have : d.hdr.drop d.pos = [] := by
      apply List.drop_eq_nil_of_le; omega
    simp [this]

theorem wb_take_chunk (d : WriteBuf) (k : Nat) (hk : k ≤ d.chunk.length) :
    d.chunk.take k = d.view.take k := by
  obtain ⟨t, ht⟩ := wb_chunk_prefix d
  rw [ht, List.take_append_of_le_length hk]

/-! ## the write loop -/

/-- The `poll_write` answers one run of the loop consumed: a run of `ok`s, then at most one final
    answer, which determines the result. -/
inductive LoopTrace : List Accept → Ready → Prop where
  | done : LoopTrace [] .ok
  | silent : LoopTrace [] .pending
  | pending : LoopTrace [.pending] .pending
  | err (e : WriteError) : LoopTrace [.err e] (.err (convertWrite e))
  | ok (k : Nat) {c : List Accept} {r : Ready} : LoopTrace c r → LoopTrace (.ok k :: c) r

/-- In a loop trace an error answer is the last one, and it is the result. -/
theorem LoopTrace.err_last {c : List Accept} {r : Ready} (h : LoopTrace c r) :
    ∀ pre e post, c = pre ++ .err e :: post → post = [] ∧ r = .err (convertWrite e) := by
  induction h with
  | done => intro pre e post h; simp at h
  | silent => intro pre e post h; simp at h
  | pending =>
    intro pre e post h
    cases pre with
    | nil => simp at h
    | cons a p => simp at h
  | err e0 =>
    intro pre e post h
    cases pre with
    | nil => simp at h; obtain ⟨h1, h2⟩ := h; subst h1; exact ⟨h2, rfl⟩
    | cons a p => simp at h
  | ok k _ ih =>
    intro pre e post h
    cases pre with
    | nil => simp at h
    | cons a p =>
      simp at h
      exact ih p e post h.2

/-- A trace that does not end in `Pending` has no `pending` answer in it… and a trace ending in
    `Pending` has no error in it. -/
theorem LoopTrace.pending_no_err {c : List Accept} (h : LoopTrace c .pending) :
    ∀ e, Accept.err e ∉ c := by
  intro e hm
  obtain ⟨pre, post, hc⟩ := List.append_of_mem hm
  have := (h.err_last pre e post hc).2
  cases this

theorem writeLoop_spec (script : List Accept) : ∀ (d : WriteBuf), d.WF →
    let o := writeLoop d script
    o.acc ++ o.buf.view = d.view ∧ o.buf.WF ∧ (o.res = .ok ↔ o.buf.view = []) ∧
    ∃ c, script = c ++ o.rest ∧ LoopTrace c o.res := by
  induction script with
  | nil =>
    intro d h
    have hr := wb_remaining d h
    unfold writeLoop
    by_cases h0 : d.remaining = 0
    · rw [if_pos h0]
      have : d.view = [] := List.eq_nil_of_length_eq_zero (by omega)
      exact ⟨by simp, h, by simp [this], [], rfl, .done⟩
    · rw [if_neg h0]
      have : d.view ≠ [] := by intro hv; rw [hv] at hr; simp at hr; omega
      exact ⟨by simp, h, by simp [this], [], rfl, .silent⟩
  | cons a r ih =>
    intro d h
    have hr := wb_remaining d h
    unfold writeLoop
    by_cases h0 : d.remaining = 0
    · rw [if_pos h0]
      have : d.view = [] := List.eq_nil_of_length_eq_zero (by omega)
      exact ⟨by simp, h, by simp [this], [], rfl, .done⟩
    · rw [if_neg h0]
      have hne : d.view ≠ [] := by intro hv; rw [hv] at hr; simp at hr; omega
      cases a with
      | pending => exact ⟨by simp, h, by simp [hne], [.pending], rfl, .pending⟩
      | err e => exact ⟨by simp, h, by simp [hne], [.err e], rfl, .err e⟩
      | ok k =>
        have hk : min k d.chunk.length ≤ d.chunk.length := Nat.min_le_right _ _
        obtain ⟨hwf', hv'⟩ := wb_advance d h _ hk
        obtain ⟨i1, i2, i3, c, i4, i5⟩ := ih (d.advance (min k d.chunk.length)) hwf'
        refine ⟨?_, i2, i3, .ok k :: c, ?_, .ok k i5⟩
        · simp only [List.append_assoc]
          rw [i1, hv', wb_take_chunk d _ hk, List.take_append_drop]
        · simp only [List.cons_append]; rw [← i4]

/-- What a whole `write()` consumed: loop traces ending in `Pending`, then one final loop trace. -/
inductive DriveTrace : List Accept → Ready → Prop where
  | last {c : List Accept} {r : Ready} : LoopTrace c r → DriveTrace c r
  | more {c c' : List Accept} {r : Ready} : LoopTrace c .pending → DriveTrace c' r → DriveTrace (c ++ c') r

theorem DriveTrace.err_last {c : List Accept} {r : Ready} (h : DriveTrace c r) :
    ∀ pre e post, c = pre ++ .err e :: post → post = [] ∧ r = .err (convertWrite e) := by
  induction h with
  | last h => exact h.err_last
  | more h1 _ ih =>
    rename_i c1 c2 r2
    intro pre e post hc
    -- the error answer lies in the second part: the first part has none
    have hno := h1.pending_no_err
    rcases List.append_eq_append_iff.mp hc with ⟨a', _, ha2⟩ | ⟨c', hc1, hc2⟩
    · -- pre = c1 ++ a', c2 = a' ++ err :: post
      exact ih a' e post ha2
    · -- c1 = pre ++ c', err :: post = c' ++ c2
      cases c' with
      | nil =>
        simp at hc2
        exact ih [] e post (by simpa using hc2.symm)
      | cons x xs =>
        simp at hc2
        exfalso
        apply hno e
        rw [hc1, ← hc2.1]
        simp

/-- `poll_ready` on a stream that holds `d`: the accepted bytes are a prefix of the buffer; the rest
    is still held exactly when the result is `Pending`; a finished loop — completed or failed —
    leaves no buffer behind. -/
theorem pollReady_spec (d : WriteBuf) (h : d.WF) (script : List Accept) :
    let o := pollReady ⟨some d⟩ script
    (∃ t, o.acc ++ t = d.view ∧ (o.res = .pending → t = o.state.held)) ∧
    (∀ d', o.state.writing = some d' → d'.WF) ∧
    (o.res = .pending ↔ o.state.writing ≠ none) ∧ (o.res = .ok ↔ o.acc = d.view) ∧
    ∃ c, script = c ++ o.rest ∧ LoopTrace c o.res := by
  obtain ⟨i1, i2, i3, i4⟩ := writeLoop_spec script d h
  unfold pollReady
  simp only
  cases hres : (writeLoop d script).res with
  | ok =>
    have hv := i3.mp hres
    rw [hv] at i1
    refine ⟨⟨[], by simpa using i1, by intro hh; cases hh⟩, by simp, by simp, by simpa using i1, ?_⟩
    simpa [hres] using i4
  | pending =>
    have hv : (writeLoop d script).buf.view ≠ [] := fun hv => by
      have := i3.mpr hv; rw [hres] at this; cases this
    simp only [Send.held]
    refine ⟨⟨_, i1, fun _ => rfl⟩, ?_, by simp, ?_, ?_⟩
    · intro d' hd'; cases hd'; exact i2
    · constructor
      · intro hh; cases hh
      · intro hh; rw [hh] at i1; exact absurd (by simpa using i1) hv
    · simpa [hres] using i4
  | err e =>
    have hv : (writeLoop d script).buf.view ≠ [] := fun hv => by
      have := i3.mpr hv; rw [hres] at this; cases this
    simp only [Send.held]
    refine ⟨⟨_, i1, by intro hh; cases hh⟩, by simp, by simp, ?_, ?_⟩
    · constructor
      · intro hh; cases hh
      · intro hh; rw [hh] at i1; exact absurd (by simpa using i1) hv
    · simpa [hres] using i4

/-- The specification of a complete `write()` of buffer contents `v`. -/
def DriveSpec (v : Bytes) (script : List Accept) (o : PollOut) : Prop :=
  (∃ t, o.acc ++ t = v ∧ (o.res = .pending → t = o.state.held)) ∧
  (o.res = .pending ↔ o.state.writing ≠ none) ∧ (o.res = .ok ↔ o.acc = v) ∧
  ∃ c, script = c ++ o.rest ∧ DriveTrace c o.res

theorem driveN_spec (n : Nat) : ∀ (script : List Accept) (d : WriteBuf), d.WF →
    DriveSpec d.view script (driveN n ⟨some d⟩ script) := by
  induction n with
  | zero =>
    intro script d h
    obtain ⟨p1, _, p3, p4, c, p5, p6⟩ := pollReady_spec d h script
    exact ⟨p1, p3, p4, c, p5, .last p6⟩
  | succ n ih =>
    intro script d h
    obtain ⟨p1, p2, p3, p4, c, p5, p6⟩ := pollReady_spec d h script
    rw [driveN]
    simp only
    cases hres : (pollReady ⟨some d⟩ script).res with
    | ok =>
      simp only
      exact ⟨p1, p3, p4, c, p5, .last p6⟩
    | err e =>
      simp only
      exact ⟨p1, p3, p4, c, p5, .last p6⟩
    | pending =>
      simp only
      by_cases hl : (pollReady ⟨some d⟩ script).rest.length < script.length
      · rw [if_pos hl]
        -- the adapter still holds a well-formed buffer d'
        have hw : (pollReady ⟨some d⟩ script).state.writing ≠ none := p3.mp hres
        cases hst : (pollReady ⟨some d⟩ script).state with
        | mk w =>
          cases w with
          | none => rw [hst] at hw; exact absurd rfl hw
          | some d' =>
            have hwf' : d'.WF := p2 d' (by rw [hst])
            obtain ⟨⟨t', q1, q1'⟩, q2, q3, c', q5, q6⟩ := ih (pollReady ⟨some d⟩ script).rest d' hwf'
            have hheld : (pollReady ⟨some d⟩ script).state.held = d'.view := by rw [hst]; rfl
            obtain ⟨t, p1a, p1b⟩ := p1
            have ht : t = d'.view := by rw [p1b hres, hheld]
            rw [ht] at p1a
            rw [hres] at p6
            refine ⟨⟨t', ?_, q1'⟩, q2, ?_, c ++ c', ?_, .more p6 q6⟩
            · simp only [List.append_assoc]; rw [q1]; exact p1a
            · simp only
              rw [q3]
              constructor
              · intro hh; rw [hh]; exact p1a
              · intro hh; rw [← p1a] at hh; simpa using hh
            · simp only [List.append_assoc]; rw [← q5]; exact p5
      · rw [if_neg hl]
        exact ⟨p1, p3, p4, c, p5, .last p6⟩

/-- **C17, write half.** For every buffer (header ++ payload, any cursor) and every acceptance
    script — any pattern of `Pending`, partial acceptances `ok k` and errors, over any number of
    `poll_ready` calls —
    1. the bytes Quinn accepted are a prefix of the buffer — in order, nothing twice, nothing
       skipped — and while the result is `Pending` the adapter still holds exactly the rest;
    2. `Ready(Ok)` ⇔ the whole buffer was accepted; `writing` is kept ⇔ the result is `Pending`
       (a write that completed *or failed* is finished and leaves nothing behind);
    3. the `poll_write` calls made are a prefix of the script in which an error answer is the last
       call and is the result (nothing is written after an error);
    4. `send_data` while an earlier buffer is unfinished is refused with the internal error and
       changes nothing (so no interleaving), whereas on a free stream it stores the buffer. -/
theorem C17_write_loop (d : WriteBuf) (hwf : d.WF) (script : List Accept) :
    let o := drive ⟨some d⟩ script
    (∃ t, o.acc ++ t = d.view ∧ (o.res = .pending → t = o.state.held)) ∧
    (o.res = .pending ↔ o.state.writing ≠ none) ∧ (o.res = .ok ↔ o.acc = d.view) ∧
    (∃ c, script = c ++ o.rest ∧
      ∀ pre e post, c = pre ++ .err e :: post → post = [] ∧ o.res = .err (convertWrite e)) ∧
    (∀ (s : Send) (d2 : WriteBuf), s.writing ≠ none → sendData s d2 = (s, .refused)) ∧
    (∀ d2 : WriteBuf, sendData ⟨none⟩ d2 = (⟨some d2⟩, .ok)) := by
  obtain ⟨h1, h2, h3, c, h4, h5⟩ := driveN_spec script.length script d hwf
  refine ⟨h1, h2, h3, ⟨c, h4, h5.err_last⟩, ?_, ?_⟩
  · intro s d2 hs
    cases s with
    | mk w =>
      cases w with
      | none => exact absurd rfl hs
      | some x => rfl
  · intro d2; rfl

/-- One `poll_ready` call (the loop the code contains), same statement. -/
theorem C17_poll_ready_once (d : WriteBuf) (hwf : d.WF) (script : List Accept) :
    let o := pollReady ⟨some d⟩ script
    (∃ t, o.acc ++ t = d.view ∧ (o.res = .pending → t = o.state.held)) ∧
    (o.res = .pending ↔ o.state.writing ≠ none) ∧ (o.res = .ok ↔ o.acc = d.view) ∧
    (∃ c, script = c ++ o.rest ∧
      ∀ pre e post, c = pre ++ .err e :: post → post = [] ∧ o.res = .err (convertWrite e)) ∧
    (pollReady ⟨none⟩ script = ⟨⟨none⟩, .ok, [], script⟩) := by
  obtain ⟨h1, _, h3, h4, c, h5, h6⟩ := pollReady_spec d hwf script
  exact ⟨h1, h3, h4, ⟨c, h5, h6.err_last⟩, rfl⟩

/-- **C17, a failed write is finished (D-17c repaired).** For every buffer and every acceptance
    script, over any number of `poll_ready` calls: if the write ends with an error answer of Quinn
    (the peer's STOP_SENDING, a lost connection, …) the adapter holds no buffer afterwards, the
    next `send_data` is accepted — not refused with the connection-level internal error — and a
    `poll_ready` without a new buffer is `Ready(Ok)`. More precisely `send_data` is refused *iff*
    the earlier write is still pending (the last poll returned `Pending`). -/
theorem C17_failed_write_releases (d : WriteBuf) (hwf : d.WF) (script : List Accept) (d2 : WriteBuf) :
    let o := drive ⟨some d⟩ script
    (∀ e, o.res = .err e → o.state.writing = none ∧ sendData o.state d2 = (⟨some d2⟩, .ok) ∧
      (pollReady o.state []).res = .ok) ∧
    ((sendData o.state d2).2 = .refused ↔ o.res = .pending) ∧
    ((sendData o.state d2).2 = .ok ↔ o.res ≠ .pending) := by
  obtain ⟨_, h2, _, _⟩ := driveN_spec script.length script d hwf
  intro o
  have h2' : o.res = .pending ↔ o.state.writing ≠ none := h2
  cases hst : o.state with
  | mk w =>
    rw [hst] at h2'
    cases w with
    | none =>
      have hnp : o.res ≠ .pending := fun hp => absurd rfl (h2'.mp hp)
      refine ⟨fun e _ => ⟨rfl, rfl, rfl⟩, ?_, ?_⟩
      · constructor
        · intro hh; simp [sendData] at hh
        · intro hh; exact absurd hh hnp
      · constructor
        · intro _; exact hnp
        · intro _; rfl
    | some x =>
      have hp : o.res = .pending := h2'.mpr (by simp)
      refine ⟨fun e he => (by rw [hp] at he; cases he), ?_, ?_⟩
      · constructor
        · intro _; exact hp
        · intro _; rfl
      · constructor
        · intro hh; simp [sendData] at hh
        · intro hh; exact absurd hp hh

/-- A fresh `WriteBuf` is well formed and presents header ++ payload. -/
theorem C17_writebuf_new (hdr payload : Bytes) :
    (WriteBuf.new hdr payload).WF ∧ (WriteBuf.new hdr payload).view = hdr ++ payload := by
  simp [WriteBuf.new, WriteBuf.WF, WriteBuf.view]

-- non-vacuity: DATA frame header `00 03` + payload `aa bb cc`; Quinn takes 1 byte, says Pending,
-- takes 3 (only 1 header byte is offered: the chunk ends with the header), 2, then the rest.
example : drive ⟨some (WriteBuf.new [0x00, 0x03] [0xaa, 0xbb, 0xcc])⟩ [.ok 1, .pending, .ok 3, .ok 2, .pending, .ok 9, .ok 5] =
    ⟨⟨none⟩, .ok, [0x00, 0x03, 0xaa, 0xbb, 0xcc], [.ok 5]⟩ := by decide
-- an error in the middle: two bytes accepted, the remaining three are still held, nothing after it
example : drive ⟨some (WriteBuf.new [0x00, 0x03] [0xaa, 0xbb, 0xcc])⟩ [.ok 1, .ok 1, .err (.stopped 9), .ok 3] =
    ⟨⟨none⟩, .err (.terminated 9), [0x00, 0x03], [.ok 3]⟩ := by decide
/-- D-17c on the unrepaired `poll_ready`: after the peer's stop the buffer stays, and the next
    `send_data` is refused with the (connection-level) internal error; repaired, it is accepted. -/
example : (sendData (pollReadyUnrepaired ⟨some (WriteBuf.new [0x00, 0x03] [0xaa, 0xbb, 0xcc])⟩ [.ok 1, .err (.stopped 9)]).state
    (WriteBuf.new [0x00, 0x00] [])).2 = .refused := by decide
example : (sendData (pollReady ⟨some (WriteBuf.new [0x00, 0x03] [0xaa, 0xbb, 0xcc])⟩ [.ok 1, .err (.stopped 9)]).state
    (WriteBuf.new [0x00, 0x00] [])).2 = .ok := by decide
-- a pending write keeps the rest, and only then is a second send_data refused
example : drive ⟨some (WriteBuf.new [0x00, 0x03] [0xaa, 0xbb, 0xcc])⟩ [.ok 1, .ok 2, .ok 1, .pending] =
    ⟨⟨some ⟨[0x00, 0x03], 2, [0xbb, 0xcc]⟩⟩, .pending, [0x00, 0x03, 0xaa], []⟩ := by decide
example : sendData ⟨some (WriteBuf.new [0x00, 0x01] [0x07])⟩ (WriteBuf.new [0x00, 0x00] []) =
    (⟨some (WriteBuf.new [0x00, 0x01] [0x07])⟩, .refused) := by decide

/-! ## stream identifiers and the receive-side ownership machine -/

/-- Invariant of the ownership machine: a stop is only remembered while the future owns the stream. -/
def RecvInv (id : Nat) (r : Recv) : Prop := r.id = id ∧ (r.here = true → r.pendingStop = none)

theorem comeBack_inv (id : Nat) (r : Recv) (h : r.id = id) : RecvInv id r.comeBack :=
  ⟨h, fun _ => rfl⟩

theorem step_inv (id : Nat) (r : Recv) (op : RecvOp) (h : RecvInv id r) : RecvInv id (r.step op).1 := by
  obtain ⟨h1, h2⟩ := h
  unfold Recv.step
  by_cases ha : r.alive
  · simp only [ha, Bool.not_true, Bool.false_eq_true, ↓reduceIte]
    cases op with
    | pollData ev =>
      cases ev with
      | pending => exact ⟨h1, by simp [pollData]⟩
      | data => exact comeBack_inv id r h1
      | fin => exact comeBack_inv id r h1
      | err e => exact comeBack_inv id r h1
    | stopSending c =>
      by_cases hc : c ≥ 2^62
      · simp only [stopSending, if_pos hc]; exact ⟨h1, h2⟩
      · by_cases hh : r.here = true
        · simp only [stopSending, if_neg hc, if_pos hh]; exact ⟨h1, h2⟩
        · simp only [stopSending, if_neg hc, if_neg hh]; exact ⟨h1, fun h => absurd h hh⟩
    | recvId => exact ⟨h1, h2⟩
    | drop => exact ⟨h1, h2⟩
  · simp only [ha]; exact ⟨h1, h2⟩

theorem run_inv (id : Nat) (ops : List RecvOp) : ∀ r, RecvInv id r → RecvInv id (r.run ops).1 := by
  induction ops with
  | nil => intro r h; exact h
  | cons op ops ih =>
    intro r h
    simp only [Recv.run]
    exact ih _ (step_inv id r op h)

/-- Number of stops requested so far vs issued on the Quinn stream. -/
def stopRequests : List RecvOp → Nat
  | [] => 0
  | .stopSending _ :: ops => stopRequests ops + 1
  | _ :: ops => stopRequests ops

def owed (r : Recv) : Nat := r.stops.length + (if r.pendingStop.isSome then 1 else 0)

theorem comeBack_owed (r : Recv) : owed r.comeBack = owed r := by
  unfold Recv.comeBack owed
  cases r.pendingStop <;> simp

theorem step_owed (r : Recv) (op : RecvOp) :
    owed (r.step op).1 ≤ owed r + (match op with | .stopSending _ => 1 | _ => 0) := by
  unfold Recv.step
  by_cases ha : r.alive
  · simp only [ha, Bool.not_true, Bool.false_eq_true, ↓reduceIte]
    cases op with
    | pollData ev =>
      cases ev with
      | pending => exact Nat.le_refl _
      | data => simp [pollData, comeBack_owed]
      | fin => simp [pollData, comeBack_owed]
      | err e => simp [pollData, comeBack_owed]
    | stopSending c =>
      by_cases hc : c ≥ 2^62
      · simp only [stopSending, if_pos hc]; omega
      · by_cases hh : r.here = true
        · simp only [stopSending, if_neg hc, if_pos hh, owed, List.length_append, List.length_cons,
            List.length_nil]
          omega
        · simp only [stopSending, if_neg hc, if_neg hh, owed]; cases r.pendingStop <;> simp
    | recvId => simp
    | drop => simp [owed]
  · simp [ha]

theorem run_owed (ops : List RecvOp) : ∀ r : Recv, owed (r.run ops).1 ≤ owed r + stopRequests ops := by
  induction ops with
  | nil => intro r; simp [Recv.run, stopRequests]
  | cons op ops ih =>
    intro r
    simp only [Recv.run]
    have h1 := ih (r.step op).1
    have h2 := step_owed r op
    cases op <;> simp only [stopRequests] at * <;> omega

/-- every `recv_id` answer in a run is the creation id. -/
theorem run_ids (id : Nat) (ops : List RecvOp) : ∀ r, RecvInv id r →
    ∀ o ∈ (r.run ops).2, ∀ n, o = .id n → n = id := by
  induction ops with
  | nil => intro r _ o ho; simp [Recv.run] at ho
  | cons op ops ih =>
    intro r h o ho n hn
    simp only [Recv.run, List.mem_cons] at ho
    rcases ho with ho | ho
    · subst hn
      -- the output of this step
      unfold Recv.step at ho
      by_cases ha : r.alive
      · simp only [ha, Bool.not_true, Bool.false_eq_true, ↓reduceIte] at ho
        cases op with
        | pollData ev =>
          cases ev with
          | pending => simp [pollData] at ho
          | data => simp [pollData] at ho
          | fin => simp [pollData] at ho
          | err e =>
            simp only [pollData, readErrOut] at ho
            cases hcv : convertRead e <;> rw [hcv] at ho <;> cases ho
        | stopSending c =>
          by_cases hc : c ≥ 2^62
          · simp [stopSending, hc] at ho
          · by_cases hh : r.here = true
            · simp [stopSending, hc, hh] at ho
            · simp [stopSending, hc, hh] at ho
        | recvId => simp [recvId] at ho; rw [ho]; exact h.1
        | drop => simp at ho
      · simp [ha] at ho
    · exact ih _ (step_inv id r op h) o ho n hn

/-- `recv_id` itself: total, never a panic, whatever the state. -/
theorem recvId_total (r : Recv) : recvId r = .id r.id := rfl

/-- **C17, identifiers.** Start from a freshly constructed receive stream with id `id` and apply
    *any* sequence of operations (`poll_data` with any behaviour of the read future — pending,
    data, end, any error —, `stop_sending` with any code, `recv_id`, drop). Then
    1. in the state reached, `recv_id` returns `id` and does not panic — in particular while a
       read future owns the stream (after a `poll_data` that returned `Pending`, whether or not
       the caller then cancelled the read) and after an error;
    2. every `recv_id` answer given along the way was `id` (and, `ops` being arbitrary, item 1 holds
       in every intermediate state: on a live stream the `recv_id` step answers `id` and changes
       nothing);
    3. the adapter never issues more `stop`s on the Quinn stream (issued + remembered) than
       `stop_sending` was called: a stop is never applied twice. -/
theorem C17_ids_constant (id : Nat) (ops : List RecvOp) :
    let r := ((Recv.new id).run ops).1
    recvId r = .id id ∧
    (∀ o ∈ ((Recv.new id).run ops).2, ∀ n, o = .id n → n = id) ∧
    (r.alive = true → r.step .recvId = (r, .id id)) ∧
    r.stops.length + (if r.pendingStop.isSome then 1 else 0) ≤ stopRequests ops := by
  have h0 : RecvInv id (Recv.new id) := ⟨rfl, fun _ => rfl⟩
  have hinv := run_inv id ops _ h0
  refine ⟨by rw [recvId_total, hinv.1], ?_, ?_, ?_⟩
  · intro o ho n hn
    exact run_ids id ops _ h0 o ho n hn
  · intro ha
    simp [Recv.step, ha, recvId, hinv.1]
  · have := run_owed ops (Recv.new id)
    simpa [owed, Recv.new] using this

/-- **C17, a stop during a pending read.** In a reachable state in which the read future owns the
    stream, `stop_sending c` (valid code) issues nothing yet and remembers `c`; further `Pending`
    polls and id queries keep it remembered; the first poll on which the future completes (data,
    end or error) issues exactly `stop(c)` on the Quinn stream and forgets it; no later poll issues
    it again. (If instead the adapter stream is dropped first, the stop is never issued:
    `stop_lost_on_drop` below.) -/
theorem C17_stop_during_pending_read (id : Nat) (ops : List RecvOp) (c : Nat) (hc : c < 2^62) :
    let r := ((Recv.new id).run ops).1
    r.alive = true → r.here = false →
    let r1 := (stopSending r c).1
    r1.stops = r.stops ∧ r1.pendingStop = some c ∧
    (pollData r1 .pending).1 = r1 ∧ (Recv.step r1 .recvId).1 = r1 ∧
    ∀ ev, ev ≠ .pending →
      let r2 := (pollData r1 ev).1
      r2.stops = r.stops ++ [c] ∧ r2.pendingStop = none ∧ r2.here = true ∧
      ∀ ev', (pollData r2 ev').1.stops = r.stops ++ [c] := by
  intro r ha hh
  have hcc : ¬ (c ≥ 2^62) := by omega
  simp only [stopSending, if_neg hcc, hh]
  refine ⟨rfl, rfl, ?_, ?_, ?_⟩
  · simp [pollData]
  · simp [Recv.step, ha]
  · intro ev hev
    cases ev with
    | pending => exact absurd rfl hev
    | data =>
      refine ⟨by simp [pollData, Recv.comeBack], rfl, rfl, ?_⟩
      intro ev'; cases ev' <;> simp [pollData, Recv.comeBack]
    | fin =>
      refine ⟨by simp [pollData, Recv.comeBack], rfl, rfl, ?_⟩
      intro ev'; cases ev' <;> simp [pollData, Recv.comeBack]
    | err e =>
      refine ⟨by simp [pollData, Recv.comeBack], rfl, rfl, ?_⟩
      intro ev'; cases ev' <;> simp [pollData, Recv.comeBack]

-- non-vacuity / witnesses
/-- D-17 on the unrepaired `recv_id`: after a `poll_data` that returned `Pending` it panics. -/
example : recvIdUnrepaired ((Recv.new 8).run [.pollData .pending]).1 = .panic := by decide
example : recvId ((Recv.new 8).run [.pollData .pending]).1 = .id 8 := by decide
example : ((Recv.new 8).run [.recvId, .pollData .pending, .recvId, .stopSending 7, .recvId,
      .pollData (.err (.reset 3)), .recvId, .pollData .fin]) =
    (⟨8, true, none, [7], true⟩,
     [.id 8, .pending, .id 8, .unit, .id 8, .err (.terminated 3), .id 8, .fin]) := by decide
/-- two stops during a pending read: the last one wins (on an idle stream Quinn honours the first). -/
example : ((Recv.new 0).run [.pollData .pending, .stopSending 1, .stopSending 2, .pollData .data]).1.stops = [2] := by decide
example : ((Recv.new 0).run [.stopSending 1, .stopSending 2]).1.stops = [1, 2] := by decide
/-- a stop remembered during a pending read is never issued when the stream is dropped before the
    read future completes (Quinn then sends its own implicit `STOP_SENDING(0)`: the code is lost). -/
theorem stop_lost_on_drop :
    ((Recv.new 4).run [.pollData .pending, .stopSending 9, .drop, .pollData .data]).1.stops = [] := by decide
example : (stopSending (Recv.new 0) (2^62)).2 = .panic := by decide

/-! ### what `stop_sending` owes the peer -/

/-- The relation between the ownership machine and the caller's-side specification `StopSpec`. -/
def StopRel (r : Recv) (s : StopSpec) : Prop :=
  r.alive = s.alive ∧ s.inFlight = !r.here ∧
  (s.due = [] → r.stops = [] ∧ r.pendingStop = s.asked.getLast? ∧ (r.here = true → s.asked = [])) ∧
  (s.due ≠ [] → ∃ c ∈ s.due, r.stops.head? = some c)

theorem head_append_of_head {l : List Nat} {c : Nat} (h : l.head? = some c) (t : List Nat) :
    (l ++ t).head? = some c := by
  cases l with
  | nil => simp at h
  | cons a l => simpa using h

theorem stopRel_comeBack (r : Recv) (s : StopSpec) (h : StopRel r s) :
    StopRel r.comeBack (s.onRead true) := by
  obtain ⟨h1, h2, h3, h4⟩ := h
  by_cases hd : s.due = []
  · obtain ⟨g1, g2, g3⟩ := h3 hd
    have hde : s.due.isEmpty = true := by simp [hd]
    simp only [StopSpec.onRead, Bool.not_true, Bool.false_eq_true, ↓reduceIte, hde]
    refine ⟨h1, by simp [Recv.comeBack], ?_, ?_⟩
    · intro ha0
      simp only at ha0
      simp only [Recv.comeBack, g1, g2, ha0, List.nil_append]
      simp
    · intro hne
      simp only at hne
      simp only [Recv.comeBack, g1, g2, List.nil_append]
      cases hl : s.asked.getLast? with
      | none => simp [List.getLast?_eq_none_iff] at hl; exact absurd hl hne
      | some c => exact ⟨c, List.mem_of_getLast? hl, by simp⟩
  · have hde : s.due.isEmpty = false := by simp [hd]
    simp only [StopSpec.onRead, Bool.not_true, Bool.false_eq_true, ↓reduceIte, hde]
    refine ⟨h1, by simp [Recv.comeBack], fun h => absurd h hd, ?_⟩
    intro _
    obtain ⟨c, hc, hh⟩ := h4 hd
    exact ⟨c, hc, by simp only [Recv.comeBack]; exact head_append_of_head hh _⟩

theorem stopRel_step (r : Recv) (s : StopSpec) (op : RecvOp) (h : StopRel r s) :
    StopRel (r.step op).1 (s.step op) := by
  have h' := h
  obtain ⟨h1, h2, h3, h4⟩ := h
  unfold Recv.step StopSpec.step
  by_cases ha : s.alive = true
  · have hra : r.alive = true := by rw [h1, ha]
    simp only [ha, hra, Bool.not_true, Bool.false_eq_true, ↓reduceIte]
    cases op with
    | pollData ev =>
      cases ev with
      | pending =>
        simp only [pollData, ReadEv.completed, StopSpec.onRead, Bool.not_false, ↓reduceIte]
        refine ⟨h1, by simp, ?_, h4⟩
        intro hd
        obtain ⟨g1, g2, _⟩ := h3 hd
        exact ⟨g1, g2, fun hh => by simp at hh⟩
      | data => exact stopRel_comeBack r s h'
      | fin => exact stopRel_comeBack r s h'
      | err e => exact stopRel_comeBack r s h'
    | stopSending c =>
      by_cases hc : c ≥ 2^62
      · simp only [stopSending, StopSpec.onStop, if_pos hc]; exact h'
      · simp only [stopSending, StopSpec.onStop, if_neg hc]
        by_cases hd : s.due = []
        · obtain ⟨g1, g2, g3⟩ := h3 hd
          have hde : s.due.isEmpty = true := by simp [hd]
          simp only [hde, Bool.not_true, Bool.false_eq_true, ↓reduceIte]
          by_cases hh : r.here = true
          · have hf : s.inFlight = false := by rw [h2, hh]; rfl
            simp only [hh, hf, ↓reduceIte, Bool.false_eq_true]
            refine ⟨h1, by simp, fun h => by simp at h, ?_⟩
            intro _
            exact ⟨c, by simp, by simp [g1]⟩
          · have hh' : r.here = false := by simpa using hh
            have hf : s.inFlight = true := by rw [h2, hh']; rfl
            simp only [hh', hf, ↓reduceIte, Bool.false_eq_true]
            refine ⟨h1, by simp, ?_, fun hne => absurd hd hne⟩
            intro _
            exact ⟨g1, by simp, fun h => by simp at h⟩
        · have hde : s.due.isEmpty = false := by simp [hd]
          simp only [hde, Bool.not_false, ↓reduceIte]
          obtain ⟨c0, hc0, hh0⟩ := h4 hd
          by_cases hh : r.here = true
          · rw [if_pos hh]
            exact ⟨h1, by simpa [hh] using h2, fun h => absurd h hd, fun _ => ⟨c0, hc0, head_append_of_head hh0 _⟩⟩
          · rw [if_neg hh]
            exact ⟨h1, h2, fun h => absurd h hd, fun _ => ⟨c0, hc0, hh0⟩⟩
    | recvId => exact h'
    | drop => exact ⟨by simp, h2, h3, h4⟩
  · have hsa : s.alive = false := by simpa using ha
    have hra : r.alive = false := by rw [h1, hsa]
    simp only [hsa, hra, Bool.not_false, ↓reduceIte]
    exact h'

theorem stopRel_run (ops : List RecvOp) : ∀ r s, StopRel r s → StopRel (r.run ops).1 (s.run ops) := by
  induction ops with
  | nil => intro r s h; exact h
  | cons op ops ih =>
    intro r s h
    simp only [Recv.run, StopSpec.run]
    exact ih _ _ (stopRel_step r s op h)

/-- every code the specification holds was handed in, as a valid varint, by a `stop_sending` call -/
theorem stopSpec_codes (P : Nat → Prop) (ops : List RecvOp) : ∀ s : StopSpec,
    (∀ c ∈ s.due ++ s.asked, P c) → (∀ c, c < 2^62 → RecvOp.stopSending c ∈ ops → P c) →
    ∀ c ∈ (s.run ops).due ++ (s.run ops).asked, P c := by
  induction ops with
  | nil => intro s h _; exact h
  | cons op ops ih =>
    intro s h hp
    simp only [StopSpec.run]
    apply ih
    · unfold StopSpec.step
      by_cases ha : s.alive = true
      · simp only [ha, Bool.not_true, Bool.false_eq_true, ↓reduceIte]
        cases op with
        | pollData ev =>
          simp only [StopSpec.onRead]
          by_cases hcpl : ev.completed = true
          · simp only [hcpl, Bool.not_true, Bool.false_eq_true, ↓reduceIte]
            by_cases hd : s.due.isEmpty = true
            · simp only [hd, ↓reduceIte]
              intro c hc; apply h c; simp at hc ⊢; right; exact hc
            · simp only [hd, Bool.false_eq_true, ↓reduceIte]; exact h
          · simp only [hcpl, Bool.not_false, ↓reduceIte]; exact h
        | stopSending c0 =>
          simp only [StopSpec.onStop]
          by_cases hc : c0 ≥ 2^62
          · rw [if_pos hc]; exact h
          · rw [if_neg hc]
            have hp0 : P c0 := hp c0 (by omega) (by simp)
            by_cases hd : s.due.isEmpty = true
            · simp only [hd, Bool.not_true, Bool.false_eq_true, ↓reduceIte]
              by_cases hf : s.inFlight = true
              · simp only [hf, ↓reduceIte]
                intro c hcm
                simp only [List.mem_append, List.mem_singleton] at hcm
                rcases hcm with hcm | hcm | hcm
                · exact h c (by simp [hcm])
                · exact h c (by simp [hcm])
                · rw [hcm]; exact hp0
              · simp only [hf, Bool.false_eq_true, ↓reduceIte]
                intro c hcm
                simp only [List.mem_append, List.mem_singleton] at hcm
                rcases hcm with hcm | hcm
                · rw [hcm]; exact hp0
                · exact h c (by simp [hcm])
            · simp only [hd, Bool.not_false, ↓reduceIte]; exact h
        | recvId => exact h
        | drop => exact h
      · simp only [ha, Bool.not_false, ↓reduceIte]; exact h
    · intro c hc hm; exact hp c hc (by simp [hm])

/-- **C17, the code of `stop_sending` reaches Quinn (reading R-17: the adapter's documented behaviour,
    not the property's sentence about errors).** `StopSpec` is written from the caller's side: a
    stop is *due* — owed to the peer now — once `stop_sending(c)` was called with no read in flight,
    or once a read completed that was in flight when `stop_sending` was called. For EVERY sequence
    of operations on a fresh receive stream (`poll_data` with any behaviour of the read future,
    `stop_sending` with any code, `recv_id`, drop):
    1. while nothing is due the adapter has issued no `stop` on the Quinn stream (nothing invented);
    2. as soon as a stop is due, the FIRST `stop` the adapter issued on the Quinn stream — the one
       Quinn honours and tells the peer's writer — carries one of the due codes, and it has been
       issued by then: not "when the next read starts", not "never";
    3. every due or remembered code was handed in by a `stop_sending` call and is a QUIC varint.
    What is NOT owed (R-17, second observation of the unchanged adapter): a stop asked for during a
    read that never completes — the second example below; the peer then learns Quinn's implicit
    `STOP_SENDING(0)` when the stream is dropped (`stop_lost_on_drop`). -/
theorem C17_stop_code_reaches_quinn (id : Nat) (ops : List RecvOp) :
    let r := ((Recv.new id).run ops).1
    let s := StopSpec.run {} ops
    (s.due = [] → r.stops = []) ∧
    (s.due ≠ [] → ∃ c ∈ s.due, r.stops.head? = some c) ∧
    (∀ c ∈ s.due ++ s.asked, c < 2^62 ∧ RecvOp.stopSending c ∈ ops) := by
  have h0 : StopRel (Recv.new id) {} := ⟨rfl, rfl, fun _ => ⟨rfl, rfl, fun _ => rfl⟩, fun h => absurd rfl h⟩
  obtain ⟨_, _, h3, h4⟩ := stopRel_run ops _ _ h0
  refine ⟨fun h => (h3 h).1, h4, ?_⟩
  exact stopSpec_codes (fun c => c < 2^62 ∧ RecvOp.stopSending c ∈ ops) ops {} (by intro c hc; simp at hc)
    (fun c hc hm => ⟨hc, hm⟩)

-- non-vacuity: stop during a pending read, a further Pending poll, then the read completes: 9 is due and issued
example : (StopSpec.run {} [.pollData .pending, .stopSending 9, .recvId, .pollData .pending, .pollData .data]).due = [9] ∧
    ((Recv.new 4).run [.pollData .pending, .stopSending 9, .recvId, .pollData .pending, .pollData .data]).1.stops = [9] := by decide
-- the read never completes: nothing is due, nothing was issued (the code is lost: observation (a) of R-17)
example : (StopSpec.run {} [.pollData .pending, .stopSending 9, .drop]).due = [] ∧
    ((Recv.new 4).run [.pollData .pending, .stopSending 9, .drop]).1.stops = [] := by decide
-- on an idle stream the first of two stops is due (Quinn honours the first); of two stops during one
-- pending read either is accepted by the specification (the adapter issues the last one)
example : (StopSpec.run {} [.stopSending 1, .stopSending 2]).due = [1] := by decide
example : (StopSpec.run {} [.pollData .pending, .stopSending 1, .stopSending 2, .pollData .fin]).due = [1, 2] := by decide
/-- The seeded change "carry out the remembered stop when the NEXT read starts" (seeds2 C17, patch 1)
    as a variant of `pollData`: the stop is issued at the top of `poll_data` if the stream is in
    hand, completion only hands the stream back. After `Pending, stop_sending 9, data` the
    specification owes the peer 9 and this variant has issued nothing (clause 2 of the theorem is
    false for it); only a further read issues it. -/
def pollDataLate (r : Recv) (ev : ReadEv) : Recv :=
  let r := if r.here then { r with stops := r.stops ++ r.pendingStop.toList, pendingStop := none } else r
  match ev with
  | .pending => { r with here := false }
  | _ => { r with here := true }
example :
    let r := pollDataLate (stopSending (pollDataLate (Recv.new 4) .pending) 9).1 .data
    (StopSpec.run {} [.pollData .pending, .stopSending 9, .pollData .data]).due = [9] ∧
    r.stops = [] ∧ r.pendingStop = some 9 ∧ (pollDataLate r .pending).stops = [9] := by decide

/-! ## error tables -/

/-- **C17, errors.** The four conditions of the property, each with its converse (nothing else
    lands in that class) and the code unchanged:
    * application close ⇔ `ApplicationClose{code}`, directly and through a read or a write error;
    * idle timeout ⇔ `Timeout`, likewise;
    * the peer's reset ⇔ `StreamTerminated{code}` on the read side;
    * the peer's stop ⇔ `StreamTerminated{code}` on the write side;
    and the only panicking arm is `IllegalOrderedRead`. -/
theorem C17_error_tables :
    (∀ e c, convertConn e = .applicationClose c ↔ e = .applicationClosed c) ∧
    (∀ e, convertConn e = .timeout ↔ e = .timedOut) ∧
    (∀ e c, convertRead e = some (.terminated c) ↔ e = .reset c) ∧
    (∀ e c, convertWrite e = .terminated c ↔ e = .stopped c) ∧
    (∀ e c, convertRead e = some (.connection (.applicationClose c)) ↔ e = .connectionLost (.applicationClosed c)) ∧
    (∀ e c, convertWrite e = .connection (.applicationClose c) ↔ e = .connectionLost (.applicationClosed c)) ∧
    (∀ e, convertRead e = some (.connection .timeout) ↔ e = .connectionLost .timedOut) ∧
    (∀ e, convertWrite e = .connection .timeout ↔ e = .connectionLost .timedOut) ∧
    (∀ e, convertRead e = none ↔ e = .illegalOrderedRead) ∧
    (∀ e, convertConn e ≠ .internalError) := by
  refine ⟨?_, ?_, ?_, ?_, ?_, ?_, ?_, ?_, ?_, ?_⟩
  · intro e c; cases e <;> simp [convertConn]
  · intro e; cases e <;> simp [convertConn]
  · intro e c; cases e <;> simp [convertRead]
  · intro e c; cases e <;> simp [convertWrite]
  · intro e c
    cases e with
    | connectionLost x => cases x <;> simp [convertRead, convertConn]
    | _ => simp [convertRead]
  · intro e c
    cases e with
    | connectionLost x => cases x <;> simp [convertWrite, convertConn]
    | _ => simp [convertWrite]
  · intro e
    cases e with
    | connectionLost x => cases x <;> simp [convertRead, convertConn]
    | _ => simp [convertRead]
  · intro e
    cases e with
    | connectionLost x => cases x <;> simp [convertWrite, convertConn]
    | _ => simp [convertWrite]
  · intro e; cases e <;> simp [convertRead]
  · intro e; cases e <;> simp [convertConn]

/-- The model's tables are the `match` arms of the three conversion functions in the current
    `h3-quinn/src/lib.rs` (re-extracted on every run into `H3.Gen.QuinnTables`): the same variants
    (each exactly once), the same target class, the same treatment of the carried code. -/
theorem C17_tables_match_source :
    ((∀ p ∈ H3.Gen.QuinnTables.connTable, p ∈ connTable) ∧ (∀ p ∈ connTable, p ∈ H3.Gen.QuinnTables.connTable)) ∧
    ((∀ p ∈ H3.Gen.QuinnTables.readTable, p ∈ readTable) ∧ (∀ p ∈ readTable, p ∈ H3.Gen.QuinnTables.readTable)) ∧
    ((∀ p ∈ H3.Gen.QuinnTables.writeTable, p ∈ writeTable) ∧ (∀ p ∈ writeTable, p ∈ H3.Gen.QuinnTables.writeTable)) ∧
    H3.Gen.QuinnTables.connTable.length = allConnectionErrors.length ∧
    H3.Gen.QuinnTables.readTable.length = allReadErrors.length ∧
    H3.Gen.QuinnTables.writeTable.length = allWriteErrors.length := by
  decide

example : convertConn (.applicationClosed 0x10c) = .applicationClose 0x10c := rfl
example : convertRead (.reset (2^62 - 1)) = some (.terminated (2^62 - 1)) := rfl
example : convertWrite (.connectionLost .locallyClosed) = .connection (.undefined .locallyClosed) := rfl

/-! ## the unframed write path `poll_send` -/

theorem ubAdvance_view : ∀ (b : List Bytes) (k : Nat), ubView (ubAdvance b k) = (ubView b).drop k := by
  intro b
  induction b with
  | nil => intro k; simp [ubAdvance, ubView]
  | cons p r ih =>
    intro k
    unfold ubAdvance
    by_cases hk : k < p.length
    · rw [if_pos hk]
      simp only [ubView, List.flatten_cons]
      rw [List.drop_append_of_le_length (by omega)]
    · rw [if_neg hk]
      have := ih (k - p.length)
      simp only [ubView, List.flatten_cons] at this ⊢
      rw [this, List.drop_append]
      have : p.drop k = [] := List.drop_eq_nil_of_le (by omega)
      rw [this, List.nil_append]

theorem ubChunk_prefix : ∀ (b : List Bytes), ∃ t, ubView b = ubChunk b ++ t := by
  intro b
  induction b with
  | nil => exact ⟨[], rfl⟩
  | cons p r ih =>
    unfold ubChunk
    by_cases hp : p.length = 0
    · rw [if_pos hp]
      have : p = [] := List.eq_nil_of_length_eq_zero hp
      obtain ⟨t, ht⟩ := ih
      exact ⟨t, by simp [ubView, this] at ht ⊢; exact ht⟩
    · rw [if_neg hp]
      exact ⟨r.flatten, by simp [ubView]⟩

theorem ubChunk_ne : ∀ (b : List Bytes), ubView b ≠ [] → ubChunk b ≠ [] := by
  intro b
  induction b with
  | nil => intro h; simp [ubView] at h
  | cons p r ih =>
    intro h
    unfold ubChunk
    by_cases hp : p.length = 0
    · rw [if_pos hp]
      have : p = [] := List.eq_nil_of_length_eq_zero hp
      apply ih
      simpa [ubView, this] using h
    · rw [if_neg hp]
      intro hh; rw [hh] at hp; simp at hp

/-- **C17, one `poll_send`.** On a stream without an unfinished framed write, for every caller
    buffer (any number of chunks) and every answer of Quinn's `poll_write`:
    1. accepted bytes ++ what the buffer still yields = what it yielded before — the accepted bytes
       are its front, in order, once — and the buffer has been advanced by exactly their number;
    2. the count reported to the caller is that number (never more than Quinn was offered);
    3. `Pending` and errors leave the buffer untouched and accept nothing; the error is Quinn's
       write error through `convert_write_error_to_stream_error`;
    4. the stream's own state is not touched by `poll_send`.
    While a framed write is unfinished the call is refused: nothing accepted, buffer untouched
    (no interleaving). -/
theorem C17_poll_send (s : Send) (buf : List Bytes) (a : Accept) :
    let o := pollSend s buf a
    (o.acc ++ ubView o.buf = ubView buf) ∧ (ubView o.buf = (ubView buf).drop o.acc.length) ∧
    (s.writing = none →
      (∀ k, o.res = .ok k → k = o.acc.length ∧ k ≤ (ubChunk buf).length ∧ (a = .ok k ∨ ∃ k', a = .ok k' ∧ k ≤ k')) ∧
      (∀ k, a = .ok k → o.res = .ok (min k (ubChunk buf).length)) ∧
      (a = .pending → o = ⟨buf, .pending, []⟩) ∧
      (∀ e, a = .err e → o = ⟨buf, .err (convertWrite e), []⟩)) ∧
    (s.writing ≠ none → o = ⟨buf, .refused, []⟩) := by
  cases hs : s.writing with
  | some d =>
    simp [pollSend, hs]
  | none =>
    cases a with
    | pending => simp [pollSend, hs]
    | err e => simp [pollSend, hs]
    | ok k =>
      simp only [pollSend, hs]
      obtain ⟨t, ht⟩ := ubChunk_prefix buf
      have hle : min k (ubChunk buf).length ≤ (ubChunk buf).length := Nat.min_le_right _ _
      have hlen : ((ubChunk buf).take (min k (ubChunk buf).length)).length = min k (ubChunk buf).length := by
        simp
      refine ⟨?_, ?_, ?_, ?_⟩
      · rw [ubAdvance_view, ht, List.drop_append_of_le_length hle, ← List.append_assoc,
          List.take_append_drop]
      · rw [ubAdvance_view, hlen]
      · intro _
        refine ⟨?_, ?_, ?_, ?_⟩
        · intro k' hk'
          simp only [SendOut.ok.injEq] at hk'
          subst hk'
          refine ⟨hlen.symm, hle, ?_⟩
          by_cases hkk : k ≤ (ubChunk buf).length
          · left; rw [Nat.min_eq_left hkk]
          · right; exact ⟨k, rfl, Nat.min_le_left _ _⟩
        · intro k' hk'; cases hk'; rfl
        · intro h; cases h
        · intro e h; cases h
      · intro h; exact absurd rfl h

/-- The `poll_write` answers one run of the callers' loop consumed: `ok`s and `Pending`s, then at
    most one error, which is the result. -/
inductive SendAllTrace : List Accept → SendAllRes → Prop where
  | done : SendAllTrace [] .done
  | silent : SendAllTrace [] .pending
  | err (e : WriteError) : SendAllTrace [.err e] (.err (convertWrite e))
  | ok (k : Nat) {c : List Accept} {r : SendAllRes} : SendAllTrace c r → SendAllTrace (.ok k :: c) r
  | pending {c : List Accept} {r : SendAllRes} : SendAllTrace c r → SendAllTrace (.pending :: c) r

theorem SendAllTrace.err_last {c : List Accept} {r : SendAllRes} (h : SendAllTrace c r) :
    ∀ pre e post, c = pre ++ .err e :: post → post = [] ∧ r = .err (convertWrite e) := by
  induction h with
  | done => intro pre e post h; simp at h
  | silent => intro pre e post h; simp at h
  | err e0 =>
    intro pre e post h
    cases pre with
    | nil => simp at h; obtain ⟨h1, h2⟩ := h; subst h1; exact ⟨h2, rfl⟩
    | cons a p => simp at h
  | ok k _ ih =>
    intro pre e post h
    cases pre with
    | nil => simp at h
    | cons a p => simp at h; exact ih p e post h.2
  | pending _ ih =>
    intro pre e post h
    cases pre with
    | nil => simp at h
    | cons a p => simp at h; exact ih p e post h.2

theorem sendAll_spec (script : List Accept) : ∀ (buf : List Bytes),
    let o := sendAll ⟨none⟩ buf script
    o.acc ++ ubView o.buf = ubView buf ∧ ubView o.buf = (ubView buf).drop o.acc.length ∧
    (o.res = .done ↔ ubView o.buf = []) ∧ o.res ≠ .refused ∧
    ∃ c, script = c ++ o.rest ∧ SendAllTrace c o.res := by
  induction script with
  | nil =>
    intro buf
    unfold sendAll
    by_cases h0 : (ubView buf).length = 0
    · rw [if_pos h0]
      have : ubView buf = [] := List.eq_nil_of_length_eq_zero h0
      exact ⟨by simp, by simp, by simp [this], by simp, [], rfl, .done⟩
    · rw [if_neg h0]
      have : ubView buf ≠ [] := fun hv => h0 (by rw [hv]; rfl)
      exact ⟨by simp, by simp, by simp [this], by simp, [], rfl, .silent⟩
  | cons a r ih =>
    intro buf
    unfold sendAll
    by_cases h0 : (ubView buf).length = 0
    · rw [if_pos h0]
      have : ubView buf = [] := List.eq_nil_of_length_eq_zero h0
      exact ⟨by simp, by simp, by simp [this], by simp, [], rfl, .done⟩
    · rw [if_neg h0]
      have hne : ubView buf ≠ [] := fun hv => h0 (by rw [hv]; rfl)
      cases a with
      | pending =>
        simp only [pollSend]
        obtain ⟨i1, i2, i3, i4, c, i5, i6⟩ := ih buf
        exact ⟨i1, i2, i3, i4, .pending :: c, by simp [← i5], .pending i6⟩
      | err e =>
        simp only [pollSend]
        exact ⟨by simp, by simp, by simp [hne], by simp, [.err e], rfl, .err e⟩
      | ok k =>
        have hp := C17_poll_send ⟨none⟩ buf (.ok k)
        simp only [pollSend] at hp ⊢
        obtain ⟨p1, p2, _, _⟩ := hp
        obtain ⟨i1, i2, i3, i4, c, i5, i6⟩ := ih (ubAdvance buf (min k (ubChunk buf).length))
        refine ⟨?_, ?_, i3, i4, .ok k :: c, by simp [← i5], .ok k i6⟩
        · simp only [List.append_assoc]; rw [i1]; exact p1
        · simp only [List.length_append]
          rw [i2, p2, List.drop_drop]

/-- **C17, the unframed write loop.** `while buf.has_remaining() { ready!(poll_send(cx, buf))? }`
    on a stream without an unfinished framed write, for every caller buffer and every acceptance
    script (any pattern of `Pending`, partial acceptances and errors):
    1. the bytes Quinn accepted, followed by what the buffer still yields, are what it yielded at
       the start: accepted in order, each once, nothing skipped, and the buffer was advanced by
       exactly the number of accepted bytes;
    2. the loop is done ⇔ the buffer is empty ⇔ everything was accepted;
    3. the `poll_write` calls made are a prefix of the script in which an error answer is the last
       call and is the result (through `convert_write_error_to_stream_error`). -/
theorem C17_poll_send_loop (buf : List Bytes) (script : List Accept) :
    let o := sendAll ⟨none⟩ buf script
    (o.acc ++ ubView o.buf = ubView buf) ∧ (ubView o.buf = (ubView buf).drop o.acc.length) ∧
    (o.res = .done ↔ ubView o.buf = []) ∧ (o.res = .done ↔ o.acc = ubView buf) ∧
    (∃ c, script = c ++ o.rest ∧
      ∀ pre e post, c = pre ++ .err e :: post → post = [] ∧ o.res = .err (convertWrite e)) := by
  obtain ⟨h1, h2, h3, _, c, h5, h6⟩ := sendAll_spec script buf
  refine ⟨h1, h2, h3, ?_, c, h5, h6.err_last⟩
  rw [h3]
  constructor
  · intro hh; rw [hh] at h1; simpa using h1
  · intro hh; rw [hh] at h1; simpa using h1

/-- **C17, `poll_send` while a framed write is unfinished** is refused with the internal error, as a
    second `send_data` is: nothing is handed to Quinn, the caller's buffer is untouched, the pending
    framed buffer is untouched — the two writes are never interleaved, and nothing panics. -/
theorem C17_poll_send_refused (d : WriteBuf) (buf : List Bytes) (a : Accept) (script : List Accept) :
    pollSend ⟨some d⟩ buf a = ⟨buf, .refused, []⟩ ∧
    (ubView buf ≠ [] → script ≠ [] → (sendAll ⟨some d⟩ buf script).res = .refused ∧
      (sendAll ⟨some d⟩ buf script).acc = [] ∧ (sendAll ⟨some d⟩ buf script).buf = buf) := by
  refine ⟨rfl, ?_⟩
  intro hne hs
  cases script with
  | nil => exact absurd rfl hs
  | cons a r =>
    have h0 : ¬ (ubView buf).length = 0 := fun h => hne (List.eq_nil_of_length_eq_zero h)
    unfold sendAll
    rw [if_neg h0]
    simp [pollSend]

-- non-vacuity: a two-chunk buffer `aa bb | cc dd ee`; Quinn takes 1, then is offered only `bb`
-- (the chunk ends there) although it would take 5, says Pending, takes 2, errors are last
example : sendAll ⟨none⟩ [[0xaa, 0xbb], [0xcc, 0xdd, 0xee]] [.ok 1, .ok 5, .pending, .ok 2, .ok 9, .ok 1] =
    ⟨[], .done, [0xaa, 0xbb, 0xcc, 0xdd, 0xee], [.ok 1]⟩ := by decide
example : sendAll ⟨none⟩ [[0xaa, 0xbb], [0xcc, 0xdd, 0xee]] [.ok 3, .err (.stopped 9), .ok 1] =
    ⟨[[0xcc, 0xdd, 0xee]], .err (.terminated 9), [0xaa, 0xbb], [.ok 1]⟩ := by decide
example : pollSend ⟨none⟩ [[], [0xaa, 0xbb], [0xcc]] (.ok 1) = ⟨[[0xbb], [0xcc]], .ok 1, [0xaa]⟩ := by decide
/-- D-17b on the unrepaired `poll_send`: a framed write is pending (`send_data`, then `poll_ready`
    returned `Pending`) and the next unframed write panics; repaired, it is refused. -/
example : (pollSendUnrepaired (pollReady ⟨some (WriteBuf.new [0x00, 0x05] [1, 2, 3, 4, 5])⟩ [.ok 1, .pending]).state
    [[0xaa]] (.ok 1)).res = .panic := by decide
example : (pollSend (pollReady ⟨some (WriteBuf.new [0x00, 0x05] [1, 2, 3, 4, 5])⟩ [.ok 1, .pending]).state
    [[0xaa]] (.ok 1)) = ⟨[[0xaa]], .refused, []⟩ := by decide

/-! ## the unsplit `BidiStream` -/

theorem bidi_run_split (ops : List BidiOp) : ∀ b : Bidi,
    (b.run ops).1.sendId = b.sendId ∧ (b.run ops).1.send = sendHalfRun b.send ops ∧
    (b.run ops).1.recv = (b.recv.run (recvHalfOps ops)).1 := by
  induction ops with
  | nil => intro b; exact ⟨rfl, rfl, rfl⟩
  | cons op ops ih =>
    intro b
    cases op with
    | recv o =>
      obtain ⟨i1, i2, i3⟩ := ih (b.step (.recv o)).1
      simp only [Bidi.run, sendHalfRun, recvHalfOps, Recv.run]
      exact ⟨i1, i2, i3⟩
    | sendData d =>
      obtain ⟨i1, i2, i3⟩ := ih (b.step (.sendData d)).1
      simp only [Bidi.run, sendHalfRun, recvHalfOps]
      exact ⟨i1, i2, i3⟩
    | pollReady sc =>
      obtain ⟨i1, i2, i3⟩ := ih (b.step (.pollReady sc)).1
      simp only [Bidi.run, sendHalfRun, recvHalfOps]
      exact ⟨i1, i2, i3⟩
    | sendId =>
      obtain ⟨i1, i2, i3⟩ := ih (b.step .sendId).1
      simp only [Bidi.run, sendHalfRun, recvHalfOps]
      exact ⟨i1, i2, i3⟩

theorem bidi_run_ids (id : Nat) (ops : List BidiOp) : ∀ b : Bidi, b.sendId = id → RecvInv id b.recv →
    ∀ o ∈ (b.run ops).2, (∀ n, o = .id n → n = id) ∧ (∀ n, o = .recv (.id n) → n = id) := by
  induction ops with
  | nil => intro b _ _ o ho; simp [Bidi.run] at ho
  | cons op ops ih =>
    intro b hs hr o ho
    simp only [Bidi.run, List.mem_cons] at ho
    rcases ho with ho | ho
    · cases op with
      | recv rop =>
        simp only [Bidi.step] at ho
        subst ho
        refine ⟨fun n h => (by cases h), ?_⟩
        intro n hn
        simp only [BidiOut.recv.injEq] at hn
        have := run_ids id [rop] b.recv hr (b.recv.step rop).2 (by simp [Recv.run]) n hn
        exact this
      | sendData d => simp only [Bidi.step] at ho; subst ho; exact ⟨fun n h => (by cases h), fun n h => (by cases h)⟩
      | pollReady sc => simp only [Bidi.step] at ho; subst ho; exact ⟨fun n h => (by cases h), fun n h => (by cases h)⟩
      | sendId =>
        simp only [Bidi.step] at ho
        subst ho
        exact ⟨fun n h => (by cases h; exact hs), fun n h => (by cases h)⟩
    · have hs' : (b.step op).1.sendId = id := by cases op <;> simp [Bidi.step, hs]
      have hr' : RecvInv id (b.step op).1.recv := by
        cases op with
        | recv rop => simp only [Bidi.step]; exact step_inv id b.recv rop hr
        | sendData d => simpa [Bidi.step] using hr
        | pollReady sc => simpa [Bidi.step] using hr
        | sendId => simpa [Bidi.step] using hr
      exact ih _ hs' hr' o ho

/-- **C17, the unsplit `BidiStream` only delegates.** For a stream freshly opened or accepted with
    id `id` and any sequence of operations through the unsplit stream (`poll_data` with any read
    event, `stop_sending`, `recv_id`, `send_data`, `poll_ready` against any script, `send_id`):
    1. every `send_id` and every `recv_id` answer along the way is `id` (none panics);
    2. `split` afterwards yields exactly the halves that the same operations, applied to a send
       half and a receive half separately, would have produced — so after `split` both halves
       still answer `id`, a pending framed write stays pending, a remembered stop stays remembered. -/
theorem C17_bidi_delegation (id : Nat) (ops : List BidiOp) :
    let b := ((Bidi.new id).run ops).1
    (∀ o ∈ ((Bidi.new id).run ops).2, (∀ n, o = .id n → n = id) ∧ (∀ n, o = .recv (.id n) → n = id)) ∧
    b.split = ((id, sendHalfRun ⟨none⟩ ops), ((Recv.new id).run (recvHalfOps ops)).1) ∧
    b.split.1.1 = id ∧ recvId b.split.2 = .id id := by
  have h0 : RecvInv id (Recv.new id) := ⟨rfl, fun _ => rfl⟩
  obtain ⟨s1, s2, s3⟩ := bidi_run_split ops (Bidi.new id)
  refine ⟨bidi_run_ids id ops (Bidi.new id) rfl h0, ?_, s1, ?_⟩
  · simp only [Bidi.split, s1, s2, s3]; rfl
  · simp only [Bidi.split, s3, recvId_total]
    have := (run_inv id (recvHalfOps ops) (Bidi.new id).recv h0).1
    rw [this]

example : ((Bidi.new 4).run [.sendId, .recv (.pollData .pending), .recv .recvId, .sendData (WriteBuf.new [0, 1] [9]),
      .pollReady [.ok 1, .pending], .sendId, .recv (.stopSending 7), .recv .recvId]).2 =
    [.id 4, .recv .pending, .recv (.id 4), .send .ok, .ready .pending, .id 4, .recv .unit, .recv (.id 4)] := by decide
example : ((Bidi.new 4).run [.recv (.pollData .pending), .sendData (WriteBuf.new [0, 1] [9]), .pollReady [.ok 1, .pending],
      .recv (.stopSending 7)]).1.split =
    ((4, ⟨some ⟨[0, 1], 1, [9]⟩⟩), ⟨4, false, some 7, [], true⟩) := by decide

/-! ## opening, accepting, closing -/

theorem opener_run_handed (steps : List OpenStep) : ∀ o : Opener,
    handedOut (o.run steps).2 = created steps := by
  induction steps with
  | nil => intro o; rfl
  | cons st r ih =>
    intro o
    simp only [Opener.run, created]
    cases hb : st.bidi <;> cases hev : st.ev <;>
      simp [Opener.step, hb, hev, pollOpenBidi, pollOpenSend, handedOut, Bidi.new, Recv.new, ih]

/-- **C17, opening through the adapter neither duplicates nor drops a stream.** For every opener
    (`Connection`, `opener()`, a clone — all start the same) and every sequence of `poll_open_bidi` /
    `poll_open_send` calls against whatever Quinn's `open_bi()` / `open_uni()` futures do (not yet,
    a stream, the connection's error, in any pattern):
    1. the streams handed to the caller are exactly the streams Quinn created, in order, each once,
       under the id Quinn gave them — for a bidirectional one *both* halves carry that id;
    2. `Pending` hands out nothing and an error of the connection arrives as
       `StreamErrorIncoming::ConnectionErrorIncoming` with the class `convert_connection_error` gives
       (application close and its code, timeout, otherwise undefined);
    3. a clone shares nothing with its original but the connection (no future, no stream).
    (That Quinn's ids are fresh and that a stream exists only when its future completes is Quinn's:
    observed by the correspondence run, where the raw peer accepts every opened stream once.) -/
theorem C17_open_no_dup_no_drop (steps : List OpenStep) (o : Opener) :
    handedOut (o.run steps).2 = created steps ∧
    (∀ ev, (pollOpenBidi o ev).2 = .pending ↔ ev = .pending) ∧
    (∀ ev, (pollOpenSend o ev).2 = .pending ↔ ev = .pending) ∧
    (∀ e, (pollOpenBidi o (.err e)).2 = .err (.connection (convertConn e)) ∧
          (pollOpenSend o (.err e)).2 = .err (.connection (convertConn e)) ∧
          pollAcceptBidi (.err e) = .err (convertConn e) ∧ pollAcceptRecv (.err e) = .err (convertConn e)) ∧
    (∀ id, (pollOpenBidi o (.ok id)).2 = .bidi (Bidi.new id) ∧ (Bidi.new id).sendId = id ∧
          recvId (Bidi.new id).recv = .id id ∧ pollAcceptBidi (.ok id) = .bidi (Bidi.new id) ∧
          pollAcceptRecv (.ok id) = .recv (Recv.new id)) ∧
    o.clone = Opener.new := by
  refine ⟨opener_run_handed steps o, ?_, ?_, ?_, ?_, rfl⟩
  · intro ev; cases ev <;> simp [pollOpenBidi]
  · intro ev; cases ev <;> simp [pollOpenSend]
  · intro e; exact ⟨rfl, rfl, rfl, rfl⟩
  · intro id; exact ⟨rfl, rfl, rfl, rfl, rfl⟩

example : handedOut (Opener.new.run [⟨true, .pending⟩, ⟨true, .ok 0⟩, ⟨false, .ok 2⟩, ⟨true, .pending⟩,
      ⟨true, .err (.applicationClosed 0x10c)⟩, ⟨true, .ok 4⟩]).2 = [0, 2, 4] := by decide
example : (pollOpenBidi Opener.new (.err (.applicationClosed 0x10c))).2 =
    .err (.connection (.applicationClose 0x10c)) := rfl

/-- **C17, `close(code, reason)`.** Quinn's `close` is called with exactly `code` (every code a QUIC
    varint can carry) and exactly `reason`; a code beyond 2^62−1 is the documented `expect` panic. -/
theorem C17_close_code_exact (code : Nat) (reason : Bytes) :
    (code < 2^62 → closeArgs code reason = some (code, reason)) ∧
    (¬ code < 2^62 → closeArgs code reason = none) := by
  unfold closeArgs closeArg
  constructor
  · intro h; rw [if_pos h]
  · intro h; rw [if_neg h]

example : closeArgs 0x10c [104, 105] = some (0x10c, [104, 105]) := by decide

/-! ## the conversion tables, completely -/

/-- **C17, the conversion tables are total and lose nothing.** For *every* value of Quinn's three
    error types:
    * `convert_connection_error`: application close ⇒ `ApplicationClose{code}`, idle timeout ⇒
      `Timeout`, each of the six other conditions (version mismatch, transport error, connection
      closed by the peer's transport, stateless reset, locally closed, CIDs exhausted) ⇒ `Undefined`
      wrapping that very error; never `InternalError`;
    * `convert_read_error_to_stream_error`: reset ⇒ `StreamTerminated{code}`, lost connection ⇒
      the connection class above, closed stream / rejected 0-RTT ⇒ `Unknown` wrapping it, an
      illegal ordered read ⇒ the one panic;
    * `convert_write_error_to_stream_error`: stopped ⇒ `StreamTerminated{code}`, lost connection ⇒
      the connection class, closed stream / rejected 0-RTT ⇒ `Unknown`;
    and all three are injective: the h3 error determines Quinn's condition and the peer's code. -/
theorem C17_error_tables_total :
    (∀ e, convertConn e = (match e with
        | .applicationClosed c => .applicationClose c
        | .timedOut => .timeout
        | x => .undefined x)) ∧
    (∀ e, convertRead e = (match e with
        | .reset c => some (.terminated c)
        | .connectionLost x => some (.connection (convertConn x))
        | .closedStream => some (.unknown .closedStream)
        | .zeroRttRejected => some (.unknown .zeroRttRejected)
        | .illegalOrderedRead => none)) ∧
    (∀ e, convertWrite e = (match e with
        | .stopped c => .terminated c
        | .connectionLost x => .connection (convertConn x)
        | .closedStream => .unknown .closedStream
        | .zeroRttRejected => .unknown .zeroRttRejected)) ∧
    (∀ a b, convertConn a = convertConn b → a = b) ∧
    (∀ a b, convertRead a = convertRead b → a = b) ∧
    (∀ a b, convertWrite a = convertWrite b → a = b) := by
  have hc : ∀ a b, convertConn a = convertConn b → a = b := by
    intro a b h
    cases a <;> cases b <;> simp [convertConn] at h <;> first | rfl | (cases h; rfl) | (rw [h])
  refine ⟨?_, ?_, ?_, hc, ?_, ?_⟩
  · intro e; cases e <;> rfl
  · intro e; cases e <;> rfl
  · intro e; cases e <;> rfl
  · intro a b h
    cases a <;> cases b <;> simp [convertRead] at h <;> first | rfl | (rw [h]) | (rw [hc _ _ h])
  · intro a b h
    cases a <;> cases b <;> simp [convertWrite] at h <;> first | rfl | (rw [h]) | (rw [hc _ _ h])

example : convertConn .connectionClosed = .undefined .connectionClosed := rfl
example : convertConn .reset = .undefined .reset := rfl
example : convertRead .zeroRttRejected = some (.unknown .zeroRttRejected) := rfl

/-- **C17, datagram errors.** `send_datagram`: unsupported by the peer / disabled locally ⇔
    `NotAvailable`, too large ⇔ `TooLarge`, a lost connection ⇒ `ConnectionError` with the class
    and code `convert_connection_error` gives (`convert_h3_error_to_datagram_error` is the identity);
    `poll_incoming_datagram` uses `convert_connection_error` directly. -/
theorem C17_datagram_tables :
    (∀ e, convertH3ToDatagram e = e) ∧
    (∀ e, convertSendDatagram e = .notAvailable ↔ e = .unsupportedByPeer ∨ e = .disabled) ∧
    (∀ e, convertSendDatagram e = .tooLarge ↔ e = .tooLarge) ∧
    (∀ e x, convertSendDatagram e = .connection x ↔ ∃ q, e = .connectionLost q ∧ x = convertConn q) ∧
    (∀ e c, convertSendDatagram e = .connection (.applicationClose c) ↔ e = .connectionLost (.applicationClosed c)) ∧
    (∀ e, convertSendDatagram e = .connection .timeout ↔ e = .connectionLost .timedOut) := by
  have hid : ∀ e, convertH3ToDatagram e = e := by intro e; cases e <;> rfl
  refine ⟨hid, ?_, ?_, ?_, ?_, ?_⟩
  · intro e; cases e <;> simp [convertSendDatagram]
  · intro e; cases e <;> simp [convertSendDatagram]
  · intro e x
    cases e <;> simp [convertSendDatagram, hid]
    exact eq_comm
  · intro e c
    cases e with
    | connectionLost q => cases q <;> simp [convertSendDatagram, hid, convertConn]
    | _ => simp [convertSendDatagram]
  · intro e
    cases e with
    | connectionLost q => cases q <;> simp [convertSendDatagram, hid, convertConn]
    | _ => simp [convertSendDatagram]

example : convertSendDatagram (.connectionLost (.applicationClosed 0x33)) = .connection (.applicationClose 0x33) := rfl

/-- The remaining generated tables agree with the model: the two conversion functions of
    `datagram.rs`, the arms that wrap the error they matched, and — for every method of every `impl`
    block of `lib.rs` and `datagram.rs` — which conversion it applies, which error it builds itself,
    where it can panic and what it delegates to (so the model's reading "the accept paths use
    `convert_connection_error`, the open paths wrap it into a stream error, `poll_ready` and
    `poll_send` use the write table, `poll_data` the read table, the unsplit stream only
    delegates, `poll_send` and `send_data` refuse with the internal error and nothing but the listed
    `expect`s can panic" is re-checked against the source on every run). -/
theorem C17_sites_match_source :
    H3.Gen.QuinnTables.dgSendTable = dgSendTable ∧ H3.Gen.QuinnTables.dgConnTable = dgConnTable ∧
    ((∀ p ∈ H3.Gen.QuinnTables.wrapTable, p ∈ wrapTable) ∧ (∀ p ∈ wrapTable, p ∈ H3.Gen.QuinnTables.wrapTable)) ∧
    H3.Gen.QuinnTables.wrapTable.length = wrapTable.length ∧
    H3.Gen.QuinnTables.siteTable = siteTable := by
  decide

/-- `SendDatagramHandler::send_datagram` hands Quinn `buf.copy_to_bytes(buf.remaining())`: `remaining()` bytes read
    chunk after chunk (the default `copy_to_bytes` is `put(self.take(len))`). -/
def handedToQuinn (e : H3.Datagram.EncM) : Bytes := H3.Datagram.drainM (e.remaining + 1) e

/-- **What Quinn is handed is the whole datagram, however the caller's payload `Buf` is chunked.** For every request
    stream id below 2^62 divisible by four and every payload given as any list of non-empty chunks, the `Bytes` passed to
    `quinn::Connection::send_datagram` is `varint(sid/4) ‖ payload` (the model's `datagramWire`), and its length is the
    `remaining()` the adapter asked for - so Quinn's verdict `TooLarge` (length > `max_datagram_size()`, a parameter of
    the environment) is a verdict on the whole encoded datagram, never on a prefix of it. -/
theorem C17_datagram_handed_whole (sid : Nat) (hs : sid < 2^62) (h4 : sid % 4 = 0)
    (cs : List Bytes) (hne : ∀ c ∈ cs, c ≠ []) :
    handedToQuinn (H3.Datagram.encodeM sid cs) = datagramWire (H3.Varint.encode (sid / 4)) cs.flatten ∧
    (handedToQuinn (H3.Datagram.encodeM sid cs)).length = (H3.Datagram.encodeM sid cs).remaining := by
  obtain ⟨_, _, hr, _, hd, _⟩ := H3.Props.C18.C18_payload_chunking_independent sid hs h4 cs hne
  refine ⟨by simpa [handedToQuinn, datagramWire] using hd, ?_⟩
  rw [handedToQuinn, hd, hr]

example : handedToQuinn (H3.Datagram.encodeM 8 [[1, 2], [3]]) = [2, 1, 2, 3] := by decide

end H3.Props.C17
