import H3.Lemmas.ReqRecv
/-! # C03 — request streams accept exactly the RFC 9114 §4.1 frame sequences

Model: `H3.ReqRecv` (the request layer of `connection.rs`, `server/request.rs`,
`client/stream.rs` written once against the frame-layer interface `Src`).
Specification: `H3.Spec.ReqSeq` (the recogniser of `U* H (U|D)* (H U*)?`).

The theorems quantify over EVERY frame sequence (`List Tok`, any length; a DATA frame comes with
the pieces in which the frame layer hands out its payload, so every way of cutting a payload is
covered), every ending (`fin`, `truncated` = FIN inside a frame, `reset c`, `open_`) and the
documented call pattern (`documented`: head; `recv_data` until it answers something else than
data; `recv_trailers` if that was `None`).  For `reset` the sequence is the part of the stream
the frame layer delivers before it notices the reset (any prefix: the quantifier covers them
all).  `HdrOk`: the HEADERS blocks decode to well-formed messages (C11/C12 decide that).
`TokWF`: pieces are non-empty and do not exceed the declared length. -/
namespace H3.Props.C03
open H3.ReqRecv H3.Frame H3.Gen.Consts
open H3.Spec.ReqSeq hiding Bytes

/-- the number of frame-layer answers bounds every loop of the run -/
def answers (toks : List Tok) (e : Ending) : Nat := (compile toks e).1.length

/-- Server receive side: for every frame sequence, every ending and the documented call pattern
    the observable outcome of the model (results of the calls with the body bytes concatenated,
    the connection error cell, the RESET_STREAM sent) is one the RFC 9114 §4.1 recogniser accepts:
    body = DATA payloads in order, each byte once (a prefix when the stream is reset / still
    open); end of body only at trailers or FIN; trailers iff present; everything outside the
    language = connection error H3_FRAME_UNEXPECTED; FIN before HEADERS = stream refused. -/
theorem C03_server_recv_spec (H : Hdr) (toks : List Tok) (e : Ending) (fuel : Nat)
    (hwf : ∀ tok ∈ toks, TokWF tok ∧ HdrOk H tok) (hfuel : answers toks e + 2 ≤ fuel) :
    (spec .server (toks.map kind) (stopOf e)).accepts
      (observe (documentedFrames .server H fuel toks e)) :=
  recv_spec .server H e toks fuel hwf hfuel

/-- Client receive side: the same for `recv_response`. (FIN before HEADERS and PUSH_PROMISE are
    left open by the property: the recogniser accepts anything there, R-03.) -/
theorem C03_client_recv_spec (H : Hdr) (toks : List Tok) (e : Ending) (fuel : Nat)
    (hwf : ∀ tok ∈ toks, TokWF tok ∧ HdrOk H tok) (hfuel : answers toks e + 2 ≤ fuel) :
    (spec .client (toks.map kind) (stopOf e)).accepts
      (observe (documentedFrames .client H fuel toks e)) :=
  recv_spec .client H e toks fuel hwf hfuel

/-! non-vacuity: a message with grease, an empty DATA frame in the middle, a payload handed out in
    two pieces and trailers; the D-03 witness `HEADERS DATA(0) DATA(5)`; sequences outside the
    language; the endings -/
def allOk : Hdr := ⟨fun _ => .ok, fun _ => .ok⟩
def toks₁ : List Tok :=
  [.unknown 0x21 [], .headers [1, 2], .data 0 [], .data 3 [[10], [11, 12]], .unknown 0x40 [9],
   .headers [7], .unknown 0x21 []]

example : observe (documentedFrames .server allOk 20 toks₁ .fin) =
    { calls := [.head [1, 2], .body [10, 11, 12], .bodyEnd, .trailers [7]] } := by decide
example : (spec .server (toks₁.map kind) .fin).accepts (observe (documentedFrames .server allOk 20 toks₁ .fin)) := by
  decide
example : observe (documentedFrames .server allOk 20 [.headers [1], .data 0 [], .data 5 [[1, 2, 3, 4, 5]]] .fin) =
    { calls := [.head [1], .body [1, 2, 3, 4, 5], .bodyEnd, .noTrailers] } := by decide
example : observe (documentedFrames .client allOk 20 [.headers [1], .data 2 [[8, 9]], .headers [3], .data 0 []] .open_) =
    { calls := [.head [1], .body [8, 9], .bodyEnd, .connError 261], connError := some 261 } := by decide
example : observe (documentedFrames .client allOk 20 [.headers [1], .data 4 [[8, 9]]] (.reset 7)) =
    { calls := [.head [1], .body [8, 9], .resetBy 7] } := by decide
example : observe (documentedFrames .server allOk 20 [.headers [1], .data 4 [[8, 9]]] .truncated) =
    { calls := [.head [1], .body [8, 9], .connError 262], connError := some 262 } := by decide
example : observe (documentedFrames .server allOk 20 [.headers [1], .headers [2]] .open_) =
    { calls := [.head [1], .body [], .bodyEnd, .pending] } := by decide
example : spec .client [.U] .fin = .any := by decide

/-! ### the clauses of the property, spelled out -/

def isU : Tok → Bool
  | .unknown _ _ => true
  | _ => false

/-- unknown frame or complete DATA frame -/
def isUD : Tok → Bool
  | .unknown _ _ => true
  | .data n ps => ps.flatten.length == n
  | _ => false

/-- the DATA payloads of a sequence, concatenated in order -/
def payloads : List Tok → Bytes
  | [] => []
  | .data _ ps :: r => ps.flatten ++ payloads r
  | _ :: r => payloads r

private theorem expected_skip_unknown (side : Side) (p : Phase) (ks : List K) (stop : Stop) :
    ∀ pre : List Tok, (∀ t ∈ pre, isU t = true) →
      expected side p (pre.map kind ++ ks) stop = expected side p ks stop := by
  intro pre
  induction pre with
  | nil => intro _; rfl
  | cons t r ih =>
    intro h
    have ht := h t (by simp)
    cases t <;> simp [isU] at ht
    simp only [List.map_cons, List.cons_append, kind]
    cases p <;> simp only [expected] <;> exact ih (fun x hx => h x (by simp [hx]))

private theorem expected_body (side : Side) (h : Bytes) (ks : List K) (stop : Stop) :
    ∀ (mid : List Tok) (acc : Bytes), (∀ t ∈ mid, isUD t = true) →
      expected side (.body h acc) (mid.map kind ++ ks) stop =
        expected side (.body h (acc ++ payloads mid)) ks stop := by
  intro mid
  induction mid with
  | nil => intro acc _; simp [payloads]
  | cons t r ih =>
    intro acc hm
    have ht := hm t (by simp)
    have hr : ∀ x ∈ r, isUD x = true := fun x hx => hm x (by simp [hx])
    cases t with
    | unknown ty p =>
      simp only [List.map_cons, List.cons_append, kind, expected, payloads]
      exact ih acc hr
    | data n ps =>
      have hn : ¬ ps.flatten.length < n := by
        simp only [isUD, beq_iff_eq] at ht
        omega
      rw [List.map_cons, List.cons_append, kind_data_full hn]
      simp only [expected, payloads]
      rw [ih (acc ++ ps.flatten) hr, List.append_assoc]
    | _ => simp [isUD] at ht

/-- A message of the language — unknown frames, HEADERS, then DATA frames of any length
    (zero included) and unknown frames, then optionally HEADERS followed by unknown frames — ended
    by FIN is delivered whole, in either role: the head; as body exactly the concatenation of the
    DATA payloads (every byte once, in order — a zero-length DATA frame in the middle does not end
    it); end of body; the trailers iff present; no connection error, no reset. -/
theorem C03_valid_message_delivered (role : Role) (H : Hdr) (pre mid post : List Tok) (h : Bytes)
    (tr : Option Bytes) (fuel : Nat)
    (hpre : ∀ t ∈ pre, isU t = true) (hmid : ∀ t ∈ mid, isUD t = true) (hpost : ∀ t ∈ post, isU t = true)
    (toks : List Tok)
    (htoks : toks = pre ++ .headers h :: (mid ++ (match tr with | none => [] | some t => .headers t :: post)))
    (hwf : ∀ tok ∈ toks, TokWF tok ∧ HdrOk H tok) (hfuel : answers toks .fin + 2 ≤ fuel) :
    observe (documentedFrames role H fuel toks .fin) =
      { calls := [.head h, .body (payloads mid), .bodyEnd,
                  (match tr with | none => .noTrailers | some t => .trailers t)]
        connError := none, streamReset := none } := by
  have hacc := recv_spec role H .fin toks fuel hwf hfuel
  subst htoks
  rw [List.map_append, expected_skip_unknown _ _ _ _ pre hpre, List.map_cons] at hacc
  simp only [kind, expected, List.map_append] at hacc
  rw [expected_body _ _ _ _ mid [] hmid] at hacc
  cases tr with
  | none =>
    simp only [List.map_nil, expected, atStop, stopOf, Expect.accepts, List.mem_singleton,
      List.nil_append] at hacc
    exact hacc
  | some t =>
    simp only [List.map_cons, kind, expected] at hacc
    have := expected_skip_unknown (sideOf role) (.trailers h ([] ++ payloads mid) t) [] (stopOf .fin) post hpost
    rw [List.append_nil] at this
    rw [this] at hacc
    simp only [expected, atStop, stopOf, Expect.accepts, List.mem_singleton, List.nil_append] at hacc
    exact hacc

example : observe (documentedFrames .client allOk 30 toks₁ .fin) =
    { calls := [.head [1, 2], .body (payloads [.data 0 [], .data 3 [[10], [11, 12]], .unknown 0x40 [9]]),
                .bodyEnd, .trailers [7]] } := by decide

/-- the recogniser meets a frame that can only be answered with H3_FRAME_UNEXPECTED -/
def violates (side : Side) : Phase → List K → Bool
  | _, [] => false
  | p, .U :: r => violates side p r
  | _, .R :: _ => true
  | _, .X :: _ => true
  | _, .M :: _ => false
  | _, .S :: _ => false
  | _, .P :: _ => side == .server
  | .start, .H b :: r => violates side (.body b []) r
  | .start, .D _ :: _ => true
  | .start, .Dpart _ :: _ => true
  | .body h acc, .D p :: r => violates side (.body h (acc ++ p)) r
  | .body _ _, .Dpart _ :: _ => false
  | .body h acc, .H t :: r => violates side (.trailers h acc t) r
  | .trailers _ _ _, .D _ :: _ => true
  | .trailers _ _ _, .Dpart _ :: _ => true
  | .trailers _ _ _, .H _ :: _ => true

private theorem violates_expected (side : Side) (stop : Stop) :
    ∀ (ks : List K) (p : Phase), violates side p ks = true →
      ∀ o, (expected side p ks stop).accepts o →
        o.connError = some H3_FRAME_UNEXPECTED ∧ o.streamReset = none ∧
        o.calls.getLast? = some (.connError H3_FRAME_UNEXPECTED) := by
  intro ks
  induction ks with
  | nil => intro p h; simp [violates] at h
  | cons k r ih =>
    intro p h o ho
    cases k <;> cases p <;> cases side <;>
      simp only [violates, expected, Bool.false_eq_true, beq_self_eq_true, reduceCtorEq, beq_iff_eq] at h ho <;>
      first
        | exact ih _ h o ho
        | (simp only [violation, Expect.accepts, List.map_cons, List.map_nil, List.mem_singleton] at ho
           subst ho
           simp [Phase.seen])

/-- A sequence outside the language — a known frame other than HEADERS first, DATA or HEADERS
    after the trailers, CANCEL_PUSH / SETTINGS / GOAWAY / MAX_PUSH_ID, PUSH_PROMISE sent to a
    server, an HTTP/2-reserved type — is a connection error H3_FRAME_UNEXPECTED: the call that
    meets the frame fails with it, it is what the error cell holds, the stream is not reset —
    whatever follows the offending frame and however the stream ends. -/
theorem C03_invalid_sequence_frame_unexpected (role : Role) (H : Hdr) (toks : List Tok) (e : Ending)
    (fuel : Nat) (hwf : ∀ tok ∈ toks, TokWF tok ∧ HdrOk H tok) (hfuel : answers toks e + 2 ≤ fuel)
    (hbad : violates (sideOf role) .start (toks.map kind) = true) :
    let o := observe (documentedFrames role H fuel toks e)
    o.connError = some CODE_H3_FRAME_UNEXPECTED ∧ o.streamReset = none ∧
    o.calls.getLast? = some (.connError CODE_H3_FRAME_UNEXPECTED) :=
  violates_expected (sideOf role) (stopOf e) _ _ hbad _ (recv_spec role H e toks fuel hwf hfuel)

example : violates .server .start ([Tok.headers [1], .data 1 [[5]], .goaway 0, .headers [2]].map kind) = true := by decide
example : violates .server .start ([Tok.headers [1], .pushPromise 0 []].map kind) = true := by decide
example : violates .client .start ([Tok.data 0 [], .headers [1]].map kind) = true := by decide
example : violates .client .start ([Tok.headers [1], .headers [2], .unknown 0x21 [], .data 0 []].map kind) = true := by
  decide
example : violates .server .start ([Tok.unknown 0x21 [], .bad (.unsupported 6)].map kind) = true := by decide
example : violates .server .start (toks₁.map kind) = false := by decide
example : (observe (documentedFrames .server allOk 20 [.headers [1], .data 1 [[5]], .goaway 0, .headers [2]] .fin)).connError
    = some 261 := by decide

/-- A request the client finishes before sending any HEADERS (only unknown frames, if anything,
    then FIN): the server refuses it as incomplete — `resolve_request` fails with a stream-level
    error H3_REQUEST_INCOMPLETE, the stream is reset with that code, and the connection error
    cell is untouched (no connection error). -/
theorem C03_fin_before_headers (H : Hdr) (toks : List Tok) (fuel : Nat)
    (hU : ∀ t ∈ toks, isU t = true) :
    documentedFrames .server H fuel toks .fin =
      { head := .errStream CODE_H3_REQUEST_INCOMPLETE
        env := { cell := none, rst := some CODE_H3_REQUEST_INCOMPLETE, stop := none } } := by
  have hc : compile toks .fin = ([], .fin) := by
    induction toks with
    | nil => rfl
    | cons t r ih =>
      have ht := hU t (by simp)
      cases t <;> simp [isU] at ht
      simpa [compile] using ih (fun x hx => hU x (by simp [hx]))
  simp [documentedFrames, TS.ofToks, hc, documented, pollHead, pollResolve, tokSrc, Term.next, first]

example : documentedFrames .server allOk 5 [.unknown 0x21 [1, 2], .unknown 0x40 []] .fin =
    { head := .errStream 269, env := { cell := none, rst := some 269, stop := none } } := by decide
-- ... whereas with the stream still open the call waits, and a frame error is a connection error
example : (documentedFrames .server allOk 5 [.unknown 0x21 []] .open_).head = .pending := by decide
example : (documentedFrames .server allOk 5 [.unknown 0x21 []] .truncated).env.cell = some 262 := by decide

private theorem connErr_ne_pending {σ : Type} (st : St σ) (c : Nat) : (connErr st c).1 ≠ .pending := by
  unfold connErr; split <;> simp

private theorem fsErr_ne_pending {σ : Type} (st : St σ) (o : FOut) : (fsErr st o).1 ≠ .pending := by
  cases o <;> simp [fsErr, connErr_ne_pending]

private theorem decodeTrailers_ne_pending {σ : Type} (H : Hdr) (st : St σ) (enc : Bytes) :
    (decodeTrailers H st enc).1 ≠ .pending := by
  unfold decodeTrailers; split <;> simp [connErr_ne_pending]

/-- The `Pending ⇒ save the trailers and try again` branch of `poll_recv_trailers`: when the look
    at the frame after the trailers has to wait, the trailers are remembered, and the next poll
    resumes exactly at that look (nothing is read twice, nothing is lost) — for any frame layer. -/
theorem C03_trailers_retry {σ : Type} (S : Src σ) (H : Hdr) (st : St σ) (enc : Bytes)
    (hp : (trailersCheck S H st enc).1 = .pending) :
    (trailersCheck S H st enc).2.trailers = some enc ∧
    pollRecvTrailers S H (trailersCheck S H st enc).2 =
      trailersTail S H { (trailersCheck S H st enc).2 with trailers := none } enc := by
  have ht : (trailersCheck S H st enc).2.trailers = some enc := by
    unfold trailersCheck at hp ⊢
    generalize S.pollNext st.src = p at hp ⊢
    obtain ⟨o, s'⟩ := p
    cases o with
    | pending => rfl
    | frame f => exact absurd hp (connErr_ne_pending _ _)
    | none => exact absurd hp (decodeTrailers_ne_pending _ _ _)
    | data d => simp at hp
    | errProto e => exact absurd hp (fsErr_ne_pending _ _)
    | errEnd => exact absurd hp (fsErr_ne_pending _ _)
    | errQuic c => exact absurd hp (fsErr_ne_pending _ _)
    | panic => exact absurd hp (fsErr_ne_pending _ _)
  refine ⟨ht, ?_⟩
  rw [pollRecvTrailers, ht]

example : (trailersCheck tokSrc allOk { src := { items := [], term := .open_ } } [7]).1 = .pending := by decide
example : (pollRecvTrailers tokSrc allOk
    { (trailersCheck tokSrc allOk { src := { items := [], term := .open_ } } [7]).2 with
        src := { items := [], term := .fin } }).1 = .trailers [7] := by decide

/-- Composition with the frame layer. Whatever frame layer `S` (in particular `fsSrc`, the
    `FrameStream` model over any transport script — every chunking, `Pending` anywhere) answers
    like the token source on `toks`/`e` — hypothesis `FrameSim`, the facts C02 provides: the frames
    and their payload bytes are a function of the bytes on the wire only, `is_eos` is sound —
    gives the documented call pattern the very same trace, hence an outcome the recogniser
    accepts. -/
theorem C03_lifted_to_chunks {σ : Type} (S : Src σ) (R : σ → TS → Prop) (sim : FrameSim S tokSrc R)
    (role : Role) (H : Hdr) (c : σ) (toks : List Tok) (e : Ending) (fuel : Nat)
    (hR : R c (TS.ofToks toks e))
    (hwf : ∀ tok ∈ toks, TokWF tok ∧ HdrOk H tok) (hfuel : answers toks e + 2 ≤ fuel) :
    documented role S H fuel { src := c } = documentedFrames role H fuel toks e ∧
    (spec (sideOf role) (toks.map kind) (stopOf e)).accepts
      (observe (documented role S H fuel { src := c })) := by
  have h : documented role S H fuel { src := c } = documentedFrames role H fuel toks e :=
    same_documented sim tokSrc_hdrNoData role H fuel (x := { src := c }) (y := { src := TS.ofToks toks e })
      ⟨hR, rfl, rfl⟩ rfl
  refine ⟨h, ?_⟩
  rw [h]
  exact recv_spec role H e toks fuel hwf hfuel

/-! non-vacuity of the hypothesis: for a concrete transport script (three chunks cutting frame
    headers and a payload, then FIN) the relation "reachable together" between the `FrameStream`
    model and the token source IS a `FrameSim` (checked by kernel evaluation), so the theorem
    applies to the real frame-layer model; and directly: both layers composed give the trace of
    the frame-level model. -/
deriving instance DecidableEq for H3.FS.Out

def script₁ : List H3.FS.Ev :=
  [.chunk [0x01, 0x02, 0xaa, 0xbb, 0x00, 0x00, 0x00], .chunk [0x02, 0xc1], .chunk [0xc2, 0x21, 0x00], .fin]
def toksS : List Tok := [.headers [0xaa, 0xbb], .data 0 [], .data 2 [[0xc1], [0xc2]], .unknown 0x21 []]

/-- pairs of states reached from a pair by one call on both sides -/
def succs (p : FSt × TS) : List (FSt × TS) :=
  [((fsSrc.pollNext p.1).2, (tokSrc.pollNext p.2).2), ((fsSrc.pollData p.1).2, (tokSrc.pollData p.2).2)] ++
  (if fsSrc.isEos p.1 && !tokSrc.hasData p.2 then [(p.1, (tokSrc.pollNext p.2).2)] else [])

def addNew (acc : List (FSt × TS)) : List (FSt × TS) → List (FSt × TS)
  | [] => acc
  | p :: r => if acc.contains p then addNew acc r else addNew (acc ++ [p]) r

def close : Nat → List (FSt × TS) → List (FSt × TS)
  | 0, l => l
  | n+1, l => close n (addNew l (l.flatMap succs))

def pairsOf (script : List H3.FS.Ev) (toks : List Tok) (e : Ending) : List (FSt × TS) :=
  close 8 [(({}, script), TS.ofToks toks e)]

def RpOf (script : List H3.FS.Ev) (toks : List Tok) (e : Ending) (c : FSt) (a : TS) : Prop :=
  (c, a) ∈ pairsOf script toks e
instance (script : List H3.FS.Ev) (toks : List Tok) (e : Ending) (c : FSt) (a : TS) :
    Decidable (RpOf script toks e c a) := by unfold RpOf; exact inferInstance

/-- the obligations of `FrameSim` for a finite relation, each one decidable -/
def chkHasData (ps : List (FSt × TS)) : Prop := ∀ p ∈ ps, fsSrc.hasData p.1 = tokSrc.hasData p.2
def chkNext (ps : List (FSt × TS)) : Prop :=
  ∀ p ∈ ps, (fsSrc.pollNext p.1).1 = (tokSrc.pollNext p.2).1 ∧
    ((fsSrc.pollNext p.1).2, (tokSrc.pollNext p.2).2) ∈ ps
def chkData (ps : List (FSt × TS)) : Prop :=
  ∀ p ∈ ps, (fsSrc.pollData p.1).1 = (tokSrc.pollData p.2).1 ∧
    ((fsSrc.pollData p.1).2, (tokSrc.pollData p.2).2) ∈ ps
def chkEos (ps : List (FSt × TS)) : Prop :=
  ∀ p ∈ ps, fsSrc.isEos p.1 = true → tokSrc.hasData p.2 = false →
    (tokSrc.pollNext p.2).1 = .none ∧ (p.1, (tokSrc.pollNext p.2).2) ∈ ps
instance (ps : List (FSt × TS)) : Decidable (chkHasData ps) := by unfold chkHasData; exact inferInstance
instance (ps : List (FSt × TS)) : Decidable (chkNext ps) := by unfold chkNext; exact inferInstance
instance (ps : List (FSt × TS)) : Decidable (chkData ps) := by unfold chkData; exact inferInstance
instance (ps : List (FSt × TS)) : Decidable (chkEos ps) := by unfold chkEos; exact inferInstance

def simChecks (ps : List (FSt × TS)) : Prop := chkHasData ps ∧ chkNext ps ∧ chkData ps ∧ chkEos ps
instance (ps : List (FSt × TS)) : Decidable (simChecks ps) := by unfold simChecks; exact inferInstance

theorem sim_of_checks (script : List H3.FS.Ev) (toks : List Tok) (e : Ending)
    (h : simChecks (pairsOf script toks e)) : FrameSim fsSrc tokSrc (RpOf script toks e) where
  hasData := fun c a hR => h.1 (c, a) hR
  next := fun c a hR => h.2.1 (c, a) hR
  data := fun c a hR => h.2.2.1 (c, a) hR
  eosL := fun c a hR h1 _ h3 => h.2.2.2 (c, a) hR h1 h3
  eosR := by
    intro c a _ _ h
    simp at h

theorem simS : FrameSim fsSrc tokSrc (RpOf script₁ toksS .fin) :=
  sim_of_checks _ _ _ (by decide +kernel)

example : (spec .server (toksS.map kind) .fin).accepts
    (observe (documented .server fsSrc allOk 20 { src := ({}, script₁) })) :=
  (C03_lifted_to_chunks fsSrc _ simS .server allOk ({}, script₁) toksS .fin 20 (by decide +kernel)
    (by simp [toksS, TokWF, HdrOk, allOk]) (by decide)).2

/-- a DATA frame cut short by FIN (FIN read with the frame header): the frame layer hands out
    nothing of the payload, then `UnexpectedEnd`; `is_eos` is true there with data outstanding -/
def script₂ : List H3.FS.Ev := [.chunk [0x01, 0x01, 0xaa, 0x00, 0x03, 0xb1, 0xb2], .fin]
def toksT : List Tok := [.headers [0xaa], .data 3 []]

theorem simT : FrameSim fsSrc tokSrc (RpOf script₂ toksT .truncated) :=
  sim_of_checks _ _ _ (by decide +kernel)

example : observe (documented .server fsSrc allOk 20 { src := ({}, script₂) }) =
    { calls := [.head [0xaa], .body [], .connError 262], connError := some 262 } := by
  rw [(C03_lifted_to_chunks fsSrc _ simT .server allOk ({}, script₂) toksT .truncated 20 (by decide +kernel)
    (by simp [toksT, TokWF, HdrOk, allOk]) (by decide)).1]
  decide

example : documentedChunks .server allOk script₁ = documentedFrames .server allOk 20 toksS .fin := by
  decide +kernel
-- the same bytes cut per byte, FIN in a later poll; RESET noticed with the DATA header still buffered
example : documentedChunks .client allOk
    [.chunk [0x01], .chunk [0x02], .chunk [0xaa], .chunk [0xbb], .chunk [0x00], .chunk [0x02], .chunk [0xc1],
     .chunk [0xc2], .fin] = documentedFrames .client allOk 20 [.headers [0xaa, 0xbb], .data 2 [[0xc1], [0xc2]]] .fin := by
  decide +kernel
example : documentedChunks .server allOk [.chunk [0x01, 0x02, 0xaa, 0xbb, 0x00, 0x02, 0xc1], .reset 9] =
    documentedFrames .server allOk 20 [.headers [0xaa, 0xbb]] (.reset 9) := by
  decide +kernel

end H3.Props.C03
